"""C16 — Writes are all-or-nothing at every interruption point.

  translate (Gen/WriteOps: the file-operation program of each write path)
  -> lean build + audit (Props/C16: generic theorems over AtomicDiscipline + `decide` facts about the generated programs)
  -> correspondence: every kill point / injected fault of every scenario is executed on the real code in a forked
     child under interposition (tools/harness/fs_interpose.py) and on the Lean model (driver `run`): the observed
     call sequence must be the model's trace (this validates the translator), the outcome the model's outcome
  -> oracle on the real outcome, independent of the model: all-or-nothing; error => byte-identical + no temp file
     (unless the clean-up call itself was made to fail); success => sha256(file) = canonical_hash + mode kept.
"""
from __future__ import annotations

import itertools
import json
import os
import sys

import vlib

sys.path.insert(0, str(vlib.VERIF / "tools" / "harness"))
import fs_common as C  # noqa: E402
import fs_interpose as F  # noqa: E402

PROJECT = "fs"
PROPS = ["Octave.Props.C16"]
W, FO, CLI = "octave_mcp/mcp/write.py", "octave_mcp/core/file_ops.py", "octave_mcp/cli/main.py"
ANCHORS = [(W, "WriteTool.execute"), (W, "WriteTool._validate_path"), (W, "WriteTool._compute_hash"), (W, "WriteTool._error_envelope"),
           (FO, "atomic_write_octave"), (FO, "validate_octave_path"), (FO, "compute_hash"), (CLI, "write")]
ERRNOS = ["ENOSPC", "EACCES", "EIO", "EINTR", "EROFS"]

# ------------------------------------------------------------------------------------------------------
# Scenarios
# ------------------------------------------------------------------------------------------------------


def scenarios(rng, thorough: bool):
    """Scenario = {id, entry, state, op}.  Values and file modes vary with the seed; the shape does not."""
    a, b = rng.randrange(1, 500), rng.randrange(500, 999)
    # modes with every bit group set somewhere (a dropped group / dropped x bits must show): see notes/C16.md
    mode1 = rng.choice([0o755, 0o751, 0o715, 0o775])
    mode2 = rng.choice([0o644, 0o664, 0o646, 0o666])
    old = C.DOC.format(a=a, b="old text")
    new = C.DOC.format(a=b, b="new text →⊕ ünï")
    big = C.DOC.format(a=b, b="x" * 20000)          # larger than the io buffer: write() itself reaches the file
    noncanon = f"===DOC===\nMETA:\n  TYPE::X\nA::{a}\nB->C\n===END===\n"   # ASCII alias: normalisation changes it
    broken = "A::[1,2\n"
    stale = C.DOC.format(a=a + 1, b="somebody else's version")
    S_absent = {"content": None}
    S_old = {"content": old, "mode": mode1}
    S_ro = {"content": old, "mode": 0o444}
    S_nc = {"content": noncanon, "mode": mode2}
    S_missing = {"content": None, "missing_parent": True}
    S_broken = {"content": broken, "mode": 0o644}
    S_dir = {"content": None, "target_is_dir": True}
    out = []

    def add(i, entry, state, **op):
        out.append({"id": i, "entry": entry, "state": state, "op": {"mode": "content", "base": None, "dry": False, **op}})
    # WriteTool.execute
    add("T01-new", "tool", S_absent, content=new)
    add("T02-overwrite", "tool", S_old, content=new)
    add("T03-overwrite-cas", "tool", S_old, content=new, base="current")
    add("T04-stale", "tool", S_old, content=new, base="stale", stale=stale)
    add("T05-changes", "tool", S_old, mode="changes", changes={"A": b})
    add("T06-changes-cas", "tool", S_old, mode="changes", changes={"A": b}, base="current")
    add("T07-normalize", "tool", S_nc, mode="normalize")
    add("T08-normalize-cas", "tool", S_nc, mode="normalize", base="current")
    add("T09-missing-parent", "tool", S_missing, content=new)
    add("T10-readonly-cas", "tool", S_ro, content=new, base="current")
    add("T11-new-with-base", "tool", S_absent, content=new, base="stale", stale=stale)
    add("T12-dry", "tool", S_old, content=new, dry=True)
    add("T13-invalid", "tool", S_old, content=broken)
    add("T14-changes-broken-file", "tool", S_broken, mode="changes", changes={"A": 1})
    add("T15-big", "tool", S_old, content=big, base="current")
    add("T19-target-is-directory", "tool", S_dir, content=new)
    add("T18-noncanonical-content", "tool", S_old, content=noncanon.replace(f"A::{a}", f"A::{b}"), base="current")
    # an existing file whose TEXT is already canonical but whose BYTES are not (CRLF line ends): "nothing to do" must not be decided on the text
    S_crlf = {"content": old.replace("\n", "\r\n"), "mode": mode2}
    add("T20-normalize-crlf-file", "tool", S_crlf, mode="normalize")
    add("T21-same-text-over-crlf-file", "tool", S_crlf, content=old)
    # atomic_write_octave (writes the text it is given)
    add("A01-new", "atomic", S_absent, content=new)
    add("A02-overwrite", "atomic", S_old, content=new)
    add("A03-overwrite-cas", "atomic", S_old, content=new, base="current")
    add("A04-stale", "atomic", S_old, content=new, base="stale", stale=stale)
    add("A05-missing-parent", "atomic", S_missing, content=new)
    add("A06-readonly-cas", "atomic", S_ro, content=new, base="current")
    add("A08-target-is-directory", "atomic", S_dir, content=new)
    # `octave write`
    add("C01-new", "cli", S_absent, content=new)
    add("C02-overwrite-cas", "cli", S_old, content=new, base="current")
    add("C03-changes", "cli", S_old, mode="changes", changes={"A": b})
    add("C04-changes-cas", "cli", S_old, mode="changes", changes={"A": b}, base="current")
    add("C05-stale", "cli", S_old, content=new, base="stale", stale=stale)
    add("C06-missing-parent", "cli", S_missing, content=new)
    add("C07-invalid", "cli", S_old, content=broken)
    add("C09-noncanonical-content", "cli", {"content": old, "mode": mode2}, content=noncanon.replace(f"A::{a}", f"A::{b}"))
    if thorough:
        add("T16-normalize-readonly", "tool", {"content": noncanon, "mode": 0o444}, mode="normalize")
        add("T17-changes-missing-file", "tool", S_absent, mode="changes", changes={"A": 1})
        add("A07-big", "atomic", S_old, content=big)
        add("C08-readonly", "cli", S_ro, content=new)
    return out


def as_read(text):
    """the text of a file as the tools read it (text mode, universal newlines): what base_hash and the pipeline are about."""
    return None if text is None else text.replace("\r\n", "\n").replace("\r", "\n")


def real_args(sc, sb: C.Sandbox):
    op = sc["op"]
    args = {"target_path": sb.target}
    if op["mode"] == "content":
        args["content"] = op["content"]
    elif op["mode"] == "changes":
        args["changes"] = op["changes"]
    if op.get("base") == "current":
        args["base_hash"] = C.sha(as_read(sc["state"]["content"]) or "")
    elif op.get("base") == "stale":
        args["base_hash"] = C.sha(op["stale"])
    if op.get("dry"):
        args["corrections_only"] = True
    return args


def base_text(sc):
    op = sc["op"]
    if op.get("base") == "current":
        return as_read(sc["state"]["content"]) or ""
    if op.get("base") == "stale":
        return op["stale"]
    return None


def pure_failure(sc):
    """Error code of the pure pipeline for this scenario (independent of write.py): None when it succeeds."""
    op, entry = sc["op"], sc["entry"]
    if entry == "atomic":
        return None
    if op["mode"] == "content":
        r = C.canonical_of(op["content"])
        if r[0] == "err":
            return "E_PARSE" if entry == "cli" else r[1]
        return None
    existing = as_read(sc["state"].get("content"))
    if existing is None:
        return None
    r = C.canonical_of(existing)
    if r[0] == "err":
        return "E_PARSE" if (op["mode"] == "changes" or entry == "cli") else r[1]
    return None


# ------------------------------------------------------------------------------------------------------
# One real run (in a pool worker; forks the child)
# ------------------------------------------------------------------------------------------------------

def run_case(item):
    sc, plan = item
    sb = C.Sandbox(sc["state"])
    try:
        before = F.snapshot(sb.root)
        t0 = F.read_state(sb.target)
        runner = F.run_child if plan.get("kill") is not None or os.environ.get("VERIF_FS_ALWAYS_FORK") else F.run_inproc
        out = runner(sc["entry"], real_args(sc, sb), sb.root, sb.target, C.SRC_ROOT, plan)
        after = F.snapshot(sb.root)
        t1 = F.read_state(sb.target)
        tmps = C.tmp_files(sb.parent)
        rel_t = os.path.relpath(sb.target, sb.root)
        rel_p = os.path.relpath(sb.parent, sb.root)
        extra = sorted(p for p in after if p not in before and p != rel_t and not (os.path.dirname(p) == rel_p and p.endswith(".tmp"))
                       and after[p] != ("dir",))
        changed_other = sorted(p for p in before if p != rel_t and after.get(p) != before[p])
        new_dirs = sorted(p for p in after if p not in before and after[p] == ("dir",))
        return {"ext_text": plan.get("ext_text") if plan.get("ext_before") is not None and any(r["k"] == plan["ext_before"] for r in out["records"]) else None,
                "result": out["result"], "records": out["records"], "killed": out["killed"], "exit": out["exit"],
                "harness_error": out["harness_error"], "t0": t0, "t1": t1, "tmps": tmps, "extra": extra,
                "changed_other": changed_other, "new_dirs": new_dirs, "parent_exists": os.path.isdir(sb.parent),
                "apaths": {k: sb.apath(k) for k in ("target", "tmp", "parent")}, "afs": sb.abstract_fs(), "query": sb.query()}
    finally:
        sb.cleanup()


# ------------------------------------------------------------------------------------------------------
# Model request for a finished real run
# ------------------------------------------------------------------------------------------------------

def model_request(sc, plan, run, new_text):
    op = sc["op"]
    sb_like = type("S", (), {"apath": lambda self, k: run["apaths"].get(k) or (run["apaths"]["parent"] + [8])})()
    call = C.model_call(sb_like, mode=op["mode"], base_text=base_text(sc), dry=bool(op.get("dry")),
                        path_ok=True, fails_default=pure_failure(sc), canon_default=new_text)
    steps = F.group_steps(run["records"])
    world = {"faults": []}
    for i, (_n, _ok, ks) in enumerate(steps):
        for r in run["records"]:
            if r["k"] in ks and r.get("fault"):
                world["faults"].append([i, r["fault"]])
                break
    if run["killed"]:
        last = run["records"][-1]
        world["crashAt"] = next(i for i, (_n, _ok, ks) in enumerate(steps) if last["k"] in ks)
        if plan.get("kill_mid") and last["kind"] == "write":
            world["crashMid"] = True
            world["cut"] = max(1, len(new_text or "") // 2)
    return {"op": "run", "prog": C.PROG_OF_ENTRY[sc["entry"]], "call": call, "fs": run["afs"], "world": world, "query": run["query"]}


# ------------------------------------------------------------------------------------------------------
# The property's own oracle on a real outcome
# ------------------------------------------------------------------------------------------------------

def cleanup_faulted(run) -> bool:
    return any(r.get("fault") and r["role"] == "temp" and r["kind"] in ("unlink", "os_path_exists") for r in run["records"])


def plan_ext(run):
    return run.get("ext_text")


def oracle(sc, run, new_bytes):
    """List of (why_class, why) — empty when the real outcome satisfies C16."""
    bad = []
    t0, t1 = run["t0"], run["t1"]
    res = run["result"]
    old_b = t0[0] if t0 and t0[0] != "notfile" else None
    ext = plan_ext(run)
    if ext is not None:
        # the file somebody else wrote is a complete previous version too
        alt = (ext.encode("utf-8"), t0[1] if t0 and t0[0] != "notfile" else 0o644)
        if t1 == alt:
            t1 = t0
    # all-or-nothing, at every interruption point and after every fault
    if t1 != t0:
        if not (t1 is not None and t1[0] != "notfile" and new_bytes is not None and t1[0] == new_bytes):
            bad.append(("all-or-nothing", f"target is neither its previous bytes nor the complete new text: "
                                          f"{None if t1 is None else (len(t1[0]) if isinstance(t1[0], bytes) else t1[0])} bytes"
                                          f" (old {None if old_b is None else len(old_b)}, new {None if new_bytes is None else len(new_bytes)})"))
        elif t0 is not None and t1[1] != t0[1] and not run["killed"] and res and res.get("status") == "success":
            bad.append(("mode", f"existing file's permission bits changed {oct(t0[1])} -> {oct(t1[1])} on success"))
    if run["extra"] or run["changed_other"]:
        bad.append(("other-files", f"files other than the target / its temp file changed: {run['extra'] + run['changed_other']}"))
    if run["killed"] or res is None:
        return bad
    if res["status"] in ("error", "raised"):
        if t1 != t0:
            bad.append(("error-not-clean", f"call ended with {res['status']} {res.get('code')} but the target changed"))
        if run["tmps"] and not cleanup_faulted(run):
            bad.append(("temp-left", f"call ended with {res['status']} {res.get('code')} and left {run['tmps']} beside the target"))
    elif res["status"] == "success":
        if sc["op"].get("dry"):
            if t1 != t0 or run["tmps"] or run["new_dirs"]:
                bad.append(("dry-run-wrote", "corrections_only call changed the file system"))
        else:
            if t1 is None or t1[0] == "notfile":
                bad.append(("success-no-file", "success but the target is not a regular file"))
            elif C.sha(t1[0]) != res.get("hash"):
                bad.append(("hash", f"sha256(file)={C.sha(t1[0])[:12]} but canonical_hash={str(res.get('hash'))[:12]}"))
            if t0 is not None and t1 is not None and t0[0] != "notfile" and t1[1] != t0[1]:
                bad.append(("mode", f"existing file's permission bits changed {oct(t0[1])} -> {oct(t1[1])}"))
            if run["tmps"]:
                bad.append(("temp-left", f"success but {run['tmps']} left beside the target"))
    return bad


# ------------------------------------------------------------------------------------------------------
# Correspondence view
# ------------------------------------------------------------------------------------------------------

def compare(sc, plan, run, rep, new_text):
    """List of disagreement strings between the model's reply and the real run."""
    dis = []
    steps = F.group_steps(run["records"])
    real_trace = [(n, ok) for (n, ok, _ks) in steps]
    if run["killed"]:
        last = run["records"][-1]
        idx = next(i for i, (_n, _ok, ks) in enumerate(steps) if last["k"] in ks)
        real_trace = real_trace[:idx]
    mt = F.normalise_model_trace(rep["trace"])
    if mt != real_trace:
        j = next((i for i, (x, y) in enumerate(itertools.zip_longest(mt, real_trace)) if x != y), None)
        dis.append(f"call sequence differs at step {j}: model {mt[j] if j is not None and j < len(mt) else None} "
                   f"real {real_trace[j] if j is not None and j < len(real_trace) else None}")
    rv, mv = C.real_result_view(run["result"], run["killed"]), C.model_result_view(rep)
    if rv != mv:
        dis.append(f"result differs: model {mv} real {rv}")
    if rv[0] == "ok" and mv[0] == "ok" and C.sha(rep.get("hash", "")) != (run["result"] or {}).get("hash"):
        dis.append("canonical_hash differs from the hash of the model's text")
    # target node
    mnode = rep["fs"][0]
    t1 = run["t1"]
    if t1 is None:
        if mnode is not None and "file" in mnode:
            dis.append("model has a target file, the real run has none")
    elif t1[0] != "notfile":
        if mnode is None or "file" not in mnode:
            dis.append("real run has a target file, the model has none")
        else:
            if mnode["file"].encode("utf-8") != t1[0]:
                dis.append(f"target bytes differ: model {len(mnode['file'])} chars, real {len(t1[0])} bytes")
            if mnode["mode"] != t1[1]:
                dis.append(f"target mode differs: model {oct(mnode['mode'])} real {oct(t1[1])}")
    # temp file left or not
    mtmp = rep["fs"][1] is not None
    if mtmp != bool(run["tmps"]):
        dis.append(f"temp file: model {'left' if mtmp else 'none'}, real {run['tmps']}")
    if (rep["fs"][2] is not None) != run["parent_exists"]:
        dis.append("parent directory existence differs")
    return dis


# ------------------------------------------------------------------------------------------------------
def plans_for(ref_run, all_validator_calls=True):
    """Single kill points and single faults for a scenario, from its reference run.  Quick tier: inside a path-validator
    group (one model step, read-only, every failure answers E_PATH) only the first two and the last call are used."""
    n = len(ref_run["records"])
    plans = []
    skip = set()
    if not all_validator_calls:
        for (_name, _ok, ks) in F.group_steps(ref_run["records"]):
            if _name == "validatePath" and len(ks) > 3:
                skip |= set(ks[2:-1])
    for k in range(n):
        if k in skip:
            continue
        plans.append({"kill": k})
        if ref_run["records"][k]["kind"] in ("write", "write_fd"):
            plans.append({"kill": k, "kill_mid": True})
    for k in range(n):
        if k in skip:
            continue
        for e in ERRNOS:
            plans.append({"faults": {str(k): e}})
    return plans


def ext_plans(sc, ref_run):
    """Somebody else rewrites the target just before the re-read (exercises the hash-mismatch branch of the TOCTOU re-check)."""
    if sc["op"].get("base") != "current":
        return []
    steps = F.group_steps(ref_run["records"])
    names = [n for (n, _ok, _ks) in steps]
    mk = next((i for i, n in enumerate(names) if n.startswith("mkstemp")), None)
    if mk is None:
        return []
    out = []
    other = C.DOC.format(a=987654, b="written by somebody else meanwhile")
    for i, (n, _ok, ks) in enumerate(steps):
        if i > mk and (n == "read target" or n.startswith("replace") or n == "exists target"):
            out.append({"ext_before": ks[0], "ext_text": other})
    return out


def pair_plans(single_plan, single_run, errnos2):
    (k1, e1), = single_plan["faults"].items()
    n = len(single_run["records"])
    return [{"faults": {k1: e1, str(k2): e2}} for k2 in range(int(k1) + 1, n) for e2 in errnos2]


def run(ctx: vlib.Ctx):
    ctx.rule = ("case = (scenario, kill point | fault set); scenarios x every numbered file-system call of the reference run x "
                "{kill before, kill inside write, 5 errnos}; thorough adds every pair of faults along each single-fault run; "
                "distinct = distinct (scenario id, plan); non-trivial = the plan is reached by the run")
    import time as _t
    t0 = _t.time()
    phases = {}
    F.preload()   # pool workers are forked from this process: they inherit the imported implementation
    C.sweep_stale()
    if ctx.replay:
        import random as _random
        try:
            ctx.seed = int(json.loads(open(ctx.replay).read()).get("seed", ctx.seed))
            ctx.rng = _random.Random(ctx.seed)   # scenarios are a function of the seed: replay with the seed of the failing run
        except (OSError, ValueError):
            raise vlib.Infra(f"cannot read replay file {ctx.replay}")
    ctx.translate(PROJECT)
    proj = ctx.lean(PROJECT, PROPS)
    phases["translate+lean build+audit"] = round(_t.time() - t0, 1)
    if vlib.fingerprints_changed(ctx.prop, ANCHORS):
        ctx.widen = max(ctx.widen, 8)
        ctx.notes.append("fingerprint of a modelled function changed: search widened")
    try:
        drv = proj.driver()
    except vlib.Infra as e:
        drv = None
        ctx.notes.append(f"driver unavailable, correspondence skipped: {e}")
        ctx.broken.append({"file": "Driver.lean", "line": 0, "decl": "driver", "msg": str(e)[:300]})
    scs = scenarios(ctx.rng, ctx.thorough or ctx.widen > 1)
    if ctx.replay:
        rp = json.loads(open(ctx.replay).read())
        case = rp.get("case") or {}
        if "scenario" in case:
            scs = [case["scenario"]]
    by_id = {s["id"]: s for s in scs}

    # 1. reference runs
    refs = dict(zip(by_id, vlib.pmap(run_case, [(s, {}) for s in scs])))
    new_text = {}
    for sid, r in refs.items():
        sc = by_id[sid]
        if r["harness_error"]:
            raise vlib.Infra(f"harness error in reference run {sid}: {r['harness_error']}")
        ok = r["result"] and r["result"]["status"] == "success" and not sc["op"].get("dry")
        new_text[sid] = r["t1"][0].decode("utf-8") if ok and r["t1"] and r["t1"][0] != "notfile" else None
        if sc["op"].get("dry") and sc["op"]["mode"] == "content":
            cr = C.canonical_of(sc["op"]["content"])
            new_text[sid] = cr[1] if cr[0] == "ok" else None
        # independent cross-check of the reference for the pure pipeline
        if ok and sc["entry"] != "atomic" and sc["op"]["mode"] == "content":
            cr = C.canonical_of(sc["op"]["content"])
            if cr[0] != "ok" or cr[1] != new_text[sid]:
                ctx.notes.append(f"{sid}: file written by the reference run differs from emit(parse(content))")
        if ok and sc["entry"] == "atomic" and new_text[sid] != sc["op"]["content"]:
            ctx.failures.append({"case": {"scenario": sc, "plan": {}}, "why": "atomic_write_octave wrote other bytes than it was given",
                                 "why_class": "hash"})

    phases["reference runs"] = round(_t.time() - t0, 1)
    # 2. plans
    items = [(by_id[sid], {}) for sid in refs]
    singles = []
    for sid, r in refs.items():
        for p in plans_for(r, ctx.thorough or ctx.widen > 1) + ext_plans(by_id[sid], r):
            singles.append((by_id[sid], p))
    if ctx.replay and "plan" in (case or {}):
        singles = [(scs[0], case["plan"])]
    runs = list(zip(items, refs.values()))
    single_runs = vlib.pmap(run_case, singles)
    runs += list(zip(singles, single_runs))
    phases["single kill points / faults"] = round(_t.time() - t0, 1)
    # pairs: every second fault along each single-fault run (thorough); a seeded sample when widened in quick
    pairs = []
    if (ctx.thorough or ctx.widen > 1) and not ctx.replay:
        for (sc, p), r in zip(singles, single_runs):
            if "faults" in p and "ext_before" not in p:
                pairs += [(sc, q) for q in pair_plans(p, r, ERRNOS)]
        if not ctx.thorough:
            ctx.rng.shuffle(pairs)
            pairs = pairs[: ctx.budget(1500, 60000)]
    elif not ctx.replay:
        # quick: a seeded sample of pairs (first fault swallowed or not), so the pair machinery runs every time
        cand = []
        for (sc, p), r in zip(singles, single_runs):
            if "faults" in p and "ext_before" not in p:
                cand += [(sc, q) for q in pair_plans(p, r, ERRNOS)]
        ctx.rng.shuffle(cand)
        pairs = cand[:800]
    runs += list(zip(pairs, vlib.pmap(run_case, pairs)))

    phases["pairs"] = round(_t.time() - t0, 1)
    # 3. model replies
    reqs = [model_request(sc, p, r, new_text[sc["id"]]) for ((sc, p), r) in runs]
    reps = drv.batch_par(reqs) if drv is not None else [None] * len(reqs)

    phases["lean driver"] = round(_t.time() - t0, 1)
    ctx.extra["phase_seconds_cumulative"] = phases
    # 4. compare + oracle
    n_raised = 0
    mkdir_residue = 0
    for ((sc, p), r), rep in zip(runs, reps):
        case = {"scenario": sc["id"], "plan": p}
        reached = bool(r["killed"]) or not p or r.get("ext_text") is not None or all(any(rr["k"] == int(k) and rr.get("fault") for rr in r["records"]) for k in p.get("faults", {}))
        ctx.case(case, nontrivial=reached)
        kind = "ref" if not p else "ext" if "ext_before" in p else "kill-mid" if p.get("kill_mid") else "kill" if "kill" in p else f"fault{len(p['faults'])}"
        ctx.count(f"{sc['entry']}:{kind}")
        if r["harness_error"]:
            raise vlib.Infra(f"harness error in child ({sc['id']} {p}): {r['harness_error']}")
        rv = C.real_result_view(r["result"], r["killed"])
        ctx.count("outcome:" + rv[0] + (":" + str(rv[1]) if rv[1] else ""))
        for rr in r["records"]:
            if rr.get("fault"):
                ctx.count("fault-at:" + F.step_name(rr, [rr]).split(" ")[0])
                ctx.count("errno:" + rr["fault"])
        if rv[0] == "raised":
            n_raised += 1
        if rv[0] in ("err", "raised") and r["new_dirs"]:
            mkdir_residue += 1
        new_b = new_text[sc["id"]].encode("utf-8") if new_text[sc["id"]] is not None else None
        for (cls, why) in oracle(sc, r, new_b):
            ctx.failures.append({"case": {"scenario": sc, "plan": p}, "why": why, "why_class": cls,
                                 "observed": {"result": r["result"], "killed": r["killed"], "tmp_files": r["tmps"],
                                              "calls": [(x["k"], x["kind"], x["role"], x["ok"]) for x in r["records"]]}})
        if p.get("ext_before") is not None:
            ctx.count("external-modification-before-step (oracle only)")
            continue
        if rep is not None:
            if "unsupported" in rep:
                ctx.count("model_unsupported")
                ctx.corr_disagreements.append({"case": case, "model": rep, "impl": None, "view": "driver"})
                continue
            dis = compare(sc, p, r, rep, new_text[sc["id"]])
            if dis:
                ctx.corr_disagreements.append({"case": {"scenario": sc["id"], "plan": p}, "model": {"res": C.model_result_view(rep), "trace": rep["trace"][-6:]},
                                               "impl": {"res": rv, "calls": [(x["kind"], x["role"], x["ok"]) for x in r["records"]][-8:]},
                                               "view": "; ".join(dis)[:600]})
    if ctx.corr_disagreements:
        ctx.widen = max(ctx.widen, 8)
    ctx.extra["scenarios"] = [s["id"] for s in scs]
    ctx.extra["calls_per_scenario"] = {sid: len(r["records"]) for sid, r in refs.items()}
    ctx.extra["exception_escaped_entry_point"] = n_raised
    ctx.extra["error_with_created_directories_left (F35 candidate, fault-injected only)"] = mkdir_residue
    ctx.n_facts = 0
    ctx.trusted = ["Lean 4.33.0 kernel; axioms per theorem in coverage.theorems",
                   "tools/gen/fs.py (Gen/WriteOps: op programs extracted from the AST); cross-checked on every case: the observed call "
                   "sequence must equal the model's trace",
                   "tools/harness/fs_interpose.py (interposition on os/tempfile/pathlib/open in a forked child; kill = os._exit before call k)",
                   "OS semantics: rename(2) atomic, a killed process leaves exactly the effects of completed calls (DESIGN §4.5)",
                   "modelled, not verified: semantics of each op in Model/FsProg.lean (validated differentially)"]
    ctx.assumptions = ["kills happen at Python-level call boundaries (and inside write after a prefix), not inside the kernel",
                       "a fault in the clean-up calls themselves (os.path.exists(temp) / os.unlink(temp)) may leave the temp file "
                       "(hypothesis of C16_error_clean; the target must still be unchanged)",
                       "power loss (unsynced data lost) is covered by the model and the discipline only; the harness cannot cut power"]
