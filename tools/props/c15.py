"""C15 — A seal verifies on the sealed content and on nothing else.

Engine `project` (lean/project: Model/Sealer over an abstract emitter and hash).  Protocol: translate -> lean build +
audit -> known findings -> correspondence (Lean sealer model, with the real emit()/sha256 supplied as externals, vs.
sealer.py) -> oracle on the real code.

Oracle per generated document d (all on the real implementation):
  inmemory   verify_seal(seal_document(d)) is VERIFIED; seal_document(d) is d (minus earlier seals) plus one SEAL section at the end
  noseal     verify_seal(d) is NO_SEAL
  reseal     seal_document(seal_document(d)) == seal_document(d)  (AST equality and identical emission)
  text       verify_seal(parse(emit(seal_document(d)))) is VERIFIED
  tamper     every single-site mutation of the sealed text's content (replace / retype / insert / delete / move /
             rename / re-nest one leaf or node, envelope name, META field, frontmatter, one digit of the hash …),
             re-rendered and read back, is INVALID
  cosmetic   every cosmetic respelling of the sealed text (ASCII aliases, spaces around ::, indentation width, blank
             lines, trailing spaces, list layout, quotes around plain words, omitted ===END===) is VERIFIED
  cli        `octave seal` then `octave validate --verify-seal --require-seal` exit status (and on tampered / unsealed files)
A mutated / respelled text is judged only when the reader reads it back as the content the generator meant
(otherwise the case belongs to the reader/emitter findings F1–F11 of C01–C03 and is counted, not judged).
The `text` and `cli` clauses themselves are judged on EVERY document made of constructs the reader reads back as written
(project_docs.text_safe, a predicate over the input): a document whose canonical text stopped being a fixed point of
emit . parse — a string value written bare and re-read as a literal, a comment, an operator … — fails the clause.
Documents: corpus + node templates + the deterministic family project_gen.lookalike_docs (string values that are
something else in the language when written bare or taken for layout, in every position a string can take) + seeded
structured documents drawing from the same pools.
"""
from __future__ import annotations

import hashlib
import json
import os
import re

import vlib
from harness import project_docs as PD
from harness import project_gen as PG
from harness import project_impl as PI
from harness import project_mutations as PM

PROJECT = "project"
PROPS = ["Octave.Props.C15"]
ANCHORS = [("octave_mcp/core/sealer.py", "compute_seal"), ("octave_mcp/core/sealer.py", "seal_document"),
           ("octave_mcp/core/sealer.py", "extract_seal"), ("octave_mcp/core/sealer.py", "verify_seal"),
           ("octave_mcp/core/sealer.py", "_remove_seal_section"), ("octave_mcp/cli/main.py", "seal"),
           ("octave_mcp/cli/main.py", "validate"), ("octave_mcp/core/emitter.py", "emit"),
           ("octave_mcp/core/ast_nodes.py", None)]

FEATS = ("lists", "imaps", "zones", "meta", "comments", "sections", "nested_sections", "dups", "holo", "assign_after_block", "meta_nested", "mlstr", "lookalikes")


# ---------------------------------------------------------------------------------------------
# known-finding classes: predicates over the INPUT
# ---------------------------------------------------------------------------------------------
def kf_seal_keyed_section_inserted(case):
    """F26: the tampered document has two or more top-level sections keyed SEAL (the tamper inserted one)."""
    return case.get("clause") == "tamper" and PM.count_seal_sections(case["model"]) >= 2


def kf_frontmatter_and_sentinel(case):
    """F53: the document has both YAML frontmatter and a grammar sentinel (the emitted text does not re-read: the
    blank line emit puts after the frontmatter makes the reader take `OCTAVE::x.y.z` for an assignment)."""
    return case.get("clause") in ("text", "cli") and case["doc"]["front"] is not None and bool(case["doc"]["gv"])


# C15N1 -------------------------------------------------------------------------------------------------------------
# Own transcription of "the canonical text shows this string without quotes although it contains the constraint operator":
# identifier segments joined by expression operators, one of them U+2227, no reserved word as an operand (the class is a set of
# INPUTS; it must not move when the emitter under test moves).
_OPS = "\u2295\u29fa\u21cc\u2227\u2228\u2192@"
_SEG = r"[A-Za-z_][A-Za-z0-9_.\-]*(?<!-)"
_BARE_EXPR = re.compile("^" + _SEG + "(?:[" + _OPS + "]" + _SEG + ")+\\Z")
_RESERVED_OPERAND = re.compile("(?:^|[" + _OPS + "])(?:true|false|null|vs)(?![A-Za-z0-9_])")


def bare_constraint_string(s):
    return "\u2227" in s and bool(_BARE_EXPR.match(s)) and not _RESERVED_OPERAND.search(s)


def _holds_bare_constraint(v):
    return any(x["t"] == "str" and bare_constraint_string(x["v"]) for x in PD.walk_values(v))


def sole_item_container_with_bare_constraint(v):
    """v is a list with exactly ONE item (no comma at its own bracket depth), that item is itself a list — or an inline map whose value
    is a list / map — and somewhere inside it sits a string written bare with U+2227."""
    if v["t"] != "list" or len(v["v"]) != 1:
        return False
    x = v["v"][0]
    if x["t"] == "list":
        return _holds_bare_constraint(x)
    if x["t"] == "imap":
        return len(x["v"]) == 1 and x["v"][0][1]["t"] in ("list", "imap") and _holds_bare_constraint(x["v"][0][1])
    return False


def kf_bare_constraint_string_in_sole_nested_item(case):
    """C15N1: the document holds a one-item list whose item is a list (or an inline map of a list) containing a string that canonical
    emission writes bare although it contains the constraint operator (K::[["a∧b","c"]] is written with the inner list as `[a∧b,c]` on a line of its own): the reader
    takes the outer list of the written text for a holographic pattern (a CONSTRAINT token anywhere inside, no comma at depth 1), so the
    sealed text reads back as a different document and its seal reports INVALID (clauses text / cli; in memory it verifies)."""
    return case.get("clause") in ("text", "cli") and any(sole_item_container_with_bare_constraint(v) for v in PD.doc_values(case["doc"]))


CLASSES = {f.__name__: f for f in (kf_seal_keyed_section_inserted, kf_bare_constraint_string_in_sole_nested_item)}
LOOKALIKE_SET = set(PG.LOOKALIKE_POOL + PG.RESERVED_PREFIX_POOL)
LOOKALIKE_ZONES = {z[0] for z in PG.ZONE_LINE_BOUNDARY_POOL}


def same(a, b):
    return json.dumps(a, sort_keys=True, ensure_ascii=False) == json.dumps(b, sort_keys=True, ensure_ascii=False)


def sha(t):
    return hashlib.sha256(t.encode("utf-8")).hexdigest()


def read_back(text):
    """model document the reader makes of a text, or None when it refuses / yields something unmodelled."""
    from octave_mcp.core.parser import parse
    try:
        d = parse(text)
    except Exception:
        return None, None
    try:
        return d, PD.ast_to_model(d)
    except PD.Unmodelled:
        return d, None


def externals(model):
    """The external values the Lean sealer needs for `model`: emit() of the document without its seal, and its SHA-256."""
    from octave_mcp.core.emitter import emit
    body = PM.strip_seal(model)
    t = emit(PD.build_ast(body))
    return {"emits": [[body, t]], "hashes": [[t, sha(t)]]}


# ---------------------------------------------------------------------------------------------
# worker
# ---------------------------------------------------------------------------------------------
def run_case(case):
    import random
    from octave_mcp.core.emitter import emit
    from octave_mcp.core.parser import parse
    from octave_mcp.core.sealer import seal_document, verify_seal
    doc, via = case["doc"], case["via"]
    rng = random.Random(case["seed"])
    out = {"pre": None, "checks": [], "corr": [], "counts": {}}

    def cnt(k, n=1):
        out["counts"][k] = out["counts"].get(k, 0) + n

    def check(clause, ok, **kw):
        out["checks"].append({"clause": clause, "ok": bool(ok), **kw})

    def guarded(clause, fn, **kw):
        """The property gives the sealer no licence to raise."""
        try:
            return fn()
        except Exception as e:
            check(clause, False, expected="no exception", got=f"{type(e).__name__}: {e}"[:300], **kw)
            return None

    try:
        if via == "text":
            text = PD.render(doc)
            ast = parse(text)
            ast.trailing_comments = []
            if not same(PD.ast_to_model(ast), doc):
                out["pre"] = "reader does not read the generated text back as generated"
                return out
        else:
            ast = PD.build_ast(doc)
    except Exception as e:
        out["pre"] = f"generated document is not readable: {type(e).__name__}: {e}"[:200]
        return out
    if rng.random() < 0.3:
        # a closing comment before ===END=== (Document.trailing_comments): not content, must not disturb the seal
        ast.trailing_comments = ["closing note"]
        cnt("with_document_trailing_comment")

    # ---- in memory ---------------------------------------------------------------------------------
    sealed = guarded("inmemory", lambda: seal_document(ast))
    if sealed is None:
        return out
    st = guarded("inmemory", lambda: verify_seal(sealed).status.value)
    check("inmemory", st == "VERIFIED", expected="VERIFIED", got=st)
    st0 = guarded("noseal", lambda: verify_seal(ast).status.value)
    check("noseal", st0 == "NO_SEAL", expected="NO_SEAL", got=st0)
    resealed = guarded("reseal", lambda: seal_document(sealed))
    if resealed is not None:
        e1, e2 = guarded("reseal", lambda: emit(sealed)), guarded("reseal", lambda: emit(resealed))
        check("reseal", resealed == sealed and e1 == e2, expected="seal(seal d) == seal d", got="AST differs" if resealed != sealed else "emission differs")
    try:
        sealed_model = PD.ast_to_model(sealed)
        # what is sealed is the document: sealing adds the seal section (replacing an earlier one) and changes nothing else
        check("seal_body", same(PM.strip_seal(sealed_model), PM.strip_seal(doc)) and PM.count_seal_sections(sealed_model) == 1
              and PM.is_seal(sealed_model["sections"][-1]), expected="seal_document(d) = d without earlier seals + one SEAL section at the end",
              got="body of the sealed document differs from the document" if not same(PM.strip_seal(sealed_model), PM.strip_seal(doc)) else "seal section count/position")
        out["corr"].append({"req": {"op": "seal", "doc": doc, **externals(doc)},
                            "impl": {"sealed": sealed_model, "verify_sealed": st, "verify_input": st0, "reseal_equal": resealed == sealed}})
    except PD.Unmodelled:
        cnt("corr_skipped:unmodelled")
    # ---- written out and read back ---------------------------------------------------------------------
    stext = guarded("text", lambda: emit(sealed))
    if stext is None:
        return out
    both = doc["front"] is not None and bool(doc["gv"])          # class of F53: judged, then classified
    safe = PD.text_safe({**doc, "gv": None}) if both else PD.text_safe(doc)
    body_text = emit(ast)
    if not safe:
        cnt("text_skipped:body_outside_reader_roundtrip")
        return out
    # "sealed => VERIFIED after being written out and read back" is demanded of EVERY document made of constructs the reader reads back as
    # written (text_safe, an input-based predicate) — in particular when canonical emission stopped being a fixed point for the document
    # (a string value now written bare and re-read as a literal / comment / operator): that is the property failing, not a case to set
    # aside.  (On the unchanged tree emit(parse(emit(d))) == emit(d) holds for every generated text-safe document; counted to keep it visible.)
    try:
        if not both and emit(parse(body_text)) != body_text:
            cnt("text_judged:canonical_text_of_the_body_is_not_a_fixed_point")
    except Exception:
        cnt("text_judged:canonical_text_of_the_body_is_rejected_by_the_reader")
    d2, m2 = read_back(stext)
    if d2 is None:
        check("text", False, expected="VERIFIED", got="the emitted sealed text is rejected by the reader", text=stext)
        return out
    st2 = guarded("text", lambda: verify_seal(d2).status.value)
    check("text", st2 == "VERIFIED", expected="VERIFIED", got=st2, text=stext)
    if st2 != "VERIFIED" or m2 is None:
        return out
    if case.get("light"):
        # members of a large deterministic family: in-memory / no-seal / reseal / seal-body / text (+ CLI) clauses only; a fixed
        # subset of the family and the seeded documents (which draw from the same pools) get the tamper and cosmetic clauses
        cnt("light_case")
        if case.get("cli"):
            for c in cli_checks(body_text, None, case["cli"]):
                check("cli", c["ok"], **{k: v for k, v in c.items() if k != "ok"})
        return out
    # the sealed document as a model: body as generated + the seal section as read back
    if not same(PM.strip_seal(m2), PM.strip_seal(sealed_model)):
        # the emitted sealed text does not read back as the sealed document (a matter of C02/C04): tamper with the sealed document
        # itself, rendered by the harness's own renderer, instead of giving up
        cnt("tamper_base:sealed_model(text_reads_back_differently)")
        m2 = sealed_model
    # ---- tampering -------------------------------------------------------------------------------------------
    muts = PM.mutations(m2, rng, cap=case["mut_cap"])
    ncorr = 0
    for kind, what, mm in muts:
        t = PD.render(mm)
        dm, back = read_back(t)
        if dm is None or back is None or not same(back, mm):
            cnt("tamper_skipped:" + ("reader_rejects" if dm is None else "reads_back_differently"))
            cnt("tamper_skipped_kind:" + kind)
            continue
        stm = guarded("tamper", lambda: verify_seal(dm).status.value, kind=kind, what=what, model=mm, text=t)
        if stm is None:
            continue
        cnt("tamper:" + kind)
        ok = stm == "INVALID"
        check("tamper", ok, kind=kind, what=what, expected="INVALID", got=stm, **({} if ok else {"model": mm, "text": t}))
        if ncorr < case["corr_cap"] or not ok:
            ncorr += 1
            try:
                out["corr"].append({"req": {"op": "verify", "doc": mm, **externals(mm)}, "impl": {"status": stm}})
            except Exception:
                cnt("corr_skipped:externals")
    # ---- cosmetic respellings --------------------------------------------------------------------------------------
    styles = [(c, PD.Style(on=[c])) for c in PD.COSMETICS]
    for j in range(case["n_mix"]):
        styles.append((f"mix{j}", PD.Style(on=PD.COSMETICS, rng=random.Random(rng.random()), p=0.4)))
    for name, stl in styles:
        t = PD.render(m2, stl)
        if t == stext:
            cnt("cosmetic_noop:" + name)
            continue
        dc, back = read_back(t)
        if dc is None or back is None or not same(back, m2):
            cnt("cosmetic_skipped:%s:%s" % (name if not name.startswith("mix") else "mix", "reader_rejects" if dc is None else "reads_back_differently"))
            continue
        stc = guarded("cosmetic", lambda: verify_seal(dc).status.value, kind=name, text=t)
        if stc is None:
            continue
        cnt("cosmetic:" + (name if not name.startswith("mix") else "mix"))
        ok = stc == "VERIFIED"
        check("cosmetic", ok, kind=name, used=sorted(stl.used), expected="VERIFIED", got=stc, **({} if ok else {"text": t}))
    # ---- CLI ---------------------------------------------------------------------------------------------------------
    if case.get("cli"):
        tampered = None
        for kind, what, mm in muts:
            if kind in ("replace_value", "insert_leaf_top", "rename_key") and PM.count_seal_sections(mm) == 1:
                tampered = PD.render(mm)
                break
        for c in cli_checks(body_text, tampered, case["cli"]):
            check("cli", c["ok"], **{k: v for k, v in c.items() if k != "ok"})
    return out


def cli_checks(body_text, tampered_text, how):
    """`octave seal` -> `octave validate --verify-seal --require-seal`; unsealed and tampered files."""
    import tempfile
    res = []
    tmp = tempfile.mkdtemp(prefix="verif_c15_")
    src, dst, bad = os.path.join(tmp, "in.oct.md"), os.path.join(tmp, "sealed.oct.md"), os.path.join(tmp, "tampered.oct.md")

    def run(args):
        if how == "subprocess":
            rc, so, se = PI.run_cli(args)
            return rc, so + se
        from click.testing import CliRunner
        from octave_mcp.cli.main import cli
        r = CliRunner().invoke(cli, args)
        return r.exit_code, r.output or ""
    try:
        with open(src, "w", encoding="utf-8") as f:
            f.write(body_text)
        rc, o = run(["seal", src, "-o", dst])
        res.append({"ok": rc == 0 and os.path.exists(dst), "kind": "seal", "expected": "exit 0", "got": f"exit {rc}: {o[-200:]}"})
        if rc == 0 and os.path.exists(dst):
            rc, o = run(["validate", dst, "--verify-seal", "--require-seal"])
            res.append({"ok": rc == 0 and "Seal: VERIFIED" in o, "kind": "validate sealed", "expected": "exit 0, Seal: VERIFIED", "got": f"exit {rc}: {o[-160:]}"})
            # sealing to stdout gives the same text as -o
            rc2, o2 = run(["seal", src])
            sealed_text = open(dst, encoding="utf-8").read()
            res.append({"ok": rc2 == 0 and o2.rstrip("\n") == sealed_text.rstrip("\n"), "kind": "seal stdout == -o", "expected": "same text", "got": f"exit {rc2}"})
            # seal an already sealed file: same seal
            dst2 = os.path.join(tmp, "resealed.oct.md")
            rc3, o3 = run(["seal", dst, "-o", dst2])
            res.append({"ok": rc3 == 0 and os.path.exists(dst2) and open(dst2, encoding="utf-8").read() == sealed_text, "kind": "reseal file", "expected": "identical file", "got": f"exit {rc3}"})
        rc, o = run(["validate", src, "--verify-seal", "--require-seal"])
        res.append({"ok": rc == 1 and "No SEAL" in o, "kind": "validate unsealed --require-seal", "expected": "exit 1, no SEAL", "got": f"exit {rc}: {o[-160:]}"})
        rc, o = run(["validate", src, "--verify-seal"])
        res.append({"ok": rc == 0 and "No SEAL" in o, "kind": "validate unsealed", "expected": "exit 0, no SEAL", "got": f"exit {rc}: {o[-160:]}"})
        if tampered_text:
            with open(bad, "w", encoding="utf-8") as f:
                f.write(tampered_text)
            rc, o = run(["validate", bad, "--verify-seal", "--require-seal"])
            res.append({"ok": rc == 1 and "Seal: INVALID" in o, "kind": "validate tampered", "expected": "exit 1, Seal: INVALID", "got": f"exit {rc}: {o[-160:]}"})
    finally:
        for p in os.listdir(tmp):
            try:
                os.unlink(os.path.join(tmp, p))
            except OSError:
                pass
        try:
            os.rmdir(tmp)
        except OSError:
            pass
    return res


# ---------------------------------------------------------------------------------------------
def corpus_cases():
    d = vlib.VERIF / "corpus" / "C15"
    out = []
    if d.exists():
        for p in sorted(d.glob("*.json")):
            j = json.loads(p.read_text())
            for c in (j if isinstance(j, list) else [j]):
                out.append({"doc": c["doc"], "via": c.get("via", "text"), "origin": p.name})
    return out


def build_cases(ctx):
    rng = ctx.rng
    if ctx.replay:
        # --replay f: exactly the document of the replay file, every mutation at every site, every style, in-process CLI
        try:
            j = json.loads(open(ctx.replay).read())
            c = j.get("case") or (j.get("correspondence_disagreements") or [{}])[0].get("case") or {}
            if "doc" in c:
                return [{"doc": PM.strip_seal(c["doc"]), "via": c.get("via", "text"), "origin": "replay", "seed": j.get("seed", 0), "mut_cap": None, "corr_cap": 12,
                         "n_mix": 6, "cli": "inproc" if c.get("via", "text") == "text" else None}]
        except Exception as e:
            ctx.notes.append(f"replay file not usable ({e}); running the full check")
    cases = corpus_cases()
    w = 1 if ctx.thorough else min(ctx.widen, 4)
    n_text = 1500 if ctx.thorough else 400 * w
    n_ast = 500 if ctx.thorough else 120 * w
    # small exhaustive part: every pair of node templates as the LAST two nodes (the seal section follows every kind of last node)
    for d in PG.exhaustive(("sections", "dups", "holo", "assign_after_block"), 2 if ctx.thorough else 1):
        cases.append({"doc": d, "via": "text", "origin": "exh"})
    if not ctx.thorough:
        ts = PG.templates(("sections", "holo"))
        for t in ts:
            cases.append({"doc": PD.DOC([PD.A("FIRST", PD.vint(1)), dict(t)], meta=[("TYPE", PD.vstr("T"))]), "via": "text", "origin": "exh"})
    # deterministic family: string values that are something else in the language when written bare or taken for layout (wrong-case /
    # foreign literals, comment- / path- / fence- / marker- / operator- / number- / bracket-like texts, characters str.splitlines() takes for
    # a line boundary), in every position a string value can take (scalar nested / in a section / last node, list item first / middle /
    # last, inline-map value, META field, META list item, literal-zone content), through the text route and the API route.  Every member
    # gets the in-memory / no-seal / reseal / seal-body / text clauses; every 7th (7 is coprime to the 6 cases per string, so every
    # position x route is hit) also the tamper and cosmetic clauses — all of them in the thorough tier and when the search is widened;
    # a fixed handful also the CLI.
    fam = PG.lookalike_docs()
    fam_cli = {("scalar", "True"), ("list", "NULL"), ("meta", "False"), ("scalar", "//cdn.example.com/app.js"), ("list", "//"), ("meta", "./x"),
               ("list", "a-"), ("scalar", "#x"), ("scalar", "first paragraph\u2028second paragraph"), ("list", "page1\x0cpage2"), ("meta", "nel\x85nel"),
               ("zone", "a\u2028b"), ("zone", "v\x0bt"), ("scalar", "cr\rcr")}
    k = 0
    for pos, s, d in fam:
        for via in ("text", "ast"):
            cases.append({"doc": d, "via": via, "origin": "lookalike", "light": (not ctx.thorough) and ctx.widen <= 1 and k % 7 != 0, "fam_pos": pos,
                          "fam_cli": via == "text" and (pos, s) in fam_cli})
            k += 1
    for i in range(n_text):
        cases.append({"doc": PG.gen_doc(rng, FEATS, maxdepth=3, from_text=True, envelope=True), "via": "text", "origin": "rnd_text"})
    for i in range(n_ast):
        cases.append({"doc": PG.gen_doc(rng, FEATS, maxdepth=3, from_text=False, envelope=True), "via": "ast", "origin": "rnd_ast"})
    n_cli_in = 40 if ctx.thorough else 12 * w
    n_cli_sub = 60 if ctx.thorough else (6 if ctx.widen > 1 else 0)
    for i, c in enumerate(cases):
        c["seed"] = rng.randrange(1 << 30)
        # corpus / template documents get every mutation at every site; random ones are capped (every kind kept)
        c["mut_cap"] = None if c["origin"] not in ("rnd_text", "rnd_ast", "lookalike") else (120 if ctx.thorough else (60 if w > 1 else 40))
        c["corr_cap"] = 12
        c["n_mix"] = 6 if ctx.thorough else 3
        c["cli"] = None
        if c["origin"] == "lookalike" and not ctx.thorough:
            c["mut_cap"], c["corr_cap"], c["n_mix"] = 0, 3, 1          # cap 0 = one mutation of every kind
    # the CLI sample is drawn from the documents that were there before the family was added (its size is unchanged); the family has its
    # own fixed CLI members
    text_idx = [i for i, c in enumerate(cases) if c["via"] == "text" and c["origin"] != "lookalike"]
    rng.shuffle(text_idx)
    for i in text_idx[:n_cli_in]:
        cases[i]["cli"] = "inproc"
    for i in text_idx[n_cli_in:n_cli_in + n_cli_sub]:
        cases[i]["cli"] = "subprocess"
    for c in cases:
        if c.get("fam_cli"):
            c["cli"] = "inproc"
    return cases


def replay_findings(ctx, findings):
    from octave_mcp.core.parser import parse
    from octave_mcp.core.sealer import verify_seal
    for f in findings:
        w = f["witness"]
        try:
            if f["cls"] == "kf_seal_keyed_section_inserted":
                sealed = run_case({"doc": w["doc"], "via": "text", "seed": 0, "mut_cap": 400, "corr_cap": 0, "n_mix": 0, "cli": None})
                bad = [c for c in sealed["checks"] if c["clause"] == "tamper" and c.get("kind") == "insert_seal_keyed_section" and not c["ok"]]
                if bad:
                    ctx.known_reproduced.append((f, f"insert_seal_keyed_section -> {bad[0]['got']} (required INVALID)"))
                else:
                    ctx.notes.append(f"known finding {f['id']} no longer reproduces on its witness (fixed?)")
            elif f["cls"] == "kf_bare_constraint_string_in_sole_nested_item":
                bad = []
                for via in ("text", "ast"):
                    r = run_case({"doc": w["doc"], "via": via, "seed": 0, "mut_cap": 0, "corr_cap": 0, "n_mix": 0, "cli": None, "light": True})
                    bad += [c for c in r["checks"] if c["clause"] == "text" and not c["ok"]]
                if bad:
                    ctx.known_reproduced.append((f, f"emit -> parse -> verify gives {bad[0]['got']} (required VERIFIED)"))
                else:
                    ctx.notes.append(f"known finding {f['id']} no longer reproduces on its witness (fixed?)")
            elif f["cls"] == "kf_frontmatter_and_sentinel":
                r = run_case({"doc": w["doc"], "via": "ast", "seed": 0, "mut_cap": 0, "corr_cap": 0, "n_mix": 0, "cli": None})
                bad = [c for c in r["checks"] if c["clause"] == "text" and not c["ok"]]
                if bad:
                    ctx.known_reproduced.append((f, f"emit -> parse -> verify gives {bad[0]['got']} (required VERIFIED)"))
                else:
                    ctx.notes.append(f"known finding {f['id']} no longer reproduces on its witness (fixed?)")
        except Exception as e:
            ctx.notes.append(f"replay of {f['id']} failed: {type(e).__name__}: {e}")


def run(ctx: vlib.Ctx):
    ctx.rule = ("documents = corpus + node templates as last node(s) + seeded structured documents (text route and AST route, with META, "
                "frontmatter, grammar sentinel, separator); per document: in-memory / no-seal / reseal / emit-parse-verify, every single-site "
                "mutation of the sealed content (capped per document, every kind kept) re-rendered and read back, every cosmetic style; "
                "a case is non-trivial when the document has at least one node; distinct = distinct documents")
    ctx.translate(PROJECT)
    proj = ctx.lean(PROJECT, PROPS)
    # the seal theorems take "a change of content changes the emitted text" as a hypothesis about the emitter; the text
    # engine proves it for flat documents, block trees, META, sections and list values (C15_*_emit_injective): build and audit those modules too
    ctx.translate("text")
    ctx.lean("text", ["Octave.Props.C01roundtrip", "Octave.Props.C01tree", "Octave.Props.C01meta", "Octave.Props.C01sections", "Octave.Props.C01lists", "Octave.Props.C01ctree", "Octave.Props.C01unified", "Octave.Props.C01document", "Octave.Props.C01master", "Octave.Props.C01maps", "Octave.Props.C01nested", "Octave.Props.C04metanum", "Octave.Props.C15orphantree"], extra_targets=())
    changed = vlib.fingerprints_changed(ctx.prop, ANCHORS)
    if changed:
        ctx.widen = max(ctx.widen, 8)
        ctx.notes.append(f"fingerprint of a modelled function changed ({changed}): search widened")
    findings = vlib.load_findings(ctx.prop)
    by_class = {f["cls"]: f for f in findings}
    replay_findings(ctx, findings)

    cases = build_cases(ctx)
    cases.sort(key=lambda c: 0 if c.get("cli") == "subprocess" else 1)      # expensive cases first, small chunks
    results = vlib.pmap(run_case, cases, chunksize=1 if len(cases) < 400 else 4)

    # ---- correspondence: Lean sealer (externals supplied) vs sealer.py ------------------------------------------
    drv = proj.driver()
    reqs, meta = [], []
    for ci, r in enumerate(results):
        for c in r["corr"]:
            reqs.append(c["req"])
            meta.append((ci, c))
    replies = drv.batch_par(reqs)
    for (ci, c), rep in zip(meta, replies):
        ctx.count("corr:" + c["req"]["op"])
        if "unsupported" in rep:
            # the model asked for an external the harness did not supply = it emits a different document than sealer.py does
            ctx.corr_disagreements.append({"case": {"doc": c["req"]["doc"]}, "view": "externals", "model": rep["unsupported"], "impl": c["impl"]})
            continue
        keys = ("sealed", "verify_sealed", "verify_input", "reseal_equal") if c["req"]["op"] == "seal" else ("status",)
        for k in keys:
            if not same(rep[k], c["impl"][k]):
                if len(ctx.corr_disagreements) < 20:
                    ctx.corr_disagreements.append({"case": {"doc": c["req"]["doc"], "op": c["req"]["op"]}, "view": k, "model": rep[k], "impl": c["impl"][k]})
                else:
                    ctx.corr_disagreements.append({"view": k})
                break
        if c["req"]["op"] == "verify" and rep.get("smuggle_class") != (PM.count_seal_sections(c["req"]["doc"]) >= 2):
            ctx.corr_disagreements.append({"case": {"doc": c["req"]["doc"]}, "view": "class predicate KF_smuggle", "model": rep.get("smuggle_class"), "impl": None})

    # ---- oracle verdicts ----------------------------------------------------------------------------------------------
    for case, r in zip(cases, results):
        doc = case["doc"]
        ctx.case({"doc": doc, "via": case["via"]}, nontrivial=bool(doc["sections"]))
        ctx.count("origin:" + case["origin"])
        if case["origin"] == "lookalike":
            ctx.count("lookalike_position:" + case["fam_pos"])
        ctx.count("strings_lookalike:%d" % min(3, sum(1 for v in PD.doc_values(doc) if v["t"] == "str" and v["v"] in LOOKALIKE_SET)))
        if any(v["t"] == "zone" and v["c"] in LOOKALIKE_ZONES for v in PD.doc_values(doc)):
            ctx.count("has:zone_with_line_boundary_character")
        ctx.count("via:" + case["via"])
        for nm, pred in (("meta", bool(doc["meta"])), ("frontmatter", doc["front"] is not None), ("sentinel", bool(doc["gv"])), ("separator", doc["sep"]),
                         ("section", PD.has_section(doc)), ("zone", PD.has_kind(doc, "zone")), ("holo", PD.has_kind(doc, "holo")), ("list", PD.has_kind(doc, "list")),
                         ("last_is_block", bool(doc["sections"]) and doc["sections"][-1]["n"] == "b"), ("last_is_section", bool(doc["sections"]) and doc["sections"][-1]["n"] == "s"),
                         ("last_is_zone", bool(doc["sections"]) and doc["sections"][-1]["n"] == "a" and doc["sections"][-1]["v"]["t"] == "zone")):
            if pred:
                ctx.count("has:" + nm)
        for k, n in r["counts"].items():
            ctx.count(k, n)
        if r["pre"]:
            ctx.count("skipped:precondition")
            continue
        for c in r["checks"]:
            ctx.count(f"check:{c['clause']}:{'ok' if c['ok'] else 'FAIL'}")
            if c["ok"]:
                continue
            cc = {"clause": c["clause"], "doc": doc, "model": c.get("model", doc)}
            classes = [n for n, f in CLASSES.items() if f(cc)]
            known = [by_class[n] for n in classes if n in by_class]
            if known:
                ctx.known_hits[known[0]["id"]] = ctx.known_hits.get(known[0]["id"], 0) + 1
                continue
            ctx.failures.append({"case": {"doc": doc, "via": case["via"], "clause": c["clause"], "mutation": c.get("kind"), "site": c.get("what"),
                                          "tampered_or_respelled_text": c.get("text"), "styles": c.get("used")},
                                 "why": f"{c['clause']}{'/' + c['kind'] if c.get('kind') else ''}: required {c.get('expected')}, observed {c.get('got')}",
                                 "why_class": f"{c['clause']}:{c.get('kind', '')}"})
    ctx.trusted = ["Lean 4.33.0 kernel; axioms per theorem in coverage.theorems",
                   "tools/gen/project.py (Gen/Sealer.lean: section key/id, child keys, key tests, stored-hash key, statuses)",
                   "correspondence: tools/props/c15.py (sealer.py vs Lean sealer with emit()/SHA-256 supplied per case by the harness as external values)",
                   "the reader (octave_mcp.parse) for turning mutated / respelled texts into documents; a text is judged only when it reads back as the content the generator meant",
                   "modelled, not verified: control flow of sealer.py (validated differentially)"]
    ctx.assumptions = ["emit and SHA-256 are parameters of the theorems (any emitter, any hash); hypotheses: digest has no leading/trailing quote; emitter ignores line/column; "
                       "reader/emitter round trip on the sealed document (C01/C02) and convergence of spellings (C03) are explicit hypotheses of C15_text / C15_cosmetic",
                       "collision-freeness of SHA-256 and injectivity of emit on the pair are hypotheses of C15_tamper_content, not axioms",
                       "comments, the `---` separator and the grammar sentinel are not in the property's list of content changes: not mutated"]
    ctx.extra["known_classes"] = {n: (f.__doc__ or "").strip() for n, f in CLASSES.items()}
