"""C06 — Results depend only on the input: same bytes in, same bytes out, everywhere.

Engine `effects`.  translate (tools/gen/effects.py -> Gen/Effects.lean: regenerated effect summary)
 -> lean build + audit (generic non-interference / serialisability theorems + `decide` facts over the summary)
 -> known findings -> correspondence (dynamic validation of the summary on the real code)
 -> behavioural oracle on the real code: one seeded call stream executed under a matrix of
    (PYTHONHASHSEED x cwd x locale x {fresh process, long-lived process after a shuffled history, asyncio.gather}),
    JSON envelopes compared byte-wise after masking the routing timestamps.
"""
import json
import os
import re
import shutil
import subprocess
import sys
import tempfile
from concurrent.futures import ThreadPoolExecutor
from pathlib import Path

import vlib

sys.path.insert(0, str(vlib.VERIF / "tools"))
from harness import effects_calls  # noqa: E402

PROJECT = "effects"
PROPS = ["Octave.Props.C06"]
WORKER = str(vlib.VERIF / "tools" / "harness" / "effects_worker.py")
ANCHORS = [("octave_mcp/mcp/validate.py", "ValidateTool.execute"), ("octave_mcp/mcp/write.py", "WriteTool.execute"),
           ("octave_mcp/mcp/eject.py", "EjectTool.execute"), ("octave_mcp/mcp/compile_grammar.py", "CompileGrammarTool.execute"),
           ("octave_mcp/schemas/loader.py", None), ("octave_mcp/core/routing.py", None),
           ("octave_mcp/core/validator.py", "Validator.validate"), ("octave_mcp/core/validator.py", "Validator._validate_unknown_fields"),
           ("octave_mcp/core/validator.py", "Validator._validate_section"), ("octave_mcp/core/gbnf_compiler.py", "GBNFCompiler"),
           ("octave_mcp/core/ast_nodes.py", "Absent"), ("octave_mcp/core/constraints.py", "ConstraintChain.__init__"),
           ("octave_mcp/core/hydrator.py", "resolve_hermetic_standard"), ("octave_mcp/core/emitter.py", "emit"),
           ("octave_mcp/core/repair.py", "repair"), ("octave_mcp/core/sealer.py", None), ("octave_mcp/core/projector.py", None),
           ("octave_mcp/mcp/base_tool.py", None), ("octave_mcp/core/parser.py", "Parser.__init__")]

SEEDS = ["0", "1", "4242", "random"]
CWDS = ["repo", "root", "empty", "decoy"]
MODES = ["fresh", "long", "gather"]
ADDR_RE = re.compile(r" object at 0x[0-9a-fA-F]+")

DECOY_DIFFERENT = """===DEBATE_TRANSCRIPT===
META:
  TYPE::SCHEMA
  VERSION::"9.9"
POLICY:
  VERSION::"9.9"
  UNKNOWN_FIELDS::REJECT
FIELDS:
  DECOY_FIELD::["decoy"∧REQ→§INDEXER]
===END===
"""
DECOY_ONLY = """===DECOY_ONLY===
META:
  TYPE::SCHEMA
  VERSION::"1.0"
FIELDS:
  Z::["z"∧REQ]
===END===
"""
FROZEN_TEXT = """===FROZEN_STD===
META:
  TYPE::SCHEMA
  VERSION::"3.0"
POLICY:
  VERSION::"1.0"
  UNKNOWN_FIELDS::WARN
FIELDS:
  NAME::["n"∧REQ]
  STATUS::["ACTIVE"∧OPT∧ENUM[ACTIVE,DRAFT]]
===END===
"""


def locales():
    try:
        have = subprocess.run(["locale", "-a"], capture_output=True, text=True).stdout.split()
    except Exception:
        have = []
    out = ["C", "C.UTF-8"]
    if any(x.lower().replace("-", "") in ("en_us.utf8",) for x in have):
        out.append("en_US.UTF-8")
    return out


# ---------------------------------------------------------------------------------------------
# environment of the experiment
# ---------------------------------------------------------------------------------------------

class Lab:
    """Directories shared by every run of one check: cwd variants, HOME with the frozen cache, sandbox roots."""

    def __init__(self):
        self.base = Path(tempfile.mkdtemp(prefix="c06-", dir="/tmp"))
        src = vlib.SRC / "octave_mcp"
        (self.base / "empty").mkdir()
        dec = self.base / "decoy"
        for sub in (dec / "specs" / "schemas", dec / "src" / "octave_mcp" / "resources" / "specs" / "schemas"):
            sub.mkdir(parents=True)
            # a name the package ships in its FIRST search directory, with different text: the lookup order
            # (package before cwd) is inside the property, so this file must never be the one that is found
            for p in sorted((src / "resources" / "specs" / "schemas").glob("*.oct.md")):
                (sub / p.name).write_text(DECOY_DIFFERENT.replace("DEBATE_TRANSCRIPT", p.name[:-7].upper()), encoding="utf-8")
                (sub / (p.name[:-7].upper() + ".oct.md")).write_text(DECOY_DIFFERENT, encoding="utf-8")
            # names the package ships only in its LAST search directory (schemas/builtin) are found in cwd first;
            # a different text there is a different input (outside the statement) -> identical text
            for p in sorted((src / "schemas" / "builtin").glob("*.oct.md")):
                shutil.copyfile(p, sub / p.name)
            # a name no call uses
            (sub / "decoy_only.oct.md").write_text(DECOY_ONLY, encoding="utf-8")
        self.frozen_ref = "frozen@sha256:" + effects_calls.sha(FROZEN_TEXT)
        self.homes = []
        for i in range(2):
            h = self.base / f"home{i}" / ".octave" / "standards"
            h.mkdir(parents=True)
            (h / (effects_calls.sha(FROZEN_TEXT)[:16] + ".oct.md")).write_text(FROZEN_TEXT, encoding="utf-8")
            (h / "default.oct.md").write_text(FROZEN_TEXT, encoding="utf-8")
            self.homes.append(str(self.base / f"home{i}"))
        self.n_sb = 0

    def cwd(self, kind):
        return {"repo": str(vlib.REPO), "root": "/", "empty": str(self.base / "empty"), "decoy": str(self.base / "decoy")}[kind]

    def sandbox(self):
        self.n_sb += 1
        p = self.base / ("sb%06d" % self.n_sb)      # fixed length, so the path never changes a byte count
        p.mkdir()
        return str(p)

    def close(self):
        shutil.rmtree(self.base, ignore_errors=True)


def worker_env(cfg, lab):
    e = {k: v for k, v in os.environ.items() if not k.startswith(("LC_", "LANG", "PYTHONHASHSEED", "PYTHONUTF8", "PYTHONIOENCODING"))}
    e["PYTHONHASHSEED"] = cfg["seed"]
    e["LANG"] = cfg["locale"]
    e["LC_ALL"] = cfg["locale"]
    e["HOME"] = lab.homes[cfg.get("home", 0)]
    e["PYTHONDONTWRITEBYTECODE"] = "1"
    e["PYTHONPATH"] = str(vlib.SRC)
    return e


def run_worker(cmds, cfg, lab, flags=(), timeout=1800):
    """Start one worker process in configuration cfg, feed it the commands, return the reply lines (parsed)."""
    sb = lab.sandbox()
    data = "".join(json.dumps(c, ensure_ascii=False) + "\n" for c in cmds)
    p = subprocess.run([vlib.PY, WORKER, "--sandbox", sb, *flags], input=data.encode("utf-8"), capture_output=True,
                       cwd=lab.cwd(cfg["cwd"]), env=worker_env(cfg, lab), timeout=timeout)
    shutil.rmtree(sb, ignore_errors=True)
    if p.returncode != 0:
        raise vlib.Infra(f"effects worker exit {p.returncode} in {cfg}: {p.stderr.decode('utf-8', 'replace')[-600:]}")
    return [json.loads(l) for l in p.stdout.decode("utf-8").split("\n") if l]


def strip_call(c):
    return {k: v for k, v in c.items() if k != "flavour"}


def execute(calls, cfg, lab, rng_seed, flags=()):
    """Execute the call stream in configuration cfg; returns ({id: reply}, sites or None).
    fresh : a new process per batch of `cfg['batch']` calls (1 = a cold process per call); with cfg['fork'] = k every call is
            served by its own child process, forked from one of k idle workers that have only imported the package
    long  : ONE process serves a seeded shuffle of all calls, then a second, differently shuffled pass; the reply
            kept for a call is the one of the SECOND pass (its history: every other call and itself), the first
            pass is compared as well
    gather: one process, chunks of calls submitted together with asyncio.gather in one event loop"""
    import random
    rng = random.Random(rng_seed)
    mode = cfg["mode"]
    out, sites = {}, None
    want_sites = "--instrument" in flags
    if mode == "fresh":
        if cfg.get("fork"):
            # every call in a child forked from an idle worker (post-import state, nothing served); `fork` workers in parallel
            k = max(1, cfg["fork"])
            groups = [calls[i::k] for i in range(k) if calls[i::k]]
            verb = "forkcall"
        else:
            b = cfg.get("batch", 1)
            groups = [calls[i:i + b] for i in range(0, len(calls), b)]
            verb = "call"

        def one(g):
            return run_worker([{"cmd": verb, "call": strip_call(c)} for c in g], cfg, lab, flags)
        with ThreadPoolExecutor(vlib.NCPU) as ex:
            for reps in ex.map(one, groups):
                for r in reps:
                    out[r["id"]] = [r]
    elif mode == "long":
        order1 = list(calls)
        rng.shuffle(order1)
        order2 = list(calls)
        rng.shuffle(order2)
        cmds = [{"cmd": "call", "call": strip_call(c)} for c in order1 + order2]
        if want_sites:
            cmds.append({"cmd": "sites"})
        reps = run_worker(cmds, cfg, lab, flags)
        if want_sites:
            sites = reps.pop()
        for r in reps:
            out.setdefault(r["id"], []).append(r)
    else:
        order = list(calls)
        rng.shuffle(order)
        k = cfg.get("chunk", 25)
        cmds = [{"cmd": "gather", "calls": [strip_call(c) for c in order[i:i + k]]} for i in range(0, len(order), k)]
        for r in run_worker(cmds, cfg, lab, flags):
            out[r["id"]] = [r]
    return out, sites


# ---------------------------------------------------------------------------------------------
# the view: what the property compares
# ---------------------------------------------------------------------------------------------

def view(reply, ts_keys, extra_mask=None):
    """Envelope bytes with the routing timestamps masked (only the JSON keys the translator found to receive a
    clock reading, and only inside `routing_log` / `routing` lists) + the files the call left behind."""
    text = reply["out"]
    try:
        env = json.loads(text)
    except Exception:
        return text + "\n" + json.dumps(reply["files"], sort_keys=True)
    bad_ts = []
    if isinstance(env, dict):
        for lk in ("routing_log", "routing"):
            log = env.get(lk)
            if isinstance(log, list):
                for ent in log:
                    if isinstance(ent, dict):
                        for k in ts_keys:
                            if k in ent:
                                if not (isinstance(ent[k], str) and re.fullmatch(r"\d{4}-\d\d-\d\dT\d\d:\d\d:\d\d(\.\d+)?Z", ent[k])):
                                    bad_ts.append(ent[k])
                                ent[k] = "<masked>"
        if extra_mask:
            extra_mask(env)
    return json.dumps(env, indent=2) + ("\nBAD-TIMESTAMP " + repr(bad_ts) if bad_ts else "") + "\n" + json.dumps(reply["files"], sort_keys=True)


# ---------------------------------------------------------------------------------------------
# known findings: none open.  (C06N1 — default object repr of ConstraintChain inside a HolographicValue reached the
# routing value_hash and the markdown projection — was fixed in /repo by commit 0b0d621; its witness lives on in
# corpus/C06/ and is replayed first on every run.)  CLASSES maps `class=` names of open findings to predicates.
# ---------------------------------------------------------------------------------------------

CLASSES = {}


# ---------------------------------------------------------------------------------------------
# the check
# ---------------------------------------------------------------------------------------------

def configs_for(ctx, locs):
    """The matrix.  quick: 6 configurations chosen to pairwise-cover seeds x cwds x locales x modes;
    quick with a broken tie / changed fingerprint: 24 (every seed x cwd pair, modes and locales rotating);
    thorough: the full matrix seeds x cwds x locales x modes."""
    full = [{"seed": s, "cwd": c, "locale": l, "mode": m, "home": (i + j) % 2}
            for i, s in enumerate(SEEDS) for j, c in enumerate(CWDS) for l in locs for m in MODES]
    for f in full:
        if f["mode"] == "fresh":
            f["fork"] = 2
    if ctx.thorough:
        import random
        random.Random(606).shuffle(full)       # a diverse first wave; the order is fixed
        return full
    if ctx.widen > 1:
        sub, idx = [], 0
        for i, s in enumerate(SEEDS):
            for j, c in enumerate(CWDS):
                for m in [MODES[idx % 3]] + ([MODES[(idx + 1) % 3]] if (i + j) % 2 == 0 else []):
                    sub.append({"seed": s, "cwd": c, "locale": locs[(idx + len(sub)) % len(locs)], "mode": m, "home": (i + j) % 2, "fork": 1})
                idx += 1
        # a diverse first wave (all modes, several seeds and cwds); the order is fixed
        import random
        random.Random(607).shuffle(sub)
        return sub
    return [{"seed": "1", "cwd": "root", "locale": "C", "mode": "long", "home": 1},
            {"seed": "4242", "cwd": "decoy", "locale": locs[-1], "mode": "gather", "home": 0},
            {"seed": "random", "cwd": "empty", "locale": "C", "mode": "fresh", "fork": 1, "home": 1},
            {"seed": "random", "cwd": "decoy", "locale": "C.UTF-8", "mode": "long", "home": 0},
            {"seed": "1", "cwd": "empty", "locale": locs[-1], "mode": "gather", "home": 1},
            {"seed": "4242", "cwd": "root", "locale": "C.UTF-8", "mode": "fresh", "fork": 1, "home": 0}]


def cfg_name(c):
    return f"seed={c['seed']},cwd={c['cwd']},locale={c['locale']},mode={c['mode']}"


def run(ctx: vlib.Ctx):
    ctx.rule = ("one seeded stream of tool/API calls over a pool of generated documents; every call is executed in a reference "
                "configuration (fresh process per call) and in every configuration of the matrix; a case = (call, configuration); "
                "non-trivial when the reference envelope is not an input-validation error; distinct = distinct (call, configuration)")
    ctx.translate(PROJECT)
    proj = ctx.lean(PROJECT, PROPS)
    if vlib.fingerprints_changed(ctx.prop, ANCHORS):
        ctx.widen = max(ctx.widen, 8)
        ctx.notes.append("fingerprint of an anchored function changed: search widened")
    gen_text = (vlib.LEAN / PROJECT / "Octave" / "Gen" / "Effects.lean").read_text()
    want_hash = (re.search(r'def genHash : String := "([0-9a-f]+)"', gen_text) or [None, None])[1]
    drv = proj.driver()
    facts = drv.batch([{"op": "facts"}])[0]
    if facts.get("gen_hash") != want_hash:      # the driver binary is older than the regenerated summary: rebuild it
        proj.build(["driver"])
        facts = drv.batch([{"op": "facts"}])[0]
        if facts.get("gen_hash") != want_hash:
            raise vlib.Infra(f"driver binary does not match Gen/Effects.lean ({facts.get('gen_hash')} vs {want_hash})")
    ctx.extra["summary_facts"] = facts
    ctx.n_facts = 0      # the `decide` facts over Gen.summary are theorems of Props/C06 and counted there
    # timestamp keys: read from the generated summary (the only fields the view masks)
    m = re.search(r"def timestampKeys[^\n]*\n\s*\[(.*)\]", gen_text)
    ts_keys = sorted(set(re.findall(r'"routing\.py", "[^"]*", "([^"]+)"\)', m.group(1)))) if m else []
    ts_keys = ts_keys or ["timestamp"]
    ctx.extra["masked_keys"] = ts_keys

    lab = Lab()
    try:
        if not (ctx.replay and replay(ctx, lab, ts_keys)):
            _run(ctx, drv, lab, ts_keys)
    finally:
        lab.close()
    ctx.trusted = ["Lean 4.33.0 kernel; axioms per theorem in coverage.theorems",
                   "tools/gen/effects.py: the syntactic effect analysis (what it lists is what the source contains; unknown cases are listed, "
                   "not dropped); cross-checked dynamically: module/class/tool-instance state snapshots around every call, and an "
                   "instrumented run that reports every iteration over a set object to the Lean policy",
                   "Model/Effects policy (benignWrite / benignEscape / allowedEnv): each entry justified in a comment",
                   "the abstraction itself: a response is a function of the observation; timestamps flow only into masked slots; "
                   "import-time initialisation is configuration-independent (the same scans cover module-level code)",
                   "behavioural matrix: tools/props/c06.py + tools/harness/effects_worker.py (runtime: CPython hash randomisation, locale, event loop are sampled, not proved)",
                   "CPython stdlib / PyYAML / json caches (re cache, …) are semantically transparent"]
    ctx.assumptions = ["file arguments are absolute paths (a relative path names a different file in a different cwd: a different input)",
                       "HOME directories of all configurations hold the same frozen-standard cache (same schema text)",
                       "no file-system faults (temp-file names can appear in E_WRITE messages only then)",
                       "locales: C, C.UTF-8 (+ en_US.UTF-8 when `locale -a` lists it)"]


def _run(ctx, drv, lab, ts_keys):
    import random
    import time
    t0 = time.time()
    phases = ctx.extra.setdefault("phase_seconds", {})

    def lap(name):
        nonlocal t0
        phases[name] = round(time.time() - t0, 1)
        t0 = time.time()
    locs = locales()
    ctx.extra["locales"] = locs
    n = (2400 if ctx.widen > 1 else 2000) if ctx.thorough else (400 if ctx.widen > 1 else 200)
    resources = []
    for p in sorted((vlib.SRC / "octave_mcp").rglob("*.oct.md")):
        if p.stat().st_size < 7000:
            resources.append((p.name, p.read_text(encoding="utf-8")))
    frozen = {"ref": lab.frozen_ref, "text": FROZEN_TEXT}
    calls = effects_calls.gen_calls(random.Random(f"c06-{ctx.seed}"), n, resources[:12], frozen)
    byid = {c["id"]: c for c in calls}
    for c in calls:
        ctx.count("tool:" + c["tool"] + (":" + c["fn"] if c["tool"] == "api" else ""))
        ctx.count("doc:" + c["flavour"])

    # ---- known findings -------------------------------------------------------------------------------
    findings = vlib.load_findings(ctx.prop)
    ref_cfg = {"seed": "0", "cwd": "repo", "locale": "C.UTF-8", "mode": "fresh", "batch": 1, "home": 0}
    for f in findings:
        w = dict(f["witness"], id=900000)
        hist = [strip_call(c) for c in calls[:25]]
        jobs = [([{"cmd": "call", "call": w}], ref_cfg), ([{"cmd": "call", "call": w}], dict(ref_cfg, seed="4242", cwd="root")),
                ([{"cmd": "call", "call": c} for c in hist] + [{"cmd": "call", "call": w}], dict(ref_cfg, seed="1", mode="long"))]
        with ThreadPoolExecutor(3) as ex:
            outs = [view(reps[-1], ts_keys) for reps in ex.map(lambda j: run_worker(j[0], j[1], lab), jobs)]
        cls = CLASSES.get(f["cls"])
        in_class = bool(cls and cls(w))
        if len(set(outs)) > 1 and in_class:
            ctx.known_reproduced.append((f, f"{len(set(outs))} distinct masked envelopes in {len(outs)} runs of the witness"))
        elif not in_class:
            ctx.notes.append(f"witness of {f['id']} is no longer inside its class predicate")
    # ---- corpus: witnesses of past findings, served before anything else -------------------------------------------
    corpus = []
    for p in sorted((vlib.VERIF / "corpus" / ctx.prop).glob("*.json")):
        corpus.append(dict(json.loads(p.read_text()), flavour="corpus:" + p.stem))
    for k, c in enumerate(corpus):
        c["id"] = len(calls) + k
    calls = calls + corpus
    byid = {c["id"]: c for c in calls}
    lap("known-findings")
    # ---- reference run: a fresh process for every call ---------------------------------------------------
    # a fresh process for EVERY call: a cold start (1 s of imports) for the first 24 (quick) / 100 (thorough) calls, for the
    # others a child forked from an idle worker that has imported the package and served nothing
    solo = 100 if ctx.thorough else 24
    ref, _ = execute(calls[:solo], ref_cfg, lab, 0)
    if len(calls) > solo:
        more, _ = execute(calls[solo:], dict(ref_cfg, fork=vlib.NCPU if ctx.thorough else 4), lab, 0)
        ref.update(more)
    ref_view = {}
    for c in calls:
        ref_view[c["id"]] = view(ref[c["id"]][0], ts_keys)
        try:
            env = json.loads(ref[c["id"]][0]["out"])
        except Exception:
            env = {}
        st = "raised" if "__raised__" in env else str(env.get("status", "n/a")) + "/" + str(env.get("validation_status", "n/a"))
        ctx.count("ref:" + st)
        for e in (env.get("errors") or []):
            if isinstance(e, dict):
                ctx.count("ref-error:" + str(e.get("code")))
        if env.get("routing_log") or env.get("routing"):
            ctx.count("ref:has-routing-entries")
        if env.get("repairs") or env.get("corrections"):
            ctx.count("ref:has-repairs-or-corrections")
        if len([w for w in (env.get("warnings") or []) if isinstance(w, dict) and w.get("code") in ("W001", "E007")]) >= 2:
            ctx.count("ref:>=2-unknown-field-reports")
        if ADDR_RE.search(ref[c["id"]][0]["out"]):
            ctx.count("ref:address-in-envelope")
            ctx.failures.append({"case": strip_call(c), "why": "the envelope contains a memory address (default object repr) — it cannot be the same in another process",
                                 "why_class": "address-leak", "observed": ADDR_RE.findall(ref[c["id"]][0]["out"])[:3]})

    lap("reference")
    # ---- the matrix ------------------------------------------------------------------------------------------
    cfgs = configs_for(ctx, locs)
    ctx.extra["configurations"] = [cfg_name(c) for c in cfgs]
    state_changes = {}

    def one_cfg(i_cfg):
        i, cfg = i_cfg
        # state snapshots around every call cost more than the call: every gather configuration (one snapshot per chunk)
        # and every second long-lived configuration take them
        flags = ("--snap",) if cfg["mode"] == "gather" or (cfg["mode"] == "long" and (i % 2 == 0 or not ctx.thorough)) else ()
        return cfg, execute(calls, cfg, lab, f"{ctx.seed}-{i}", flags)[0]
    # the instrumented run (correspondence 2 and 3 below) is independent of the matrix: start it now, join it later
    icfg = {"seed": "random", "cwd": "decoy", "locale": "C", "mode": "long", "home": 0}
    sub = calls if (ctx.thorough or ctx.widen > 1) else calls[: max(60, len(calls) // 2)]
    instr_pool = ThreadPoolExecutor(1)
    instr_future = instr_pool.submit(execute, sub, icfg, lab, f"{ctx.seed}-instr", ("--instrument",))
    # waves: once a wave has produced a failing input there is nothing more to learn from further configurations
    wave = 16 if ctx.thorough else 6
    todo = list(enumerate(cfgs))
    ran, n0 = 0, len(ctx.failures)
    while todo and len(ctx.failures) == n0:
        batch, todo = todo[:wave], todo[wave:]
        with ThreadPoolExecutor(vlib.NCPU) as ex:
            results = list(ex.map(one_cfg, batch))
        ran += len(batch)
        for cfg, out in results:
            compare_cfg(ctx, cfg, out, calls, ref, ref_view, ts_keys, state_changes)
    ctx.extra["configurations_run"] = ran
    if todo:
        ctx.notes.append(f"matrix stopped after {ran} of {len(cfgs)} configurations: a failing input had been found")
    lap("matrix")
    shared_schedules(ctx, lab, ts_keys)
    lap("shared-file schedules")
    # ---- correspondence 1: observed state changes must be listed (and benign) in the summary -----------------------
    keys = sorted(state_changes)
    for key, rep in zip(keys, drv.batch([{"op": "state_change", "file": k[0], "owner": k[1], "name": k[2]} for k in keys])):
        ctx.count("dynamic-state-change:" + ("listed" if rep["listed"] else "UNLISTED"))
        if not rep["listed"] or not rep["benign"]:
            cid, cname = state_changes[key][0]
            ctx.corr_disagreements.append({"case": {"binding": list(key), "first_call": strip_call(byid[cid]), "cfg": cname, "occurrences": len(state_changes[key])},
                                           "model": ("Gen/Effects lists only an alias escape of this binding, which the policy calls benign — refuted" if rep.get("escape_only")
                                                     else "Gen/Effects lists no write to this binding") if not rep["listed"] else "listed but not benign",
                                           "impl": "its deep structural digest changed while the call was served", "view": "module/class/tool-instance state"})
    ctx.extra["dynamic_state_changes"] = [list(k) + [len(v)] for k, v in sorted(state_changes.items())]
    # ---- correspondence 2: every iteration over a set object that really happens is known to the analysis --------------
    iout, mon = instr_future.result()
    instr_pool.shutdown()
    sites = (mon or {}).get("sites") or []
    envsites = (mon or {}).get("envsites") or []
    set_sites = [s for s in sites if s[4] > 0]
    ctx.extra["instrumented_sites_seen"] = len(sites)
    ctx.extra["instrumented_set_iterations"] = [s[:4] + [s[4]] for s in set_sites]
    reps = drv.batch([{"op": "set_site", "file": s[0], "func": s[1], "expr": s[2]} for s in set_sites])
    for s, rep in zip(set_sites, reps):
        ctx.count("dynamic-set-iteration:" + rep["known"])
        if rep["known"] == "unknown":
            ctx.corr_disagreements.append({"case": {"site": s[:4], "times": s[4]}, "model": "not among Gen.unorderedSetIterations / orderInsensitiveSetIterations",
                                           "impl": "a set/frozenset object was consumed here", "view": "set-typed iteration sites"})
    # ---- correspondence 3: every environment-reading callable that is really called is listed in the summary ------------
    ctx.extra["instrumented_env_reads"] = envsites
    reps = drv.batch([{"op": "env_read", "file": e[0], "func": e[1], "kind": e[2]} for e in envsites])
    for e, rep in zip(envsites, reps):
        ctx.count("dynamic-env-read:" + e[2] + ":" + ("listed" if rep["listed"] else "UNLISTED"))
        if not rep["listed"]:
            ctx.corr_disagreements.append({"case": {"site": e[:3], "times": e[3]}, "model": "Gen.envReads has no such read in this function",
                                           "impl": f"a callable that reads the environment ({e[2]}) was called here", "view": "environment reads"})
    for c in sub:     # the instrumented code must behave like the plain code
        for rep in iout[c["id"]]:
            if view(rep, ts_keys) != ref_view[c["id"]]:
                ctx.failures.append({"case": strip_call(c), "why_class": f"differs:{c['tool']}:instrumented",
                                     "why": "masked envelope differs between the reference and the instrumented long-lived run (seed=random, cwd=decoy, locale=C)",
                                     "configuration": icfg, "reference": ref_view[c["id"]][:3000],
                                     "observed": view(rep, ts_keys)[:3000]})
    lap("instrumented")
    ctx.extra["calls"] = len(calls)
    # no finding is open for C06, so there is no class to put a failure in: every failure is reported
    ctx.failures = dedupe_failures(ctx.failures)


SHARED_CFG = {"seed": "0", "cwd": "repo", "locale": "C.UTF-8", "mode": "gather", "home": 0}


def shared_groups(rng, n):
    """groups of 2-4 tool calls that all name ONE existing file: amendments of different keys, re-normalisation,
    overwrite, validation of the file.  Submission order is part of the input."""
    groups = []
    for g in range(n):
        doc, _flav = effects_calls.gen_doc(rng)
        tp = "$SB/out/t.oct.md"
        calls = []
        keys = ["A", "STATUS", "META.STATUS", "META.NEW", "COUNT", "ZED", "NAME", "OWNER"]
        rng.shuffle(keys)
        for j in range(rng.randrange(2, 5)):
            r = rng.random()
            if r < .55:
                a = {"target_path": tp, "changes": {keys[j]: effects_calls.pick(rng, ["x", 5, True, ["a", "b"], "two words", 1.5, {"$op": "DELETE"}])}}
                tool = "write"
            elif r < .7:
                a, tool = {"target_path": tp}, "write"                       # normalize mode
            elif r < .8:
                a, tool = {"target_path": tp, "content": effects_calls.gen_doc(rng)[0]}, "write"
            else:
                a, tool = {"file_path": tp, "schema": "META"}, "validate"
            if tool == "write" and rng.random() < .3:
                a["lenient"] = True
            calls.append({"id": 700000 + g * 10 + j, "tool": tool, "args": a})
        calls[0]["files"] = {"out/t.oct.md": doc}
        groups.append(calls)
    return groups


def shared_view(rep, ts_keys):
    texts = json.loads(rep["out"])
    return [view({"out": t, "files": {}}, ts_keys) for t in texts], rep.get("left")


def run_shared(group, lab, ts_keys):
    seq, par = run_worker([{"cmd": "shared", "how": "seq", "calls": group}, {"cmd": "shared", "how": "gather", "calls": group}], SHARED_CFG, lab)
    return shared_view(seq, ts_keys), shared_view(par, ts_keys)


def shared_schedules(ctx, lab, ts_keys, groups=None):
    """sequential versus concurrently scheduled calls on the SAME file: the envelopes, in submission order, and the bytes
    left on disk must not depend on whether the calls were awaited one after the other or submitted together."""
    import random
    if groups is None:
        groups = shared_groups(random.Random(f"c06-shared-{ctx.seed}"), ctx.budget(48, 400))

    def one(g):
        return g, run_shared(g, lab, ts_keys)
    with ThreadPoolExecutor(vlib.NCPU) as ex:
        results = list(ex.map(one, groups))
    for g, ((seq_out, seq_left), (par_out, par_left)) in results:
        ctx.case({"shared": [c["id"] for c in g]}, nontrivial=any('"status": "success"' in t for t in seq_out))
        ctx.count("shared-group:" + "+".join(sorted({("amend" if "changes" in c["args"] else "overwrite" if "content" in c["args"] else "normalize")
                                                      if c["tool"] == "write" else c["tool"] for c in g})))
        if seq_out != par_out or seq_left != par_left:
            k = next((i for i, (a, b) in enumerate(zip(seq_out, par_out)) if a != b), None)
            ctx.failures.append({
                "case": {"shared": g}, "why_class": "differs:shared-file:gather",
                "why": "calls naming one file give different " + ("envelopes" if k is not None else "final file bytes")
                       + " when submitted together with asyncio.gather than when awaited one after the other in the same order",
                "sequential": {"envelopes": [t[:1500] for t in seq_out], "left": seq_left},
                "gathered": {"envelopes": [t[:1500] for t in par_out], "left": par_left},
                "first_difference": first_diff(seq_out[k], par_out[k]) if k is not None else first_diff(json.dumps(seq_left), json.dumps(par_left))})


def compare_cfg(ctx, cfg, out, calls, ref, ref_view, ts_keys, state_changes):
    name = cfg_name(cfg)
    for c in calls:
        reps = out.get(c["id"])
        if not reps:
            raise vlib.Infra(f"no reply for call {c['id']} in {name}")
        for k, rep in enumerate(reps):
            case = {"call": c["id"], "cfg": name, "pass": k}
            ctx.case(case, nontrivial='"E_INPUT"' not in ref[c["id"]][0]["out"])
            got = view(rep, ts_keys)
            if got != ref_view[c["id"]]:
                ctx.failures.append({
                    "case": strip_call(c), "why_class": f"differs:{c['tool']}:{cfg['mode']}",
                    "why": f"masked envelope differs between the reference (fresh process, seed=0, cwd=repo, locale=C.UTF-8) and {name}"
                           + (f" (pass {k + 1} of the long-lived process)" if cfg["mode"] == "long" else ""),
                    "configuration": cfg, "reference": ref_view[c["id"]][:3000], "observed": got[:3000],
                    "first_difference": first_diff(ref_view[c["id"]], got)})
            for ch in rep.get("changed") or []:
                state_changes.setdefault((ch["file"], ch["owner"], ch["name"]), []).append((c["id"], name))
    ctx.count("cfg-mode:" + cfg["mode"])


def replay(ctx, lab, ts_keys):
    """--replay f : re-execute exactly the failing call of f on the current tree — once in the reference
    configuration (fresh process) and once in the recorded configuration (for the long-lived / gather modes
    together with 200 other calls regenerated from the recorded seed); a shared-file group is re-run sequentially and gathered."""
    import random
    data = json.loads(Path(ctx.replay).read_text())
    case, cfg = data.get("case"), data.get("configuration")
    if isinstance(case, dict) and "shared" in case:
        shared_schedules(ctx, lab, ts_keys, [case["shared"]])
        ctx.notes.append(f"replayed {ctx.replay}: {'still fails' if ctx.failures else 'no longer fails'}")
        return True
    if not (isinstance(case, dict) and "tool" in case and isinstance(cfg, dict)):
        ctx.notes.append("replay file holds no failing call (tie-broken): running the full check instead")
        return False
    case = dict(case, id=500000)
    others = [dict(strip_call(c), id=c["id"] + 1) for c in
              effects_calls.gen_calls(random.Random(f"c06-{data.get('seed', 0)}"), 200, [], {"ref": lab.frozen_ref, "text": FROZEN_TEXT})]
    ref_cfg = {"seed": "0", "cwd": "repo", "locale": "C.UTF-8", "mode": "fresh", "batch": 1, "home": 0}
    want = view(run_worker([{"cmd": "call", "call": case}], ref_cfg, lab)[0], ts_keys)
    rng = random.Random(f"replay-{data.get('seed', 0)}")
    if cfg["mode"] == "fresh":
        reps = run_worker([{"cmd": "call", "call": case}], cfg, lab)
    elif cfg["mode"] == "long":
        a, b = list(others), list(others)
        rng.shuffle(a)
        rng.shuffle(b)
        cmds = [{"cmd": "call", "call": c} for c in a] + [{"cmd": "call", "call": case}] + [{"cmd": "call", "call": c} for c in b] + [{"cmd": "call", "call": case}]
        reps = [r for r in run_worker(cmds, cfg, lab) if r["id"] == case["id"]]
    else:
        chunk = others[:24] + [case]
        rng.shuffle(chunk)
        reps = [r for r in run_worker([{"cmd": "gather", "calls": chunk}], cfg, lab) if r["id"] == case["id"]]
    for k, rep in enumerate(reps):
        got = view(rep, ts_keys)
        ctx.case({"replay": ctx.replay, "pass": k})
        if got != want:
            ctx.failures.append({"case": strip_call(case), "why_class": f"differs:{case['tool']}:{cfg['mode']}",
                                 "why": f"(replay) masked envelope differs between the reference configuration and {cfg_name(cfg)}",
                                 "configuration": cfg, "reference": want[:3000], "observed": got[:3000], "first_difference": first_diff(want, got)})
    ctx.notes.append(f"replayed {ctx.replay}: {'still fails' if ctx.failures else 'no longer fails'}")
    return True


def first_diff(a, b):
    i = next((k for k, (x, y) in enumerate(zip(a, b)) if x != y), min(len(a), len(b)))
    return {"offset": i, "reference": a[max(0, i - 80): i + 120], "observed": b[max(0, i - 80): i + 120]}


def dedupe_failures(fs):
    seen, out = set(), []
    for f in fs:
        k = (json.dumps(f["case"], sort_keys=True, default=str), f.get("why_class"))
        if k not in seen:
            seen.add(k)
            out.append(f)
    # smallest inputs first: the replay that is written is the easiest one to read
    out.sort(key=lambda f: len(json.dumps(f["case"], default=str)))
    return out
