"""C09 — Validity is invariant under respelling; validating never alters content.

Engine `validator`.  translate -> lean build + audit -> correspondence (Lean `Validator.validate` vs real
`Validator.validate`: ordered list of (code, field path)) -> oracle: for every (schema, instance) the
document, each lenient respelling, its canonical text and the canonical text of that receive the same
(validation status, {(code, field)}) under each of the four profiles, through the Validator API,
octave_validate, octave_write(schema=…) and `octave validate`; with fix off the canonical text returned
equals plain canonicalisation, validating twice gives the same answer, and `validate` leaves its
argument untouched (deep fingerprint of the AST before/after).
"""
import copy
import json
import sys
import subprocess
import re
import hashlib
import os

import vlib
from harness import validator_lib as H

PROJECT = "validator"
PROPS = ["Octave.Props.C09", "Octave.Props.C09other"]
V = "octave_mcp/core/validator.py"
ANCHORS = [(V, "Validator._to_python_value"), (V, "Validator.validate"), (V, "Validator._validate_section"), (V, "Validator._validate_unknown_fields"),
           (V, "Validator._validate_meta"), (V, "UnknownFieldPolicy"), ("octave_mcp/core/routing.py", "TargetRegistry"),
           ("octave_mcp/core/routing.py", "TargetRouter.route"), ("octave_mcp/core/routing.py", "TargetRouter.parse_target_spec"),
           ("octave_mcp/core/schema_extractor.py", "extract_block_targets"), ("octave_mcp/core/schema_extractor.py", "_extract_targets_recursive"),
           ("octave_mcp/core/schema_extractor.py", "InheritanceResolver"), ("octave_mcp/core/constraints.py", "ConstraintChain.evaluate"),
           ("octave_mcp/core/constraints.py", "ConstraintChain.detect_conflicts"), ("octave_mcp/core/constraints.py", "EnumConstraint"),
           ("octave_mcp/core/constraints.py", "TypeConstraint"), ("octave_mcp/core/constraints.py", "RequiredConstraint"),
           ("octave_mcp/mcp/validate.py", "ValidateTool.execute"), ("octave_mcp/mcp/write.py", "WriteTool.execute"),
           ("octave_mcp/cli/main.py", "validate"), ("octave_mcp/schemas/loader.py", "load_schema_by_name")]
PROFILES = ["STRICT", "STANDARD", "LENIENT", "ULTRA"]

_SD_CACHE = {}


def get_sd(name, text):
    if name not in _SD_CACHE:
        _SD_CACHE[name] = H.load_schema_text(text)
    return _SD_CACHE[name]


def jtree(t):
    return json.loads(json.dumps(t, default=str))


def api_validate(sd, name, doc, strict):
    from octave_mcp.core.validator import Validator
    from octave_mcp.schemas.loader import get_builtin_schema
    v = Validator(schema=get_builtin_schema(name))
    errs = v.validate(doc, strict=strict, section_schemas={sd.name: sd} if sd.fields else None)
    return [(e.code, e.field_path) for e in errs]


def tool_view(r):
    errs = list(r.get("validation_errors") or []) + [w for w in (r.get("warnings") or []) if isinstance(w, dict) and "field" in w]
    return [r.get("status"), r.get("validation_status"), [list(x) for x in H.verdict_set(errs)]]


def ext_table(sd, doc, ext_ids, js):
    """verdicts of the constraints modelled as `ext i` on the values the validator will hand them."""
    from octave_mcp.core.ast_nodes import Assignment, Block
    from octave_mcp.core.validator import Validator
    v = Validator()
    tab = []
    for sec in doc.sections:
        if isinstance(sec, Block) and sec.key == sd.name:
            present = {}
            for ch in sec.children:
                if isinstance(ch, Assignment):
                    present[ch.key] = v._to_python_value(ch.value)
            for (fname, fj) in js["fields"]:
                val = present.get(fname)
                if fj is None or fj.get("c") is None or val is None:
                    continue
                for cj in fj["c"]["cs"]:
                    if cj["k"] == "EXT":
                        try:
                            res = ext_ids[cj["id"]].evaluate(val, f"{sec.key}.{fname}")
                            code = None if res.valid else res.errors[0].code
                        except Exception as e:
                            code = "RAISE:" + type(e).__name__
                        tab.append([cj["id"], H.enc_pyval(val), code])
    return tab


def meta_errs(name, doc, strict):
    from octave_mcp.core.validator import Validator
    from octave_mcp.schemas.loader import get_builtin_schema
    sdict = get_builtin_schema(name)
    if not sdict or "META" not in sdict or not doc.meta:
        return []
    v = Validator(schema=sdict)
    v.errors = []
    v._validate_meta(doc.meta, strict)
    return [[e.code, e.field_path] for e in v.errors]


def zone_in_meta(doc) -> bool:
    """class of F42: the META block of the parsed document holds a literal zone (at any depth)."""
    from octave_mcp.core.ast_nodes import InlineMap, ListValue, LiteralZoneValue

    def has(v):
        if isinstance(v, LiteralZoneValue):
            return True
        if isinstance(v, ListValue):
            return any(has(x) for x in v.items)
        if isinstance(v, InlineMap):
            return any(has(x) for x in v.pairs.values())
        return False
    return any(has(v) for v in (doc.meta or {}).values())


def c09_case(args):
    """one (schema, instance) pair: all texts x all observers.  Returns anomalies + the correspondence request."""
    name, schema_text, tree, meta, respell_ids, with_cli, idx = args
    sd = get_sd(name, schema_text)
    an, dist = [], {}
    texts = [("T0", H.render_doc(tree, meta, H.Spelling(**H.CANONICAL_SPELLING)))]
    for i in respell_ids:
        texts.append((f"R{i}", H.render_doc(tree, meta, H.Spelling(**{**H.CANONICAL_SPELLING, **H.RESPELLINGS[i]}))))
    try:
        d0 = H.parse_text(texts[0][1])
    except Exception as e:
        return {"idx": idx, "skip": f"T0 unparseable: {type(e).__name__}", "an": [], "dist": {}, "skip_detail": str(e)[:200]}
    try:
        tc = H.emit_doc(copy.deepcopy(d0))
        texts.append(("canonical", tc))
        texts.append(("canonical2", H.emit_doc(H.parse_text(tc))))
    except Exception as e:
        an.append(("canonical", f"canonical text of the instance cannot be produced/re-read: {type(e).__name__}: {e}"))
    base = {}
    req = None
    zone_meta = zone_in_meta(d0)
    for (tag, text) in texts:
        views = {}
        try:
            doc = H.parse_text(text)
        except Exception as e:
            an.append(("respell-parse", f"{tag}: spelling rejected by the parser: {type(e).__name__}: {str(e)[:120]}"))
            continue
        # Validator API (+ read-only check by deep fingerprint)
        for strict in (False, True):
            fp0 = H.deep_fingerprint(doc)
            try:
                views[f"api:strict={strict}"] = sorted(set(api_validate(sd, name, doc, strict)))
            except Exception as e:
                an.append(("raise", f"{tag}: Validator.validate raised {type(e).__name__}: {e}"))
                continue
            if H.deep_fingerprint(doc) != fp0:
                an.append(("mutated", f"{tag}: Validator.validate(strict={strict}) modified its argument"))
        # octave_validate, all profiles
        plain = H.emit_doc(copy.deepcopy(doc))
        for p in PROFILES:
            try:
                r = H.run_validate_tool(content=text, schema=name, profile=p, fix=False)
                r2 = H.run_validate_tool(content=text, schema=name, profile=p, fix=False)
            except Exception as e:
                an.append(("raise", f"{tag}: octave_validate raised {type(e).__name__}: {e}"))
                continue
            views[f"octave_validate:{p}"] = tool_view(r)
            if (tool_view(r), r.get("canonical")) != (tool_view(r2), r2.get("canonical")):
                an.append(("twice", f"{tag}/{p}: validating twice gave different answers"))
            if r.get("status") == "success" and r.get("canonical") != plain:
                an.append(("readonly", f"{tag}/{p}: fix=false canonical differs from emit(parse(input))"))
            if any(isinstance(e, dict) and e.get("tier") == "REPAIR" for e in r.get("repairs") or []):
                an.append(("readonly", f"{tag}/{p}: fix=false reported schema repairs"))
            dist["status:" + str(r.get("validation_status"))] = dist.get("status:" + str(r.get("validation_status")), 0) + 1
        # octave_write(schema=…), dry run
        for lenient in (False, True):
            try:
                r = H.run_write_tool(target_path=os.path.abspath(os.path.join("out", f"c09_{idx}.oct.md")), content=text, schema=name,
                                     corrections_only=True, lenient=lenient)
                views[f"octave_write:lenient={lenient}"] = [r.get("status"), r.get("validation_status"),
                                                            [list(x) for x in H.verdict_set(r.get("validation_errors") or [])]]
            except Exception as e:
                an.append(("raise", f"{tag}: octave_write raised {type(e).__name__}: {e}"))
        if with_cli:
            f = os.path.abspath(os.path.join("out", f"c09cli_{idx}_{tag}.oct.md"))
            open(f, "w", encoding="utf-8").write(text)
            rc, o, e = H.run_cli(["validate", "--schema", name, f], os.getcwd())
            _c, st = H.cli_split(o)
            # view = exit code, status, error *codes* (the message text is not part of the property; for list
            # values it contains the dataclass repr with token positions)
            views["cli"] = [rc, st, sorted(set(l.strip().split(":")[0] for l in e.splitlines() if l.strip()))]
        if tag == "T0":
            base = views
            for code, _f in views.get("api:strict=False", []):
                dist["code:" + str(code)] = dist.get("code:" + str(code), 0) + 1
            # correspondence request (model vs Validator.validate on T0's AST), both strictness values
            ext_ids = []
            js = H.enc_schema(sd, ext_ids)
            jd = H.enc_doc(doc)
            if not H.has_surrogate(jd):
                req = []
                for strict in (False, True):
                    impl = api_validate(sd, name, doc, strict)
                    req.append(({"op": "validate", "strict": strict, "schemas": [js] if sd.fields else None, "doc": jd,
                                 "env": H.make_env(jd, js), "ext": ext_table(sd, doc, ext_ids, js), "meta": meta_errs(name, doc, strict), "fm": []},
                                [[c, p] for c, p in impl]))
        else:
            for k, v in views.items():
                if k in base and base[k] != v:
                    an.append(("respell", f"{tag} vs T0 through {k}: {v} != {base[k]}"))
    return {"idx": idx, "an": an, "dist": dist, "req": req, "ntexts": len(texts), "zone_meta": zone_meta}


def replay(ctx, proj, findings):
    """--replay f: re-execute exactly the stored case on the current tree and on the model."""
    rj = json.loads(open(ctx.replay).read())
    case = rj["case"]
    if "schema_text" not in case:
        raise vlib.Infra("replay file has no schema/instance case (tie-broken replays name theorems, not inputs)")
    wd = H.Workdir("c09r")
    try:
        name = case["schema"]
        wd.add_schema_text(name, case["schema_text"])
        wd.enter()
        ctx.case(case)
        r = c09_case((name, case["schema_text"], H.to_tuples(case["tree"]), [tuple(x) for x in case.get("meta", [])],
                      case.get("respellings", list(range(len(H.RESPELLINGS)))), True, 0))
        for kind, why in r.get("an", []):
            if r.get("zone_meta") and "F42" in findings and (kind == "canonical" or (kind == "respell-parse" and why.startswith("canonical"))):
                ctx.known_hits["F42"] = ctx.known_hits.get("F42", 0) + 1
                continue
            ctx.failures.append({"case": case, "why": why, "why_class": kind})
        drv = proj.driver()
        for (rq, impl) in (r.get("req") or []):
            rep = drv.batch([rq])[0]
            if "unsupported" not in rep and rep["errs"] != impl:
                ctx.corr_disagreements.append({"case": case, "model": rep["errs"], "impl": impl, "view": "ordered list of (code, field_path)"})
    finally:
        wd.leave()



# --- the text engine's erasure (Lemmas/ContentErase.lean) mirrors the validator engine's (Model/Value.lean, Model/Doc.lean) ---------
# The two ASTs live in separate lake projects, so `C09_respell_invariant` (text engine) takes "validate is a function of content" as the
# hypothesis `hcontent`, which the validator engine proves (`C09_congr`, `C09_content_normal`) for ITS `Doc.content`.  That the two
# erasures erase the same things was established by reading them side by side; both sides are pinned here so that an edit to either
# one breaks the tie (audit problem) until the mirror has been re-read and the pin renewed.
ERASE_MIRROR_PIN = "cb12053cd650f83d"


def _ws(s):
    return re.sub(r"\s+", " ", s).strip()


def erase_mirror_digest():
    vdoc = open(os.path.join(vlib.VERIF, "lean", "validator", "Octave", "Model", "Doc.lean")).read()
    vval = open(os.path.join(vlib.VERIF, "lean", "validator", "Octave", "Model", "Value.lean")).read()
    tce = open(os.path.join(vlib.VERIF, "lean", "text", "Octave", "Lemmas", "ContentErase.lean")).read()
    parts = []
    i = vval.index("def erase : Val → Val"); parts.append(_ws(vval[i:vval.index("end", i)]))
    i = vdoc.index("def erase : Node → Node"); parts.append(_ws(vdoc[i:vdoc.index("end", i)]))
    i = vdoc.index("def erasePairs : List (Str × Val)"); parts.append(_ws(vdoc[i:vdoc.index("def skeleton (d : Doc)", i)]))
    for m in re.finditer(r"-- BEGIN COPY (.*?)\n(.*?)-- END COPY", tce, re.S):
        parts.append(_ws(m.group(2)))
    i = tce.index("namespace MetaVal"); parts.append(_ws(tce[i:tce.index("end MetaVal", i)]))
    return hashlib.sha256("|".join(parts).encode()).hexdigest()[:16]

def run(ctx: vlib.Ctx):
    ctx.rule = ("case = (schema, instance tree); each case is observed through T0, k respellings, canonical, canonical-of-canonical x "
                "{Validator API strict/non-strict, octave_validate x 4 profiles, octave_write lenient/strict dry-run, CLI (thorough)}; "
                "instances: every hand schema x every field x every perturbation of that field (text-safe), plus seeded random instances of "
                "hand and random schemas; non-trivial = the instance contains the schema's block; distinct = distinct (schema, tree)")
    # the respelling clause: two spellings of one document are read as documents with the SAME CONTENT (text engine, every document of
    # the flat / tree / indentation / list-layout / alias / multi-word families), composed with an abstract content-only validator
    # (the text translator re-imports octave_mcp freshly, which would split class identities under this module's harness: run it apart)
    tr = subprocess.run([sys.executable, os.path.join(str(vlib.VERIF), "tools", "translate.py"), "text"], capture_output=True, text=True, env=dict(os.environ))
    if tr.returncode != 0 or not tr.stdout.strip().endswith(", [])"):
        ctx.broken.append({"file": "tools/translate.py", "line": 0, "decl": "translator text", "msg": (tr.stdout + tr.stderr)[-300:]})
    ctx.lean("text", ["Octave.Props.C09respell", "Octave.Props.C09respellU", "Octave.Props.C09respellV", "Octave.Props.C15orphantree"], extra_targets=())
    dg = erase_mirror_digest()
    if dg != ERASE_MIRROR_PIN:
        ctx.audit_problems.append(f"the erasure of the text engine (Lemmas/ContentErase.lean) or of the validator engine (Model/Value.lean, Model/Doc.lean) "
                                  f"changed (digest {dg}, pinned {ERASE_MIRROR_PIN}): the mirror must be re-read before C09_respell_invariant composes with C09_congr")
    ctx.translate(PROJECT)
    proj = ctx.lean(PROJECT, PROPS)
    if vlib.fingerprints_changed(ctx.prop, ANCHORS):
        ctx.widen = max(ctx.widen, 8)
        ctx.notes.append("fingerprint of a modelled function changed: search widened")
    findings = {f["id"]: f for f in vlib.load_findings(ctx.prop)}
    if ctx.replay:
        return replay(ctx, proj, findings)
    drv = proj.driver()
    rng = ctx.rng
    wide = ctx.thorough or ctx.widen > 1
    wd = H.Workdir("c09")
    try:
        specs = [H.schema_spec(s) for s in H.HAND_SCHEMAS]
        for i in range(ctx.budget(4, 10)):
            specs.append(H.schema_spec(H.random_schema(rng, i)))
        texts = {s["name"]: wd.add_schema(s) for s in specs}
        wd.enter()
        sds = {n: get_sd(n, t) for n, t in texts.items()}
        hand_names = [h["name"] for h in H.HAND_SCHEMAS]
        for fid, f in findings.items():
            if f["cls"] == "zone_in_meta":
                try:
                    H.parse_text(H.emit_doc(H.parse_text(f["witness"]["text"])))
                except Exception as e:
                    ctx.known_reproduced.append((f, f"canonical text rejected: {type(e).__name__}"))
        cases = []
        for cf in sorted((vlib.VERIF / "corpus" / ctx.prop).glob("*.json")):       # corpus first
            cj = json.loads(cf.read_text())
            cases.append((cj["schema"], H.to_tuples(cj["tree"]), [tuple(x) for x in cj.get("meta", [])]))
            ctx.count("corpus")
        for name in [s["name"] for s in specs]:
            sd = sds[name]
            metas = [[("TYPE", "X"), ("VERSION", "1")], [("TYPE", "X")], [("TYPE", "X"), ("VERSION", "1"), ("STATUS", "active"), ("EXTRA", "y")], []]
            for fname, fd in sd.fields.items():
                vals = [v for v in H.field_value_pool(fd, api=False) if H.text_safe(v)]
                k = min(len(vals), 30) if (wide and name in hand_names) else ctx.budget(5, 8)
                prio = [v for v in H.priority_values(fd) if H.text_safe(v)]
                for v in prio + (vals if k >= len(vals) else rng.sample(vals, k)):
                    t = H.doc_one_field(sd, fname, v, nested=rng.random() < 0.3, second_block=rng.random() < 0.15)
                    m = rng.choice(metas)
                    if H.tree_text_safe(t):
                        cases.append((name, t, m))
                    else:
                        ctx.count("skip:generator-restriction")
            for _ in range(ctx.budget(12, 50) if name in hand_names else ctx.budget(4, 10)):
                t = H.random_doc(rng, sd, api=False)
                if H.tree_text_safe(t):
                    cases.append((name, t, rng.choice(metas)))
        jobs = []
        for i, (name, tree, meta) in enumerate(cases):
            nresp = 5 if wide else 4
            ids = sorted(rng.sample(range(len(H.RESPELLINGS)), nresp))
            with_cli = wide and rng.random() < 0.04
            jobs.append((name, texts[name], tree, meta, ids, with_cli, i))
        results = vlib.pmap(c09_case, jobs)
        reqs, impls, rcases = [], [], []
        for job, r in zip(jobs, results):
            name, _t, tree, meta, ids, with_cli, i = job
            case = {"schema": name, "schema_text": texts[name], "tree": jtree(tree), "meta": jtree(meta), "respellings": ids}
            ctx.case(case, nontrivial=name in json.dumps(case["tree"]))
            if r.get("skip"):
                ctx.count("skip:" + r["skip"][:40])
                ctx.extra.setdefault("skipped", [])
                if len(ctx.extra["skipped"]) < 5:
                    ctx.extra["skipped"].append({"case": case, "detail": r.get("skip_detail")})
                continue
            ctx.count("texts", r.get("ntexts", 0))
            if with_cli:
                ctx.count("cli_cases")
            for k, n in r["dist"].items():
                ctx.count(k, n)
            for kind, why in r["an"]:
                if r.get("zone_meta") and "F42" in findings and (kind == "canonical" or (kind == "respell-parse" and why.startswith("canonical"))):
                    ctx.known_hits["F42"] = ctx.known_hits.get("F42", 0) + 1
                    continue
                ctx.failures.append({"case": case, "why": why, "why_class": kind})
            for (rq, impl) in (r.get("req") or []):
                reqs.append(rq)
                impls.append(impl)
                rcases.append(case)
        for case, impl, rep in zip(rcases, impls, drv.batch_par(reqs)):
            if "unsupported" in rep:
                ctx.count("model_unsupported")
                continue
            if any(c == "EXT-MISSING" for c, _p in rep["errs"]):
                ctx.count("model_ext_missing")
                ctx.corr_disagreements.append({"case": case, "model": rep["errs"], "impl": impl, "view": "external verdict table incomplete"})
                continue
            if rep["errs"] != impl:
                ctx.corr_disagreements.append({"case": case, "model": rep["errs"], "impl": impl, "view": "ordered list of (code, field_path)"})
        ctx.extra["correspondence_cases"] = len(reqs)
    finally:
        wd.leave()
    ctx.trusted = ["Lean 4.33.0 kernel; axioms per theorem in coverage.theorems",
                   "tools/gen/validator.py (Gen/Tools: stage skeleton of ValidateTool.execute; Gen/ReadOnly: static store scan of the validator)",
                   "correspondence: tools/props/c09.py (Lean Validator.validate vs Validator.validate, ordered (code, field) lists)",
                   "modelled, not verified: control flow of validator.py/routing.py; external: verdicts of constraint kinds other than REQ/OPT/ENUM/TYPE, "
                   "_validate_meta, validate_frontmatter (supplied per case by the harness from the implementation)"]
    ctx.assumptions = ["the respeller (tools/harness/validator_lib.Spelling) only produces spellings the grammar defines as equivalent",
                       "HolographicValue objects inside *instance* documents are opaque to the model (`Val.other`)"]
