"""C18 — Absent, null and value stay distinct; changes touch only named keys (I2).

Engine `changes` (lean/changes).  Protocol: translate -> lean build + audit -> known findings ->
correspondence (Lean `applyRequest` / `emitText` / `pruneDoc` vs the real `_apply_changes` /
`_apply_mutations` / `emit`) -> oracles on the real code (WriteTool.execute and the CLI on temp files,
Absent at every emission site, tri-state texts) -> verdict / evidence.
"""
import copy
import json
import random
import subprocess
import tempfile
from pathlib import Path

import vlib
from harness import changes_h as H

PROJECT = "changes"
PROPS = ["Octave.Props.C18"]
W, E, A_, C = "octave_mcp/mcp/write.py", "octave_mcp/core/emitter.py", "octave_mcp/core/ast_nodes.py", "octave_mcp/cli/main.py"
ANCHORS = [(W, "_is_delete_sentinel"), (W, "_normalize_value_for_ast"), (W, "WriteTool._apply_changes"), (W, "WriteTool._apply_mutations"),
           (W, "WriteTool.execute"), (A_, "Absent"), (A_, "Assignment"), (A_, "ListValue"), (A_, "InlineMap"), (A_, "Document"),
           (E, "is_absent"), (E, "emit"), (E, "emit_meta"), (E, "emit_block"), (E, "emit_section"), (E, "emit_assignment"),
           (E, "emit_value"), (E, "_emit_multiline_list"), (E, "_needs_multiline"), (E, "_force_quote_inline_map_value"),
           (E, "_emit_leading_comments"), (E, "_emit_trailing_comment"), (E, "emit_comment"), (C, "write")]

TRISTATE_SITES = ["top", "block", "section", "meta", "meta_nested", "list", "map"]


def _norm(x):
    return json.loads(json.dumps(x, ensure_ascii=False))


def value_kind(v):
    if H.is_delete(v):
        return "DELETE"
    if v is None:
        return "null"
    if isinstance(v, bool):
        return "bool"
    if isinstance(v, int):
        return "int"
    if isinstance(v, float):
        return "float"
    if isinstance(v, str):
        return "str:empty" if v == "" else "str"
    if isinstance(v, list):
        if not v:
            return "list:empty"
        return "list:multiline" if (len(v) >= 3 or any(isinstance(x, (list, dict)) for x in v)) else "list"
    if isinstance(v, dict):
        return "map:nested" if H.has_nested_map(v) else "map"
    return "other"


def count_request(ctx, rq, entry):
    ch = rq["changes"]
    if not ch and not rq.get("mutations"):
        ctx.count(f"{entry}:request:omit-all")
    for k, v in ch.items():
        where = "META.X" if k.startswith("META.") else ("META{}" if k == "META" and isinstance(v, dict) else "top")
        if where == "META{}" and not H.is_delete(v):
            for mv in v.values():
                ctx.count(f"{entry}:op:META{{}}:{value_kind(mv)}")
        else:
            ctx.count(f"{entry}:op:{where}:{value_kind(v)}")
    for v in (rq.get("mutations") or {}).values():
        ctx.count(f"{entry}:op:mutation:{value_kind(v)}")


def classify(findings, case, step):
    for f in findings:
        pred = H.CLASSES.get(f["cls"])
        if pred is not None and pred(case, step):
            return f
    return None


# ---- known findings ---------------------------------------------------------------------------

def replay_witness(f):
    """-> detail string when the witness still fails in the recorded way, else None."""
    w = f["witness"]
    if w.get("kind") == "absent":
        r = H.work_absent(w)
        return r["why"][:160] if r["status"] == "fail" else None
    if w.get("entry") == "cli" and w.get("subprocess"):
        # through the real executable (the in-process CliRunner is used for the bulk)
        with tempfile.TemporaryDirectory(prefix="c18-kf-") as td:
            p = Path(td) / "f.oct.md"
            p.write_text(w["text"], encoding="utf-8")
            pr = subprocess.run(["/venv/bin/octave", "write", str(p), "--changes", json.dumps(w["requests"][0]["changes"])],
                                capture_output=True, text=True, timeout=120)
            after = p.read_text(encoding="utf-8")
            if pr.returncode != 0:
                return None
            if w.get("expect_in_after") and w["expect_in_after"] in after:
                return "file now contains " + w["expect_in_after"]
            return None
    r = H.oracle_history(w)
    if r["status"] == "fail":
        pred = H.CLASSES.get(f["cls"])
        if pred is None or pred(w, r.get("step", 0)):
            return r["why"][:160]
    return None


# ---- case construction ------------------------------------------------------------------------

def with_final_omit(requests):
    """every history ends with a request that names nothing: the whole file must stay byte-identical"""
    return list(requests) + [{"changes": {}, "mutations": None}]


def build_cases(ctx):
    seed = ctx.seed
    n_sweep_docs = ctx.budget(2, 10)
    n_hist = ctx.budget(1500, 20000)
    n_cli = ctx.budget(300, 4000)
    n_corr = ctx.budget(1500, 15000)
    cases = []
    # (a) hand-picked corpus documents first
    corpus = []
    cdir = vlib.VERIF / "corpus" / "C18"
    if cdir.exists():
        for p in sorted(cdir.glob("*.json")):
            try:
                corpus.append(json.loads(p.read_text()))
            except Exception:
                pass
    for c in corpus:
        if c.get("kind") == "history":
            cases.append({**c, "src": "corpus"})
            if c.get("entry") == "cli":       # the hand-picked CLI vectors also go through the real executable
                cases.append({**c, "entry": "cli-subprocess", "src": "corpus"})
    # (b) exhaustive single-request sweep over a few base documents
    sweep_docs = [c["text"] for c in corpus if c.get("kind") == "base-doc"]
    i = 0
    while len(sweep_docs) < n_sweep_docs + len([c for c in corpus if c.get("kind") == "base-doc"]) and i < 200:
        t = H.gen_text_doc(seed, f"sweep{i}")
        i += 1
        if t is None:
            continue
        top, other, meta = H.own_keys(t)
        if len(top) >= 2 and len(meta) >= 1:
            sweep_docs.append(t)
    for t in sweep_docs:
        top, other, meta = H.own_keys(t)
        for rq in H.sweep_requests(top, other, meta):
            cases.append({"kind": "history", "entry": "mcp", "text": t, "requests": with_final_omit([rq]), "src": "sweep"})
    # (c) seeded random histories of 1..3 requests
    for j in range(n_hist):
        t = H.gen_text_doc(seed, j % max(50, n_hist // 8))
        if t is None:
            continue
        rng = random.Random(f"{seed}:hist:{j}")
        top, other, meta = H.own_keys(t)
        rqs = [H.gen_request(rng, top, other, meta) for _ in range(rng.choice([1, 1, 2, 2, 3, 3]))]
        cases.append({"kind": "history", "entry": "mcp", "text": t, "requests": with_final_omit(rqs), "src": "random"})
    # (d) CLI entry point: single request (no mutations parameter there)
    for j in range(n_cli):
        t = H.gen_text_doc(seed, j % 60)
        if t is None:
            continue
        rng = random.Random(f"{seed}:cli:{j}")
        top, other, meta = H.own_keys(t)
        rq = H.gen_request(rng, top, other, meta)
        rq["mutations"] = None
        entry = "cli-subprocess" if j < ctx.budget(6, 48) else "cli"     # a few through the real executable, the bulk in-process
        cases.append({"kind": "history", "entry": entry, "text": t, "requests": with_final_omit([rq]), "src": "cli"})
    # (e) correspondence-only histories (keys / values outside the property's domain: META, META., block keys, odd sentinels)
    for j in range(n_corr):
        t = H.gen_text_doc(seed, j % 80)
        if t is None:
            continue
        rng = random.Random(f"{seed}:corr:{j}")
        top, other, meta = H.own_keys(t)
        rqs = [H.gen_request(rng, top, other, meta, corr=True) for _ in range(rng.choice([1, 2, 3]))]
        cases.append({"kind": "history", "entry": "mcp", "text": t, "requests": rqs, "oracle": False, "src": "corr"})
    return cases


# ---- main -------------------------------------------------------------------------------------

def run(ctx: vlib.Ctx):
    ctx.rule = ("a case is (canonical generated document, history of 1-3 changes/mutations requests + a final request naming nothing) run "
                "through the real WriteTool.execute / CLI on a temp file, or (constructed AST, emission site) for the Absent clause, or a "
                "tri-state site; non-trivial = at least one key is named (histories) / always (sites); distinct = distinct case JSON")
    ctx.translate(PROJECT)
    proj = ctx.lean(PROJECT, PROPS)
    changed = vlib.fingerprints_changed(ctx.prop, ANCHORS)
    if changed:
        ctx.widen = max(ctx.widen, 8)
        ctx.notes.append(f"fingerprint of a modelled function changed ({', '.join(changed)}): search widened")
    drv = proj.driver()
    findings = vlib.load_findings(ctx.prop)

    # -- known findings: replay every witness ---------------------------------------------------
    for f in findings:
        try:
            detail = replay_witness(f)
        except Exception as e:  # a witness that cannot even run is not "reproduced"
            detail = None
            ctx.notes.append(f"witness of {f['id']} could not be replayed: {type(e).__name__}: {e}"[:200])
        if detail:
            ctx.known_reproduced.append((f, detail))
        else:
            ctx.notes.append(f"known finding {f['id']} did not reproduce (fixed?)")
    open_ids = {f["id"] for (f, _d) in ctx.known_reproduced}
    active = [f for f in findings if f["id"] in open_ids]     # a class only suppresses while its witness still fails

    # -- replay of a stored failing case ------------------------------------------------------
    if ctx.replay:
        rp = json.loads(Path(ctx.replay).read_text())
        case = rp.get("case")
        if case:
            r = H.work_absent(case) if case.get("kind") == "absent" else (H.work_tristate(case) if case.get("kind") == "tristate" else H.oracle_history(case))
            ctx.case(case)
            if r["status"] == "fail":
                f = classify(active, case, r.get("step", 0))
                if f is not None:
                    ctx.known_hits[f["id"]] = ctx.known_hits.get(f["id"], 0) + 1
                    ctx.notes.append(f"the replayed case fails inside the open known-finding class {f['cls']} ({f['id']})")
                else:
                    ctx.failures.append({"case": case, **{k: v for k, v in r.items() if k != "status"}})
        return

    # -- histories: oracle on the real entry points + correspondence of applyRequest -------------
    import time
    t0 = time.time()
    cases = build_cases(ctx)
    t1 = time.time()
    results = vlib.pmap(H.work_history, cases)
    t2 = time.time()
    ctx.extra["phase_seconds"] = {"build_cases": round(t1 - t0, 1), "histories": round(t2 - t1, 1)}
    reqs, idx = [], []
    for ci, (case, res) in enumerate(zip(cases, results)):
        impl = res.get("impl")
        if impl and "exc" not in impl:
            reqs.append({"op": "apply", "doc": impl["start"], "requests": [
                {"changes": [[k, H.enc_jval(v)] for k, v in rq["changes"].items()],
                 "mutations": [[k, H.enc_jval(v)] for k, v in (rq.get("mutations") or {}).items()]} for rq in case["requests"]]})
            idx.append(ci)
    replies = drv.batch_par(reqs)
    for ci, rep in zip(idx, replies):
        case, impl = cases[ci], results[ci]["impl"]
        if "unsupported" in rep:
            ctx.count("model_unsupported")
            continue
        if _norm(rep["docs"]) != _norm(impl["docs"]):
            step = next((s for s, (a, b) in enumerate(zip(_norm(rep["docs"]), _norm(impl["docs"]))) if a != b), 0)
            if len(ctx.corr_disagreements) < 20:
                ctx.corr_disagreements.append({"case": {k: case[k] for k in ("text", "requests")}, "view": "AST after _apply_changes/_apply_mutations (meta, nodes, order)",
                                               "step": step, "model": rep["docs"][step], "impl": impl["docs"][step]})
            else:
                ctx.count("corr_disagreements_not_listed")
        ctx.count("corr:apply")
    for case, res in zip(cases, results):
        entry = case.get("entry", "mcp")
        named = any(rq["changes"] or rq.get("mutations") for rq in case["requests"])
        ctx.case({k: case[k] for k in ("entry", "text", "requests") if k in case}, nontrivial=named)
        ctx.count(f"src:{case.get('src')}")
        ctx.count(f"history_len:{len(case['requests'])}")
        for rq in case["requests"]:
            count_request(ctx, rq, entry if case.get("oracle", True) else "corr")
        if res.get("impl") and "exc" in res["impl"]:
            # the property gives `_apply_changes` no licence to raise on these requests
            if case.get("oracle", True):
                ctx.failures.append({"case": case, "why": "_apply_changes raised " + res["impl"]["exc"], "why_class": "raise"})
            else:
                ctx.count("corr:impl_raised")
        o = res["oracle"]
        ctx.count(f"oracle:{entry}:{o['status']}" + (":" + o["why"].split(":")[0][:40] if o["status"] == "skip" else ""))
        if o["status"] == "fail":
            f = classify(active, case, o.get("step", 0))
            if f is not None:
                ctx.known_hits[f["id"]] = ctx.known_hits.get(f["id"], 0) + 1
            else:
                ctx.failures.append({"case": {k: v for k, v in case.items() if k != "src"}, **{k: v for k, v in o.items() if k != "status"}})

    # -- CLI: same `_apply_changes` as the MCP tool => byte-identical files for the same history ----------
    cli_idx = [ci for ci, c in enumerate(cases) if c.get("entry") in ("cli", "cli-subprocess")]
    twins = vlib.pmap(H.work_cli_twin, [cases[ci] for ci in cli_idx])
    for ci, tw in zip(cli_idx, twins):
        o = results[ci]["oracle"]
        ctx.count("corr:cli_vs_mcp")
        if o["status"] == "ok" and tw["status"] == "ok" and o["final"] != tw["final"] and len(ctx.corr_disagreements) < 20:
            ctx.corr_disagreements.append({"case": {"text": cases[ci]["text"], "requests": cases[ci]["requests"]},
                                           "view": "file bytes after the same history through the CLI and through the MCP tool",
                                           "model": tw["final"], "impl": o["final"]})
        elif o["status"] != tw["status"]:
            ctx.count("corr:cli_vs_mcp_status_differs")
    ctx.extra["phase_seconds"]["apply_correspondence"] = round(time.time() - t2, 1)
    t3 = time.time()
    # -- constructed ASTs: emit correspondence, Absent at every site, prune spec -------------------
    n_docs = ctx.budget(250, 3000)
    docs = []
    for j in range(n_docs):
        rng = random.Random(f"{ctx.seed}:ast:{j}")
        docs.append(H.gen_doc(rng, for_text=False))
    # emit correspondence on documents with Absent sprinkled everywhere (and on the plain ones)
    emit_docs = []
    for j, D in enumerate(docs):
        rng = random.Random(f"{ctx.seed}:abs:{j}")
        emit_docs.append(D)
        emit_docs.append(H.sprinkle_absent(rng, D, 0.25))
        emit_docs.append(H.sprinkle_absent(rng, D, 0.9))
    impl_e = vlib.pmap(H.work_emit, emit_docs)
    ereqs = [{"op": "emit", "doc": D, "strs": r["strs"], "always": r["always"]} for D, r in zip(emit_docs, impl_e) if "exc" not in r]
    ereps = iter(drv.batch_par(ereqs))
    for D, r in zip(emit_docs, impl_e):
        ctx.count("corr:emit")
        if "exc" in r:
            ctx.failures.append({"case": {"kind": "emit", "doc": D}, "why": "emit raised on a well-typed AST: " + r["exc"], "why_class": "emit-raise"})
            continue
        rep = next(ereps)
        if "unsupported" in rep:
            ctx.count("model_unsupported")
        elif rep["text"] != r["text"] and len(ctx.corr_disagreements) < 20:
            ctx.corr_disagreements.append({"case": {"doc": D}, "view": "text of emit(doc)", "model": rep["text"], "impl": r["text"]})
    # Absent at every emission site of every document
    abs_cases = []
    cdir = vlib.VERIF / "corpus" / "C18"
    for p in sorted(cdir.glob("*.json")) if cdir.exists() else []:
        try:
            c = json.loads(p.read_text())
            if c.get("kind") == "absent":
                abs_cases.append({"kind": "absent", "doc": c["doc"], "pos": c["pos"]})
        except Exception:
            pass
    for D in docs[: ctx.budget(120, 1500)]:
        for pos in H.positions(D):
            abs_cases.append({"kind": "absent", "doc": D, "pos": list(pos)})
    abs_res = vlib.pmap(H.work_absent, abs_cases)
    preqs = []
    for case, r in zip(abs_cases, abs_res):
        ctx.case({"kind": "absent", "pos": case["pos"], "doc_name": case["doc"]["name"], "n": len(case["doc"]["nodes"])})
        ctx.count("absent_site:" + case["pos"][0])
        if r["status"] == "fail":
            f = classify(active, case, 0)
            if f is not None:
                ctx.known_hits[f["id"]] = ctx.known_hits.get(f["id"], 0) + 1
            else:
                ctx.failures.append({"case": case, **{k: v for k, v in r.items() if k != "status"}})
        Da, Dr = H.absent_variants(case["doc"], tuple(case["pos"]))
        preqs.append({"op": "prune", "doc": Da})
        preqs.append({"op": "prune", "doc": Dr})
    preps = drv.batch_par(preqs)
    for j, case in enumerate(abs_cases):
        a, b = preps[2 * j], preps[2 * j + 1]
        ctx.count("corr:prune")
        if "unsupported" in a or "unsupported" in b:
            ctx.count("model_unsupported")
        elif _norm(a["doc"]) != _norm(b["doc"]) and len(ctx.corr_disagreements) < 20:
            ctx.corr_disagreements.append({"case": case, "view": "Spec.pruneDoc(doc with Absent at the site) = Spec.pruneDoc(doc without the site)",
                                           "model": a["doc"], "impl": b["doc"]})
    # tri-state texts at every kind of site
    tri = [{"kind": "tristate", "site": s, "key": k} for s in TRISTATE_SITES for k in ["K", "STATUS", "a.b", "PATTERN"]]
    for case, r in zip(tri, vlib.pmap(H.work_tristate, tri)):
        ctx.case(case)
        ctx.count("tristate_site:" + case["site"])
        if r["status"] == "fail":
            ctx.failures.append({"case": case, **{k: v for k, v in r.items() if k != "status"}})

    ctx.extra["phase_seconds"]["constructed_asts"] = round(time.time() - t3, 1)
    ctx.extra["known_finding_classes"] = {f["id"]: f["cls"] for f in findings}
    ctx.extra["translated"] = ["Gen/ChangeConsts (DELETE sentinel shape, META dispatch constants of _apply_changes and of the CLI loop)",
                               "Gen/AbsentSites (every emit_value/emit_assignment call of emitter.py with its is_absent guard verdict)"]
    ctx.trusted = ["Lean 4.33.0 kernel; axioms per theorem in coverage.theorems",
                   "tools/gen/changes.py (syntactic extraction from write.py, cli/main.py, emitter.py)",
                   "correspondence: tools/props/c18.py + tools/harness/changes_h.py (differential: AST after _apply_changes/_apply_mutations, text of emit, pruneDoc, CLI vs MCP file bytes)",
                   "modelled, not verified: control flow of _apply_changes/_apply_mutations/_normalize_value_for_ast/emit*; the scalar renderer is an abstract parameter (text engine)",
                   "oracle uses the real parser to read the file back and to find the line of each top-level node (boundaries validated against the text)"]
    ctx.assumptions = ["request dicts have unique keys (Python dict / json.loads)",
                       "documents are drawn from shapes whose canonical text re-reads to itself today (C01-C04 findings F1-F17 excluded by construction, checked per case)",
                       "emit is called with format_options=None, as every tool calls it",
                       "the view identifies an inline map with the sequence of its pairs (the canonical text `k::v,k2::v2` carries no grouping)"]
