"""C04 — Every scalar value survives write-then-read with value and type intact.

translate -> lean build/audit (Props/C04 + pinned table facts) -> known findings -> exhaustive / random
scalars x positions: (a) oracle on the real code (emit -> parse -> same value, same type),
(b) correspondence: Lean emitter model text == real emit text, Lean reader model AST == real AST.
"""
import asyncio
import itertools
import json
import re
import os
import random
import tempfile
import unicodedata

import vlib
from harness import text as T

PROJECT = "text"
PROPS = ["Octave.Props.C04", "Octave.Props.C04numbers", "Octave.Props.C01flat", "Octave.Props.C01master", "Octave.Props.C01maps", "Octave.Props.C01nested", "Octave.Props.C04metanum", "Octave.Props.C04metalist", "Octave.Props.C04metalistdoc", "Octave.Props.Facts"]
ANCHORS = [("octave_mcp/core/emitter.py", "needs_quotes"), ("octave_mcp/core/emitter.py", "emit_value"),
           ("octave_mcp/core/emitter.py", "emit_assignment"), ("octave_mcp/core/emitter.py", "_force_quote_inline_map_value"),
           ("octave_mcp/core/emitter.py", "_emit_multiline_list"), ("octave_mcp/core/emitter.py", "emit_meta"),
           ("octave_mcp/core/lexer.py", "tokenize"), ("octave_mcp/core/lexer.py", "_match_unicode_identifier"),
           ("octave_mcp/core/parser.py", "Parser.parse_value"), ("octave_mcp/core/parser.py", "Parser.parse_list_item"),
           ("octave_mcp/mcp/write.py", "_normalize_value_for_ast"), ("octave_mcp/mcp/write.py", "WriteTool._apply_changes")]

# one representative of every lexer-significant class (property C04 quantifier) + multi-char atoms
ALPHA = list("aZ0_.-/ \t\n\r\"\\:[],<>{}$#§→⊕⧺⇌∧∨@~|&+%=`;()") + ["\x01", "́", "\U0001F600", "é", "e", "1",
                                                                   "true", "false", "null", "vs", "//", "::", "->", "<->", "===", "True", "NULL"]
POSITIONS = [("assign", "K"), ("assign", "PATTERN"), ("assign", "REGEX"), ("meta", "K"), ("nmeta", "K"), ("list1", "K"),
             ("list3", "K"), ("imap", "K"), ("imap", "PATTERN")]


def mk_doc(pos, key, vj):
    """Document (JSON form shared with the Lean driver) holding value vj at the position."""
    d = {"name": "D", "meta": [], "sep": False, "sections": [], "gv": None, "fm": None, "trailing": []}
    a = lambda k, v: {"a": {"k": k, "v": v, "ln": 0, "col": 0, "lead": [], "trail": None}}  # noqa: E731
    if pos == "assign":
        d["sections"] = [a(key, vj)]
    elif pos == "meta":
        d["meta"] = [[key, {"v": vj}]]
    elif pos == "nmeta":
        d["meta"] = [["N", {"d": [[key, vj]]}]]
    elif pos == "list1":
        d["sections"] = [a("L", {"l": [vj]})]
    elif pos == "list3":
        d["sections"] = [a("L", {"l": [{"s": "a"}, vj, {"s": "b"}]})]
    elif pos == "imap":
        d["sections"] = [a("L", {"l": [{"m": [[key, vj]]}]})]
    return d


def get_at(pos, key, dj):
    try:
        if pos == "assign":
            return dj["sections"][0]["a"]["v"]
        if pos == "meta":
            return dict((k, v) for k, v in dj["meta"])[key]["v"]
        if pos == "nmeta":
            return dict((k, v) for k, v in dict((k, v) for k, v in dj["meta"])["N"]["d"])[key]
        if pos == "list1":
            return dj["sections"][0]["a"]["v"]["l"][0]
        if pos == "list3":
            return dj["sections"][0]["a"]["v"]["l"][1]
        if pos == "imap":
            return dict((k, v) for k, v in dj["sections"][0]["a"]["v"]["l"][0]["m"])[key]
    except Exception as e:  # noqa: BLE001
        return {"missing": f"{type(e).__name__}"}


def same_value(orig, back) -> bool:
    if isinstance(orig, dict) and "s" in orig:
        return isinstance(back, dict) and "s" in back and unicodedata.normalize("NFC", back["s"]) == unicodedata.normalize("NFC", orig["s"])
    return orig == back and type(orig) is type(back)


def kf_nfc_escape_compose(case) -> bool:
    """F16: newline/tab followed by a run of combining marks that (after canonical reordering) composes
    with the escape letter n/t under NFC — the emitted line is NFC-normalised as a whole before tokenising."""
    v = case["value"]
    if not (isinstance(v, dict) and "s" in v):
        return False
    s = v["s"]
    for i, ch in enumerate(s[:-1]):
        if ch in "\n\t":
            letter = "n" if ch == "\n" else "t"
            j = i + 1
            while j < len(s) and unicodedata.combining(s[j]) != 0:
                j += 1
            if j > i + 1 and not unicodedata.normalize("NFC", letter + s[i + 1:j]).startswith(letter):
                return True
    return False


_ARGLESS = "(?:REQ|OPT|DIR|APPEND_ONLY|DATE|ISO8601)"
_HOLO_LOOKALIKE = re.compile(r"[A-Za-z_][A-Za-z0-9_.\-]*(?<!-)(?:[⊕⧺⇌∨→@][A-Za-z_][A-Za-z0-9_.\-]*(?<!-))*(?:∧" + _ARGLESS + r")+\Z")


def kf_bare_holographic_lookalike(case) -> bool:
    """C04N1: an expression-shaped string (written bare by the emitter) whose tail from the first constraint operator on is a
    chain of argument-less constraint names (`A∧REQ`, `A⊕B∧OPT∧DATE`), as the ONLY item of a list or the value of the only
    inline-map item of a list: the bracketed text `[A∧REQ]` is a holographic pattern to the reader (bare examples are legal)."""
    v = case["value"]
    if not (isinstance(v, dict) and "s" in v) or case["key"] in ("PATTERN", "REGEX"):
        return False
    return case["pos"] in ("list1", "imap") and _HOLO_LOOKALIKE.match(v["s"]) is not None


CLASSES = {"kf_nfc_escape_compose": kf_nfc_escape_compose, "kf_bare_holographic_lookalike": kf_bare_holographic_lookalike}


def eval_chunk(chunk):
    """Real code: emit the document, read it back strictly, look the value up."""
    from octave_mcp.core.emitter import emit
    from octave_mcp.core.parser import parse
    out = []
    for (vj, pos, key) in chunk:
        dj = mk_doc(pos, key, vj)
        try:
            text = emit(T.json_to_doc(dj))
        except BaseException as e:  # noqa: BLE001
            out.append((None, None, f"emit raised {type(e).__name__}: {str(e)[:60]}"))
            continue
        try:
            back = T.doc_to_json(parse(text))
        except BaseException as e:  # noqa: BLE001
            out.append((text, {"err": T.canon_exc(e)}, f"canonical text rejected by the strict reader: {type(e).__name__}: {str(e)[:60]}"))
            continue
        got = get_at(pos, key, back)
        why = None if same_value(vj, got) else f"read back {json.dumps(got, ensure_ascii=False)[:80]}"
        out.append((text, {"doc": back}, why))
    return out


def gen_cases(ctx):
    rng = ctx.rng
    cases = []
    wide = ctx.thorough or ctx.widen > 1
    # exhaustive strings
    L_all = 2
    for n in range(0, L_all + 1):
        for tup in itertools.product(ALPHA, repeat=n):
            s = "".join(tup)
            for pos, key in POSITIONS:
                cases.append(({"s": s}, pos, key))
    ctx.count("strings_len<=2_all_positions", len(cases))
    n3 = 0
    for tup in itertools.product(ALPHA, repeat=3):
        s = "".join(tup)
        if wide:
            for pos, key in POSITIONS:
                cases.append(({"s": s}, pos, key)); n3 += 1
        else:
            cases.append(({"s": s}, "assign", "K")); n3 += 1
            if rng.random() < 0.08:
                pos, key = rng.choice(POSITIONS[1:])
                cases.append(({"s": s}, pos, key)); n3 += 1
    ctx.count("strings_len3", n3)
    # random strings up to length 60 over all planes (no surrogates) + the alphabet
    planes = [(0x20, 0x7E), (0xA0, 0x24F), (0x300, 0x36F), (0x370, 0x3FF), (0x2190, 0x22FF), (0x4E00, 0x4E80), (0x1F600, 0x1F64F), (0x0, 0x1F)]
    nr = 20000 if wide else 4000
    for _ in range(nr):
        k = rng.randint(1, 60)
        chars = []
        for _ in range(k):
            if rng.random() < 0.5:
                chars.append(rng.choice(ALPHA))
            else:
                lo, hi = rng.choice(planes)
                chars.append(chr(rng.randint(lo, hi)))
        pos, key = rng.choice(POSITIONS)
        cases.append(({"s": "".join(chars)}, pos, key))
    ctx.count("strings_random", nr)
    # integers of every sign and size class
    ints = [0, 1, -1, 7, 10, -10, 99, 100, 2**31, -2**31, 2**63, 2**64 + 1, 10**18, -10**19, 10**100, -(10**400) + 7,
            int("9" * 4300), -int("1" + "0" * 4299)]
    ints += [rng.randint(-10**k, 10**k) for k in range(1, 40)]
    for i in ints:
        for pos, key in POSITIONS:
            cases.append(({"i": str(i)}, pos, key))
    # finite floats: boundary pool + random
    fl = [0.0, -0.0, 1.0, -1.5, 0.1, 1e16, 1e15, 123456789012345678.0, 1e22, 1e-5, 1e-4, 5e-324, 2.2250738585072014e-308,
          1.7976931348623157e308, -1.7976931348623157e308, 0.30000000000000004, 1 / 3, 1e100, 1.5e-300]
    fl += [rng.uniform(-1, 1) * 10 ** rng.randint(-30, 30) for _ in range(60)]
    for f in fl:
        for pos, key in POSITIONS:
            cases.append(({"f": repr(f)}, pos, key))
    for v in (True, False, None):
        for pos, key in POSITIONS:
            cases.append((v, pos, key))
    # words a reader could take for something else: every case variant of the literals / keywords, number look-alikes
    words = set()
    for w in ("true", "false", "null", "vs", "meta", "end", "octave", "nan", "inf", "infinity", "none", "yes", "no", "on", "off"):
        words |= {w, w.upper(), w.capitalize(), w[0] + w[1:].upper(), w[:-1].upper() + w[-1]}
    words |= {"e5", "1e5x", "0x10", "1_000", "E", "-e", "+1", "1.", ".5", "1e", "1e+", "00", "-0", "١٢", "²", "Ⅷ"}
    for w in sorted(words):
        for pos, key in POSITIONS:
            cases.append(({"s": w}, pos, key))
    ctx.count("lookalike_words", len(words))
    # expression-shaped strings (the emitter writes them bare): operands = plain words and every constraint / keyword name,
    # joined by every operator, 2 and 3 operands — in every position (the reader must not take them for anything else)
    operands = ["A", "a.b-c", "_x", "REQ", "OPT", "DIR", "APPEND_ONLY", "DATE", "ISO8601", "ENUM", "CONST", "TYPE", "REGEX", "RANGE",
                "MAX_LENGTH", "BOOLEAN", "NUMBER", "SELF", "META", "END"]
    exprs = set()
    for op in "⊕⧺⇌∧∨→@":
        for x in operands[:3]:
            for y in operands:
                exprs.add(x + op + y)
                exprs.add(y + op + x)
    for op1 in "∧⊕→":
        for op2 in "∧⊕→":
            for y in ("REQ", "OPT", "DATE", "b", "ENUM"):
                for z in ("REQ", "ISO8601", "b", "§SELF"):
                    exprs.add("A" + op1 + y + op2 + z)
    for w in sorted(exprs):
        for pos, key in POSITIONS:
            cases.append(({"s": w}, pos, key))
    ctx.count("expression_shaped_strings", len(exprs))
    # strings shaped like the lexemes of other token classes (versions per the semver grammar, dates, times, paths, URLs, variables,
    # section references, annotations, comments, fences, envelopes, operators inside words): the quoting decision must agree with the lexer
    looks = set()
    for core in ("1.2.3", "0.0.1", "10.20.30", "1.2", "1.2.3.4", "v1.2.3"):
        for pre in ("", "-rc.1", "-alpha", "-0.3.7", "-x-y-z.--", "-"):
            for build in ("", "+build", "+build.5", "+build-20", "+exp-sha.5114f85", "+21AF26D3----117B344092BD", "+a.b-c", "+"):
                looks.add(core + pre + build)
    looks |= {"2024-01-15", "12:30:00", "2024-01-15T10:00:00Z", "2024-01-15T10:00:00+02:00", "src/a.py", "./docs", "../up", "//server/share", "//cdn.example.com/lib.js",
              "/etc/hosts", "a/b/c", "a/", "/", "http://x.y/z?q=1#f", "https://x.y", "a@b.c", "$VAR", "$a:b", "$", "$1", "§1", "§2b", "§NAME", "§", "#tag", "#1", "a<b>", "a<b,c>",
              "NEVER<A,B>", "a<>", "a<b", "A{b}", "A{}", "x::y", "k:v", "k:", ":v", "1e5x", "0x1F", "1_000", "+1", "-a", "a-", "a--b", "a.b.c", "a..b", ".a", "a.", "1.", "1.2.",
              "1.2.3-", "3rd", "007", "1/2", "50%", "a%b", "A&B", "a|b", "a~b", "a->b", "a<->b", "a vs b", "avsb", "a+b", "a + b", "===X===", "===END===", "===", "---", "```", "```py",
              "//", "// c", "a//b", "a // b", "a,b", "a, b", "[a]", "[]", "[a,b]", "{a}", "(a)", "a(b)", "a[b]", "a [b]", '"', '""', '"a"', "'a'", "\\", "a\\nb", "a b", " a", "a ",
              "OCTAVE::1.0", "META", "END", "a∧b∧c", "§1::X", "X→§SELF", "true false", "null null", "1 2", "1.2.3 x", "x 1.2.3"}
    for w in sorted(looks):
        for pos, key in POSITIONS:
            cases.append(({"s": w}, pos, key))
    ctx.count("lexeme_lookalikes", len(looks))
    ctx.count("ints", len(ints)); ctx.count("floats", len(fl))
    return cases


ABSENT = "__key_absent__"


def write_tool_cases(ctx, values, priors=(ABSENT,)):
    """octave_write(changes={key: v}) followed by a strict read of the file.  `priors`: JSON-form values the key K already holds in
    the file before the call (ABSENT = K does not exist yet)."""
    from octave_mcp.core.emitter import emit
    from octave_mcp.core.parser import parse
    from octave_mcp.mcp.write import WriteTool
    fails = []
    with tempfile.TemporaryDirectory() as td:
        for idx, (prior, vj) in enumerate([(pr, x) for x in values for pr in priors]):
            v = T.json_to_value(vj)
            p = os.path.join(td, f"f{idx}.oct.md")
            with open(p, "w", encoding="utf-8", newline="") as fh:
                if isinstance(prior, str) and prior == ABSENT:
                    fh.write("===D===\nA::1\n===END===\n")
                else:
                    d0 = mk_doc("assign", "K", prior)
                    d0["sections"].insert(0, {"a": {"k": "A", "v": {"i": "1"}, "ln": 0, "col": 0, "lead": [], "trail": None}})
                    fh.write(emit(T.json_to_doc(d0)))
            case = {"value": vj, "pos": "octave_write.changes", "key": "K"}
            if not (isinstance(prior, str) and prior == ABSENT):
                case["prior_value_of_K"] = prior
            try:
                res = asyncio.run(WriteTool().execute(target_path=p, changes={"K": v}))
                if res.get("status") != "success":
                    # a refusal is not a silent corruption, but C04 says the value can be placed: report
                    fails.append((case, f"octave_write refused: {json.dumps(res.get('errors'))[:120]}"))
                    continue
                with open(p, encoding="utf-8", newline="") as fh:
                    back = T.doc_to_json(parse(fh.read()))
                got = [s["a"]["v"] for s in back["sections"] if "a" in s and s["a"]["k"] == "K"]
                if not got or not same_value(vj, got[0]):
                    fails.append((case, f"file read back {json.dumps(got, ensure_ascii=False)[:80]}"))
            except BaseException as e:  # noqa: BLE001
                fails.append((case, f"{type(e).__name__}: {str(e)[:80]}"))
            ctx.case(case)
    return fails


def run(ctx: vlib.Ctx):
    ctx.rule = ("exhaustive strings of length <=2 over the 59-symbol class alphabet in 9 positions, length 3 in position assign/K "
                "(all positions when thorough/widened), seeded random strings <=60 over all planes, ints of every size class to 4300 "
                "digits, boundary + random finite floats, bools, null; distinct = distinct (value, position, key); non-trivial = all")
    ctx.translate(PROJECT)
    proj = ctx.lean(PROJECT, PROPS)
    if vlib.fingerprints_changed(ctx.prop, ANCHORS):
        ctx.widen = max(ctx.widen, 8)
        ctx.notes.append("fingerprint of a modelled function changed: search widened")
    findings = vlib.load_findings(ctx.prop)
    # known findings: replay witnesses on the real code
    for f in findings:
        w = f["witness"]
        (_t, _b, why) = eval_chunk([(w["value"] if isinstance(w["value"], (dict, bool, type(None))) else {"s": w["value"]}, w["pos"], w["key"])])[0]
        if why:
            ctx.known_reproduced.append((f, why))
        else:
            ctx.notes.append(f"known finding {f['id']} no longer reproduces on its witness")
    cases = gen_cases(ctx)
    chunks = [cases[i:i + 2000] for i in range(0, len(cases), 2000)]
    results = [r for ch in vlib.pmap(eval_chunk, chunks, chunksize=1) for r in ch]
    # Lean side
    drv = proj.driver()
    emit_reqs = [{"op": "emit", "doc": mk_doc(pos, key, vj), "env": {}} for (vj, pos, key) in cases]
    emit_reps = drv.batch_par(emit_reqs)
    parse_idx = [i for i, r in enumerate(results) if r[0] is not None]
    parse_reps = drv.batch_par([{"op": "parse", "s": results[i][0], "env": T.make_env(results[i][0])} for i in parse_idx])
    parse_map = dict(zip(parse_idx, parse_reps))
    n_unsup = 0
    for i, ((vj, pos, key), (text, back, why)) in enumerate(zip(cases, results)):
        case = {"value": vj, "pos": pos, "key": key}
        ctx.case(case)
        # correspondence: emitter model
        er = emit_reps[i]
        if text is not None and er.get("text") != text and len(ctx.corr_disagreements) < 20:
            ctx.corr_disagreements.append({"case": case, "view": "emit text", "model": er, "impl": text})
        # correspondence: reader model
        pr = parse_map.get(i)
        if pr is not None:
            if T.model_unsupported(pr):
                n_unsup += 1
            elif pr != back and len(ctx.corr_disagreements) < 20:
                ctx.corr_disagreements.append({"case": case, "view": "strict parse of canonical text (AST with positions / exception)",
                                               "model": pr, "impl": back, "text": text})
        # oracle on the real code
        if why:
            hit = [f for f in findings if CLASSES[f["cls"]](case)]
            if hit:
                ctx.known_hits[hit[0]["id"]] = ctx.known_hits.get(hit[0]["id"], 0) + 1
            else:
                ctx.failures.append({"case": case, "why": why, "why_class": why.split(":")[0][:40], "canonical_text": text})
        ctx.count("ok" if not why else "fail")
        if text is not None and isinstance(vj, dict) and "s" in vj:
            ctx.count("quoted" if '"' in text.split("\n")[1 if pos not in ("meta", "nmeta") else 2][:200] else "bare")
    ctx.count("model_unsupported", n_unsup)
    # tool path
    vals = [c[0] for c in cases if c[1] == "assign" and c[2] == "K"]
    sample = ctx.rng.sample(vals, min(len(vals), ctx.budget(300, 6000)))
    # values of different types that compare equal in Python (1 == 1.0 == True, 0 == 0.0 == False, "" / None / 0 falsy …): each is
    # placed over every other one, so "unchanged" shortcuts that compare with == / truthiness show up as a lost type
    confusable = [True, False, None, {"i": "1"}, {"i": "0"}, {"f": "1.0"}, {"f": "0.0"}, {"f": "-0.0"}, {"s": "1"}, {"s": "true"}, {"s": ""}, {"s": "1.0"},
                  {"s": "null"}, {"i": "2"}, {"f": "2.0"}]
    for case, why in list(write_tool_cases(ctx, sample)) + list(write_tool_cases(ctx, confusable, priors=confusable)):
        hit = [f for f in findings if CLASSES[f["cls"]](case)]
        if hit:
            ctx.known_hits[hit[0]["id"]] = ctx.known_hits.get(hit[0]["id"], 0) + 1
        else:
            ctx.failures.append({"case": case, "why": why, "why_class": "octave_write:" + why.split(":")[0][:30]})
    ctx.trusted = ["Lean 4.33.0 kernel; axioms per theorem listed in coverage.theorems",
                   "tools/gen/text.py (regenerated tables) + pinned facts Props/Facts.lean",
                   "correspondence harness tools/props/c04.py + tools/harness/text.py (differential; exhaustive small scope + seeded random)",
                   "modelled, validated not verified: control flow of lexer.py / parser.py / emitter.py as transcribed in lean/text/Octave/Model"]
    ctx.assumptions = ["Env: NFC, Unicode classes and repr(float) are supplied per case from the running CPython",
                       "proved for every value: escape/unescape inverse; quoted / bare strings, booleans, null, integers survive emit -> tokenize -> parse inside flat documents and block trees (Props/C01roundtrip, C01tree); ints within the 4300-digit limit and float reprs re-lex to the same value (C04numbers); list / inline-map / META positions and NFC (F16) are decided by the exhaustive correspondence + oracle"]
