"""C11 — Schema repair changes only what it may, and logs every change.

Engine `validator` (lean/validator).  Protocol: translate -> lean build + audit -> known findings ->
correspondence (Lean `Repair.repair` / `Numeral.*` vs real `repair()` / `int()` / `float()`) -> oracle
(the statement of C11, tools/harness/validator_lib.c11_oracle) through the four entry points:
`repair()`, `octave_validate(fix=…)`, `octave_write(lenient=true, schema=…)`, `octave validate --fix`.
"""
import copy
import json
import os
import re

import vlib
from harness import validator_lib as H

PROJECT = "validator"
PROPS = ["Octave.Props.C11"]
R = "octave_mcp/core/repair.py"
ANCHORS = [(R, "repair_value"), (R, "_attempt_enum_casefold"), (R, "_attempt_type_coercion"), (R, "repair"), (R, "_apply_schema_repairs"),
           (R, "_repair_ast_node"), ("octave_mcp/core/repair_log.py", None), ("octave_mcp/core/constraints.py", "EnumConstraint"),
           ("octave_mcp/core/constraints.py", "TypeConstraint"), ("octave_mcp/mcp/validate.py", "ValidateTool.execute"),
           ("octave_mcp/mcp/write.py", "WriteTool.execute"), ("octave_mcp/cli/main.py", "validate"),
           ("octave_mcp/schemas/loader.py", "load_schema_by_name"), ("octave_mcp/core/schema_extractor.py", "_extract_fields"),
           ("octave_mcp/core/schema_extractor.py", "_parse_field_assignment")]

_SD_CACHE = {}


def get_sd(name, text):
    if name not in _SD_CACHE:
        _SD_CACHE[name] = H.load_schema_text(text)
    return _SD_CACHE[name]


def jtree(t):
    return json.loads(json.dumps(t, default=str))


# ---- one API-level case -------------------------------------------------------------------------

def api_case(sd, tree, meta=None):
    """returns (model request, impl view, anomalies[(kind, why)], stats)."""
    doc = H.build_doc(tree, meta=meta)
    before, after, log, exc = H.run_repair_api(sd, doc, fix=True)
    an, stats = [], {}
    if exc:
        return None, None, [("raise", f"repair() raised {exc}")], {"changes": 0}
    an, stats = H.c11_oracle(sd, before, after, log, tokens=True)
    # idempotence
    _b2, after2, log2, exc2 = H.run_repair_api(sd, after, fix=True)
    if exc2:
        an.append(("raise", f"second repair() raised {exc2}"))
    else:
        an2, st2 = H.c11_oracle(sd, after, after2, [], tokens=True, have_log=True)
        if st2["changes"] != 0 or an2:
            an.append(("idem-doc", "repairing a repaired document changed it again"))
        if log2:
            an.append(("idem-log", f"repairing a repaired document logged {len(log2)} more repairs, first {log2[0]}"))
    # fix off
    b0, a0, log0, exc0 = H.run_repair_api(sd, doc, fix=False)
    if exc0:
        an.append(("raise", f"repair(fix=False) raised {exc0}"))
    elif log0 or H.deep_fingerprint(b0) != H.deep_fingerprint(a0):
        an.append(("fix-off", "repair(fix=False) changed the document or logged a repair"))
    jb, js = H.enc_doc(before), H.enc_schema(sd)
    req = {"op": "repair", "fix": True, "schema": js, "doc": jb, "env": H.make_env(jb, js)}
    impl = {"doc": H.enc_doc(after), "log": [[e["rule_id"], e["before"], e["after"], e["tier"], e["safe"], e["semantics_changed"]] for e in log]}
    return req, impl, an, stats


# ---- one tool-level case (runs in a worker process; cwd = the schema workdir) ------------------------

def _repair_entries(lst):
    out = []
    for e in lst or []:
        if isinstance(e, dict) and e.get("tier") == "REPAIR":
            out.append({"rule_id": e.get("rule_id", e.get("code")), "before": e.get("before"), "after": e.get("after"), "tier": e.get("tier")})
    return out


CLI_REPAIR = re.compile(r"^repair: (\w+) \[(\w+)\] (.*)$")


def cli_log(stderr: str):
    """the repair log `octave validate --fix` prints on stderr: `repair: RULE [TIER] 'before' -> 'after'`."""
    import ast
    out = []
    for line in stderr.splitlines():
        m = CLI_REPAIR.match(line.strip())
        if not m:
            continue
        rest, entry = m.group(3), None
        for mm in re.finditer(r" -> ", rest):
            try:
                b, a = ast.literal_eval(rest[:mm.start()]), ast.literal_eval(rest[mm.end():])
                entry = {"rule_id": m.group(1), "tier": m.group(2), "before": b, "after": a}
                break
            except Exception:
                continue
        out.append(entry or {"rule_id": m.group(1), "tier": m.group(2), "before": None, "after": None, "unparsed": rest})
    return out


def tool_case(args):
    name, schema_text, text, entry, idx = args
    sd = get_sd(name, schema_text)
    an, stats, known = [], {"changes": 0}, {}
    try:
        doc0 = H.parse_text(text)
    except Exception as e:
        return {"idx": idx, "skip": f"unparseable input: {type(e).__name__}", "an": [], "stats": stats, "known": known}
    try:
        plain = H.emit_doc(copy.deepcopy(doc0))
        if entry == "validate":
            r0 = H.run_validate_tool(content=text, schema=name, fix=False)
            r1 = H.run_validate_tool(content=text, schema=name, fix=True)
            if r0.get("status") != "success" or r1.get("status") != "success":
                return {"idx": idx, "skip": "tool error envelope", "an": [], "stats": stats, "known": known}
            c0, c1 = r0["canonical"], r1["canonical"]
            log = _repair_entries(r1.get("repairs"))
            if r1.get("repair_log") != r1.get("repairs"):
                an.append(("log", "repair_log and repairs differ"))
            if _repair_entries(r0.get("repairs")):
                an.append(("fix-off", "fix=false reported REPAIR-tier entries"))
            if c0 != plain:
                an.append(("fix-off", "fix=false canonical differs from plain canonicalisation of the input"))
            for prof in ("STRICT", "LENIENT", "ULTRA"):
                rp = H.run_validate_tool(content=text, schema=name, fix=False, profile=prof)
                if rp.get("status") == "success" and (rp.get("canonical") != plain or _repair_entries(rp.get("repairs"))):
                    an.append(("fix-off", f"fix=false, profile={prof}: values were repaired"))
            # one long-lived tool instance (how the server holds it): fix off / on / off / on with the same payload — what a call
            # repairs and logs must not depend on the calls the instance served before
            import asyncio as _aio
            from octave_mcp.mcp.validate import ValidateTool as _VT
            inst = _VT()
            seq = [_aio.run(inst.execute(content=text, schema=name, fix=fx)) for fx in (False, True, False, True)]
            if all(r.get("status") == "success" for r in seq):
                if (seq[2].get("canonical"), _repair_entries(seq[2].get("repairs"))) != (c0, []):
                    an.append(("fix-off", "same tool instance: fix=false AFTER a fix=true call on the same payload returns repaired values / REPAIR entries"))
                if (seq[3].get("canonical"), _repair_entries(seq[3].get("repairs"))) != (c1, log):
                    an.append(("log", "same tool instance: the second fix=true call on the same payload returns a different canonical text / repair log than the first"))
            r2 = H.run_validate_tool(content=c1, schema=name, fix=True)
            c2, log2 = r2.get("canonical"), _repair_entries(r2.get("repairs"))
        elif entry == "write":
            out = os.path.join("out", f"w{idx}")
            os.makedirs(out, exist_ok=True)
            r0 = H.run_write_tool(target_path=os.path.abspath(os.path.join(out, "a.oct.md")), content=text, lenient=True)
            r1 = H.run_write_tool(target_path=os.path.abspath(os.path.join(out, "b.oct.md")), content=text, lenient=True, schema=name)
            rs = H.run_write_tool(target_path=os.path.abspath(os.path.join(out, "s.oct.md")), content=text, lenient=False, schema=name)
            if r0.get("status") != "success" or r1.get("status") != "success":
                return {"idx": idx, "skip": "tool error envelope", "an": [], "stats": stats, "known": known}
            c0 = open(os.path.join(out, "a.oct.md"), encoding="utf-8").read()
            c1 = open(os.path.join(out, "b.oct.md"), encoding="utf-8").read()
            log = _repair_entries(r1.get("corrections"))
            if _repair_entries(r0.get("corrections")):
                an.append(("fix-off", "write without schema reported REPAIR-tier corrections"))
            if rs.get("status") == "success":
                cs = open(os.path.join(out, "s.oct.md"), encoding="utf-8").read()
                if _repair_entries(rs.get("corrections")) or cs != plain:
                    an.append(("fix-off", "lenient=false write repaired values"))
            r2 = H.run_write_tool(target_path=os.path.abspath(os.path.join(out, "c.oct.md")), content=c1, lenient=True, schema=name)
            c2 = open(os.path.join(out, "c.oct.md"), encoding="utf-8").read() if r2.get("status") == "success" else None
            log2 = _repair_entries(r2.get("corrections"))
        elif entry == "cli":
            f = os.path.abspath(os.path.join("out", f"cli{idx}.oct.md"))
            open(f, "w", encoding="utf-8").write(text)
            rc0, o0, e0 = H.run_cli(["validate", "--schema", name, f], os.getcwd())
            rc1, o1, e1 = H.run_cli(["validate", "--schema", name, "--fix", f], os.getcwd())
            c0, _s0 = H.cli_split(o0)
            c1, _s1 = H.cli_split(o1)
            if c0 is None or c1 is None:
                return {"idx": idx, "skip": "cli error", "an": [], "stats": stats, "known": known}
            c0, c1 = c0 + ("" if c0.endswith("\n") else "\n"), c1 + ("" if c1.endswith("\n") else "\n")
            if c0.rstrip("\n") != plain.rstrip("\n"):
                an.append(("fix-off", "`octave validate` without --fix altered the document"))
            log = cli_log(e1)
            f2 = os.path.abspath(os.path.join("out", f"cli{idx}b.oct.md"))
            open(f2, "w", encoding="utf-8").write(c1)
            _rc2, o2, e2 = H.run_cli(["validate", "--schema", name, "--fix", f2], os.getcwd())
            log2 = cli_log(e2)
            if cli_log(e0):
                an.append(("fix-off", "`octave validate` without --fix reported repairs"))
            c2, _s2 = H.cli_split(o2)
            c2 = None if c2 is None else c2 + ("" if c2.endswith("\n") else "\n")
        else:
            raise ValueError(entry)
        before, after = H.parse_text(c0), H.parse_text(c1)
        a1, stats = H.c11_oracle(sd, before, after, log, tokens=False, have_log=True)
        an += a1
        if c2 is not None and c2 != c1:
            an.append(("idem-doc", "repairing the repaired output changed it again"))
        if log2:
            an.append(("idem-log", f"repairing the repaired output logged {len(log2)} more repairs, first {log2[0]}"))
    except Exception as e:  # the tools must not raise
        import traceback
        return {"idx": idx, "an": [("raise", f"{entry} raised {type(e).__name__}: {e} {traceback.format_exc()[-300:]}")], "stats": stats, "known": known}
    return {"idx": idx, "an": an, "stats": stats, "known": known}


# ---- numeral correspondence ---------------------------------------------------------------------

def numeral_impl(s):
    import math
    st = s.strip()
    try:
        i = str(int(st))
    except ValueError:
        i = None
    try:
        f = float(st)
        fl = "nan" if math.isnan(f) else ("inf" if f == math.inf else "-inf" if f == -math.inf else "dec")
        # overflow of a decimal literal gives inf but the *literal* is decimal: tell them apart by spelling
        if fl in ("inf", "-inf") and any(ch.isdigit() for ch in st):
            fl = "dec"
    except (ValueError, OverflowError):
        fl = None
    branch = "int" if ("." not in st and "e" not in st.lower()) else "float"
    return {"strip": st, "int": i, "float": fl, "branch": branch}


def classify(ctx, sd, before_doc, an, entry, case, findings):
    """no open finding: every anomaly is a failure of the property."""
    for kind, why in an:
        ctx.failures.append({"case": case, "why": why, "why_class": f"{entry}:{kind}", "entry": entry})


def replay(ctx, proj, findings):
    """--replay f: re-execute exactly the case stored in a replay file, on the current tree and on the model."""
    rj = json.loads(open(ctx.replay).read())
    case = rj["case"]
    if "schema_text" not in case:
        raise vlib.Infra("replay file has no schema/instance case (tie-broken replays name theorems, not inputs)")
    wd = H.Workdir("c11r")
    try:
        name = case["schema"]
        wd.add_schema_text(name, case["schema_text"])
        wd.enter()
        sd = get_sd(name, case["schema_text"])
        ctx.case(case)
        if case.get("entry") == "repair()":
            tree = H.to_tuples(case["tree"])
            req, impl, an, _st = api_case(sd, tree)
            classify(ctx, sd, H.build_doc(tree), an, "repair()", case, findings)
            if req is not None:
                rep = proj.driver().batch([req])[0]
                if rep.get("log") != impl["log"] or rep.get("doc") != impl["doc"]:
                    ctx.corr_disagreements.append({"case": case, "model": rep.get("log"), "impl": impl["log"], "view": "repair log / document"})
        else:
            r = tool_case((name, case["schema_text"], case["text"], case["entry"], 0))
            classify(ctx, sd, None, r["an"], case["entry"], case, findings)
    finally:
        wd.leave()


def run(ctx: vlib.Ctx):
    ctx.rule = ("case = (schema, instance tree, entry point); exhaustive: every hand schema x every field x every perturbation of that field "
                "(pool derived from the field's real constraint chain) with the assignment repeated nested/top-level/in a section/next to a zone; "
                "plus seeded random schemas x random instances; non-trivial = the instance contains at least one field of the schema; "
                "distinct = distinct (schema, tree, entry)")
    ctx.translate(PROJECT)
    proj = ctx.lean(PROJECT, PROPS)
    if vlib.fingerprints_changed(ctx.prop, ANCHORS):
        ctx.widen = max(ctx.widen, 8)
        ctx.notes.append("fingerprint of a modelled function changed: search widened")
    findings = {f["id"]: f for f in vlib.load_findings(ctx.prop)}
    if ctx.replay:
        return replay(ctx, proj, findings)
    drv = proj.driver()
    rng = ctx.rng
    wd = H.Workdir("c11")
    try:
        HAND = H.HAND_SCHEMAS + H.HAND_SCHEMAS_C11
        specs = [H.schema_spec(s) for s in HAND]
        for i in range(ctx.budget(6, 40)):
            specs.append(H.schema_spec(H.random_schema(rng, i)))
        texts = {s["name"]: wd.add_schema(s) for s in specs}
        wd.enter()
        sds = {n: get_sd(n, t) for n, t in texts.items()}

        # -- A. numeral grammar: Lean Numeral.* vs CPython int()/float() ----------------------------
        pool = list(dict.fromkeys(H.NUM_STRINGS + [v for v in H.GENERIC_STRINGS]))
        alphabet = ["1", "0", "_", ".", "e", "E", "+", "-", " ", "٣", "n", "a", "i", "f", "x"]
        for _ in range(ctx.budget(500, 6000)):
            pool.append("".join(rng.choice(alphabet) for _ in range(rng.randint(1, 7))))
        for _ in range(ctx.budget(1500, 20000)):
            pool.append(H.random_numeral(rng))
        if ctx.thorough or ctx.widen > 1:
            import itertools
            for n in (1, 2, 3, 4):
                pool += ["".join(p) for p in itertools.product(["1", "_", ".", "e", "-", " ", "٣"], repeat=n)]
        pool = list(dict.fromkeys(pool))
        reqs = [{"op": "numeral", "s": s, "env": H.make_env(s)} for s in pool]
        for s, rep in zip(pool, drv.batch_par(reqs)):
            impl = numeral_impl(s)
            ctx.count("numeral:" + (("int" if impl["int"] is not None else "err") if impl["branch"] == "int" else (impl["float"] or "err")))
            view = {k: rep.get(k) for k in ("strip", "int", "float", "branch")}
            if "unsupported" in rep or view != impl:
                ctx.corr_disagreements.append({"case": {"numeral": s}, "model": rep, "impl": impl, "view": "strip/int/float grammar"})
        ctx.extra["numeral_strings"] = len(pool)
        # external law `CaseStable` (hypothesis of C11_idem_partial): coercibility does not depend on letter case
        from octave_mcp.core.constraints import TypeConstraint
        from octave_mcp.core.repair import _attempt_type_coercion
        from octave_mcp.core.repair_log import RepairLog
        tc = TypeConstraint(expected_type="NUMBER")

        def coercible(x):
            try:
                return _attempt_type_coercion(x, tc, RepairLog(repairs=[]))[1]
            except Exception:
                return "raise"
        n_law = 0
        for s_ in pool:
            for t_ in {s_.lower(), s_.upper(), s_.swapcase(), s_.title()}:
                if t_ != s_ and t_.lower() == s_.lower():
                    n_law += 1
                    if coercible(s_) != coercible(t_):
                        ctx.corr_disagreements.append({"case": {"s": s_, "t": t_}, "model": "CaseStable assumed", "impl": [coercible(s_), coercible(t_)],
                                                       "view": "external law CaseStable (hypothesis of C11_idem_partial)"})
        ctx.extra["case_stable_pairs"] = n_law

        # -- A2. repair_value() directly (guards before any change): value pool x field definitions ----
        from octave_mcp.core.schema_extractor import FieldDefinition
        from octave_mcp.core.holographic import HolographicPattern
        from octave_mcp.core.constraints import ConstraintChain
        sdall = sds["SCHEMA_A"]
        fdefs = [("absent", None), ("nopattern", FieldDefinition(name="X", pattern=None)),
                 ("noconstraints", FieldDefinition(name="X", pattern=HolographicPattern(example="x", constraints=None, target=None))),
                 ("emptychain", FieldDefinition(name="X", pattern=HolographicPattern(example="x", constraints=ConstraintChain([]), target=None)))]
        for nm in ("SCHEMA_A", "SCHEMA_B", "SCHEMA_C", "SCHEMA_F"):
            for k, fd in sds[nm].fields.items():
                fdefs.append((f"{nm}.{k}", fd))
        rv_reqs, rv_impl, rv_case = [], [], []
        vals = [H.build_value(v) for v in H.WRONG_KINDS + H.API_ONLY_KINDS + H.GENERIC_STRINGS + ["active", "Active", "DONE", "pending", "ab", "A", "42", " 4_2 ", "1e5", "1E5", "1e309", "nan", "٣"]]
        for (fdn, fd) in fdefs:
            for v in vals:
                for fix in (True, False):
                    v2, was, log, exc = H.run_repair_value(v, fd, fix)
                    case = {"repair_value": fdn, "value": repr(v), "fix": fix, "entry": "repair_value()"}
                    ctx.case(case)
                    ctx.count("repair_value")
                    if exc:
                        ctx.failures.append({"case": case, "why": f"repair_value raised {exc}", "why_class": "repair_value:raise"})
                        continue
                    changed = not H.same_value(v, v2)
                    if (not fix and (changed or log)) or (changed and not isinstance(v, str)) or (changed != bool(log) and not (log and not changed)) or (was != bool(log)):
                        ctx.failures.append({"case": case, "why": f"repair_value({v!r}, fix={fix}) -> {v2!r}, was_repaired={was}, log={log}: forbidden or unlogged change",
                                             "why_class": "repair_value:forbidden"})
                    fj = "absent" if fd is None else (None if fd.pattern is None else H.enc_schema(type("S", (), {"name": "S", "fields": {"X": fd}, "policy": None, "default_target": None, "frontmatter": {}})())["fields"][0][1])
                    jv = H.enc_val(v)
                    if not H.has_surrogate(jv):
                        rv_reqs.append({"op": "repair_value", "value": jv, "field": fj, "fix": fix, "env": H.make_env(jv, fj if isinstance(fj, dict) else {})})
                        rv_impl.append({"value": H.enc_val(v2), "log": [[e["rule_id"], e["before"], e["after"], e["tier"], e["safe"], e["semantics_changed"]] for e in log]})
                        rv_case.append(case)
        for case, impl, rep in zip(rv_case, rv_impl, drv.batch_par(rv_reqs)):
            if "unsupported" in rep:
                ctx.count("model_unsupported")
            elif rep != impl:
                ctx.corr_disagreements.append({"case": case, "model": rep, "impl": impl, "view": "repair_value (value, log)"})

        # -- B. API level: repair() ------------------------------------------------------------------
        api_cases = []
        # corpus (hand-picked vectors and minimised past failures) runs first
        for cf in sorted((vlib.VERIF / "corpus" / ctx.prop).glob("*.json")):
            cj = json.loads(cf.read_text())
            nm = "CORPUS_" + cf.stem.upper().replace("-", "_")
            texts[nm] = wd.add_schema({"name": nm, "uf": cj.get("uf", "WARN"), "fields": [tuple(x) for x in cj["fields"]]})
            sds[nm] = get_sd(nm, texts[nm])
            api_cases.append((nm, H.to_tuples(cj["tree"]), None, "corpus"))
        for name in [s["name"] for s in specs]:
            sd = sds[name]
            hand = name in [h["name"] for h in HAND]
            for fname, fd in sd.fields.items():
                vals = H.field_value_pool(fd, api=True)
                if not hand:
                    vals = rng.sample(vals, min(len(vals), ctx.budget(6, 30)))
                for v in vals:
                    api_cases.append((name, H.doc_one_field(sd, fname, v, nested=True, second_block=rng.random() < 0.2), None, "pool"))
            for _ in range(ctx.budget(40, 400) if hand else ctx.budget(10, 60)):
                api_cases.append((name, H.random_doc(rng, sd, api=True), None, "random"))
        # no schema / schema without fields
        api_cases.append(("SCHEMA_A", [("A", "STATUS", "active")], None, "pool"))
        reqs, impls, metas = [], [], []
        for (name, tree, meta, kind) in api_cases:
            sd = sds[name]
            case = {"schema": name, "schema_text": texts[name], "tree": jtree(tree), "entry": "repair()"}
            nontrivial = any(k in json.dumps(case["tree"]) for k in sd.fields)
            ctx.case(case, nontrivial)
            req, impl, an, stats = api_case(sd, tree, meta)
            ctx.count(f"api:{kind}")
            ctx.count(f"api:changes={min(stats.get('changes', 0), 5)}{'+' if stats.get('changes', 0) > 5 else ''}")
            classify(ctx, sd, H.build_doc(tree, meta=meta), an, "repair()", case, findings)
            if req is not None and not H.has_surrogate(req):
                reqs.append(req)
                impls.append(impl)
                metas.append(case)
        for case, impl, rep in zip(metas, impls, drv.batch_par(reqs)):
            if "unsupported" in rep:
                ctx.count("model_unsupported")
                continue
            for e in impl["log"]:
                ctx.count("rule:" + e[0])
            if rep["log"] != impl["log"]:
                ctx.corr_disagreements.append({"case": case, "model": rep["log"], "impl": impl["log"], "view": "repair log (rule, before, after, tier, flags) in order"})
            elif rep["doc"] != impl["doc"]:
                ctx.corr_disagreements.append({"case": case, "model": "doc differs", "impl": "", "view": "repaired document (full AST incl. positions)"})
        # schema=None / fix=False through the model as well
        d = H.build_doc([("A", "STATUS", "active")])
        jb = H.enc_doc(d)
        for fix, sch in ((True, None), (False, H.enc_schema(sds["SCHEMA_A"]))):
            rep = drv.batch([{"op": "repair", "fix": fix, "schema": sch, "doc": jb, "env": {}}])[0]
            if rep.get("log") != [] or rep.get("doc") != jb:
                ctx.corr_disagreements.append({"case": {"fix": fix, "schema": bool(sch)}, "model": rep, "impl": "unchanged", "view": "repair off"})

        # -- C. tool level -------------------------------------------------------------------------------
        tool_cases = []
        idx = 0
        entries = ["validate", "write"]
        hand_names = [h["name"] for h in HAND]
        # fixed family (every run, every tier): ENUMs holding 2, 3, 4, 5 spellings of one word — each field with values that are a further
        # case variant (ambiguous: never replaced) through octave_validate(fix) and octave_write(lenient, schema); the same values run
        # through repair() in the pool of stage B
        for h in H.HAND_SCHEMAS_C11:
            sd = sds[h["name"]]
            for fname, fd in sd.fields.items():
                for v in [x for x in H.ambiguous_case_values(fd) if H.text_safe(x) and H.is_plain_word(x)][:3]:
                    text = H.render_doc(H.doc_one_field(sd, fname, v), [("TYPE", "X"), ("VERSION", "1")], H.Spelling(**H.CANONICAL_SPELLING))
                    for entry in entries:
                        tool_cases.append((h["name"], texts[h["name"]], text, entry, idx))
                        idx += 1
                        ctx.count("tool:fixed:ambiguous-case-enum")
        for (name, tree, meta, kind) in api_cases:
            if not H.tree_text_safe(tree):
                continue
            take = kind == "corpus" or (kind == "pool" and name in hand_names and rng.random() < (1.0 if ctx.thorough or ctx.widen > 1 else 0.25)) or \
                   (kind == "random" and rng.random() < (1.0 if ctx.thorough or ctx.widen > 1 else 0.3))
            if not take:
                continue
            metas_ = [("TYPE", "X")] if name == "META" else [("TYPE", "X"), ("VERSION", "1")]
            text = H.render_doc(tree, metas_, H.Spelling(**H.CANONICAL_SPELLING))
            for entry in entries:
                tool_cases.append((name, texts[name], text, entry, idx))
                idx += 1
            if name == "META" and (ctx.thorough or ctx.widen > 1) and rng.random() < 0.25:
                tool_cases.append((name, texts[name], text, "cli", idx))
                idx += 1
        if not (ctx.thorough or ctx.widen > 1):
            # quick tier: a handful of CLI runs so that the fourth entry point is never unexplored
            sd = sds["META"]
            for fname, v in (("STATUS", "active"), ("COUNT", " 4_2 "), ("STATE", "activ"), ("COUNT", "1e309")):
                text = H.render_doc(H.doc_one_field(sd, fname, v), [("TYPE", "X")], H.Spelling(**H.CANONICAL_SPELLING))
                tool_cases.append(("META", texts["META"], text, "cli", idx))
                idx += 1
        results = vlib.pmap(tool_case, tool_cases)
        for tc, r in zip(tool_cases, results):
            name, _st, text, entry, _i = tc
            case = {"schema": name, "schema_text": texts[name], "text": text, "entry": entry}
            ctx.case(case)
            ctx.count(f"tool:{entry}")
            if r.get("skip"):
                ctx.count(f"tool:skip:{r['skip'][:30]}")
                continue
            ctx.count(f"tool:{entry}:changes={min(r['stats'].get('changes', 0), 3)}")
            classify(ctx, sds[name], None, r["an"], entry, case, findings)
    finally:
        wd.leave()
    ctx.trusted = ["Lean 4.33.0 kernel; axioms per theorem in coverage.theorems",
                   "tools/gen/validator.py (Gen/Repair, Gen/Tools: rule ids, tiers, guards of every repair() call site)",
                   "correspondence: tools/props/c11.py (Lean Repair.repair vs repair(); Lean Numeral vs int()/float())",
                   "modelled, not verified: control flow of repair.py; external: str.lower, Unicode isspace/decimal, float() rounding (supplied per case)"]
    ctx.assumptions = ["CPython 3.12 numeral grammar as transcribed in Model/Numeral.lean (validated against the interpreter on every run)",
                       "text-level entry points are compared through parse(canonical): instances whose values the lexer would normalise (NFC, controls, backslashes) are exercised at API level only"]
