"""C10 — Validation status is always present and never overstated (I5).   Engine `tools`.

  translate (Gen/Envelopes, Gen/Guards, Gen/Schema) -> lean build + axiom audit (Props/C10) -> known findings
  -> correspondence: the real tools, driven on *forced* stage-outcome classes, against the Lean model fed with
     the abstract outcomes of an independent stage probe (view = the decision fields of the envelope);
     schema-name gate vs `SCHEMA_NAME_PATTERN.match`; fault injection per stage vs the model's guard table
  -> oracle on the real code = the statement of C10 on every envelope (tools/harness/tools_c10.py: oracle).
"""
import itertools
import json

import vlib
from harness import tools_c10 as H
from harness import tools_sandbox as SB
from harness import tools_total as TT

PROJECT = "tools"
PROPS = ["Octave.Props.C10"]
ANCHORS = [
    ("octave_mcp/mcp/validate.py", "ValidateTool.execute"), ("octave_mcp/mcp/validate.py", "ValidateTool._error_envelope"),
    ("octave_mcp/mcp/write.py", "WriteTool.execute"), ("octave_mcp/mcp/write.py", "WriteTool._error_envelope"),
    ("octave_mcp/mcp/eject.py", "EjectTool.execute"),
    ("octave_mcp/mcp/compile_grammar.py", "CompileGrammarTool.execute"), ("octave_mcp/mcp/compile_grammar.py", "CompileGrammarTool._error_response"),
    ("octave_mcp/schemas/loader.py", "load_schema_by_name"), ("octave_mcp/schemas/loader.py", "get_builtin_schema"),
    ("octave_mcp/schemas/loader.py", "get_schema_search_paths"), ("octave_mcp/schemas/loader.py", "load_schema"),
    ("octave_mcp/core/hydrator.py", "resolve_hermetic_standard"),
    ("octave_mcp/cli/main.py", "validate"), ("octave_mcp/cli/main.py", "write"),
    ("octave_mcp/mcp/base_tool.py", "BaseTool.validate_parameters"),
]
GATE_ALPHABET = ["A", "Z", "M", "a", "0", "9", "_", "/", ".", "\n", "@", "-", "É", " ", "\x00", ":"]


def _sample(rng, it, k):
    """k items of an iterable, reservoir-sampled with rng (deterministic)."""
    res = []
    for i, x in enumerate(it):
        if i < k:
            res.append(x)
        else:
            j = rng.randrange(i + 1)
            if j < k:
                res[j] = x
    return res


def build_cases(ctx):
    rng = ctx.rng
    cases = []
    corpus_dir = vlib.VERIF / "corpus" / "C10"
    if corpus_dir.exists():
        for f in sorted(corpus_dir.glob("*.json")):
            try:
                cases += json.loads(f.read_text())["cases"]
            except Exception as e:  # noqa: BLE001
                ctx.notes.append(f"corpus file {f.name} unreadable: {e}")
    cases += H.special_cases() + H.grammar_cases()
    # fixed families: project schemas shadowing a packaged name; reporting flags / the other tool on the same (content, schema)
    cases += H.overlay_cases() + H.sweep_cases()
    # broad arrays: every content x every schema argument, flags pairwise
    cases += [{"tool": "validate", **r, **H.V_EXTRA} for r in H.pairwise(H.V_DIMS, rng)]
    cases += [{"tool": "write", **r, **H.W_EXTRA} for r in H.pairwise(H.W_DIMS, rng)]
    cases += [{"tool": "eject", **r} for r in H.pairwise(H.E_DIMS, rng)]
    # focused space: findable schemas x designed documents x profile / lenient (balanced verdicts), flags pairwise
    cases += H.focused_cases(rng)
    if ctx.thorough:
        # full product of the focused space, and a large sample of the broad one
        cases += list(H.product_cases(H.VF_DIMS, "validate", H.V_EXTRA))
        cases += list(H.product_cases(H.WF_DIMS, "write", H.W_EXTRA))
        cases += _sample(rng, H.product_cases(H.V_DIMS, "validate", H.V_EXTRA), 12000 * min(ctx.widen, 2))
        cases += _sample(rng, H.product_cases(H.W_DIMS, "write", H.W_EXTRA), 8000 * min(ctx.widen, 2))
        cases += list(H.product_cases(H.E_DIMS, "eject", {}))
    else:
        extra = ctx.budget(150, 1200) if ctx.widen > 1 else 0
        if extra:
            cases += _sample(rng, H.product_cases(H.VF_DIMS, "validate", H.V_EXTRA), extra)
            cases += _sample(rng, H.product_cases(H.WF_DIMS, "write", H.W_EXTRA), extra)
            cases += _sample(rng, H.product_cases(H.V_DIMS, "validate", H.V_EXTRA), extra // 2)
            cases += _sample(rng, H.product_cases(H.W_DIMS, "write", H.W_EXTRA), extra // 2)
            cases += list(H.product_cases(H.E_DIMS, "eject", {}))
    cases += H.cli_cases(2 if ctx.thorough else (1 if ctx.widen > 1 else 0))
    # de-duplicate, keep order
    seen, out = set(), []
    for c in cases:
        k = json.dumps(c, sort_keys=True, ensure_ascii=False)
        if k not in seen:
            seen.add(k)
            out.append(c)
    return out


def classify(case, why_class, findings):
    """Known-finding id whose (input-based) class predicate contains this failure, else None."""
    for f in findings:
        pred = H.KNOWN_CLASSES.get(f["cls"])
        try:
            if pred is not None and pred(case, why_class):
                return f["id"]
        except Exception:  # noqa: BLE001
            pass
    return None


def process(ctx, cases, results, replies, findings, c20_findings):
    for case, res, model in zip(cases, results, replies):
        nontrivial = not (case["tool"] in ("validate", "write") and H.SCHEMA_CLASS.get(case.get("schema")) in
                          ("lowercase", "pathlike", "malformed", "hermetic_bad") and case.get("content") not in ("multi_ok", "multi_bad"))
        ctx.case(case, nontrivial=nontrivial)
        for t in res["tags"]:
            ctx.count(t)
        # -- correspondence ------------------------------------------------------------------
        if "unsupported" in model:
            ctx.count("model_unsupported")
        elif res.get("cli"):
            if model != res["impl"]:
                ctx.corr_disagreements.append({"case": case, "model": model, "impl": res["impl"], "view": "cli exit code + status line",
                                               "request": res["req"]})
        else:
            d = H.views_differ(model, res["impl"])
            if d:
                ctx.corr_disagreements.append({"case": case, "view": "envelope decision fields: " + ",".join(d),
                                               "model": model if "raise" in d else {k: model.get(k) for k in d},
                                               "impl": res["impl"] if "raise" in d else {k: res["impl"].get(k) for k in d},
                                               "request": res["req"]})
        # -- oracle ----------------------------------------------------------------------------
        for why_class, why in res["failures"]:
            if why_class == "raise" and res.get("known_raise") and any(f["id"] == res["known_raise"] for f in c20_findings):
                kid = res["known_raise"] + "(C20)"
                ctx.known_hits[kid] = ctx.known_hits.get(kid, 0) + 1
                continue
            kid = classify(case, why_class, findings)
            if kid:
                ctx.known_hits[kid] = ctx.known_hits.get(kid, 0) + 1
                continue
            ctx.failures.append({"case": case, "why": why, "why_class": why_class, "observed": res["impl"],
                                 "call": res.get("args"), "model": model,
                                 "replay_hint": "tools/check.py C10 --replay <this file> re-runs exactly this case"})


def flag_invariance(ctx, cases, results, findings):
    """Across ALL cases of the run (no further calls): calls of one tool that agree on everything that is validated (content, schema
    argument, project overlay, HOME, profile / lenient, input or target mode) and differ only in reporting flags (octave_validate:
    fix — the status is decided before any repair —, diff_only, compact, grammar_hint, debug_grammar; octave_write: corrections_only,
    grammar_hint, debug_grammar) carry the same validation_status.  VALIDATED next to INVALID means the VALIDATED call overstates."""
    groups = {}
    for case, res in zip(cases, results):
        tool = case.get("tool")
        if tool not in ("validate", "write") or "raise" in res["impl"] or res.get("cli"):
            continue
        if tool == "validate":
            key = [tool, case.get("content"), case.get("schema"), case.get("project"), case.get("home", "home"), case.get("input", "content"),
                   (case.get("profile") if case.get("profile") is not None else "STANDARD").upper()]
        else:
            key = [tool, case.get("content"), case.get("schema"), case.get("project"), case.get("home", "home"), case.get("mode", "content"),
                   case.get("target", "fresh"), case.get("base_hash"), case.get("policy", "error"), bool(case.get("lenient")), case.get("changes")]
        groups.setdefault(json.dumps(key, sort_keys=True, ensure_ascii=False, default=str), []).append((case, res))
    n = 0
    for lst in groups.values():
        if len(lst) < 2:
            continue
        n += 1
        by = {}
        for case, res in lst:
            # an error envelope (unwritable target, emit failure, …) hard-codes UNVALIDATED: it says nothing about the schema verdict
            if res["impl"].get("status") == "success":
                by.setdefault(res["impl"].get("vs"), (case, res))
        if len(by) < 2:
            continue
        over = "VALIDATED" in by and "INVALID" in by
        (ca, ra) = by["VALIDATED"] if "VALIDATED" in by else next(iter(by.values()))
        (cb, rb) = by["INVALID"] if over else [v for k, v in by.items() if v[0] is not ca][0]
        why_class = "overstated" if over else "flag-dependent"
        diff = {k: (ca.get(k), cb.get(k)) for k in set(ca) | set(cb) if ca.get(k) != cb.get(k) and k != "companions"}
        kid = classify(ca, why_class, findings)
        if kid:
            ctx.known_hits[kid] = ctx.known_hits.get(kid, 0) + 1
            continue
        ctx.failures.append({"case": {**ca, "companions": True}, "other_case": cb, "why_class": why_class, "observed": ra["impl"], "observed_other": rb["impl"],
                             "call": ra.get("args"),
                             "why": f"octave_{ca['tool']}: validation_status={ra['impl'].get('vs')} for this call but {rb['impl'].get('vs')} for the call that differs only in "
                                    f"reporting flags {diff} (same content, schema {ca.get('schema')!r}, profile/lenient, mode)"
                                    + (f": VALIDATED although the named schema reports errors {rb['impl'].get('verr_codes')} (count {rb['impl'].get('verr_count')})" if over else "")})
    ctx.count("flag-invariance:groups", n)


def gate_check(ctx, drv):
    """SCHEMA_NAME_PATTERN.match vs the model's schemaNameOk, exhaustively over short strings of a boundary alphabet."""
    from octave_mcp.schemas.loader import SCHEMA_NAME_PATTERN
    L = 4 if ctx.thorough else 3
    names = [""] + ["".join(t) for n in range(1, L + 1) for t in itertools.product(GATE_ALPHABET, repeat=n)]
    names += [n for n, _ in H.SCHEMA_ARGS] + ["META\n", "META\n\n", "A" * 200, "A\r", "A ", "A\x0b", "A\x1c", "Ａ", "A１", "A٣"]
    replies = drv.batch_par([{"op": "name_ok", "name": n} for n in names])
    bad = 0
    for n, rep in zip(names, replies):
        impl = bool(SCHEMA_NAME_PATTERN.match(n))
        if rep.get("ok") != impl:
            bad += 1
            if bad <= 3:
                ctx.corr_disagreements.append({"case": {"name": n}, "view": "schema-name gate", "model": rep.get("ok"), "impl": impl})
    ctx.evaluations += len(names)
    ctx.count("gate:names", len(names))
    ctx.count("gate:accepted", sum(1 for r in replies if r.get("ok")))


def injection_check(ctx, drv):
    res = vlib.pmap(H.run_injection, H.INJECTIONS, workers=min(vlib.NCPU, 8))
    replies = drv.batch([r["req"] for r in res])
    for r, m in zip(res, replies):
        ctx.evaluations += 1
        ctx.count("inject:" + ("raise" if "raise" in r["impl"] else "envelope"))
        d = H.views_differ(m, r["impl"])
        # an injected fault changes what later stages see; compare what the guard table is about:
        # does an envelope come back, and if so with which status / validation_status / error codes
        d = [k for k in d if k in ("raise", "status", "vs", "valid", "err_codes")]
        if d:
            ctx.corr_disagreements.append({"case": {"inject": r["stage"], "base": r["case"]}, "view": "fault injection: " + ",".join(d),
                                           "model": m, "impl": r["impl"], "request": r["req"]})


def replay_findings(ctx, findings):
    for f in findings:
        try:
            res = H.run_case(f["witness"])
        except Exception as e:  # noqa: BLE001
            ctx.notes.append(f"witness of {f['id']} could not be replayed: {type(e).__name__}: {e}")
            continue
        hit = [w for (wc, w) in res["failures"] if H.KNOWN_CLASSES.get(f["cls"]) and H.KNOWN_CLASSES[f["cls"]](f["witness"], wc)]
        if hit:
            ctx.known_reproduced.append((f, hit[0][:160]))


def regenerated_schema_history(_arg):
    """worker (own process): the status must describe the schema file AS IT IS NOW.  validate under a search-path schema, regenerate
    the schema file with one more required field, validate the same document again, then break the file, then restore it.
    Returns [(step, expected, got)] for every step whose status differs from the expected one."""
    import asyncio
    from octave_mcp.mcp.validate import ValidateTool
    from octave_mcp.mcp.write import WriteTool
    sb = SB.worker_sandbox()
    sb.enter()
    f = sb.cwd / "specs" / "schemas" / "gen_fields.oct.md"
    v1 = SB.GEN_SCHEMAS["GEN_FIELDS"]
    v2 = v1.replace("FIELDS:\n", 'FIELDS:\n  OWNER::["someone"∧REQ]\n', 1).replace('"2.1"', '"2.2"')
    broken = "===GEN_FIELDS===\nFIELDS:\n  NAME::[\"x\"∧REQ\n===END===\n"
    doc = H.CONTENTS["fields_ok"]
    tool = ValidateTool()
    bad = []

    def status(tag, expected):
        r = asyncio.run(tool.execute(content=doc, schema="GEN_FIELDS"))
        if r.get("validation_status") != expected:
            bad.append((tag, expected, r.get("validation_status")))
        w = asyncio.run(WriteTool().execute(target_path=str(sb.fresh_target()), content=doc, schema="GEN_FIELDS", corrections_only=True))
        if w.get("validation_status") != expected:
            bad.append((tag + " (octave_write)", expected, w.get("validation_status")))
    try:
        status("schema as generated", "VALIDATED")
        f.write_text(v2, encoding="utf-8")
        status("schema file regenerated with one more required field", "INVALID")
        f.write_text(broken, encoding="utf-8")
        status("schema file no longer loads", "UNVALIDATED")
        f.write_text(v1, encoding="utf-8")
        status("schema file restored", "VALIDATED")
    finally:
        f.write_text(v1, encoding="utf-8")
        sb.leave()
    return bad


def run(ctx: vlib.Ctx):
    ctx.rule = ("a case = one call of a tool / CLI command: (content class, schema-argument class, profile, flags, input/target mode); "
                "quick: seeded pairwise-covering arrays over the broad space (every content x every schema argument) and over the focused space "
                "(findable schemas x designed documents) + hand-written early-return cases; thorough: full product of the focused space + large "
                "samples of the broad one + CLI subset.  non-trivial = not (a malformed schema name on a document that is not multi_ok/multi_bad); "
                "distinct = distinct case dicts.  Plus the schema-name gate on all strings <= 3 (thorough 4) over a 16-symbol boundary alphabet "
                "and one fault injection per model stage.")
    ctx.translate(PROJECT)
    proj = ctx.lean(PROJECT, PROPS)
    changed = vlib.fingerprints_changed(ctx.prop, ANCHORS)
    if changed:
        ctx.widen = max(ctx.widen, 8)
        ctx.notes.append(f"fingerprint of a modelled function changed ({', '.join(changed)}): search widened")
    findings = vlib.load_findings("C10")
    c20_findings = vlib.load_findings("C20")
    drv = proj.driver()
    H.preload()
    with SB.sandbox_parent():
        try:
            if ctx.replay:
                payload = json.loads(open(ctx.replay).read())
                cases = [payload["case"]] if isinstance(payload.get("case"), dict) and "tool" in payload["case"] else []
                for d in payload.get("correspondence_disagreements", []):
                    if isinstance(d.get("case"), dict) and "tool" in d["case"]:
                        cases.append(d["case"])
                ctx.notes.append(f"replay of {len(cases)} case(s) from {ctx.replay}")
                if not cases:      # a tie-only replay (broken obligation / gate / injection): nothing to re-run but the whole check
                    ctx.notes.append("replay file holds no tool case: running the complete check instead")
                    ctx.replay = None
                    replay_findings(ctx, findings)
                    cases = build_cases(ctx)
            else:
                replay_findings(ctx, findings)
                cases = build_cases(ctx)
            results = vlib.pmap(H.run_case, cases)
            replies = drv.batch_par([r["req"] for r in results])
            process(ctx, cases, results, replies, findings, c20_findings)
            if not ctx.replay:
                flag_invariance(ctx, cases, results, findings)
                gate_check(ctx, drv)
                injection_check(ctx, drv)
                # the status is about the schema file as it is now (one long-lived process, the file regenerated between calls)
                for (step, exp, got) in vlib.pmap(regenerated_schema_history, [0])[0]:
                    ctx.failures.append({"case": {"history": "octave_validate / octave_write(content=fields_ok, schema=GEN_FIELDS) in ONE process while specs/schemas/gen_fields.oct.md "
                                                             "is (1) as generated, (2) regenerated with a further required field, (3) made unloadable, (4) restored", "step": step},
                                         "why": f"after step '{step}' the validation status is {got}; the schema file as it is now gives {exp}", "why_class": "stale-schema"})
                ctx.count("history:regenerated_schema")
        finally:
            if SB._SANDBOX is not None:
                SB._SANDBOX.leave()
    # class coverage: every abstract outcome class of the model must have been exercised
    need = ["validate:vs=VALIDATED", "validate:vs=INVALID", "validate:vs=UNVALIDATED", "write:vs=VALIDATED", "write:vs=INVALID",
            "write:vs=UNVALIDATED", "eject:vs=UNVALIDATED", "grammar:vs=UNVALIDATED"]
    if not ctx.replay:
        missing = [k for k in need if not ctx.dist.get(k)]
        if missing:
            ctx.notes.append(f"outcome classes never produced in this run: {missing}")
    ctx.extra["fingerprints_changed"] = changed
    ctx.extra["stage_injections"] = len(H.INJECTIONS)
    ctx.extra["model_stages"] = 66
    ctx.extra["open_proof_targets"] = [
        "C10_cli_validate_partial needs the stage fact Validator(schema=None).validate(doc) == [] (checked per case, not proved)",
        "C10_stable_* take canonical re-readability (C01) and verdict invariance (C09/C11) as hypotheses; false today on F3/F4 inputs",
        "C10_parse_failure_write_partial excludes parse_error_policy=salvage (F100)",
    ]
    ctx.trusted = ["Lean 4.33.0 kernel; axioms per theorem in coverage.theorems",
                   "tools/gen/tools.py (Gen/Envelopes, Gen/Guards, Gen/Schema: syntactic extraction with `ast`)",
                   "correspondence: tools/props/c10.py + tools/harness/tools_c10.py (differential; stage outcomes come from an independent "
                   "probe that calls the real parser / loader / validator / repair one by one)",
                   "modelled, not verified: control flow of the four execute() bodies and of CLI validate/write (Model/Tools.lean)",
                   "not modelled: the validator, repair, emitter themselves (their outcomes are inputs of the model); file-system failure modes "
                   "other than those forced (directory as target, parent is a file, dangling symlink)"]
    ctx.assumptions = ["stage outcomes are abstract inputs of the model (parse ok/fails, schema search result, validator error lists, which stage raises)",
                       "C10_stable_*: canonical text parses (C01) and the validator's verdict on it is no worse (C09/C11) — explicit hypotheses",
                       "well-typed arguments only (strings/booleans as the tool schemas declare)"]
