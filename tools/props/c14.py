"""C14 — Projections only remove, and say so: no invention, honest lossy flag.

Engine `project` (lean/project).  Protocol: translate -> lean build + audit -> known findings ->
correspondence (Lean model vs. projector / converters, both copies) -> oracle on the real code
(EjectTool.execute, `octave eject`, the converter API on AST objects).

Oracle, per (document, mode, format, channel), all comparisons leaf by leaf against the generator's content
model (`harness/project_docs.py`), never against another rendering:
  no-invention   leaves(rendering) is a sub-multiset of leaves(source)
  projection     leaves(rendering) = leaves(the projection project() returned)   [the four formats agree]
  lossless       canonical / authoring: leaves(rendering) = leaves(source) and lossy is False
  honest         leaves(rendering) != leaves(source)  ==>  lossy is True
  no licence to raise; a rendering must be readable by a standard reader of its format.
"""
from __future__ import annotations

import json
import os
import re
from collections import Counter

import vlib
from harness import project_docs as PD
from harness import project_gen as PG
from harness import project_impl as PI

PROJECT = "project"
PROPS = ["Octave.Props.C14", "Octave.Props.C14dup"]
ANCHORS = [("octave_mcp/core/projector.py", "_filter_fields"), ("octave_mcp/core/projector.py", "project"),
           ("octave_mcp/mcp/eject.py", "_ast_to_dict"), ("octave_mcp/mcp/eject.py", "_convert_value"),
           ("octave_mcp/mcp/eject.py", "_convert_block"), ("octave_mcp/mcp/eject.py", "_format_markdown_value"),
           ("octave_mcp/mcp/eject.py", "_ast_to_markdown"), ("octave_mcp/mcp/eject.py", "_block_to_markdown"),
           ("octave_mcp/mcp/eject.py", "EjectTool.execute"),
           ("octave_mcp/cli/main.py", "_ast_to_dict"), ("octave_mcp/cli/main.py", "_ast_to_markdown"),
           ("octave_mcp/cli/main.py", "_block_to_markdown"), ("octave_mcp/cli/main.py", "eject"),
           ("octave_mcp/core/ast_nodes.py", None)]

MODES, FORMATS, LOSSLESS = PI.MODES, PI.FORMATS, PI.LOSSLESS
OPAQUE = ""


# ---------------------------------------------------------------------------------------------
# known-finding classes: narrow predicates over the INPUT (document, format, channel)
# ---------------------------------------------------------------------------------------------
def kf_duplicate_keys(doc, fmt, channel):
    """F25: duplicate sibling keys (Assignment / Block / Section names; META counts at top level) and the format is json / yaml."""
    return fmt in ("json", "yaml") and PD.has_duplicate_siblings(doc)


def kf_md_bullet_after_subblock(doc, fmt, channel):
    """F50: markdown, and some block / section has an Assignment child after a Block / Section child."""
    return fmt == "markdown" and PD.has_assign_after_block(doc)


def kf_cli_value_passthrough(doc, fmt, channel):
    """F51: CLI copy of the converters: literal zone in json / yaml, any non-scalar value (list, inline map, zone, holographic,
    nested META block) in markdown."""
    if not channel.startswith("cli"):
        return False
    if fmt in ("json", "yaml"):
        return PD.has_kind(doc, "zone")
    return fmt == "markdown" and PD.has_nonscalar(doc)


def kf_meta_nested_block(doc, fmt, channel):
    """F52 (remainder after fix fd2ad16, which converts a nested META block for json / yaml): META contains a nested block and
    the format is markdown (the dict repr is printed as one bullet instead of the fields below it)."""
    return fmt == "markdown" and PD.has_meta_nested(doc)


CLASSES = {f.__name__: f for f in (kf_duplicate_keys, kf_md_bullet_after_subblock, kf_cli_value_passthrough, kf_meta_nested_block)}
# classes whose deviation is exactly predictable: the rendering must then equal the adjusted expectation
ADJUSTABLE = {"kf_duplicate_keys"}


def adjust(model, fmt, classes):
    m = model
    if "kf_duplicate_keys" in classes:
        m = PD.collapse_duplicates(m)
    return m


# ---------------------------------------------------------------------------------------------
# oracle
# ---------------------------------------------------------------------------------------------
def atoms(model, fmt="octave"):
    """Typed atoms of a model document as format `fmt` represents them: json / yaml show a holographic value as its
    pattern text (a string) — the representation chosen by fix 45b8e9f."""
    a = PD.flat_atoms(PD.strip_comments(model))
    if fmt in ("json", "yaml"):
        a = [(p, ("str", x[1]) if x[0] == "holo" else x) for p, x in a]
    return Counter(a)


def md_atoms(model):
    return Counter((p, PD.md_norm(PD.md_text(v))) for p, v in PD.leaves(model))


def rendering_atoms(fmt, out):
    if fmt == "json":
        return Counter(PI.view_json(out))
    if fmt == "yaml":
        return Counter(PI.view_yaml(out))
    if fmt == "markdown":
        return Counter((tuple(p), PD.md_norm(t)) for p, t in PI.view_markdown(out))
    return atoms(PI.view_octave(out))


def short(c, n=4):
    return [[list(p), list(a) if isinstance(a, tuple) else a] for (p, a), _k in list(c.items())[:n]]


def check_cell(src, pivot, ref, mode, fmt, res, has_lossy):
    """Strict oracle for one rendering.  src = source model (no-invention), pivot = the projection (formats agree),
    ref = what a lossless rendering must contain.  Returns a list of (kind, detail)."""
    if "exc" in res:
        return [("raise", res["exc"])]
    try:
        got = rendering_atoms(fmt, res["out"])
    except PI.Unreadable as e:
        return [("unreadable", str(e))]
    fa = md_atoms if fmt == "markdown" else (lambda m: atoms(m, fmt))
    src_c, piv_c, ref_c = fa(src), fa(pivot), fa(ref)
    probs = []
    extra = got - src_c
    if fmt != "markdown":
        cont = PD.container_paths(src)
        extra = Counter({k: v for k, v in extra.items() if not (k[1] == ("emptymap",) and k[0] in cont)})
    if extra:
        probs.append(("invented", f"rendering has leaves the source does not have at that path: {short(extra)}"))
    if got != piv_c:
        probs.append(("projection", f"rendering differs from the projection: missing {short(piv_c - got)} extra {short(got - piv_c)}"))
    if mode in LOSSLESS and got != ref_c:
        probs.append(("lossless", f"{mode} rendering lacks {short(ref_c - got)} has extra {short(got - ref_c)}"))
    if has_lossy:
        if mode in LOSSLESS and res.get("lossy") is not False:
            probs.append(("lossy_flag", f"{mode} reports lossy={res.get('lossy')!r}"))
        if got != ref_c and res.get("lossy") is not True:
            probs.append(("dishonest", f"rendering lacks {short(ref_c - got)} but lossy={res.get('lossy')!r}"))
    return probs


def judge(src, pivot, mode, fmt, channel, res):
    """-> (verdict, detail) with verdict in ok | known:<class> | fail."""
    has_lossy = channel in ("mcp", "api")
    probs = check_cell(src, pivot, src, mode, fmt, res, has_lossy)
    if not probs:
        return "ok", None
    classes = [n for n, f in CLASSES.items() if f(src, fmt, channel)]
    if not classes:
        return "fail", probs
    unpredictable = [c for c in classes if c not in ADJUSTABLE]
    if unpredictable:
        return "known:" + unpredictable[0], probs
    # every applicable class has an exactly predictable deviation: demand exactly that deviation
    p2 = check_cell(src, adjust(pivot, fmt, classes), adjust(src, fmt, classes), mode, fmt, res, False)
    if has_lossy and mode in LOSSLESS and res.get("lossy") is not False:
        p2.append(("lossy_flag", f"{mode} reports lossy={res.get('lossy')!r}"))
    if not p2:
        return "known:" + classes[0], probs
    return "fail", [("beyond_known_deviation:" + k, d) for k, d in p2]


# Mechanism of the property record: "filter keeps a node when its key is in the keep-set or a descendant is, and copies
# subtrees without rewriting"; keep-sets as documented (module docstring of projector.py, tool description, property text).
DOCUMENTED_KEEP = {"executive": {"STATUS", "RISKS", "DECISIONS"}, "developer": {"TESTS", "CI", "DEPS"}}


def spec_filter(nodes, keep):
    out = []
    for n in nodes:
        if n["n"] == "a":
            if n["k"] in keep:
                out.append(n)
        elif n["n"] == "b":
            if n["k"] in keep:
                out.append(n)                  # whole subtree, copied without rewriting
            else:
                ch = spec_filter(n["c"], keep)
                if ch:
                    out.append({**n, "c": ch})   # kept because a descendant is kept
    return out


def mechanism_applies(doc):
    """The sentence speaks about Assignment/Block nodes; documents with Section / Comment nodes are left to the correspondence."""
    return not any(n["n"] in ("s", "c") for n in PD.walk_nodes(doc["sections"]))


# ---------------------------------------------------------------------------------------------
# worker: run the implementation on one case (module level for pmap)
# ---------------------------------------------------------------------------------------------
def run_case(case):
    """case = {"doc": model, "via": "text"|"ast", "cli": "inproc"|"subprocess"|None}."""
    doc, via = case["doc"], case["via"]
    out = {"pre": None, "cells": {}, "obs": {}}
    from octave_mcp.core.parser import parse
    try:
        if via == "text":
            text = PD.render(doc)
            ast_doc = parse(text)
            ast_doc.trailing_comments = []
            back = PD.ast_to_model(ast_doc)
            if json.dumps(back, sort_keys=True) != json.dumps(doc, sort_keys=True):
                out["pre"] = "reader does not read the generated text back as generated (outside C14: C01/C02 findings)"
                return out
        else:
            text = None
            ast_doc = PD.build_ast(doc)
    except Exception as e:
        out["pre"] = f"generated document is not readable: {type(e).__name__}: {e}"[:200]
        return out
    for mode in MODES:
        try:
            out["obs"][mode] = PI.observables(ast_doc, mode)
        except Exception as e:
            out["obs"][mode] = {"exc": f"{type(e).__name__}: {e}"[:300]}
    path = None
    try:
        if via == "text" and case.get("cli"):
            path = PI.write_temp(text)
        for mode in MODES:
            for fmt in FORMATS:
                if via == "text":
                    out["cells"][f"mcp|{mode}|{fmt}"] = PI.eject_mcp(text, mode, fmt)
                    if case.get("cli") == "inproc":
                        out["cells"][f"cli|{mode}|{fmt}"] = PI.eject_cli_inproc(path, mode, fmt)
                    elif case.get("cli") == "subprocess":
                        out["cells"][f"cli_sub|{mode}|{fmt}"] = PI.eject_cli_subprocess(path, mode, fmt)
                else:
                    out["cells"][f"api|{mode}|{fmt}"] = PI.eject_api(ast_doc, mode, fmt, "mcp")
                    out["cells"][f"cli_api|{mode}|{fmt}"] = PI.eject_api(ast_doc, mode, fmt, "cli")
    finally:
        if path:
            try:
                os.unlink(path)
            except OSError:
                pass
    # ---- oracle on the real code (in the worker: parsing the renderings back is the expensive part) ----------------
    out["verdicts"], out["counts"] = judge_case(doc, via, out["obs"], out["cells"])
    if not case.get("keep_cells"):
        out["cells"] = None
    return out


def judge_case(doc, via, obs_by_mode, cells):
    verdicts, counts = [], {}

    def cnt(k):
        counts[k] = counts.get(k, 0) + 1

    def fail(mode, why, why_class, **kw):
        verdicts.append({"kind": "projection-fail", "mode": mode, "why": why, "why_class": why_class, **kw})
    text = PD.render(doc) if via == "text" else None
    for mode in MODES:
        obs = obs_by_mode[mode]
        if "exc" in obs:
            fail(mode, "project()/converter raised: " + obs["exc"], "raise")
            continue
        pivot = obs["doc"]
        # the projection itself only removes
        inv = atoms(pivot) - atoms(doc)
        cont = PD.container_paths(doc)
        inv = {k: v for k, v in inv.items() if not (k[1] == ("emptymap",) and k[0] in cont)}
        if inv:
            fail(mode, f"projection invents {short(Counter(inv))}", "filter-invents")
        if mode in LOSSLESS and (atoms(pivot) != atoms(doc) or obs["lossy"] is not False):
            fail(mode, f"{mode} projection is not the document or lossy={obs['lossy']}", "lossless-mode")
        if atoms(pivot) != atoms(doc) and obs["lossy"] is not True:
            fail(mode, "projection dropped leaves but lossy is not True", "dishonest-projection")
        if mode in DOCUMENTED_KEEP and mechanism_applies(doc):
            want = {**PD.strip_comments(doc), "sections": spec_filter(PD.strip_comments(doc)["sections"], DOCUMENTED_KEEP[mode])}
            if atoms(want) != atoms(pivot) or json.dumps(want["sections"], sort_keys=True) != json.dumps(PD.strip_comments(pivot)["sections"], sort_keys=True):
                cnt("mechanism:FAIL")
                fail(mode, f"{mode} projection is not 'keep a node when its key is in {sorted(DOCUMENTED_KEEP[mode])} or a descendant is, subtrees copied "
                           f"without rewriting': expected leaves {short(atoms(want) - atoms(pivot))} missing, {short(atoms(pivot) - atoms(want))} unexpected",
                     "mechanism:" + mode, text=text, expected_projection=want["sections"], observed_projection=pivot["sections"])
            else:
                cnt("mechanism:ok")
        safe = PD.text_safe(pivot)
        for key, res in cells.items():
            channel, m, fmt = key.split("|")
            if m != mode:
                continue
            if fmt == "octave" and not safe:
                cnt("octave_view_skipped:outside_reader_roundtrip")
                continue
            verdict, detail = judge(doc, pivot, mode, fmt, channel, res)
            cnt(f"cell:{channel}:{fmt}:{verdict.split(':')[0]}")
            if verdict == "ok":
                continue
            verdicts.append({"kind": verdict, "mode": mode, "format": fmt, "channel": channel, "detail": [list(x) for x in detail[:4]], "text": text,
                             "observed": {k: (v[:800] if isinstance(v, str) else v) for k, v in res.items()}})
    return verdicts, counts


# ---------------------------------------------------------------------------------------------
def md_matches(model_md, impl_md):
    """The model's markdown with opaque segments (repr of foreign objects) as wildcards."""
    if OPAQUE not in model_md:
        return model_md == impl_md
    rx = ".*?".join(re.escape(seg) for seg in model_md.split(OPAQUE))
    return re.fullmatch(rx, impl_md, re.S) is not None


def normj(x):
    return json.loads(json.dumps(x))


def compare_obs(rep, obs):
    """Correspondence view: projected document, lossy, fields_omitted, both dict conversions (+ jsonable), both markdowns."""
    diffs = []
    if "exc" in obs:
        return [("exception", None, obs["exc"])]
    for k in ("doc", "lossy", "omitted", "dict_mcp", "dict_cli", "jsonable_mcp", "jsonable_cli"):
        if normj(rep[k]) != normj(obs[k]):
            diffs.append((k, rep[k], obs[k]))
    for k in ("md_mcp", "md_cli"):
        if not md_matches(rep[k], obs[k]):
            diffs.append((k, rep[k], obs[k]))
    return diffs


def corpus_cases():
    d = vlib.VERIF / "corpus" / "C14"
    out = []
    if d.exists():
        for p in sorted(d.glob("*.json")):
            j = json.loads(p.read_text())
            for c in (j if isinstance(j, list) else [j]):
                out.append({"doc": c["doc"], "via": c.get("via", "text"), "cli": "inproc", "origin": p.name})
    return out


def replay_case(ctx):
    """--replay f: re-execute exactly the document of the replay file (all modes / formats / channels) on the current tree and the model."""
    try:
        j = json.loads(open(ctx.replay).read())
        c = j.get("case") or (j.get("correspondence_disagreements") or [{}])[0].get("case") or {}
        if "doc" in c:
            via = c.get("via", "text")
            return [{"doc": c["doc"], "via": via, "cli": "inproc" if via == "text" else None, "origin": "replay"}]
    except Exception as e:
        ctx.notes.append(f"replay file not usable ({e}); running the full check")
    return None


def build_cases(ctx):
    if ctx.replay:
        rc = replay_case(ctx)
        if rc:
            return rc
    cases = corpus_cases()
    wide = ctx.thorough or ctx.widen > 1
    # exhaustive small scope: every ordered pair (thorough: triple) of node templates
    for feats, width in ((PG.CLEAN_FEATS, 2), (PG.ALL_FEATS, 2)):
        for d in PG.exhaustive(feats, width):
            cases.append({"doc": d, "via": "text", "cli": "inproc", "origin": f"exh{width}"})
    if ctx.thorough:
        for d in PG.exhaustive(PG.CLEAN_FEATS, 3):
            cases.append({"doc": d, "via": "text", "cli": None, "origin": "exh3"})
    rng = ctx.rng
    w = 1 if ctx.thorough else min(ctx.widen, 4)        # a broken tie / changed fingerprint widens the quick search x4
    n_text = 4000 if ctx.thorough else 500 * w
    n_ast = 2000 if ctx.thorough else 250 * w
    n_sub = 150 if ctx.thorough else (16 if ctx.widen > 1 else 4)
    for i in range(n_text):
        feats = PG.CLEAN_FEATS if i % 3 else PG.ALL_FEATS
        d = PG.gen_doc(rng, feats, maxdepth=4 if wide else 3, from_text=True)
        cases.append({"doc": d, "via": "text", "cli": "inproc", "origin": "rnd_text"})
    for i in range(n_ast):
        feats = PG.CLEAN_FEATS if i % 3 else PG.ALL_FEATS
        d = PG.gen_doc(rng, feats, maxdepth=4 if wide else 3, from_text=False)
        cases.append({"doc": d, "via": "ast", "cli": None, "origin": "rnd_ast"})
    for i in range(n_sub):
        feats = PG.CLEAN_FEATS if i % 3 else PG.ALL_FEATS
        d = PG.gen_doc(rng, feats, maxdepth=3, from_text=True)
        cases.append({"doc": d, "via": "text", "cli": "subprocess", "origin": "rnd_cli_subprocess"})
    return cases


def replay_findings(ctx, findings):
    for f in findings:
        w = f["witness"]
        case = {"doc": w["doc"], "via": w.get("via", "text"), "cli": "inproc", "keep_cells": True}
        r = run_case(case)
        if r["pre"]:
            ctx.notes.append(f"witness of {f['id']} no longer readable: {r['pre']}")
            continue
        key = f"{w['channel']}|{w['mode']}|{w['format']}"
        res = r["cells"].get(key)
        obs = r["obs"].get(w["mode"], {})
        if res is None or "exc" in obs:
            continue
        probs = check_cell(w["doc"], obs["doc"], w["doc"], w["mode"], w["format"], res, w["channel"] in ("mcp", "api"))
        if probs:
            ctx.known_reproduced.append((f, f"{key}: {probs[0][0]}"))
        else:
            ctx.notes.append(f"known finding {f['id']} no longer reproduces on its witness (fixed?)")


def run(ctx: vlib.Ctx):
    ctx.rule = ("documents = corpus + all ordered pairs (thorough/widened: triples) of node templates covering every construct "
                "+ seeded structured documents (text route and AST route); each document x 4 modes x 4 formats x channels "
                "(octave_eject, `octave eject` in-process, thorough: real subprocess; converter API for AST-built documents); "
                "a case is non-trivial when the document has at least one leaf; distinct = distinct documents")
    ctx.translate(PROJECT)
    proj = ctx.lean(PROJECT, PROPS)
    changed = vlib.fingerprints_changed(ctx.prop, ANCHORS)
    if changed:
        ctx.widen = max(ctx.widen, 8)
        ctx.notes.append(f"fingerprint of a modelled function changed ({changed}): search widened")
    findings = vlib.load_findings(ctx.prop)
    by_class = {f["cls"]: f for f in findings}
    replay_findings(ctx, findings)

    cases = build_cases(ctx)
    # expensive cases (real CLI subprocesses) first and small chunks, so that they spread over the workers
    cases.sort(key=lambda c: 0 if c.get("cli") == "subprocess" else 1)
    results = vlib.pmap(run_case, cases, chunksize=1 if len(cases) < 400 else 6)
    # Lean model on every (document, mode)
    drv = proj.driver()
    reqs, idx = [], []
    for ci, (case, r) in enumerate(zip(cases, results)):
        if r["pre"]:
            continue
        for mode in MODES:
            reqs.append({"op": "project", "doc": case["doc"], "mode": mode})
            idx.append((ci, mode))
    replies = drv.batch_par(reqs)
    model = {k: rep for k, rep in zip(idx, replies)}

    for ci, (case, r) in enumerate(zip(cases, results)):
        doc = case["doc"]
        n_leaves = len(PD.leaves(doc))
        ctx.case({"doc": doc, "via": case["via"]}, nontrivial=n_leaves > 0)
        ctx.count("origin:" + case["origin"])
        ctx.count("via:" + case["via"])
        ctx.count("leaves:%s" % ("0" if n_leaves == 0 else "1-3" if n_leaves <= 3 else "4-9" if n_leaves <= 9 else "10+"))
        ctx.count("depth:%d" % PD.depth(doc["sections"]))
        for nm, pred in (("section", PD.has_section(doc)), ("dupkeys", PD.has_duplicate_siblings(doc)), ("holo", PD.has_kind(doc, "holo")),
                         ("zone", PD.has_kind(doc, "zone")), ("list", PD.has_kind(doc, "list")), ("imap", PD.has_kind(doc, "imap")),
                         ("meta", bool(doc["meta"])), ("assign_after_block", PD.has_assign_after_block(doc)), ("meta_nested", PD.has_meta_nested(doc)),
                         ("filterkey", any(n.get("k") in PD.FILTER_KEYS for n in PD.walk_nodes(doc["sections"])))):
            if pred:
                ctx.count("has:" + nm)
        if r["pre"]:
            ctx.count("skipped:precondition")
            continue
        for mode in MODES:
            obs = r["obs"][mode]
            rep = model[(ci, mode)]
            # ---- correspondence -----------------------------------------------------------------
            if "unsupported" in rep:
                ctx.count("model_unsupported")
            else:
                diffs = compare_obs(rep, obs)
                if diffs and len(ctx.corr_disagreements) < 20:
                    k, a, b = diffs[0]
                    ctx.corr_disagreements.append({"case": {"doc": doc, "mode": mode, "via": case["via"]}, "view": k,
                                                   "model": a if not isinstance(a, str) else a[:600], "impl": b if not isinstance(b, str) else b[:600]})
                elif diffs:
                    ctx.corr_disagreements.append({"view": diffs[0][0]})
                # class predicates: the Lean definitions (negated in the hypotheses of the _partial theorems)
                # and the Python predicates used below must be the same predicates
                kf = rep["kf"]
                for lean_k, py_v in (("sections", PD.has_section(doc)), ("dups", PD.has_duplicate_siblings(doc)), ("holo", PD.has_kind(doc, "holo")),
                                     ("bullet_after_block", PD.has_assign_after_block(doc)), ("zones", PD.has_kind(doc, "zone")),
                                     ("meta_nested", PD.has_kind(doc, "pydict"))):
                    if kf[lean_k] != py_v:
                        ctx.corr_disagreements.append({"case": {"doc": doc}, "view": "class predicate " + lean_k, "model": kf[lean_k], "impl": py_v})
        for k, n in r["counts"].items():
            ctx.count(k, n)
        for v in r["verdicts"]:
            base = {"doc": doc, "mode": v["mode"], "via": case["via"]}
            if v["kind"] == "projection-fail":
                ctx.failures.append({"case": {**base, "text": v.get("text")}, "why": v["why"], "why_class": v["why_class"],
                                     **{k: v[k] for k in ("expected_projection", "observed_projection") if k in v}})
                continue
            detail = v["detail"]
            if v["kind"].startswith("known:"):
                cls = v["kind"][6:]
                f = by_class.get(cls)
                if f is not None:
                    ctx.known_hits[f["id"]] = ctx.known_hits.get(f["id"], 0) + 1
                    continue
                detail = [["class-without-open-finding:" + cls, detail[0][1]]]
            kind, why = detail[0]
            ctx.failures.append({"case": {**base, "format": v["format"], "channel": v["channel"], "text": v.get("text")},
                                 "why": f"{kind}: {why}", "why_class": f"{kind.split(':')[0]}:{v['format']}", "observed": v["observed"], "all_problems": detail})
    ctx.trusted = ["Lean 4.33.0 kernel; axioms per theorem in coverage.theorems",
                   "tools/gen/project.py (Gen/Project.lean: keep-lists, mode table, converter dispatch classes, eject lossy expressions)",
                   "correspondence: tools/props/c14.py + harness/project_impl.py (differential: projected document, lossy, fields_omitted, dict of both converter copies, jsonable, markdown of both copies)",
                   "back-parsers of the oracle: json.loads, yaml.safe_load, octave_mcp.parse (for the OCTAVE rendering; C01/C02 own its faithfulness), harness markdown scan",
                   "modelled, not verified: control flow of _filter_fields / converters (validated differentially)"]
    ctx.assumptions = ["json.dumps / yaml.dump are faithful on native values (not modelled; their output is parsed back by the oracle)",
                       "the OCTAVE rendering is judged by reading it back with the repo's reader inside the constructs that round-trip today (text_safe); outside, the cell is counted as skipped",
                       "markdown values are compared as text (type-erased: True/true, None/null identified)"]
    ctx.extra["known_classes"] = {n: (f.__doc__ or "").strip() for n, f in CLASSES.items()}
