"""C02 — Canonicalisation preserves document content exactly (I1 fidelity).

Oracle: the content of parse_with_warnings(render(model, spelling)) — for the canonical and a lenient
spelling — and of the strict re-read of the canonical text must equal the content the generator put
in (known independently of any parser): envelope name, grammar version, frontmatter, META entries in
order, node kinds, keys, nesting, sibling order, values with type, targets, section ids/annotations,
comments by attachment.  A covering matrix forces every value kind into every position.
Correspondence: Lean reader model AST (positions included) == implementation AST on the same text.
"""
import asyncio
import json
import random

import vlib
from harness import docgen as G
from harness import text as T
from harness import textcheck as TC
from props import _text as X

PROPS = ["Octave.Props.C02", "Octave.Props.C02lists", "Octave.Props.C02flat", "Octave.Props.C02blocks", "Octave.Props.C02comments", "Octave.Props.C02orphans", "Octave.Props.C01roundtrip", "Octave.Props.C01tree", "Octave.Props.C01comments", "Octave.Props.C01meta", "Octave.Props.C01sections", "Octave.Props.C01lists", "Octave.Props.C01ctree", "Octave.Props.C01unified", "Octave.Props.C01document", "Octave.Props.C01master", "Octave.Props.C01maps", "Octave.Props.C01nested", "Octave.Props.C02orphantree"]


def kf_frontmatter_with_sentinel(case) -> bool:
    """C02N2: YAML frontmatter AND a grammar sentinel (the sentinel only matches at offset 0)."""
    m = case.get("model") or {}
    return m.get("fm") is not None and bool(m.get("gv"))


CLASSES = {}


def matrix_chunk(items):
    out = []
    rng = random.Random(7)
    for (pos, i, d) in items:
        for canonical in (True, False):
            text, _ = G.render(d, G.Spelling(rng, canonical=canonical, p=0.5))
            out.append((pos, i, d, canonical, text, TC.eval_text(text)))
    return out


def content_oracle(exp, r):
    if "err" in r["pw"]:
        return f"reader rejects a document of the surface grammar: {r['pw']['err']}", "rejected"
    got = G.strip_positions(r["pw"]["doc"])
    if got != exp:
        return f"content read differs from content written at {TC.short(TC.firstdiff(got, exp), 300)}", "content-read"
    if "strict_doc" not in r:
        return f"canonical text not re-readable: {r.get('strict_err') or r.get('c1_err')}", "canonical-unreadable"
    got2 = G.strip_positions(r["strict_doc"])
    if got2 != exp:
        return f"content of the canonical text differs at {TC.short(TC.firstdiff(got2, exp), 300)}", "content-reread"
    return None


def run(ctx: vlib.Ctx):
    ctx.rule = ("content-model documents (all constructs of the surface grammar, depth <=3) in canonical and one seeded lenient spelling, "
                "plus the covering matrix value-kind x position (top, block, nested block, section, META, nested META, list item, "
                "inline-map value, bare zone at every sibling index) in both spellings; distinct = distinct rendered text")
    proj = X.setup(ctx, PROPS)
    findings = vlib.load_findings(ctx.prop)
    for f in findings:
        w = f["witness"]
        r = TC.eval_text(w["text"])
        exp = w.get("expected_name")
        if "doc" in r["pw"] and r["pw"]["doc"]["name"] != exp:
            ctx.known_reproduced.append((f, f"document name read as {r['pw']['doc']['name']!r}, written {exp!r}"))
        else:
            ctx.notes.append(f"known finding {f['id']} no longer reproduces on its witness")
    docs = X.doc_cases(ctx, ctx.budget(800, 8000))
    matrix = G.matrix_docs()
    mres = [r for ch in vlib.pmap(matrix_chunk, [matrix[i:i + 40] for i in range(0, len(matrix), 40)], chunksize=1) for r in ch]
    texts, impl = [], []
    # generated documents
    for r in docs:
        for which, text in (("c", r["ctext"]), ("l", r["ltext"])):
            case = {"text": text, "model": r["model"], "spelling": "canonical" if which == "c" else "lenient"}
            ctx.case({"text": text})
            o = content_oracle(r["expected"], r[which])
            if o:
                X.classify(ctx, findings, CLASSES, case, o[0], o[1])
            ctx.count("doc:" + ("ok" if not o else o[1]))
            texts.append(text); impl.append(r[which]["pw"])
    # covering matrix
    cover = {}
    for (pos, i, d, canonical, text, r) in mres:
        case = {"text": text, "model": d, "position": pos, "kind": i}
        ctx.case({"text": text})
        o = content_oracle(G.expected_doc(d), r)
        if o:
            X.classify(ctx, findings, CLASSES, case, o[0], o[1])
        cover[pos] = cover.get(pos, 0) + 1
        texts.append(text); impl.append(r["pw"])
    ctx.extra["position_matrix_counts"] = cover
    # correspondence: full AST with positions, receipts excluded (C07's view)
    for text, pw, m in zip(texts, impl, X.lean_parse_warn(proj, texts)):
        if T.model_unsupported(m):
            ctx.count("model_unsupported")
        elif ("doc" in m) != ("doc" in pw) or ("doc" in m and m["doc"] != pw["doc"]) or ("err" in m and m["err"] != pw["err"]):
            X.corr(ctx, {"text": text}, "AST with positions / exception of parse_with_warnings",
                   TC.short(TC.firstdiff(m.get("doc", m), pw.get("doc", pw)), 300), "see first difference (model vs impl)")
    # second view: octave_eject(format=json, mode=canonical) contains every scalar leaf JSON can carry
    from octave_mcp.mcp.eject import EjectTool
    sample = docs[: ctx.budget(60, 600)]
    for r in sample:
        if "err" in r["c"]["pw"]:
            continue
        try:
            res = asyncio.run(EjectTool().execute(content=r["ctext"], schema="META", mode="canonical", format="json"))
            out = res.get("output")
            if isinstance(out, str):
                js = json.loads(out)
                flat = json.dumps(js, ensure_ascii=False)
                keys = [n.get("k") for n in r["model"]["nodes"]]
                for n in r["model"]["nodes"]:
                    # duplicate sibling keys collapse in a JSON object (C14's finding F25): only unique keys are checked here
                    if n["t"] == "assign" and keys.count(n["k"]) == 1 and n["v"]["t"] in ("word", "int") and json.dumps(n["v"]["v"], ensure_ascii=False).strip('"') not in flat:
                        X.classify(ctx, findings, CLASSES, {"text": r["ctext"], "model": r["model"]},
                                   f"octave_eject json view lacks top-level value of key {n['k']}", "eject-json-view")
            ctx.count("eject_json_view")
        except BaseException as e:  # noqa: BLE001 - C20/C14 own tool robustness; count only
            ctx.count("eject_json_raised:" + type(e).__name__)
    ctx.assumptions = ["the content model (tools/harness/docgen.py) is the oracle: expected content is computed without any parser",
                       "proved for all inputs of each class (the Props modules listed under coverage.theorems): content preservation at document level for flat documents, nested blocks, META + trees, sections, list values, comments (leading / trailing / orphan / end-of-document), reader value typing; mixtures outside the listed classes, inline maps, holographic values, zones in lists: decided by the content oracle and the correspondence"]
