#!/venv/bin/python
"""Confirm seeded changes delivered under /tmp/seed/out_<ID>/ (patch<k>.diff, demo<k>.py, meta<k>.json) and keep the
confirmed ones as seeded/<ID>-<k>/ {patch.diff, demo.py, meta.json}.
Confirmation (all in a scratch worktree of /repo HEAD, never in /repo): patch applies; demo exits 1 with the patch and 0
without; the pinned baseline suite passes with the patch."""
import json
import os
import shutil
import subprocess
import sys
from pathlib import Path

VERIF = Path(__file__).resolve().parents[1]


def sh(cmd, **kw):
    return subprocess.run(cmd, capture_output=True, text=True, **kw)


def confirm(pid: str, k: int):
    out = Path(f"/tmp/seed/out_{pid}")
    patch, demo, meta = out / f"patch{k}.diff", out / f"demo{k}.py", out / f"meta{k}.json"
    if not (patch.exists() and demo.exists()):
        return None
    dest = VERIF / "seeded" / f"{pid}-{k}"
    if (dest / "meta.json").exists():
        return "already kept"
    wt = f"/tmp/seed/confirm_{pid}_{k}"
    sh(["git", "-C", "/repo", "worktree", "add", "-q", wt, "HEAD"])
    try:
        env = dict(os.environ, PYTHONPATH=f"{wt}/src")
        r0 = sh(["/venv/bin/python", str(demo)], env=env, cwd=wt, timeout=600)
        a = sh(["git", "-C", wt, "apply", str(patch)])
        if a.returncode != 0:
            return f"patch does not apply: {a.stderr[:200]}"
        r1 = sh(["/venv/bin/python", str(demo)], env=env, cwd=wt, timeout=600)
        b = sh(["/venv/bin/python", str(VERIF / "tools" / "seed_baseline.py"), wt], timeout=3000)
        ok = r0.returncode == 0 and r1.returncode == 1 and b.returncode == 0
        ran = {"demo_clean_rc": r0.returncode, "demo_patched_rc": r1.returncode, "baseline_rc": b.returncode,
               "baseline_tail": b.stdout.strip().split("\n")[:3], "demo_patched_output": (r1.stdout + r1.stderr)[-600:]}
        if not ok:
            return f"NOT confirmed: {ran}"
        dest.mkdir(parents=True, exist_ok=True)
        # the demo refers to the scratch worktree path: make it tree-agnostic (it imports octave_mcp from PYTHONPATH)
        text = demo.read_text().replace(f"/tmp/seed/wt5_{pid}", "$REPO").replace(f"/tmp/seed/wt4_{pid}", "$REPO").replace(f"/tmp/seed/wt3_{pid}", "$REPO").replace(f"/tmp/seed/wt_{pid}", "$REPO")
        (dest / "demo.py").write_text(text)
        shutil.copy(patch, dest / "patch.diff")
        m = json.load(open(meta)) if meta.exists() else {}
        m["property"] = pid
        m["confirmed_by_lead"] = ran
        m["how_to_run_demo"] = "PYTHONPATH=<tree>/src /venv/bin/python demo.py  (exit 1 with patch.diff applied, exit 0 on the clean tree)"
        json.dump(m, open(dest / "meta.json", "w"), indent=1)
        return "confirmed and kept"
    finally:
        sh(["git", "-C", "/repo", "worktree", "remove", "--force", wt])


if __name__ == "__main__":
    for pid in sys.argv[1:]:
        for k in (1, 2, 3, 4, 5, 6, 7, 8):
            r = confirm(pid, k)
            if r is not None:
                print(f"{pid}-{k}: {r}", flush=True)
