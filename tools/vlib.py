"""Shared machinery for the /verif checks (see DESIGN.md section 2).

Every property check is a module tools/props/cXX.py exposing `run(ctx)`; it uses this library to
  1. regenerate the Lean `Gen` files from /repo (translator),
  2. build the Lean project and collect broken proof obligations,
  3. audit axioms / forbidden constructs,
  4. replay known findings,
  5. run the correspondence (Lean driver vs. real implementation),
  6. run the property oracle on the real code (failing-input search),
  7. print the verdict lines, write the replay and the evidence file, and exit.

Exit codes: 0 property held on everything explored, 1 violation (VIOLATION line printed),
2 infrastructure failure (never prints a VIOLATION line).
"""
from __future__ import annotations

import ast
import hashlib
import json
import os
import random
import re
import subprocess
import sys
import time
import traceback
from concurrent.futures import ProcessPoolExecutor
from pathlib import Path

VERIF = Path(__file__).resolve().parents[1]
REPO = Path(os.environ.get("VERIF_REPO", "/repo"))
SRC = REPO / "src"
LEAN = VERIF / "lean"
PY = "/venv/bin/python"
NCPU = min(16, os.cpu_count() or 4)
GUARD = "OCTAVE_MCP_VERIF"
# The implementation under test is always imported from REPO/src (the working tree), also in
# subprocesses; VERIF_REPO=/some/worktree redirects every check to another tree.
sys.path.insert(0, str(SRC))
os.environ["PYTHONPATH"] = str(SRC) + (os.pathsep + os.environ["PYTHONPATH"] if os.environ.get("PYTHONPATH") else "")

STD_AXIOMS = {"propext", "Classical.choice", "Quot.sound"}
FORBIDDEN = [
    (r"\bsorry\b", "sorry"),
    (r"\badmit\b", "admit"),
    (r"^\s*axiom\s", "axiom"),
    (r"\bnative_decide\b", "native_decide"),
    (r"\bbv_decide\b", "bv_decide"),
    (r"implemented_by", "implemented_by"),
    (r"\bunsafe\s", "unsafe"),
    (r"maxHeartbeats\s+0\b", "maxHeartbeats 0"),
]


class Infra(Exception):
    """Infrastructure failure: exit 2, no VIOLATION line."""


def sh(cmd, cwd=None, timeout=3600, env=None, input=None):
    e = dict(os.environ)
    if env:
        e.update(env)
    p = subprocess.run(cmd, cwd=cwd, capture_output=True, text=True, timeout=timeout, env=e, input=input)
    return p.returncode, p.stdout, p.stderr


# --------------------------------------------------------------------------------------------
# Lean side
# --------------------------------------------------------------------------------------------

def strip_lean_comments(src: str) -> str:
    """Remove -- line comments and /- -/ block comments (nesting handled) from Lean source."""
    out = []
    i, n, depth = 0, len(src), 0
    in_str = False
    while i < n:
        if depth == 0 and not in_str and src.startswith("--", i):
            j = src.find("\n", i)
            i = n if j < 0 else j
            continue
        if not in_str and src.startswith("/-", i):
            depth += 1
            i += 2
            continue
        if depth > 0 and src.startswith("-/", i):
            depth -= 1
            i += 2
            continue
        if depth > 0:
            if src[i] == "\n":
                out.append("\n")
            i += 1
            continue
        c = src[i]
        if c == '"' and (i == 0 or src[i - 1] != "\\" or in_str is False):
            # toggle string state (good enough for our sources: no escaped quotes at string start)
            if in_str and src[i - 1] == "\\" and src[i - 2] != "\\":
                pass
            else:
                in_str = not in_str
        out.append(c)
        i += 1
    return "".join(out)


DECL_RE = re.compile(r"^(?:@\[[^\]]*\]\s*)*(?:private\s+|protected\s+)?(theorem|lemma|example|def|instance|abbrev|structure|inductive)\b\s*([^\s:({\[]*)", re.M)


def declarations(path: Path):
    """[(line, kind, name)] of top-level declarations in a Lean file (comments stripped)."""
    src = strip_lean_comments(path.read_text())
    res = []
    for m in DECL_RE.finditer(src):
        line = src.count("\n", 0, m.start()) + 1
        res.append((line, m.group(1), m.group(2) or f"example@{line}"))
    return res


def qualified_declarations(path: Path):
    """[(line, kind, fully qualified name)]: namespaces are tracked through `namespace X` / `end X`, and a name written
    `_root_.A.b` is taken as `A.b`."""
    src = strip_lean_comments(path.read_text())
    events = [(m.start(), "ns", m.group(1)) for m in re.finditer(r"^namespace[ \t]+(\S+)", src, re.M)]
    events += [(m.start(), "end", m.group(1)) for m in re.finditer(r"^end[ \t]+(\S+)", src, re.M)]
    events += [(m.start(), "decl", m) for m in DECL_RE.finditer(src)]
    stack, res = [], []
    for pos, kind, x in sorted(events, key=lambda e: e[0]):
        if kind == "ns":
            stack.append(x)
        elif kind == "end":
            if stack and stack[-1] == x:
                stack.pop()
        else:
            line = src.count("\n", 0, pos) + 1
            name = x.group(2) or f"example@{line}"
            if name.startswith("_root_."):
                full = name[len("_root_."):]
            else:
                full = ".".join(stack + [name]) if stack else name
            res.append((line, x.group(1), full))
    return res


def namespace_of(path: Path) -> str:
    m = re.search(r"^namespace\s+(\S+)", strip_lean_comments(path.read_text()), re.M)
    return m.group(1) if m else ""


class LeanProject:
    def __init__(self, name: str):
        self.name = name
        self.dir = LEAN / name
        if not (self.dir / "lakefile.toml").exists():
            raise Infra(f"no lake project {self.dir}")

    def module_path(self, module: str) -> Path:
        return self.dir / (module.replace(".", "/") + ".lean")

    def build(self, targets, timeout=3000):
        """lake build targets. Returns (ok, broken) where broken = [{file,line,decl,msg}]."""
        rc, out, err = sh(["lake", "build", *targets], cwd=self.dir, timeout=timeout)
        text = out + "\n" + err
        broken = []
        if rc != 0:
            for m in re.finditer(r"^error: ([^\s:]+\.lean):(\d+):(\d+): (.*)$", text, re.M):
                f, ln, _c, msg = m.group(1), int(m.group(2)), m.group(3), m.group(4)
                p = (self.dir / f) if not os.path.isabs(f) else Path(f)
                decl = "?"
                try:
                    for (dl, kind, name) in declarations(p):
                        if dl <= ln:
                            decl = f"{kind} {name}"
                except Exception:
                    pass
                broken.append({"file": f, "line": ln, "decl": decl, "msg": msg[:300]})
            if not broken:
                broken.append({"file": "?", "line": 0, "decl": "lake build", "msg": text[-1500:]})
        return rc == 0, broken, text

    def forbidden(self):
        """Forbidden constructs outside comments in every .lean file of the project."""
        hits = []
        for p in sorted(self.dir.rglob("*.lean")):
            if ".lake" in p.parts:
                continue
            src = strip_lean_comments(p.read_text())
            for i, line in enumerate(src.split("\n"), 1):
                for rx, name in FORBIDDEN:
                    if re.search(rx, line):
                        hits.append(f"{p.relative_to(self.dir)}:{i}: {name}")
                if re.search(r"\bpartial\s+def\b", line) and p.name != "Driver.lean":
                    hits.append(f"{p.relative_to(self.dir)}:{i}: partial def")
        return hits

    def audit(self, modules):
        """#print axioms for every theorem of the given Props modules.
        Returns (theorems: {name: [axioms]}, examples: int, problems: [str])."""
        names, n_examples = [], 0
        for mod in modules:
            p = self.module_path(mod)
            for (_l, kind, name) in qualified_declarations(p):
                if kind in ("theorem", "lemma"):
                    names.append(name)
                elif kind == "example":
                    n_examples += 1
        aud_dir = self.dir / ".lake" / "audit"
        aud_dir.mkdir(parents=True, exist_ok=True)
        f = aud_dir / ("Audit_" + "_".join(m.split(".")[-1] for m in modules) + ".lean")
        f.write_text("".join(f"import {m}\n" for m in modules) + "".join(f"#print axioms {n}\n" for n in names))
        rc, out, err = sh(["lake", "env", "lean", str(f)], cwd=self.dir, timeout=1800)
        text = out + err
        thms, problems = {}, []
        for m in re.finditer(r"'([^\n]+?)' (does not depend on any axioms|depends on axioms: \[([^\]]*)\])", text, re.S):  # names may end in primes
            axs = [a.strip() for a in (m.group(3) or "").replace("\n", " ").split(",") if a.strip()]
            thms[m.group(1)] = axs
            bad = [a for a in axs if a not in STD_AXIOMS]
            if bad:
                problems.append(f"{m.group(1)} depends on non-standard axioms {bad}")
        for n in names:
            if n not in thms:
                problems.append(f"no axiom report for {n}")
        if rc != 0 and not problems:
            problems.append("audit file failed to elaborate: " + text[-500:])
        problems += [f"forbidden construct: {h}" for h in self.forbidden()]
        return thms, n_examples, problems

    def leanchecker(self, modules):
        rc, out, err = sh(["lake", "env", "leanchecker", *modules], cwd=self.dir, timeout=3000)
        return rc == 0, (out + err)[-800:]

    def driver(self):
        exe = self.dir / ".lake" / "build" / "bin" / "driver"
        if not exe.exists():
            ok, broken, text = self.build(["driver"])
            if not ok:
                raise Infra("driver does not build: " + json.dumps(broken)[:800])
        return Driver(exe)


class Driver:
    """JSON-lines protocol with the compiled Lean model driver. One request per line, one reply per line."""

    def __init__(self, exe: Path):
        self.exe = exe

    def batch(self, reqs, timeout=1800):
        if not reqs:
            return []
        data = "".join(json.dumps(r, ensure_ascii=False) + "\n" for r in reqs)
        p = subprocess.run([str(self.exe)], input=data.encode("utf-8"), capture_output=True, timeout=timeout)
        if p.returncode != 0:
            raise Infra(f"driver exit {p.returncode}: {p.stderr.decode('utf-8', 'replace')[-500:]}")
        lines = p.stdout.decode("utf-8").split("\n")
        if lines and lines[-1] == "":
            lines.pop()
        if len(lines) != len(reqs):
            raise Infra(f"driver returned {len(lines)} lines for {len(reqs)} requests")
        return [json.loads(l) for l in lines]

    def batch_par(self, reqs, chunks=NCPU, timeout=1800):
        if len(reqs) < 2000:
            return self.batch(reqs, timeout)
        from concurrent.futures import ThreadPoolExecutor
        k = (len(reqs) + chunks - 1) // chunks
        parts = [reqs[i:i + k] for i in range(0, len(reqs), k)]
        with ThreadPoolExecutor(len(parts)) as ex:
            outs = list(ex.map(lambda p: self.batch(p, timeout), parts))
        return [x for o in outs for x in o]


# --------------------------------------------------------------------------------------------
# Translator helpers (source -> Lean text)
# --------------------------------------------------------------------------------------------

def lean_str(s: str) -> str:
    out = ['"']
    for ch in s:
        o = ord(ch)
        if ch == "\\":
            out.append("\\\\")
        elif ch == '"':
            out.append('\\"')
        elif ch == "\n":
            out.append("\\n")
        elif ch == "\t":
            out.append("\\t")
        elif ch == "\r":
            out.append("\\r")
        elif o < 32 or o == 127:
            out.append("\\x%02x" % o)
        else:
            out.append(ch)
    out.append('"')
    return "".join(out)


def lean_list(items) -> str:
    return "[" + ", ".join(items) + "]"


def write_if_changed(path: Path, text: str) -> bool:
    path.parent.mkdir(parents=True, exist_ok=True)
    if path.exists() and path.read_text() == text:
        return False
    path.write_text(text)
    return True


def source_ast(rel: str) -> ast.Module:
    return ast.parse((SRC / rel).read_text())


def find_def(tree: ast.AST, qual: str):
    """Find function/class node by dotted name inside a module AST."""
    cur = tree
    for part in qual.split("."):
        nxt = None
        for n in ast.walk(cur) if cur is tree else ast.iter_child_nodes(cur):
            if isinstance(n, (ast.FunctionDef, ast.AsyncFunctionDef, ast.ClassDef)) and n.name == part:
                nxt = n
                break
        if nxt is None:
            return None
        cur = nxt
    return cur


def fingerprint(rel: str, qual: str | None = None) -> str:
    """SHA-256 of the normalised AST (no positions, no docstrings) of a function/class or whole file."""
    try:
        tree = source_ast(rel)
    except Exception as e:  # syntax error in the source: everything is different
        return "unparseable:" + type(e).__name__
    node = find_def(tree, qual) if qual else tree
    if node is None:
        return "missing"
    for n in ast.walk(node):
        body = getattr(n, "body", None)
        if isinstance(body, list) and body and isinstance(body[0], ast.Expr) and isinstance(getattr(body[0], "value", None), ast.Constant) and isinstance(body[0].value.value, str):
            n.body = body[1:] or [ast.Pass()]
    return hashlib.sha256(ast.dump(node, annotate_fields=True, include_attributes=False).encode()).hexdigest()[:16]


def fingerprints_changed(prop: str, anchors) -> list:
    """Compare current fingerprints of the modelled functions with the committed ones.
    anchors: [(relpath, qualname|None)]. A change never fails a check; it widens the search."""
    fp_file = VERIF / "fingerprints" / f"{prop}.json"
    stored = json.loads(fp_file.read_text()) if fp_file.exists() else {}
    cur = {f"{r}:{q or '*'}": fingerprint(r, q) for (r, q) in anchors}
    changed = [k for k, v in cur.items() if stored.get(k) not in (None, v)]
    if os.environ.get("VERIF_UPDATE_FINGERPRINTS"):
        fp_file.parent.mkdir(exist_ok=True)
        fp_file.write_text(json.dumps(cur, indent=1, sort_keys=True) + "\n")
    return changed


# --------------------------------------------------------------------------------------------
# Known findings
# --------------------------------------------------------------------------------------------

def load_findings(prop: str):
    """known_findings/<prop>.txt lines:
       open: property=C01 id=F4 class=<name> what=<text> witness=<json>
       fixed: property=C04 <commit> <what failed>
    Only `open` lines suppress anything."""
    f = VERIF / "known_findings" / f"{prop}.txt"
    res = []
    if not f.exists():
        return res
    for line in f.read_text().split("\n"):
        m = re.match(r"open: property=(\S+) id=(\S+) class=(\S+) what=(.*?) witness=(.*)$", line)
        if m and m.group(1) == prop:
            res.append({"id": m.group(2), "cls": m.group(3), "what": m.group(4), "witness": json.loads(m.group(5))})
    return res


# --------------------------------------------------------------------------------------------
# Context / verdict / evidence
# --------------------------------------------------------------------------------------------

class Ctx:
    def __init__(self, prop: str, tier: str, seed: int, replay: str | None = None):
        self.prop, self.tier, self.seed, self.replay = prop, tier, seed, replay
        self.t0 = time.time()
        self.rng = random.Random(seed)
        self.thorough = tier == "thorough"
        self.broken = []          # broken proof obligations [{decl,file,line,msg}]
        self.audit_problems = []  # [str]
        self.theorems = {}        # name -> axioms
        self.n_examples = 0
        self.n_facts = 0
        self.corr_disagreements = []   # [{case, model, impl, view}]
        self.failures = []        # [{case, why, ...}] new violations on the real code
        self.known_hits = {}      # finding id -> count of generated failures that fell in the class
        self.known_reproduced = []  # [(finding, detail)]
        self.evaluations = 0
        self.distinct = set()
        self.samples = []
        self.dist = {}
        self.extra = {}
        self.assumptions = []
        self.trusted = []
        self.checker_cmd = ""
        self.rule = ""
        self.widen = 1            # budget multiplier when the tie is broken / fingerprints changed
        self.notes = []

    # -- bookkeeping -------------------------------------------------------------------------
    def count(self, key: str, n: int = 1):
        self.dist[key] = self.dist.get(key, 0) + n

    def case(self, case, nontrivial=True):
        self.evaluations += 1
        if nontrivial:
            self.distinct.add(hashlib.blake2b(json.dumps(case, sort_keys=True, ensure_ascii=False, default=str).encode(), digest_size=8).digest())
        if len(self.samples) < 6 and self.rng.random() < 0.2 or not self.samples:
            self.samples.append(case)

    def budget(self, quick: int, thorough: int) -> int:
        b = thorough if self.thorough else quick
        return min(b * self.widen, max(thorough, b)) if not self.thorough else b * min(self.widen, 2)

    def tie_broken(self) -> bool:
        return bool(self.broken or self.audit_problems or self.corr_disagreements)

    # -- translator --------------------------------------------------------------------------
    def translate(self, project: str):
        import translate as T
        changed, failures = T.run(project)
        for f in failures:
            self.broken.append({"file": "tools/translate.py", "line": 0, "decl": "translator " + f.split(":")[0], "msg": f[:300]})
        if changed:
            self.notes.append(f"Gen files regenerated with new content: {changed}")
        self.extra["gen_changed"] = changed
        return changed

    # -- lean --------------------------------------------------------------------------------
    def lean(self, project: str, props_modules, extra_targets=("driver",), fact_modules=()):
        """Build property modules + driver, audit axioms. Records broken obligations."""
        proj = LeanProject(project)
        targets = list(props_modules) + list(fact_modules) + list(extra_targets)
        ok, broken, text = proj.build(targets)
        if not ok:
            self.broken += broken
            # the driver must still build for correspondence/search; try it alone
            ok2, b2, _ = proj.build(list(extra_targets))
            if not ok2:
                self.notes.append("driver does not build: " + json.dumps(b2)[:400])
        mods = [m for m in list(props_modules)]
        builds = [m for m in mods if not any(b["file"].endswith(m.replace(".", "/") + ".lean") for b in self.broken)] if ok else []
        if ok:
            thms, nex, problems = proj.audit(mods)
            self.theorems.update(thms)
            self.n_examples += nex
            self.audit_problems += problems
            if self.thorough:
                okc, msg = proj.leanchecker(mods)
                if not okc:
                    self.audit_problems.append("leanchecker: " + msg)
        else:
            # count declared obligations even if broken
            for m in mods:
                for (_l, kind, name) in declarations(proj.module_path(m)):
                    if kind in ("theorem", "lemma"):
                        self.theorems.setdefault(name, ["<not built>"])
                    elif kind == "example":
                        self.n_examples += 1
        self.checker_cmd = f"cd lean/{project} && lake build {' '.join(targets)} && lake env lean .lake/audit/Audit_*.lean  (#print axioms)"
        if self.tie_broken():
            self.widen = max(self.widen, 8)
        return proj

    # -- finish ------------------------------------------------------------------------------
    def finish(self):
        prop = self.prop
        wall = time.time() - self.t0
        for (f, detail) in self.known_reproduced:
            print(f"KNOWN-FINDING: property={prop} {f['id']} {f['what']}" + (f" [{detail}]" if detail else ""))
        violations = 0
        rdir = VERIF / "replays"
        if self.failures:
            rdir.mkdir(exist_ok=True)
            # one replay per distinct 'why' class (first of each), at most 5
            seen = set()
            for fl in self.failures:
                k = fl.get("why_class", fl.get("why", ""))[:80]
                if k in seen or len(seen) >= 5:
                    continue
                seen.add(k)
                h = hashlib.sha256(json.dumps(fl, sort_keys=True, default=str, ensure_ascii=False).encode()).hexdigest()[:10]
                rp = rdir / f"{prop}-{h}.json"
                rp.write_text(json.dumps({"property": prop, "kind": "failing-input", "tier": self.tier, "seed": self.seed, **fl,
                                          "broken_obligations": self.broken, "audit_problems": self.audit_problems,
                                          "correspondence_disagreements": self.corr_disagreements[:3]}, indent=1, default=str, ensure_ascii=False))
                print(f"VIOLATION property={prop} replay={rp}")
                violations += 1
        elif self.tie_broken():
            rdir.mkdir(exist_ok=True)
            payload = {"property": prop, "kind": "tie-broken", "tier": self.tier, "seed": self.seed,
                       "broken_obligations": self.broken, "audit_problems": self.audit_problems,
                       "correspondence_disagreements": self.corr_disagreements[:5],
                       "note": "no failing input found on the real code within the widened search budget; the listed theorem(s)/correspondence no longer check, so the property is no longer shown to hold"}
            h = hashlib.sha256(json.dumps(payload, sort_keys=True, default=str).encode()).hexdigest()[:10]
            rp = rdir / f"{prop}-tie-{h}.json"
            rp.write_text(json.dumps(payload, indent=1, default=str, ensure_ascii=False))
            print(f"VIOLATION property={prop} replay={rp} no-failing-input-found")
            violations += 1
        n_thm = len(self.theorems)
        obligations = n_thm + self.n_examples + self.n_facts
        n_broken = len({b["decl"] for b in self.broken})
        discharged = max(0, obligations - n_broken) if not self.audit_problems else max(0, obligations - n_broken - len(self.audit_problems))
        if obligations and not self.broken and not self.audit_problems:
            discharged = obligations
        ev = {
            "property_id": prop, "tier": self.tier, "seed": self.seed, "level": "proof",
            "coverage": {
                "obligations": max(obligations, 0), "discharged": discharged,
                "checker_cmd": self.checker_cmd or "lake build",
                "trusted_base": self.trusted or ["Lean 4.33.0 kernel", "tools/translate.py", "correspondence harness tools/props/%s.py" % prop.lower()],
                "theorems": {k: v for k, v in sorted(self.theorems.items())},
                "examples": self.n_examples,
                "evaluations": self.evaluations, "distinct_nontrivial": len(self.distinct),
                "rule": self.rule, "samples": self.samples[:8] or ["<none>"],
                "distribution": self.dist,
                "correspondence_disagreements": len(self.corr_disagreements),
                "known_findings_reproduced": [f["id"] for (f, _d) in self.known_reproduced],
                "known_class_hits": self.known_hits,
                "widen": self.widen, "notes": self.notes, **self.extra,
            },
            "assumptions": self.assumptions,
            "wall_s": round(wall, 2), "violations": violations,
        }
        edir = VERIF / "evidence"
        edir.mkdir(exist_ok=True)
        (edir / f"{prop}.json").write_text(json.dumps(ev, indent=1, default=str, ensure_ascii=False) + "\n")
        print(f"[{prop}] tier={self.tier} seed={self.seed} obligations={obligations} discharged={discharged} evaluations={self.evaluations} "
              f"distinct={len(self.distinct)} corr_disagreements={len(self.corr_disagreements)} failures={len(self.failures)} wall={wall:.1f}s")
        return 1 if violations else 0


def pmap(fn, items, workers=NCPU, chunksize=None):
    """Parallel map with processes (fn must be a module-level function)."""
    items = list(items)
    if len(items) < 4 or workers <= 1:
        return [fn(x) for x in items]
    cs = chunksize or max(1, len(items) // (workers * 4))
    with ProcessPoolExecutor(workers) as ex:
        return list(ex.map(fn, items, chunksize=cs))


def _call_into(fn, item, q, idx):
    try:
        q.put((idx, "ok", fn(item)))
    except BaseException as e:  # noqa: BLE001
        q.put((idx, "exc", f"{type(e).__name__}: {e}"))


def pmap_deadline(fn, items, deadline_s: float, workers=NCPU):
    """Parallel map that cannot hang: every item runs in a worker process of a pool that is terminated at the
    deadline.  Returns (results, unfinished) where results[i] is fn(items[i]) or None and unfinished lists the
    indices that did not finish (a hang or a crash of the implementation under test inside fn)."""
    import multiprocessing as mp
    items = list(items)
    ctx = mp.get_context("fork")
    pool = ctx.Pool(min(workers, max(1, len(items))))
    asyncs = [pool.apply_async(fn, (it,)) for it in items]
    results = [None] * len(items)
    unfinished = []
    t_end = time.time() + deadline_s
    for i, a in enumerate(asyncs):
        try:
            results[i] = a.get(timeout=max(0.05, t_end - time.time()))
        except mp.TimeoutError:
            unfinished.append(i)
        except BaseException as e:  # noqa: BLE001 - exception inside fn: the check module decides what it means
            results[i] = {"__worker_exception__": f"{type(e).__name__}: {e}"}
    pool.terminate()
    pool.join()
    return results, unfinished


def run_with_timeout(fn, item, timeout_s: float):
    """fn(item) in a fresh process; returns ("ok", value) | ("timeout", None) | ("exc", text)."""
    import multiprocessing as mp
    ctx = mp.get_context("fork")
    q = ctx.Queue()
    p = ctx.Process(target=_call_into, args=(fn, item, q, 0))
    p.start()
    p.join(timeout_s)
    if p.is_alive():
        p.kill()
        p.join()
        return "timeout", None
    try:
        _i, kind, val = q.get(timeout=1)
        return kind, val
    except Exception:  # noqa: BLE001
        return "exc", "worker died without a result"


def main_entry(run_fn, prop: str):
    import argparse
    ap = argparse.ArgumentParser()
    ap.add_argument("--tier", default=os.environ.get("VERIF_TIER", "quick"), choices=["quick", "thorough"])
    ap.add_argument("--replay", default=None)
    a = ap.parse_args(sys.argv[2:] if len(sys.argv) > 1 and re.fullmatch(r"C\d+", sys.argv[1]) else None)
    seed = int(os.environ.get("VERIF_SEED", "0") or 0)
    os.environ[GUARD] = "1"
    ctx = Ctx(prop, a.tier, seed, a.replay)
    try:
        run_fn(ctx)
        if ctx.tie_broken() and not ctx.failures and ctx.widen == 1 and not a.replay:
            # the tie broke during the run (correspondence): search again with the widened budget
            ctx2 = Ctx(prop, a.tier, seed, a.replay)
            ctx2.widen = 8
            ctx2.notes.append("second pass: the correspondence broke in the first pass, search repeated with the widened budget")
            run_fn(ctx2)
            ctx2.t0 = ctx.t0
            ctx = ctx2
        rc = ctx.finish()
    except Infra as e:
        print(f"INFRA-FAILURE property={prop}: {e}", file=sys.stderr)
        rc = 2
    except subprocess.TimeoutExpired as e:
        print(f"INFRA-FAILURE property={prop}: timeout {e}", file=sys.stderr)
        rc = 2
    except Exception:
        traceback.print_exc()
        print(f"INFRA-FAILURE property={prop}: unexpected exception in the check machinery", file=sys.stderr)
        rc = 2
    sys.exit(rc)
