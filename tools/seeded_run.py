#!/venv/bin/python
"""Run checks against the seeded changes kept under seeded/<id>/ (patch.diff + meta.json).

usage: tools/seeded_run.py [--props C01,C04 | --all-props] [--tier quick] [id ...]
For each seeded change: a scratch worktree of /repo HEAD is created under /tmp, the patch applied, the check(s)
run with VERIF_REPO pointing at it, the verdict recorded in seeded/<id>/result.json, the worktree removed and the
Gen files regenerated from /repo.  Never touches /repo's working tree."""
import json
import os
import re
import subprocess
import sys
import time
from pathlib import Path

VERIF = Path(__file__).resolve().parents[1]


def sh(cmd, **kw):
    return subprocess.run(cmd, capture_output=True, text=True, **kw)


def main():
    args = sys.argv[1:]
    tier = "quick"
    props = None
    allp = False
    ids = []
    i = 0
    while i < len(args):
        if args[i] == "--tier":
            tier = args[i + 1]; i += 2
        elif args[i] == "--props":
            props = args[i + 1].split(","); i += 2
        elif args[i] == "--all-props":
            allp = True; i += 1
        else:
            ids.append(args[i]); i += 1
    man = json.load(open(VERIF / "MANIFEST.json"))
    claimed = [c["property_id"] for c in man["checks"]]
    sdir = VERIF / "seeded"
    ids = ids or sorted(p.name for p in sdir.iterdir() if (p / "patch.diff").exists())
    for sid in ids:
        d = sdir / sid
        meta = json.load(open(d / "meta.json"))
        target = meta["property"]
        todo = claimed if allp else (props or [target])
        wt = f"/tmp/seedrun_{sid}_{os.getpid()}"
        # hold the machine-wide check lock from the first mutated translation to the re-translation from /repo
        import fcntl
        lock = open("/tmp/verif_check.lock", "w")
        fcntl.flock(lock, fcntl.LOCK_EX)
        os.environ["VERIF_LOCK_HELD"] = "1"
        sh(["git", "-C", "/repo", "worktree", "add", "-q", wt, "HEAD"])
        try:
            r = sh(["git", "-C", wt, "apply", str(d / "patch.diff")])
            if r.returncode != 0:
                # the repository moved on since the change was written (fix: commits next to the hunk): reduced context
                r = sh(["git", "-C", wt, "apply", "-C1", "--recount", str(d / "patch.diff")])
                if r.returncode == 0:
                    print(f"{sid}: patch applied with reduced context (repository HEAD is newer than the change's base)")
            if r.returncode != 0:
                print(f"{sid}: patch does not apply: {r.stderr[:200]}")
                continue
            res = {}
            for p in todo:
                t0 = time.time()
                env = dict(os.environ, VERIF_REPO=wt, VERIF_SEED=os.environ.get("VERIF_SEED", "0"))
                # the evidence file describes runs on /repo: keep the one that is there (a run on a mutated tree must not replace it)
                evf = VERIF / "evidence" / f"{p}.json"
                saved = evf.read_bytes() if evf.exists() else None
                try:
                    rr = sh(["/venv/bin/python", "tools/check.py", p, "--tier", tier], cwd=VERIF, env=env, timeout=3600)
                finally:
                    if saved is not None:
                        evf.write_bytes(saved)
                viol = [l for l in rr.stdout.split("\n") if l.startswith("VIOLATION")]
                res[p] = {"rc": rr.returncode, "violation_lines": viol[:3], "wall_s": round(time.time() - t0, 1),
                          "summary": [l for l in rr.stdout.split("\n") if l.startswith("[" + p + "]")][-1:]}
                replay = None
                m = re.search(r"replay=(\S+)", viol[0]) if viol else None
                if m and os.path.exists(m.group(1)):
                    try:
                        rp = json.load(open(m.group(1)))
                        replay = {"kind": rp.get("kind"), "why": str(rp.get("why"))[:300], "broken": [b["decl"] for b in rp.get("broken_obligations", [])][:5]}
                    except Exception:  # noqa: BLE001
                        pass
                res[p]["replay"] = replay
                print(f"{sid} [{p}] rc={rr.returncode} {'CAUGHT' if rr.returncode == 1 and viol else 'MISSED' if rr.returncode == 0 else 'INFRA'} "
                      f"{'no-failing-input-found' if viol and 'no-failing-input-found' in viol[0] else ''} {res[p]['wall_s']}s {replay['why'][:120] if replay and replay.get('why') else ''}")
            old = {}
            rf = d / "result.json"
            if rf.exists():
                old = json.load(open(rf))
            old.setdefault(tier, {}).update(res)
            json.dump(old, open(rf, "w"), indent=1)
        finally:
            sh(["git", "-C", "/repo", "worktree", "remove", "--force", wt])
            # restore Gen files from the real tree before anybody else runs
            sh(["/venv/bin/python", "tools/translate.py"], cwd=VERIF)
            fcntl.flock(lock, fcntl.LOCK_UN)
            lock.close()
    if not os.environ.get("VERIF_KEEP_REPLAYS"):
        sh(["rm", "-rf", str(VERIF / "replays")])


if __name__ == "__main__":
    main()
