#!/usr/bin/env python3
"""Run /repo's pinned test suite (guard OFF) and compare with /root/.vp/BASELINE.json stable_pass.
Exit 0 iff every stable_pass test passes."""
import json, os, subprocess, sys, tempfile, xml.etree.ElementTree as ET
base = json.load(open('/root/.vp/BASELINE.json'))
env = dict(os.environ); env.pop('OCTAVE_MCP_VERIF', None)
with tempfile.TemporaryDirectory() as td:
    jx = os.path.join(td, 'j.xml')
    cmd = ['/venv/bin/python', '-m', 'pytest', '-q', '-p', 'no:cacheprovider', '--timeout=900',
           '--continue-on-collection-errors', '-n', '12' if os.environ.get('BASELINE_PAR') else '0', '--junitxml=' + jx]
    if not os.environ.get('BASELINE_PAR'):
        cmd = [c for c in cmd if c not in ('-n', '0')]
    p = subprocess.run(cmd, cwd='/repo', env=env, capture_output=True, text=True)
    passed = set()
    for tc in ET.parse(jx).getroot().iter('testcase'):
        if not any(ch.tag in ('failure', 'error', 'skipped') for ch in tc):
            passed.add(tc.get('classname') + '::' + tc.get('name'))
missing = [t for t in base['stable_pass'] if t not in passed]
print(f'stable_pass={len(base["stable_pass"])} passed_now={len(passed)} missing={len(missing)}')
for t in missing[:40]: print('  MISSING', t)
sys.exit(1 if missing else 0)
