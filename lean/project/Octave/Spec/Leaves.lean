/-
Independent specification side of C14: what the *leaves* of a document are, what the leaves of a
rendering are (a tagged tree for the dict renderings, a heading/bullet scan for markdown), and the
decidable class predicates of the known findings.
-/
import Octave.Model.Markdown
namespace Octave

/-- A path is the sequence of keys from the document root; a section marker contributes its name. -/
abbrev Path := List Str

def pre {α : Type} (k : Str) (ls : List (Path × α)) : List (Path × α) := ls.map fun l => (k :: l.1, l.2)

mutual
/-- leaves of one node, in document order.  Comments are not leaves.  Duplicate keys give several entries
with the same path: the list position is the occurrence index. -/
def Node.leaves : Node → List (Path × Value)
  | .assign _ k v => [([k], v)]
  | .block _ k cs => pre k (leavesList cs)
  | .sect _ _ k cs => pre k (leavesList cs)
  | .comment _ _ => []
def leavesList : List Node → List (Path × Value)
  | [] => []
  | n :: ns => n.leaves ++ leavesList ns
end

def metaLeaves (m : List (Str × Value)) : List (Path × Value) := m.map fun kv => (["META".toList, kv.1], kv.2)

def Doc.leaves (d : Doc) : List (Path × Value) := metaLeaves d.dmeta ++ leavesList d.sections

/-! ### dict renderings: a tagged tree that says where a leaf ends -/

/-- A dict rendering with the leaf/container distinction kept (a JSON object may be a block or an inline
map value; `Tree.erase` forgets the difference and gives the value `json.dumps` receives). -/
inductive Tree where
  | leaf (v : PyVal)
  | node (kids : List (Str × Tree))
  deriving Inhabited

mutual
def Tree.erase : Tree → PyVal
  | .leaf v => v
  | .node ks => .dict (eraseKids ks)
def eraseKids : List (Str × Tree) → List (Str × PyVal)
  | [] => []
  | (k, t) :: ks => (k, t.erase) :: eraseKids ks
end

mutual
def Tree.leaves : Tree → List (Path × PyVal)
  | .leaf v => [([], v)]
  | .node ks => kidsLeaves ks
def kidsLeaves : List (Str × Tree) → List (Path × PyVal)
  | [] => []
  | (k, t) :: ks => pre k t.leaves ++ kidsLeaves ks
end

mutual
/-- the tagged counterpart of `nodeEntry`: same dict discipline (`dictOf`), leaves marked. -/
def nodeTree (zones : Bool) : Node → List (Str × Tree)
  | .assign _ k v => [(k, .leaf (convertValue zones v))]
  | .block _ k cs => [(k, .node (dictOf (nodeTrees zones cs)))]
  | .sect _ _ k cs => [(k, .node (dictOf (nodeTrees zones cs)))]
  | .comment _ _ => []
def nodeTrees (zones : Bool) : List Node → List (Str × Tree)
  | [] => []
  | n :: ns => nodeTree zones n ++ nodeTrees zones ns
end

def metaTree (zones : Bool) (m : List (Str × Value)) : List (Str × Tree) :=
  if m.isEmpty then [] else [("META".toList, .node (dictOf (m.map fun kv => (kv.1, Tree.leaf (convertValue zones kv.2)))))]

def docTree (zones : Bool) (d : Doc) : Tree :=
  .node (dictOf (metaTree zones d.dmeta ++ nodeTrees zones d.sections))

/-! ### markdown: heading / bullet scan -/

/-- scan state = the current heading stack (keys of the enclosing `##`, `###`, … headings). -/
def mdScan : List Str → List MdLine → List (Path × Str)
  | _, [] => []
  | st, .heading l k :: ls => mdScan (st.take (l - 2) ++ [k]) ls
  | st, .bullet k t :: ls => (st ++ [k], t) :: mdScan st ls
  | _, .para k t :: ls => ([k], t) :: mdScan [] ls
  | st, .title _ :: ls => mdScan st ls
  | st, .blank :: ls => mdScan st ls

/-- the leaves a reader of the markdown rendering finds: a bullet belongs to the innermost heading
above it, a bold paragraph is a top-level field. -/
def mdLeaves (ls : List MdLine) : List (Path × Str) := mdScan [] ls

/-! ### class predicates of the known findings (decidable, over the input document) -/

mutual
def noSectionsNode : Node → Bool
  | .sect _ _ _ _ => false
  | .block _ _ cs => noSectionsList cs
  | _ => true
def noSectionsList : List Node → Bool
  | [] => true
  | n :: ns => noSectionsNode n && noSectionsList ns
end
/-- no `Section` node at top level or inside blocks (was the F24 class complement; F24 is fixed by ea3edea and no
theorem needs it any more — kept for the driver's class report). -/
def noSections (d : Doc) : Bool := noSectionsList d.sections

/-- keys the dict converters assign at one level (Assignment, Block and Section children). -/
def dictKeys : List Node → List Str
  | [] => []
  | .assign _ k _ :: ns => k :: dictKeys ns
  | .block _ k _ :: ns => k :: dictKeys ns
  | .sect _ _ k _ :: ns => k :: dictKeys ns
  | .comment _ _ :: ns => dictKeys ns

mutual
def noDupNode : Node → Bool
  | .block _ _ cs => decide (dictKeys cs).Nodup && noDupList cs
  | .sect _ _ _ cs => decide (dictKeys cs).Nodup && noDupList cs
  | _ => true
def noDupList : List Node → Bool
  | [] => true
  | n :: ns => noDupNode n && noDupList ns
end
/-- F25 class complement: sibling keys (Assignment / Block / Section names) are pairwise distinct at every level
(at top level `META` counts as a sibling when the document has a META block; META keys are distinct). -/
def noDupSiblings (d : Doc) : Bool :=
  decide (((if d.dmeta.isEmpty then [] else ["META".toList]) ++ dictKeys d.sections).Nodup)
  && decide ((d.dmeta.map Prod.fst).Nodup) && noDupList d.sections

mutual
def valueAll (p : Value → Bool) : Value → Bool
  | .list xs => p (.list xs) && valueAllL p xs
  | .imap ps => p (.imap ps) && valueAllP p ps
  | .pydict ps => p (.pydict ps) && valueAllP p ps
  | v => p v
def valueAllL (p : Value → Bool) : List Value → Bool
  | [] => true
  | x :: xs => valueAll p x && valueAllL p xs
def valueAllP (p : Value → Bool) : List (Str × Value) → Bool
  | [] => true
  | (_, v) :: ps => valueAll p v && valueAllP p ps
end

mutual
def nodeValuesAll (p : Value → Bool) : Node → Bool
  | .assign _ _ v => valueAll p v
  | .block _ _ cs => nodeValuesAllL p cs
  | .sect _ _ _ cs => nodeValuesAllL p cs
  | .comment _ _ => true
def nodeValuesAllL (p : Value → Bool) : List Node → Bool
  | [] => true
  | n :: ns => nodeValuesAll p n && nodeValuesAllL p ns
end

def docValuesAll (p : Value → Bool) (d : Doc) : Bool :=
  valueAllP p d.dmeta && nodeValuesAllL p d.sections

def Value.isHolo : Value → Bool | .holo _ => true | _ => false
def Value.isZone : Value → Bool | .zone _ _ _ => true | _ => false
def Value.isPyDict : Value → Bool | .pydict _ => true | _ => false
def Value.isScalar : Value → Bool
  | .null | .bool _ | .int _ | .float _ | .str _ => true
  | _ => false

/-- F33 class complement. -/
def noHolo (d : Doc) : Bool := docValuesAll (fun v => !v.isHolo) d
def noZones (d : Doc) : Bool := docValuesAll (fun v => !v.isZone) d
def noPyDict (d : Doc) : Bool := docValuesAll (fun v => !v.isPyDict) d
def scalarOnly (d : Doc) : Bool := docValuesAll Value.isScalar d

mutual
/-- in every block / section the Assignment children come before the Block / Section children (markdown bullets
that follow a sub-heading are read as belonging to that sub-heading). -/
def mdOrderedNode : Node → Bool
  | .block _ _ cs => assignsFirst false cs && mdOrderedList cs
  | .sect _ _ _ cs => assignsFirst false cs && mdOrderedList cs
  | _ => true
def mdOrderedList : List Node → Bool
  | [] => true
  | n :: ns => mdOrderedNode n && mdOrderedList ns
def assignsFirst : Bool → List Node → Bool       -- flag: a Block child has been seen
  | _, [] => true
  | seen, .assign _ _ _ :: ns => !seen && assignsFirst seen ns
  | _, .block _ _ _ :: ns => assignsFirst true ns
  | _, .sect _ _ _ _ :: ns => assignsFirst true ns
  | seen, .comment _ _ :: ns => assignsFirst seen ns
end
def mdOrdered (d : Doc) : Bool := mdOrderedList d.sections

end Octave
