/-
Helper lemmas about Python-dict construction (`dictSet`, `dictOf`), the tagged tree of a dict rendering and its
erasure to the value `json.dumps` receives (used by Props/C14).
-/
import Octave.Lemmas.Filter
namespace Octave

/-! ### erase commutes with the dict discipline -/

theorem eraseKids_append (a b : List (Str × Tree)) : eraseKids (a ++ b) = eraseKids a ++ eraseKids b := by
  induction a with
  | nil => simp [eraseKids]
  | cons x xs ih => obtain ⟨k, t⟩ := x; simp [eraseKids, ih]

theorem eraseKids_dictSet (acc : List (Str × Tree)) (k : Str) (t : Tree) :
    eraseKids (dictSet acc k t) = dictSet (eraseKids acc) k t.erase := by
  induction acc with
  | nil => simp [dictSet, eraseKids]
  | cons x xs ih =>
    obtain ⟨k', t'⟩ := x
    simp only [dictSet, eraseKids]
    split <;> simp [eraseKids, ih]

theorem eraseKids_foldl (es acc : List (Str × Tree)) :
    eraseKids (es.foldl (fun a e => dictSet a e.1 e.2) acc)
      = (eraseKids es).foldl (fun a e => dictSet a e.1 e.2) (eraseKids acc) := by
  induction es generalizing acc with
  | nil => simp [eraseKids]
  | cons x xs ih =>
    obtain ⟨k, t⟩ := x
    simp only [List.foldl_cons, eraseKids, ih, eraseKids_dictSet]

theorem eraseKids_dictOf (es : List (Str × Tree)) : eraseKids (dictOf es) = dictOf (eraseKids es) := by
  simpa [dictOf, eraseKids] using eraseKids_foldl es []

mutual
theorem nodeTree_erase (z : Bool) : ∀ n : Node, eraseKids (nodeTree z n) = nodeEntry z n
  | .assign _ k v => by simp [nodeTree, nodeEntry, eraseKids, Tree.erase]
  | .block _ k cs => by
    simp [nodeTree, nodeEntry, eraseKids, Tree.erase, eraseKids_dictOf, nodeTrees_erase z cs]
  | .sect _ _ k cs => by
    simp [nodeTree, nodeEntry, eraseKids, Tree.erase, eraseKids_dictOf, nodeTrees_erase z cs]
  | .comment _ _ => by simp [nodeTree, nodeEntry, eraseKids]
theorem nodeTrees_erase (z : Bool) : ∀ ns : List Node, eraseKids (nodeTrees z ns) = nodeEntries z ns
  | [] => by simp [nodeTrees, nodeEntries, eraseKids]
  | n :: ns => by
    simp [nodeTrees, nodeEntries, eraseKids_append, nodeTree_erase z n, nodeTrees_erase z ns]
end

theorem eraseKids_metaLeafs (z : Bool) (m : List (Str × Value)) :
    eraseKids (m.map fun kv => (kv.1, Tree.leaf (convertValue z kv.2))) = convertPairs z m := by
  induction m with
  | nil => simp [eraseKids, convertPairs]
  | cons x xs ih => obtain ⟨k, v⟩ := x; simp [eraseKids, convertPairs, Tree.erase, ih]

theorem metaTree_erase (z : Bool) (m : List (Str × Value)) : eraseKids (metaTree z m) = metaEntries z m := by
  unfold metaTree metaEntries
  split
  · simp [eraseKids]
  · simp [eraseKids, Tree.erase, eraseKids_dictOf, eraseKids_metaLeafs]

/-- The tagged tree is the dict the converter builds, with the leaf/container distinction remembered. -/
theorem docTree_erase (z : Bool) (d : Doc) : (docTree z d).erase = astToDict z d := by
  simp [docTree, astToDict, Tree.erase, eraseKids_dictOf, eraseKids_append, metaTree_erase, nodeTrees_erase]

/-! ### leaves of a dict built by successive assignments -/

theorem kidsLeaves_append (a b : List (Str × Tree)) : kidsLeaves (a ++ b) = kidsLeaves a ++ kidsLeaves b := by
  induction a with
  | nil => simp [kidsLeaves]
  | cons x xs ih => obtain ⟨k, t⟩ := x; simp [kidsLeaves, ih, List.append_assoc]

theorem mem_kidsLeaves_dictSet {l : Path × PyVal} (acc : List (Str × Tree)) (k : Str) (t : Tree)
    (h : l ∈ kidsLeaves (dictSet acc k t)) : l ∈ kidsLeaves acc ∨ l ∈ pre k t.leaves := by
  induction acc with
  | nil => simpa [dictSet, kidsLeaves] using h
  | cons x xs ih =>
    obtain ⟨k', t'⟩ := x
    simp only [dictSet] at h
    split at h
    · simp only [kidsLeaves, List.mem_append] at h ⊢
      rename_i hk
      have : k' = k := by simpa using hk
      subst this
      rcases h with h | h
      · exact Or.inr h
      · exact Or.inl (Or.inr h)
    · simp only [kidsLeaves, List.mem_append] at h ⊢
      rcases h with h | h
      · exact Or.inl (Or.inl h)
      · rcases ih h with h' | h'
        · exact Or.inl (Or.inr h')
        · exact Or.inr h'

theorem mem_kidsLeaves_foldl {l : Path × PyVal} (es acc : List (Str × Tree))
    (h : l ∈ kidsLeaves (es.foldl (fun a e => dictSet a e.1 e.2) acc)) : l ∈ kidsLeaves acc ∨ l ∈ kidsLeaves es := by
  induction es generalizing acc with
  | nil => exact Or.inl (by simpa using h)
  | cons x xs ih =>
    obtain ⟨k, t⟩ := x
    simp only [List.foldl_cons] at h
    rcases ih _ h with h' | h'
    · rcases mem_kidsLeaves_dictSet acc k t h' with h'' | h''
      · exact Or.inl h''
      · exact Or.inr (by simp [kidsLeaves, h''])
    · exact Or.inr (by simp [kidsLeaves, h'])

/-- a dict never holds a leaf that was not assigned to it -/
theorem mem_kidsLeaves_dictOf {l : Path × PyVal} (es : List (Str × Tree)) (h : l ∈ kidsLeaves (dictOf es)) :
    l ∈ kidsLeaves es := by
  rcases mem_kidsLeaves_foldl es [] h with h' | h'
  · simp [kidsLeaves] at h'
  · exact h'

/-! ### distinct keys: the dict is the list of its assignments -/

theorem dictSet_fresh {β : Type} (acc : List (Str × β)) (k : Str) (v : β) (h : k ∉ acc.map Prod.fst) :
    dictSet acc k v = acc ++ [(k, v)] := by
  induction acc with
  | nil => simp [dictSet]
  | cons x xs ih =>
    obtain ⟨k', v'⟩ := x
    simp only [List.map_cons, List.mem_cons, not_or] at h
    have hne : (k' == k) = false := by
      simp only [beq_eq_false_iff_ne, ne_eq]
      exact fun e => h.1 e.symm
    simp [dictSet, hne, ih h.2]

theorem foldl_dictSet_nodup {β : Type} (es acc : List (Str × β))
    (h : (acc.map Prod.fst ++ es.map Prod.fst).Nodup) :
    es.foldl (fun a e => dictSet a e.1 e.2) acc = acc ++ es := by
  induction es generalizing acc with
  | nil => simp
  | cons x xs ih =>
    obtain ⟨k, v⟩ := x
    have hk : k ∉ acc.map Prod.fst := by
      intro hmem
      have := (List.nodup_append.mp h).2.2 k hmem k (by simp)
      exact this rfl
    simp only [List.foldl_cons, dictSet_fresh acc k v hk]
    rw [ih]
    · simp
    · simpa [List.append_assoc] using h

theorem dictOf_nodup {β : Type} (es : List (Str × β)) (h : (es.map Prod.fst).Nodup) : dictOf es = es := by
  simpa [dictOf] using foldl_dictSet_nodup es [] (by simpa using h)

end Octave
