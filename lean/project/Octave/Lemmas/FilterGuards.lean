/-
The class guards are preserved by `_filter_fields` (removing nodes cannot create a Section, a duplicate key or a
bullet after a sub-heading), so guards on the SOURCE document carry over to every projection (used by Props/C14).
-/
import Octave.Lemmas.MarkdownDoc
namespace Octave

/-- keys of the filtered list are a sublist of the keys -/
theorem dictKeys_append (a b : List Node) : dictKeys (a ++ b) = dictKeys a ++ dictKeys b := by
  induction a with
  | nil => simp [dictKeys]
  | cons n ns ih => cases n <;> simp [dictKeys, ih]

theorem filterNode_keys_sublist (keep : List Str) (n : Node) : (dictKeys (filterNode keep n)).Sublist (dictKeys [n]) := by
  cases n with
  | assign a k v => simp only [filterNode]; split <;> simp [dictKeys]
  | block a k cs =>
    simp only [filterNode]
    split
    · simp [dictKeys]
    · split <;> simp [dictKeys]
  | sect a i k cs => simp [filterNode, dictKeys]
  | comment a t => simp [filterNode, dictKeys]

theorem filterList_keys_sublist (keep : List Str) : ∀ ns : List Node, (dictKeys (filterList keep ns)).Sublist (dictKeys ns)
  | [] => by simp [filterList, dictKeys]
  | n :: ns => by
    have h1 := filterNode_keys_sublist keep n
    have h2 := filterList_keys_sublist keep ns
    have : dictKeys (n :: ns) = dictKeys [n] ++ dictKeys ns := by
      rw [← dictKeys_append]; rfl
    rw [filterList, dictKeys_append, this]
    exact List.Sublist.append h1 h2

theorem noDupList_append (a b : List Node) : noDupList (a ++ b) = (noDupList a && noDupList b) := by
  induction a with
  | nil => simp [noDupList]
  | cons n ns ih => simp [noDupList, ih, Bool.and_assoc]

mutual
theorem filterNode_noDup (keep : List Str) : ∀ n : Node, noDupNode n = true → noDupList (filterNode keep n) = true
  | .assign a k v, _ => by
    simp only [filterNode]; split <;> simp [noDupList, noDupNode]
  | .block a k cs, h => by
    simp only [filterNode]
    split
    · simp [noDupList, preserveList_id, h]
    · simp only [noDupNode, Bool.and_eq_true, decide_eq_true_eq] at h
      have ih := filterList_noDup keep cs h.2
      have hk := (filterList_keys_sublist keep cs).nodup h.1
      split
      · simp [noDupList]
      · rename_i fc hfc
        simp only [noDupList, noDupNode, Bool.and_true, Bool.and_eq_true, decide_eq_true_eq]
        exact ⟨hk, ih⟩
  | .sect _ _ _ _, h => by simp [filterNode, noDupList, h]
  | .comment _ _, _ => by simp [filterNode, noDupList, noDupNode]
theorem filterList_noDup (keep : List Str) : ∀ ns : List Node, noDupList ns = true → noDupList (filterList keep ns) = true
  | [], _ => by simp [filterList, noDupList]
  | n :: ns, h => by
    simp only [noDupList, Bool.and_eq_true] at h
    simp only [filterList, noDupList_append, Bool.and_eq_true]
    exact ⟨filterNode_noDup keep n h.1, filterList_noDup keep ns h.2⟩
end

theorem filterFields_noDup (keep : List Str) (d : Doc) (h : noDupSiblings d = true) : noDupSiblings (filterFields keep d) = true := by
  simp only [noDupSiblings, Bool.and_eq_true, decide_eq_true_eq] at h
  obtain ⟨⟨htop, hmeta⟩, hdl⟩ := h
  have h1 : ((if d.dmeta.isEmpty then [] else ["META".toList]) ++ dictKeys (filterList keep d.sections)).Nodup :=
    (List.Sublist.append (List.Sublist.refl _) (filterList_keys_sublist keep d.sections)).nodup htop
  simp only [noDupSiblings, filterFields, Bool.and_eq_true]
  exact ⟨⟨decide_eq_true h1, decide_eq_true hmeta⟩, filterList_noDup keep _ hdl⟩

/-! mdOrdered is preserved: removing nodes cannot put a bullet after a sub-heading -/

theorem assignsFirst_weaken : ∀ (ns : List Node) (seen : Bool), assignsFirst true ns = true → assignsFirst seen ns = true
  | _, true, h => h
  | ns, false, h => assignsFirst_true_of_false ns h

theorem filterList_assignsFirst (keep : List Str) : ∀ (ns : List Node) (seen : Bool),
    assignsFirst seen ns = true → assignsFirst seen (filterList keep ns) = true
  | [], seen, _ => by simp [filterList, assignsFirst]
  | .assign a k v :: ns, seen, h => by
    have hs : seen = false := by cases seen <;> simp_all [assignsFirst]
    subst hs
    have ht : assignsFirst false ns = true := by simpa [assignsFirst] using h
    have ih := filterList_assignsFirst keep ns false ht
    simp only [filterList, filterNode]
    split <;> simp [assignsFirst, ih]
  | .block a k cs :: ns, seen, h => by
    have ht : assignsFirst true ns = true := by simpa [assignsFirst] using h
    have ih := filterList_assignsFirst keep ns true ht
    simp only [filterList, filterNode]
    split
    · simpa [assignsFirst] using ih
    · split
      · simpa using assignsFirst_weaken _ seen ih
      · simpa [assignsFirst] using ih
  | .sect a i k cs :: ns, seen, h => by
    have ht : assignsFirst true ns = true := by simpa [assignsFirst] using h
    simpa [filterList, filterNode, assignsFirst] using filterList_assignsFirst keep ns true ht
  | .comment a t :: ns, seen, h => by
    have ht : assignsFirst seen ns = true := by simpa [assignsFirst] using h
    simpa [filterList, filterNode, assignsFirst] using filterList_assignsFirst keep ns seen ht

theorem mdOrderedList_append (a b : List Node) : mdOrderedList (a ++ b) = (mdOrderedList a && mdOrderedList b) := by
  induction a with
  | nil => simp [mdOrderedList]
  | cons n ns ih => simp [mdOrderedList, ih, Bool.and_assoc]

mutual
theorem filterNode_mdOrdered (keep : List Str) : ∀ n : Node, mdOrderedNode n = true → mdOrderedList (filterNode keep n) = true
  | .assign a k v, _ => by
    simp only [filterNode]; split <;> simp [mdOrderedList, mdOrderedNode]
  | .block a k cs, h => by
    simp only [filterNode]
    split
    · simp [mdOrderedList, preserveList_id, h]
    · simp only [mdOrderedNode, Bool.and_eq_true] at h
      have ih := filterList_mdOrdered keep cs h.2
      have ha := filterList_assignsFirst keep cs false h.1
      split
      · simp [mdOrderedList]
      · rename_i fc hfc
        simp only [mdOrderedList, mdOrderedNode, Bool.and_true, Bool.and_eq_true]
        exact ⟨ha, ih⟩
  | .sect _ _ _ _, h => by simp [filterNode, mdOrderedList, h]
  | .comment _ _, _ => by simp [filterNode, mdOrderedList, mdOrderedNode]
theorem filterList_mdOrdered (keep : List Str) : ∀ ns : List Node, mdOrderedList ns = true → mdOrderedList (filterList keep ns) = true
  | [], _ => by simp [filterList, mdOrderedList]
  | n :: ns, h => by
    simp only [mdOrderedList, Bool.and_eq_true] at h
    simp only [filterList, mdOrderedList_append, Bool.and_eq_true]
    exact ⟨filterNode_mdOrdered keep n h.1, filterList_mdOrdered keep ns h.2⟩
end

theorem filterFields_mdOrdered (keep : List Str) (d : Doc) (h : mdOrdered d = true) : mdOrdered (filterFields keep d) = true :=
  filterList_mdOrdered keep d.sections h

end Octave
