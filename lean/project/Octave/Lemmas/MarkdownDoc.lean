/-
Document level of the markdown scan, the CLI/MCP agreement lemmas and `jsonable` (used by Props/C14).
-/
import Octave.Lemmas.Markdown
namespace Octave

theorem mdTop_scan (fmt : Value → Str) (n : Node) (st : List Str) (ho : mdOrderedNode n = true) :
    mdScan st (mdTop fmt n) = n.leaves.map (mdLeaf fmt []) := by
  cases n with
  | assign a k v => simp [mdTop, mdScan, Node.leaves, mdLeaf]
  | block a k cs =>
    simp only [mdOrderedNode, Bool.and_eq_true] at ho
    have h := mdChildren_scan fmt cs 3 [k] [k] false (by omega) (by simp) (by simp) (fun _ => rfl) ho.2 ho.1
    simp only [mdTop, mdScan, Node.leaves, map_mdLeaf_pre]
    simpa using h.1
  | sect a i k cs =>
    simp only [mdOrderedNode, Bool.and_eq_true] at ho
    have h := mdChildren_scan fmt cs 3 [k] [k] false (by omega) (by simp) (by simp) (fun _ => rfl) ho.2 ho.1
    simp only [mdTop, mdScan, Node.leaves, map_mdLeaf_pre]
    simpa using h.1
  | comment a t => simp [mdTop, mdScan, Node.leaves]

theorem mdTops_scan (fmt : Value → Str) : ∀ (ns : List Node) (st : List Str),
    mdOrderedList ns = true →
    mdScan st ((ns.map (mdTop fmt)).flatten) = (leavesList ns).map (mdLeaf fmt [])
  | [], st, _ => by simp [mdScan, leavesList]
  | n :: ns, st, ho => by
    simp only [mdOrderedList, Bool.and_eq_true] at ho
    simp only [List.map_cons, List.flatten_cons, mdScan_append, leavesList, List.map_append,
      mdTop_scan fmt n st ho.1, mdTops_scan fmt ns _ ho.2]

theorem mdBullets_scan (fmt : Value → Str) (st : List Str) (m : List (Str × Value)) :
    mdScan st (m.map fun kv => MdLine.bullet kv.1 (fmt kv.2)) = m.map (fun kv => (st ++ [kv.1], fmt kv.2))
    ∧ mdState st (m.map fun kv => MdLine.bullet kv.1 (fmt kv.2)) = st := by
  induction m with
  | nil => simp [mdScan, mdState]
  | cons x xs ih => simp [mdScan, mdState, ih.1, ih.2]

theorem mdMeta_scan (fmt : Value → Str) (m : List (Str × Value)) :
    mdScan [] (mdMeta fmt m) = (metaLeaves m).map (mdLeaf fmt []) := by
  unfold mdMeta metaLeaves
  generalize "META".toList = M
  split
  · rename_i he
    have : m = [] := by simpa using he
    simp [this, mdScan]
  · have hb := mdBullets_scan fmt [M] m
    simp [mdScan, mdScan_append, hb.1, mdLeaf, List.map_map, Function.comp_def]

/-- Under the guards the markdown scan finds exactly the document's leaves, each with its formatted value. -/
theorem mdLeaves_eq (fmt : Value → Str) (d : Doc) (ho : mdOrdered d = true) :
    mdLeaves (mdLines fmt d) = (Doc.leaves d).map (mdLeaf fmt []) := by
  simp only [mdLeaves, mdLines, List.cons_append, List.nil_append, mdScan, mdScan_append, Doc.leaves, List.map_append,
    mdMeta_scan, mdTops_scan fmt d.sections _ ho]

/-! ### the two copies of the converters agree where their code does not differ -/

mutual
theorem convertValue_cli_eq : ∀ v : Value, valueAll (fun v => !v.isZone) v = true →
    convertValue false v = convertValue true v
  | .null, _ => by simp [convertValue]
  | .bool _, _ => by simp [convertValue]
  | .int _, _ => by simp [convertValue]
  | .float _, _ => by simp [convertValue]
  | .str _, _ => by simp [convertValue]
  | .list xs, h => by
    simp only [valueAll, Bool.and_eq_true] at h
    simp [convertValue, convertItems_cli_eq xs h.2]
  | .imap ps, h => by
    simp only [valueAll, Bool.and_eq_true] at h
    simp [convertValue, convertPairs_cli_eq ps h.2]
  | .zone _ _ _, h => by simp [valueAll, Value.isZone] at h
  | .holo _, _ => by simp [convertValue]
  | .pydict ps, h => by
    simp only [valueAll, Bool.and_eq_true] at h
    simp [convertValue, convertPairs_cli_eq ps h.2]
theorem convertItems_cli_eq : ∀ xs : List Value, valueAllL (fun v => !v.isZone) xs = true →
    convertItems false xs = convertItems true xs
  | [], _ => by simp [convertItems]
  | x :: xs, h => by
    simp only [valueAllL, Bool.and_eq_true] at h
    simp [convertItems, convertValue_cli_eq x h.1, convertItems_cli_eq xs h.2]
theorem convertPairs_cli_eq : ∀ ps : List (Str × Value), valueAllP (fun v => !v.isZone) ps = true →
    convertPairs false ps = convertPairs true ps
  | [], _ => by simp [convertPairs]
  | (k, v) :: ps, h => by
    simp only [valueAllP, Bool.and_eq_true] at h
    simp [convertPairs, convertValue_cli_eq v h.1, convertPairs_cli_eq ps h.2]
end

mutual
theorem nodeEntry_cli_eq : ∀ n : Node, nodeValuesAll (fun v => !v.isZone) n = true → nodeEntry false n = nodeEntry true n
  | .assign _ k v, h => by
    simp only [nodeValuesAll] at h
    simp [nodeEntry, convertValue_cli_eq v h]
  | .block _ k cs, h => by
    simp only [nodeValuesAll] at h
    simp [nodeEntry, nodeEntries_cli_eq cs h]
  | .sect _ _ k cs, h => by
    simp only [nodeValuesAll] at h
    simp [nodeEntry, nodeEntries_cli_eq cs h]
  | .comment _ _, _ => by simp [nodeEntry]
theorem nodeEntries_cli_eq : ∀ ns : List Node, nodeValuesAllL (fun v => !v.isZone) ns = true →
    nodeEntries false ns = nodeEntries true ns
  | [], _ => by simp [nodeEntries]
  | n :: ns, h => by
    simp only [nodeValuesAllL, Bool.and_eq_true] at h
    simp [nodeEntries, nodeEntry_cli_eq n h.1, nodeEntries_cli_eq ns h.2]
end

theorem astToDict_cli_eq (d : Doc) (h : noZones d = true) : astToDict false d = astToDict true d := by
  simp only [noZones, docValuesAll, Bool.and_eq_true] at h
  simp [astToDict, metaEntries, convertPairs_cli_eq _ h.1, nodeEntries_cli_eq _ h.2]

theorem mdValueCli_scalar (v : Value) (h : v.isScalar = true) : mdValueCli v = mdValue v := by
  cases v with
  | bool b => cases b <;> simp [mdValueCli, scalarStr, mdValue]
  | null => simp [mdValueCli, scalarStr, mdValue]
  | int i => simp [mdValueCli, scalarStr, mdValue]
  | float r => simp [mdValueCli, scalarStr, mdValue]
  | str s => simp [mdValueCli, scalarStr, mdValue]
  | _ => simp [Value.isScalar] at h

theorem valueAll_scalar (v : Value) (h : valueAll Value.isScalar v = true) : v.isScalar = true := by
  cases v <;> simp_all [valueAll, Value.isScalar]

mutual
theorem mdNode_cli_eq : ∀ (n : Node) (lvl : Nat), nodeValuesAll Value.isScalar n = true →
    mdNode mdValueCli lvl n = mdNode mdValue lvl n
  | .assign _ k v, lvl, h => by
    simp only [nodeValuesAll] at h
    simp [mdNode, mdValueCli_scalar v (valueAll_scalar v h)]
  | .block _ k cs, lvl, h => by
    simp only [nodeValuesAll] at h
    simp [mdNode, mdChildren_cli_eq cs (lvl + 1) h]
  | .sect _ _ k cs, lvl, h => by
    simp only [nodeValuesAll] at h
    simp [mdNode, mdChildren_cli_eq cs (lvl + 1) h]
  | .comment _ _, _, _ => by simp [mdNode]
theorem mdChildren_cli_eq : ∀ (ns : List Node) (lvl : Nat), nodeValuesAllL Value.isScalar ns = true →
    mdChildren mdValueCli lvl ns = mdChildren mdValue lvl ns
  | [], _, _ => by simp [mdChildren]
  | n :: ns, lvl, h => by
    simp only [nodeValuesAllL, Bool.and_eq_true] at h
    simp [mdChildren, mdNode_cli_eq n lvl h.1, mdChildren_cli_eq ns lvl h.2]
end

theorem mdTop_cli_eq (n : Node) (h : nodeValuesAll Value.isScalar n = true) : mdTop mdValueCli n = mdTop mdValue n := by
  cases n with
  | assign a k v =>
    simp only [nodeValuesAll] at h
    simp [mdTop, mdValueCli_scalar v (valueAll_scalar v h)]
  | block a k cs =>
    simp only [nodeValuesAll] at h
    simp [mdTop, mdChildren_cli_eq cs 3 h]
  | sect a i k cs =>
    simp only [nodeValuesAll] at h
    simp [mdTop, mdChildren_cli_eq cs 3 h]
  | comment a t => simp [mdTop]

theorem mdTops_cli_eq : ∀ ns : List Node, nodeValuesAllL Value.isScalar ns = true →
    ns.map (mdTop mdValueCli) = ns.map (mdTop mdValue)
  | [], _ => by simp
  | n :: ns, h => by
    simp only [nodeValuesAllL, Bool.and_eq_true] at h
    simp [mdTop_cli_eq n h.1, mdTops_cli_eq ns h.2]

theorem mdMeta_cli_eq : ∀ m : List (Str × Value), valueAllP Value.isScalar m = true →
    (m.map fun kv => MdLine.bullet kv.1 (mdValueCli kv.2)) = (m.map fun kv => MdLine.bullet kv.1 (mdValue kv.2))
  | [], _ => by simp
  | (k, v) :: m, h => by
    simp only [valueAllP, Bool.and_eq_true] at h
    simp [mdValueCli_scalar v (valueAll_scalar v h.1), mdMeta_cli_eq m h.2]

theorem mdLines_cli_eq (d : Doc) (h : scalarOnly d = true) : mdLines mdValueCli d = mdLines mdValue d := by
  simp only [scalarOnly, docValuesAll, Bool.and_eq_true] at h
  simp [mdLines, mdMeta, mdMeta_cli_eq _ h.1, mdTops_cli_eq _ h.2]

/-! ### json.dumps accepts the converted document -/

theorem jsonableP_dictSet (acc : List (Str × PyVal)) (k : Str) (v : PyVal)
    (ha : jsonableP acc = true) (hv : jsonable v = true) : jsonableP (dictSet acc k v) = true := by
  induction acc with
  | nil => simp [dictSet, jsonableP, hv]
  | cons x xs ih =>
    obtain ⟨k', v'⟩ := x
    simp only [jsonableP, Bool.and_eq_true] at ha
    simp only [dictSet]
    split
    · simp [jsonableP, hv, ha.2]
    · simp [jsonableP, ha.1, ih ha.2]

theorem jsonableP_foldl (es acc : List (Str × PyVal)) (ha : jsonableP acc = true) (he : jsonableP es = true) :
    jsonableP (es.foldl (fun a e => dictSet a e.1 e.2) acc) = true := by
  induction es generalizing acc with
  | nil => simpa using ha
  | cons x xs ih =>
    obtain ⟨k, v⟩ := x
    simp only [jsonableP, Bool.and_eq_true] at he
    exact ih _ (jsonableP_dictSet acc k v ha he.1) he.2

theorem jsonableP_dictOf (es : List (Str × PyVal)) (he : jsonableP es = true) : jsonableP (dictOf es) = true :=
  jsonableP_foldl es [] (by simp [jsonableP]) he

theorem jsonableP_append (a b : List (Str × PyVal)) : jsonableP (a ++ b) = (jsonableP a && jsonableP b) := by
  induction a with
  | nil => simp [jsonableP]
  | cons x xs ih => obtain ⟨k, v⟩ := x; simp [jsonableP, ih, Bool.and_assoc]

mutual
theorem convertValue_jsonable : ∀ v : Value, jsonable (convertValue true v) = true
  | .null => by simp [convertValue, jsonable]
  | .bool _ => by simp [convertValue, jsonable]
  | .int _ => by simp [convertValue, jsonable]
  | .float _ => by simp [convertValue, jsonable]
  | .str _ => by simp [convertValue, jsonable]
  | .list xs => by simp only [convertValue, jsonable]; exact convertItems_jsonable xs
  | .imap ps => by simp only [convertValue, jsonable]; exact jsonableP_dictOf _ (convertPairs_jsonable ps)
  | .zone c t f => by cases t <;> simp [convertValue, jsonable, jsonableP, optStr]
  | .holo _ => by simp [convertValue, jsonable]
  | .pydict ps => by simp only [convertValue, jsonable]; exact jsonableP_dictOf _ (convertPairs_jsonable ps)
theorem convertItems_jsonable : ∀ xs : List Value, jsonableL (convertItems true xs) = true
  | [] => by simp [convertItems, jsonableL]
  | x :: xs => by simp [convertItems, jsonableL, convertValue_jsonable x, convertItems_jsonable xs]
theorem convertPairs_jsonable : ∀ ps : List (Str × Value), jsonableP (convertPairs true ps) = true
  | [] => by simp [convertPairs, jsonableP]
  | (k, v) :: ps => by simp [convertPairs, jsonableP, convertValue_jsonable v, convertPairs_jsonable ps]
end

mutual
theorem nodeEntry_jsonable : ∀ n : Node, jsonableP (nodeEntry true n) = true
  | .assign _ k v => by simp [nodeEntry, jsonableP, convertValue_jsonable v]
  | .block _ k cs => by simp [nodeEntry, jsonableP, jsonable, jsonableP_dictOf _ (nodeEntries_jsonable cs)]
  | .sect _ _ k cs => by simp [nodeEntry, jsonableP, jsonable, jsonableP_dictOf _ (nodeEntries_jsonable cs)]
  | .comment _ _ => by simp [nodeEntry, jsonableP]
theorem nodeEntries_jsonable : ∀ ns : List Node, jsonableP (nodeEntries true ns) = true
  | [] => by simp [nodeEntries, jsonableP]
  | n :: ns => by simp [nodeEntries, jsonableP_append, nodeEntry_jsonable n, nodeEntries_jsonable ns]
end

/-- `json.dumps` accepts the MCP conversion of EVERY document (since fixes 45b8e9f and fd2ad16 no AST object survives `_convert_value`). -/
theorem astToDict_jsonable (d : Doc) : jsonable (astToDict true d) = true := by
  simp only [astToDict, jsonable]
  apply jsonableP_dictOf
  rw [jsonableP_append]
  simp only [Bool.and_eq_true]
  refine ⟨?_, nodeEntries_jsonable _⟩
  unfold metaEntries
  split
  · simp [jsonableP]
  · simp [jsonableP, jsonable, jsonableP_dictOf _ (convertPairs_jsonable _)]

end Octave
