/-
The heading/bullet scan of the markdown rendering versus the leaves of the document (used by Props/C14).
-/
import Octave.Lemmas.DictLeaves
namespace Octave

/-- heading stack after scanning some lines -/
def mdState : List Str → List MdLine → List Str
  | st, [] => st
  | st, .heading l k :: ls => mdState (st.take (l - 2) ++ [k]) ls
  | st, .bullet _ _ :: ls => mdState st ls
  | _, .para _ _ :: ls => mdState [] ls
  | st, .title _ :: ls => mdState st ls
  | st, .blank :: ls => mdState st ls

theorem mdScan_append (st : List Str) (a b : List MdLine) :
    mdScan st (a ++ b) = mdScan st a ++ mdScan (mdState st a) b := by
  induction a generalizing st with
  | nil => simp [mdScan, mdState]
  | cons x xs ih => cases x <;> simp [mdScan, mdState, ih]

theorem mdState_append (st : List Str) (a b : List MdLine) :
    mdState st (a ++ b) = mdState (mdState st a) b := by
  induction a generalizing st with
  | nil => simp [mdState]
  | cons x xs ih => cases x <;> simp [mdState, ih]

/-- a document leaf as the markdown converter shows it, below the heading path `pfx` -/
def mdLeaf (fmt : Value → Str) (pfx : Path) (l : Path × Value) : Path × Str := (pfx ++ l.1, fmt l.2)

theorem map_mdLeaf_pre (fmt : Value → Str) (pfx : Path) (k : Str) (ls : List (Path × Value)) :
    (pre k ls).map (mdLeaf fmt pfx) = ls.map (mdLeaf fmt (pfx ++ [k])) := by
  simp [pre, mdLeaf, List.map_map, Function.comp_def, List.append_assoc]

theorem take_of_take_succ {α : Type} {st pfx : List α} {k : α} {n : Nat}
    (hl : pfx.length = n) (h : st.take (n + 1) = pfx ++ [k]) : st.take n = pfx := by
  have : (st.take (n + 1)).take n = (pfx ++ [k]).take n := by rw [h]
  rw [List.take_take] at this
  simpa [Nat.min_eq_left (Nat.le_succ n), List.take_append_of_le_length (Nat.le_of_eq hl.symm), ← hl] using this

def Node.isContainer : Node → Bool
  | .block _ _ _ => true
  | .sect _ _ _ _ => true
  | _ => false

/-- `seen → no assignment follows` : once a sub-block has been rendered, the remaining children contribute
no bullet of their own. -/
theorem assignsFirst_true_of_false : ∀ (ns : List Node), assignsFirst true ns = true → assignsFirst false ns = true
  | [], _ => by simp [assignsFirst]
  | .assign _ _ _ :: ns, h => by simp [assignsFirst] at h
  | .block _ _ _ :: ns, h => by simpa [assignsFirst] using h
  | .sect _ _ _ _ :: ns, h => by simpa [assignsFirst] using h
  | .comment _ _ :: ns, h => by
    simp only [assignsFirst] at h ⊢; exact assignsFirst_true_of_false ns h

mutual
/-- Scanning the lines of one child of a block / section rendered at heading level `lvl`, below the heading path `pfx`
(`|pfx| = lvl - 2`): the bullets found are exactly the child's leaves under `pfx`, and the heading stack still
starts with `pfx` afterwards.  `seen = false` means no sibling sub-block was rendered yet, and then the stack IS `pfx`. -/
theorem mdNode_scan (fmt : Value → Str) : ∀ (n : Node) (lvl : Nat) (pfx st : List Str) (seen : Bool),
    2 ≤ lvl → pfx.length = lvl - 2 → st.take (lvl - 2) = pfx → (seen = false → st = pfx) →
    mdOrderedNode n = true → assignsFirst seen [n] = true →
    mdScan st (mdNode fmt lvl n) = n.leaves.map (mdLeaf fmt pfx)
      ∧ (mdState st (mdNode fmt lvl n)).take (lvl - 2) = pfx
      ∧ (seen = false → n.isContainer = false → mdState st (mdNode fmt lvl n) = pfx)
  | .assign _ k v, lvl, pfx, st, seen, _, _, htk, hst, _, haf => by
    have hseen : seen = false := by cases seen <;> simp_all [assignsFirst]
    have : st = pfx := hst hseen
    subst this
    simp [mdNode, mdScan, mdState, Node.leaves, mdLeaf, htk]
  | .block _ k cs, lvl, pfx, st, seen, hl, hpl, htk, _, ho, _ => by
    simp only [mdOrderedNode, Bool.and_eq_true] at ho
    have hlvl : lvl + 1 - 2 = (lvl - 2) + 1 := by omega
    have hpl' : (pfx ++ [k]).length = lvl + 1 - 2 := by simp [hpl, hlvl]
    have h := mdChildren_scan fmt cs (lvl + 1) (pfx ++ [k]) (pfx ++ [k]) false (by omega) hpl'
      (by rw [← hpl']; exact List.take_length) (fun _ => rfl) ho.2 ho.1
    simp only [mdNode, mdScan, mdState, htk, Node.leaves, map_mdLeaf_pre]
    refine ⟨h.1, ?_, ?_⟩
    · have := h.2
      rw [hlvl] at this
      exact take_of_take_succ hpl this
    · intro _ hnb; simp [Node.isContainer] at hnb
  | .sect _ _ k cs, lvl, pfx, st, seen, hl, hpl, htk, _, ho, _ => by
    simp only [mdOrderedNode, Bool.and_eq_true] at ho
    have hlvl : lvl + 1 - 2 = (lvl - 2) + 1 := by omega
    have hpl' : (pfx ++ [k]).length = lvl + 1 - 2 := by simp [hpl, hlvl]
    have h := mdChildren_scan fmt cs (lvl + 1) (pfx ++ [k]) (pfx ++ [k]) false (by omega) hpl'
      (by rw [← hpl']; exact List.take_length) (fun _ => rfl) ho.2 ho.1
    simp only [mdNode, mdScan, mdState, htk, Node.leaves, map_mdLeaf_pre]
    refine ⟨h.1, ?_, ?_⟩
    · have := h.2
      rw [hlvl] at this
      exact take_of_take_succ hpl this
    · intro _ hnb; simp [Node.isContainer] at hnb
  | .comment _ _, lvl, pfx, st, seen, _, _, htk, hst, _, _ => by
    simp only [mdNode, mdScan, mdState, Node.leaves, List.map_nil, true_and]
    exact ⟨htk, fun h _ => hst h⟩
theorem mdChildren_scan (fmt : Value → Str) : ∀ (ns : List Node) (lvl : Nat) (pfx st : List Str) (seen : Bool),
    2 ≤ lvl → pfx.length = lvl - 2 → st.take (lvl - 2) = pfx → (seen = false → st = pfx) →
    mdOrderedList ns = true → assignsFirst seen ns = true →
    mdScan st (mdChildren fmt lvl ns) = (leavesList ns).map (mdLeaf fmt pfx)
      ∧ (mdState st (mdChildren fmt lvl ns)).take (lvl - 2) = pfx
  | [], lvl, pfx, st, seen, _, _, htk, _, _, _ => by
    simp [mdChildren, mdScan, mdState, leavesList, htk]
  | n :: ns, lvl, pfx, st, seen, hl, hpl, htk, hst, ho, haf => by
    simp only [mdOrderedList, Bool.and_eq_true] at ho
    -- split the ordering hypothesis between the head and the tail
    have hhead : assignsFirst seen [n] = true := by
      cases n <;> cases seen <;> simp_all [assignsFirst]
    have hn := mdNode_scan fmt n lvl pfx st seen hl hpl htk hst ho.1 hhead
    -- the flag for the tail
    have htail : ∃ seen', assignsFirst seen' ns = true ∧
        (seen' = false → mdState st (mdNode fmt lvl n) = pfx) := by
      cases n with
      | assign a k v =>
        refine ⟨seen, ?_, fun h => hn.2.2 h (by simp [Node.isContainer])⟩
        cases seen <;> simp_all [assignsFirst]
      | block a k cs => exact ⟨true, by simpa [assignsFirst] using haf, fun h => by cases h⟩
      | sect a i k cs => exact ⟨true, by simpa [assignsFirst] using haf, fun h => by cases h⟩
      | comment a t =>
        exact ⟨seen, by simpa [assignsFirst] using haf, fun h => hn.2.2 h (by simp [Node.isContainer])⟩
    obtain ⟨seen', haf', hst'⟩ := htail
    have ht := mdChildren_scan fmt ns lvl pfx (mdState st (mdNode fmt lvl n)) seen' hl hpl hn.2.1 hst' ho.2 haf'
    simp only [mdChildren, mdScan_append, mdState_append, leavesList, List.map_append, hn.1, ht.1, ht.2, and_self]
end

end Octave
