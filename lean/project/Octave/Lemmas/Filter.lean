/-
Helper lemmas about `_filter_fields` and leaves (used by Props/C14).
-/
import Octave.Spec.Leaves
namespace Octave

theorem leavesList_append (a b : List Node) : leavesList (a ++ b) = leavesList a ++ leavesList b := by
  induction a with
  | nil => simp [leavesList]
  | cons n ns ih => simp [leavesList, ih, List.append_assoc]

theorem leavesList_singleton (n : Node) : leavesList [n] = n.leaves := by
  simp [leavesList]

mutual
theorem preserveNode_id : ∀ n : Node, preserveNode n = n
  | .assign _ _ _ => by simp [preserveNode]
  | .block a k cs => by simp [preserveNode, preserveList_id cs]
  | .sect _ _ _ _ => by simp [preserveNode]
  | .comment _ _ => by simp [preserveNode]
theorem preserveList_id : ∀ ns : List Node, preserveList ns = ns
  | [] => by simp [preserveList]
  | n :: ns => by simp [preserveList, preserveNode_id n, preserveList_id ns]
end

theorem pre_sublist {α : Type} (k : Str) {a b : List (Path × α)} (h : a.Sublist b) : (pre k a).Sublist (pre k b) :=
  h.map _

mutual
theorem filterNode_sublist (keep : List Str) : ∀ n : Node, (leavesList (filterNode keep n)).Sublist n.leaves
  | .assign a k v => by
    simp only [filterNode]
    split
    · simp [leavesList]
    · simp [leavesList]
  | .block a k cs => by
    simp only [filterNode]
    split
    · simp [leavesList, preserveList_id]
    · have ih := filterList_sublist keep cs
      split
      · simp [leavesList]
      · rename_i fc _ 
        simp only [leavesList, Node.leaves, List.append_nil]
        exact pre_sublist k ih
  | .sect _ _ _ _ => by simp [filterNode, leavesList]
  | .comment _ _ => by simp [filterNode, leavesList]
theorem filterList_sublist (keep : List Str) : ∀ ns : List Node, (leavesList (filterList keep ns)).Sublist (leavesList ns)
  | [] => by simp [filterList, leavesList]
  | n :: ns => by
    simp only [filterList, leavesList, leavesList_append]
    exact List.Sublist.append (filterNode_sublist keep n) (filterList_sublist keep ns)
end

end Octave
