/-
Leaves of the dict rendering versus leaves of the document (used by Props/C14).
-/
import Octave.Lemmas.Dict
namespace Octave

/-- a document leaf as the dict converters show it -/
def convLeaf (z : Bool) (l : Path × Value) : Path × PyVal := (l.1, convertValue z l.2)

theorem map_convLeaf_pre (z : Bool) (k : Str) (ls : List (Path × Value)) :
    (pre k ls).map (convLeaf z) = pre k (ls.map (convLeaf z)) := by
  simp [pre, convLeaf, List.map_map, Function.comp_def]

theorem mem_pre {α : Type} {k : Str} {ls : List (Path × α)} {l : Path × α} :
    l ∈ pre k ls ↔ ∃ l' ∈ ls, l = (k :: l'.1, l'.2) := by
  simp [pre, eq_comm]

theorem nodeTrees_keys (z : Bool) : ∀ ns : List Node, (nodeTrees z ns).map Prod.fst = dictKeys ns
  | [] => by simp [nodeTrees, dictKeys]
  | .assign _ k v :: ns => by simp [nodeTrees, nodeTree, dictKeys, nodeTrees_keys z ns]
  | .block _ k cs :: ns => by simp [nodeTrees, nodeTree, dictKeys, nodeTrees_keys z ns]
  | .sect _ _ _ _ :: ns => by simp [nodeTrees, nodeTree, dictKeys, nodeTrees_keys z ns]
  | .comment _ _ :: ns => by simp [nodeTrees, nodeTree, dictKeys, nodeTrees_keys z ns]

/-! ### no invention: every leaf of the dict is a leaf of the document (any document) -/

mutual
theorem nodeTree_leaves_sub (z : Bool) : ∀ (n : Node) (l : Path × PyVal),
    l ∈ kidsLeaves (nodeTree z n) → l ∈ n.leaves.map (convLeaf z)
  | .assign _ k v, l, h => by
    simpa [nodeTree, kidsLeaves, Tree.leaves, pre, Node.leaves, convLeaf] using h
  | .block _ k cs, l, h => by
    simp only [nodeTree, kidsLeaves, Tree.leaves, List.append_nil] at h
    obtain ⟨l', hl', rfl⟩ := mem_pre.mp h
    have h1 := mem_kidsLeaves_dictOf _ hl'
    have h2 := nodeTrees_leaves_sub z cs l' h1
    simp only [Node.leaves, map_convLeaf_pre]
    exact mem_pre.mpr ⟨l', h2, rfl⟩
  | .sect _ _ k cs, l, h => by
    simp only [nodeTree, kidsLeaves, Tree.leaves, List.append_nil] at h
    obtain ⟨l', hl', rfl⟩ := mem_pre.mp h
    have h1 := mem_kidsLeaves_dictOf _ hl'
    have h2 := nodeTrees_leaves_sub z cs l' h1
    simp only [Node.leaves, map_convLeaf_pre]
    exact mem_pre.mpr ⟨l', h2, rfl⟩
  | .comment _ _, l, h => by simp [nodeTree, kidsLeaves] at h
theorem nodeTrees_leaves_sub (z : Bool) : ∀ (ns : List Node) (l : Path × PyVal),
    l ∈ kidsLeaves (nodeTrees z ns) → l ∈ (leavesList ns).map (convLeaf z)
  | [], l, h => by simp [nodeTrees, kidsLeaves] at h
  | n :: ns, l, h => by
    simp only [nodeTrees, kidsLeaves_append, List.mem_append] at h
    simp only [leavesList, List.map_append, List.mem_append]
    rcases h with h | h
    · exact Or.inl (nodeTree_leaves_sub z n l h)
    · exact Or.inr (nodeTrees_leaves_sub z ns l h)
end

theorem kidsLeaves_metaLeafs (z : Bool) (m : List (Str × Value)) :
    kidsLeaves (m.map fun kv => (kv.1, Tree.leaf (convertValue z kv.2))) = m.map fun kv => ([kv.1], convertValue z kv.2) := by
  induction m with
  | nil => simp [kidsLeaves]
  | cons x xs ih => obtain ⟨k, v⟩ := x; simp [kidsLeaves, Tree.leaves, pre, ih]

theorem metaTree_leaves_sub (z : Bool) (m : List (Str × Value)) (l : Path × PyVal)
    (h : l ∈ kidsLeaves (metaTree z m)) : l ∈ (metaLeaves m).map (convLeaf z) := by
  unfold metaTree at h
  split at h
  · simp [kidsLeaves] at h
  · simp only [kidsLeaves, Tree.leaves, List.append_nil] at h
    obtain ⟨l', hl', rfl⟩ := mem_pre.mp h
    have h1 := mem_kidsLeaves_dictOf _ hl'
    rw [kidsLeaves_metaLeafs] at h1
    simp only [List.mem_map] at h1
    obtain ⟨kv, hkv, rfl⟩ := h1
    simp only [metaLeaves, List.map_map, List.mem_map, Function.comp_def, convLeaf]
    exact ⟨kv, hkv, rfl⟩

theorem docTree_leaves_sub (z : Bool) (d : Doc) (l : Path × PyVal) (h : l ∈ (docTree z d).leaves) :
    l ∈ (Doc.leaves d).map (convLeaf z) := by
  simp only [docTree, Tree.leaves] at h
  have h1 := mem_kidsLeaves_dictOf _ h
  simp only [kidsLeaves_append, List.mem_append] at h1
  simp only [Doc.leaves, List.map_append, List.mem_append]
  rcases h1 with h1 | h1
  · exact Or.inl (metaTree_leaves_sub z _ l h1)
  · exact Or.inr (nodeTrees_leaves_sub z _ l h1)

/-! ### exactness under the guards -/

mutual
theorem nodeTree_leaves_eq (z : Bool) : ∀ (n : Node), noDupNode n = true →
    kidsLeaves (nodeTree z n) = n.leaves.map (convLeaf z)
  | .assign _ k v, _ => by simp [nodeTree, kidsLeaves, Tree.leaves, pre, Node.leaves, convLeaf]
  | .block _ k cs, hd => by
    simp only [noDupNode, Bool.and_eq_true, decide_eq_true_eq] at hd
    have hk : ((nodeTrees z cs).map Prod.fst).Nodup := by rw [nodeTrees_keys]; exact hd.1
    simp only [nodeTree, kidsLeaves, Tree.leaves, List.append_nil, dictOf_nodup _ hk,
      nodeTrees_leaves_eq z cs hd.2, Node.leaves, map_convLeaf_pre]
  | .sect _ _ k cs, hd => by
    simp only [noDupNode, Bool.and_eq_true, decide_eq_true_eq] at hd
    have hk : ((nodeTrees z cs).map Prod.fst).Nodup := by rw [nodeTrees_keys]; exact hd.1
    simp only [nodeTree, kidsLeaves, Tree.leaves, List.append_nil, dictOf_nodup _ hk,
      nodeTrees_leaves_eq z cs hd.2, Node.leaves, map_convLeaf_pre]
  | .comment _ _, _ => by simp [nodeTree, kidsLeaves, Node.leaves]
theorem nodeTrees_leaves_eq (z : Bool) : ∀ (ns : List Node), noDupList ns = true →
    kidsLeaves (nodeTrees z ns) = (leavesList ns).map (convLeaf z)
  | [], _ => by simp [nodeTrees, kidsLeaves, leavesList]
  | n :: ns, hd => by
    simp only [noDupList, Bool.and_eq_true] at hd
    simp only [nodeTrees, kidsLeaves_append, leavesList, List.map_append,
      nodeTree_leaves_eq z n hd.1, nodeTrees_leaves_eq z ns hd.2]
end

theorem metaTree_keys (z : Bool) (m : List (Str × Value)) :
    (metaTree z m).map Prod.fst = if m.isEmpty then [] else ["META".toList] := by
  unfold metaTree; split <;> simp

theorem metaTree_leaves_eq (z : Bool) (m : List (Str × Value)) (h : (m.map Prod.fst).Nodup) :
    kidsLeaves (metaTree z m) = (metaLeaves m).map (convLeaf z) := by
  unfold metaTree
  split
  · rename_i he
    have : m = [] := by simpa using he
    simp [this, kidsLeaves, metaLeaves]
  · have hk : ((m.map fun kv => (kv.1, Tree.leaf (convertValue z kv.2))).map Prod.fst).Nodup := by
      simpa [List.map_map, Function.comp_def] using h
    simp only [kidsLeaves, Tree.leaves, List.append_nil, dictOf_nodup _ hk, kidsLeaves_metaLeafs]
    simp [pre, metaLeaves, convLeaf, List.map_map, Function.comp_def]

theorem docTree_leaves_eq (z : Bool) (d : Doc) (hd : noDupSiblings d = true) :
    (docTree z d).leaves = (Doc.leaves d).map (convLeaf z) := by
  simp only [noDupSiblings, Bool.and_eq_true, decide_eq_true_eq] at hd
  obtain ⟨⟨htop, hmeta⟩, hdl⟩ := hd
  have hk : ((metaTree z d.dmeta ++ nodeTrees z d.sections).map Prod.fst).Nodup := by
    rw [List.map_append, metaTree_keys, nodeTrees_keys]; exact htop
  simp only [docTree, Tree.leaves, dictOf_nodup _ hk, kidsLeaves_append, Doc.leaves, List.map_append,
    metaTree_leaves_eq z _ hmeta, nodeTrees_leaves_eq z _ hdl]

end Octave
