/-
Helper lemmas about the sealer model (used by Props/C15).
-/
import Octave.Model.Sealer
namespace Octave

/-! ### Python `strip('"')` -/

theorem strip_cons_quote (x : Str) : pyStripQuotes ('"' :: x) = pyStripQuotes x := by
  simp [pyStripQuotes]

theorem strip_append_quote (x : Str) : pyStripQuotes (x ++ ['"']) = pyStripQuotes x := by
  unfold pyStripQuotes
  rw [List.dropWhile_append]
  split
  · rename_i h
    have : List.dropWhile (fun c => c == '"') x = [] := by simpa using h
    simp [this]
  · simp [List.reverse_append]

/-- the quotes `compute_seal` puts around the digest are the ones `seal_document` strips again -/
theorem strip_quoted (h : Str) : pyStripQuotes ('"' :: (h ++ ['"'])) = pyStripQuotes h := by
  rw [strip_cons_quote, strip_append_quote]

/-! ### `_remove_seal_section` -/

theorem isSealSection_sealSection (E : SealEnv) (c : Str) (gv : Option Str) : isSealSection (sealSection E c gv) = true := by
  simp [sealSection, isSealSection]

theorem removeSeal_noSeal (d : Doc) : ∀ n ∈ (removeSeal d).sections, isSealSection n = false := by
  intro n hn
  simp only [removeSeal, List.mem_filter, Bool.not_eq_true'] at hn
  exact hn.2

theorem removeSeal_idem (d : Doc) : removeSeal (removeSeal d) = removeSeal d := by
  simp [removeSeal, List.filter_filter]

/-- sealing does not change what the seal covers -/
theorem removeSeal_seal (E : SealEnv) (d : Doc) : removeSeal (sealDocument E d) = removeSeal d := by
  simp [removeSeal, sealDocument, List.filter_append, List.filter_filter, isSealSection_sealSection]

/-! ### `extract_seal` -/

theorem extractSeal_append_of_noSeal (xs ys : List Node) (h : ∀ n ∈ xs, isSealSection n = false) :
    extractSeal (xs ++ ys) = extractSeal ys := by
  induction xs with
  | nil => rfl
  | cons n ns ih =>
    have hn := h n (by simp)
    have ih' := ih (fun m hm => h m (List.mem_cons_of_mem _ hm))
    cases n with
    | sect a i k cs =>
      simp only [isSealSection] at hn
      simp [extractSeal, hn, ih']
    | assign a k v => simp [extractSeal, ih']
    | block a k cs => simp [extractSeal, ih']
    | comment a t => simp [extractSeal, ih']

theorem extractSeal_none_of_noSeal (xs : List Node) (h : ∀ n ∈ xs, isSealSection n = false) : extractSeal xs = none := by
  have := extractSeal_append_of_noSeal xs [] h
  simpa [extractSeal] using this

/-- the stored hash of a freshly built seal section is the (stripped) digest -/
theorem storedHash_sealSection (E : SealEnv) (c : Str) (gv : Option Str) :
    ∃ sd, extractSeal [sealSection E c gv] = some sd ∧ storedHash sd = .str (pyStripQuotes (pyStripQuotes (E.H c))) := by
  cases gv with
  | none =>
    refine ⟨_, by simp [sealSection, extractSeal, sealKey, computeSeal, sealData, dictOf, dictSet, lookupStr]; rfl, ?_⟩
    simp [storedHash, Gen.storedHashKey, strip_quoted]
  | some g =>
    refine ⟨_, by simp [sealSection, extractSeal, sealKey, computeSeal, sealData, dictOf, dictSet, lookupStr]; rfl, ?_⟩
    simp [storedHash, Gen.storedHashKey, strip_quoted]

end Octave

namespace Octave

/-! ### positions: what a reader adds and an emitter must not depend on -/

def Ann.erasePos (a : Ann) : Ann := { a with line := 0, column := 0 }

mutual
def eraseNode : Node → Node
  | .assign a k v => .assign a.erasePos k v
  | .block a k cs => .block a.erasePos k (eraseNodes cs)
  | .sect a i k cs => .sect a.erasePos i k (eraseNodes cs)
  | .comment a t => .comment a.erasePos t
def eraseNodes : List Node → List Node
  | [] => []
  | n :: ns => eraseNode n :: eraseNodes ns
end

/-- the document with every `line` / `column` forgotten (content, comments, order, nesting all kept) -/
def erasePos (d : Doc) : Doc := { d with ann := d.ann.erasePos, sections := eraseNodes d.sections }

theorem isSealSection_eraseNode (n : Node) : isSealSection (eraseNode n) = isSealSection n := by
  cases n <;> simp [eraseNode, isSealSection]

theorem filter_eraseNodes (xs : List Node) :
    (eraseNodes xs).filter (fun n => !isSealSection n) = eraseNodes (xs.filter (fun n => !isSealSection n)) := by
  induction xs with
  | nil => simp [eraseNodes]
  | cons n ns ih =>
    simp only [eraseNodes, List.filter_cons, isSealSection_eraseNode]
    split <;> simp [eraseNodes, ih]

theorem removeSeal_erasePos (d : Doc) : removeSeal (erasePos d) = erasePos (removeSeal d) := by
  simp [removeSeal, erasePos, filter_eraseNodes, Ann.erasePos]

theorem sealData_eraseNodes (cs : List Node) : sealData (eraseNodes cs) = sealData cs := by
  induction cs with
  | nil => simp [eraseNodes]
  | cons n ns ih => cases n <;> simp [eraseNodes, eraseNode, sealData, ih]

theorem extractSeal_eraseNodes (xs : List Node) : extractSeal (eraseNodes xs) = extractSeal xs := by
  induction xs with
  | nil => simp [eraseNodes]
  | cons n ns ih =>
    cases n with
    | sect a i k cs => simp [eraseNodes, eraseNode, extractSeal, sealData_eraseNodes, ih]
    | assign a k v => simp [eraseNodes, eraseNode, extractSeal, ih]
    | block a k cs => simp [eraseNodes, eraseNode, extractSeal, ih]
    | comment a t => simp [eraseNodes, eraseNode, extractSeal, ih]

/-- verification does not look at positions when the emitter does not -/
theorem verifySeal_erasePos (E : SealEnv) (hpos : ∀ x, E.emit (erasePos x) = E.emit x) (d : Doc) :
    verifySeal E (erasePos d) = verifySeal E d := by
  simp only [verifySeal, removeSeal_erasePos, hpos]
  simp [erasePos, extractSeal_eraseNodes]

theorem hashEq_iff (c : Str) (v : Value) : hashEq c v = true ↔ v = .str c := by
  cases v with
  | str s =>
    simp only [hashEq, beq_iff_eq, Value.str.injEq]
    exact eq_comm
  | _ => simp [hashEq]

end Octave
