/-
Duplicate sibling keys in the dict converters (finding F25), generic part: what `dictOf` (successive Python
`result[k] = v` assignments) does on ANY entry list — first position, last value — and how many leaves
of a tagged tree that costs.  All names prefixed `dupKeys`.
-/
import Octave.Lemmas.DictLeaves
namespace Octave

/-- the value Python leaves under `k` after `d[k] = v` followed by the assignments `es`: the LAST one for `k`. -/
def dupKeysLast {β : Type} (k : Str) : β → List (Str × β) → β
  | v, [] => v
  | v, (k', v') :: es => if k' = k then dupKeysLast k v' es else dupKeysLast k v es

/-- the assignments to other keys than `k` -/
def dupKeysOthers {β : Type} (k : Str) (es : List (Str × β)) : List (Str × β) := es.filter fun e => !(e.1 == k)

/-- is there an assignment to `k` in `es`? -/
def dupKeysHas {β : Type} (k : Str) : List (Str × β) → Bool
  | [] => false
  | (k', _) :: es => decide (k' = k) || dupKeysHas k es

theorem dupKeys_foldl_cons {β : Type} (k : Str) : ∀ (es : List (Str × β)) (v : β) (acc : List (Str × β)),
    es.foldl (fun a e => dictSet a e.1 e.2) ((k, v) :: acc)
      = (k, dupKeysLast k v es) :: (dupKeysOthers k es).foldl (fun a e => dictSet a e.1 e.2) acc
  | [], v, acc => by simp [dupKeysLast, dupKeysOthers]
  | (k', v') :: es, v, acc => by
    by_cases h : k' = k
    · subst h
      simp only [List.foldl_cons, dictSet, beq_self_eq_true, if_true, dupKeysLast]
      rw [dupKeys_foldl_cons k' es v' acc]
      simp [dupKeysOthers]
    · have h' : ¬ k = k' := fun e => h e.symm
      simp only [List.foldl_cons, dictSet, dupKeysLast, if_neg h]
      have hb : (k == k') = false := by simp [h']
      simp only [hb, Bool.false_eq_true, if_false]
      rw [dupKeys_foldl_cons k es v (dictSet acc k' v')]
      simp [dupKeysOthers, h]

/-- **first position, last value**: the entry list `(k, v) :: es` becomes a dict whose first key is `k`, holding the value of
the LAST assignment to `k`, followed by the dict of the assignments to the other keys. -/
theorem dupKeys_dictOf_cons {β : Type} (k : Str) (v : β) (es : List (Str × β)) :
    dictOf ((k, v) :: es) = (k, dupKeysLast k v es) :: dictOf (dupKeysOthers k es) := by
  simp only [dictOf, List.foldl_cons, dictSet]
  exact dupKeys_foldl_cons k es v []

theorem dupKeysOthers_length_le {β : Type} (k : Str) (es : List (Str × β)) : (dupKeysOthers k es).length ≤ es.length :=
  List.length_filter_le _ _

theorem dupKeysHas_others {β : Type} (k k' : Str) (h : ¬ k' = k) : ∀ es : List (Str × β),
    dupKeysHas k' (dupKeysOthers k es) = dupKeysHas k' es
  | [] => rfl
  | (k'', v) :: es => by
    have ih := dupKeysHas_others k k' h es
    by_cases h2 : k'' = k
    · subst h2
      have : ¬ k'' = k' := fun e => h e.symm
      simp [dupKeysOthers, dupKeysHas, this] at ih ⊢
      exact ih
    · simp [dupKeysOthers, dupKeysHas, h2] at ih ⊢
      rw [ih]

theorem dupKeysHas_keys {β : Type} (k : Str) : ∀ es : List (Str × β), dupKeysHas k es = (es.map Prod.fst).contains k
  | [] => rfl
  | (k', v) :: es => by
    simp only [dupKeysHas, List.map_cons, List.contains_cons, dupKeysHas_keys k es]
    by_cases h : k' = k
    · subst h; simp
    · have : ¬ k = k' := fun e => h e.symm
      simp [h, this]

/-- the dict has no repeated key -/
theorem dupKeys_dictOf_has {β : Type} : ∀ (n : Nat) (es : List (Str × β)), es.length ≤ n →
    ∀ k, dupKeysHas k (dictOf es) = dupKeysHas k es
  | _, [], _ => fun _ => rfl
  | 0, _ :: _, h => by simp at h
  | n + 1, (k', v) :: es, h => by
    intro k
    rw [dupKeys_dictOf_cons]
    have hl : (dupKeysOthers k' es).length ≤ n := Nat.le_trans (dupKeysOthers_length_le k' es) (by simpa using h)
    have ih := dupKeys_dictOf_has n (dupKeysOthers k' es) hl k
    simp only [dupKeysHas, ih]
    by_cases hk : k' = k
    · simp [hk]
    · have : ¬ k = k' := fun e => hk e.symm
      simp [hk, dupKeysHas_others k' k this es]

/-! ### counting the leaves the dict loses -/

/-- leaves (of a tagged entry list) that a later assignment to the same key shadows -/
def dupKeysLostK : List (Str × Tree) → Nat
  | [] => 0
  | (k, t) :: es => (if dupKeysHas k es then t.leaves.length else 0) + dupKeysLostK es

theorem dupKeys_pre_length {α : Type} (k : Str) (ls : List (Path × α)) : (pre k ls).length = ls.length := by simp [pre]

theorem dupKeys_count_aux (k : Str) : ∀ (es : List (Str × Tree)) (t : Tree),
    (dupKeysLast k t es).leaves.length + (kidsLeaves (dupKeysOthers k es)).length
        + ((if dupKeysHas k es then t.leaves.length else 0) + dupKeysLostK es)
      = t.leaves.length + (kidsLeaves es).length + dupKeysLostK (dupKeysOthers k es)
  | [], t => by simp [dupKeysLast, dupKeysOthers, dupKeysHas, dupKeysLostK, kidsLeaves]
  | (k', t') :: es, t => by
    have ih' := dupKeys_count_aux k es t'
    have ih := dupKeys_count_aux k es t
    by_cases h : k' = k
    · subst h
      simp only [dupKeysLast, if_true, dupKeysHas, decide_true, Bool.true_or, dupKeysLostK, kidsLeaves,
        List.length_append, dupKeys_pre_length]
      have : dupKeysOthers k' ((k', t') :: es) = dupKeysOthers k' es := by simp [dupKeysOthers]
      rw [this]
      omega
    · have hf : dupKeysOthers k ((k', t') :: es) = (k', t') :: dupKeysOthers k es := by simp [dupKeysOthers, h]
      rw [hf]
      simp only [dupKeysLast, h, if_false, dupKeysHas, decide_false, Bool.false_or, dupKeysLostK, kidsLeaves,
        List.length_append, dupKeys_pre_length, dupKeysHas_others k k' h es]
      omega

/-- leaves in the dict + shadowed leaves = leaves assigned -/
theorem dupKeys_count : ∀ (n : Nat) (es : List (Str × Tree)), es.length ≤ n →
    (kidsLeaves (dictOf es)).length + dupKeysLostK es = (kidsLeaves es).length
  | _, [], _ => rfl
  | 0, _ :: _, h => by simp at h
  | n + 1, (k, t) :: es, h => by
    rw [dupKeys_dictOf_cons]
    have hl : (dupKeysOthers k es).length ≤ n := Nat.le_trans (dupKeysOthers_length_le k es) (by simpa using h)
    have ih := dupKeys_count n (dupKeysOthers k es) hl
    have ha := dupKeys_count_aux k es t
    simp only [kidsLeaves, List.length_append, dupKeys_pre_length, dupKeysLostK] at ha ⊢
    omega

end Octave
