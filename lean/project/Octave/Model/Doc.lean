/-
AST of OCTAVE documents as `core/ast_nodes.py` defines it, restricted to what the projector
(`core/projector.py`), the format converters (`mcp/eject.py`, `cli/main.py`) and the sealer
(`core/sealer.py`) can observe.  Import-free (core Lean only).

Strings are `List Char` inside the model.
-/
namespace Octave

abbrev Str := List Char

/-- An AST value (`Assignment.value`, META values, list items …).
`float` is carried as its Python `repr`; `holo` is a `HolographicValue` (only `raw_pattern` is
observable by the emitter; the converters pass the object through untouched); `pydict` is a plain
Python `dict` (only produced by the reader for a nested block inside `META:`). -/
inductive Value where
  | null
  | bool (b : Bool)
  | int (i : Int)
  | float (repr : Str)
  | str (s : Str)
  | list (items : List Value)                      -- ListValue
  | imap (pairs : List (Str × Value))              -- InlineMap (dict order)
  | zone (content : Str) (tag : Option Str) (fence : Str)   -- LiteralZoneValue
  | holo (raw : Str)                               -- HolographicValue
  | pydict (pairs : List (Str × Value))
  deriving Repr, Inhabited

/-- `ASTNode` base fields (position and attached comments), carried by every node.  Neither the
projector nor the sealer reads them, but the emitter does, so they are part of what a seal covers. -/
structure Ann where
  line : Nat := 0
  column : Nat := 0
  leading : List Str := []
  trailing : Option Str := none
  /-- `Block.target` / `Section.annotation` -/
  extra : Option Str := none
  deriving Repr, Inhabited, DecidableEq

inductive Node where
  | assign (a : Ann) (key : Str) (value : Value)
  | block (a : Ann) (key : Str) (children : List Node)
  | sect (a : Ann) (id : Str) (key : Str) (children : List Node)
  | comment (a : Ann) (text : Str)
  deriving Repr, Inhabited

structure Doc where
  ann : Ann := {}
  name : Str
  dmeta : List (Str × Value) := []
  sections : List Node := []
  hasSeparator : Bool := false
  frontmatter : Option Str := none
  trailingComments : List Str := []
  grammarVersion : Option Str := none
  deriving Repr, Inhabited

/-- A native Python value as `json.dumps` / `yaml.dump` receive it.  `obj cls` is a foreign object (an AST
dataclass that a converter passed through): `json.dumps` raises `TypeError` on it. -/
inductive PyVal where
  | none
  | bool (b : Bool)
  | int (i : Int)
  | float (repr : Str)
  | str (s : Str)
  | list (xs : List PyVal)
  | dict (ps : List (Str × PyVal))
  | obj (cls : Str)
  deriving Repr, Inhabited

def Node.key? : Node → Option Str
  | .assign _ k _ => some k
  | .block _ k _ => some k
  | .sect _ _ k _ => some k
  | .comment _ _ => Option.none

end Octave
