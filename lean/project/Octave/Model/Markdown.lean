/-
Executable model of the markdown converters, both copies:
  mcp/eject.py : _format_markdown_value, _ast_to_markdown, _block_to_markdown
  cli/main.py  : _ast_to_markdown, _block_to_markdown   (values are formatted with a bare f-string)
The converters produce a list of *structured* lines (`MdLine`); `MdLine.render` is the f-string of each
`lines.append(...)` and `astToMarkdown` the final `"\n".join(lines)`.
-/
import Octave.Model.Project
namespace Octave

/-- Marker standing for text the model does not predict: the `repr` of a foreign object
(`HolographicValue(…)`, `ListValue(items=…, tokens=…)`, a dict `repr`) which contains memory addresses and
token dumps.  The correspondence treats it as a wildcard. -/
def opaqueMark : Char := ''

/-- Python `str(int)`. -/
def intStr (i : Int) : Str :=
  if i < 0 then '-' :: Nat.toDigits 10 i.natAbs else Nat.toDigits 10 i.natAbs

def joinWith (sep : Str) : List Str → Str
  | [] => []
  | [x] => x
  | x :: xs => x ++ sep ++ joinWith sep xs

/-- `str(value)` for the scalar kinds; `none` for AST objects / dicts (their `repr`). -/
def scalarStr : Value → Option Str
  | .null => some "None".toList
  | .bool true => some "True".toList
  | .bool false => some "False".toList
  | .int i => some (intStr i)
  | .float r => some r
  | .str s => some s
  | _ => none

def endsWithNewline (s : Str) : Bool := s.getLast? == some '\n'

mutual
/-- MCP `_format_markdown_value`. -/
def mdValue : Value → Str
  | .zone c t f =>
    let tag := match t with | some x => x | none => []      -- `value.info_tag or ""`
    let c' := if !c.isEmpty && !endsWithNewline c then c ++ ['\n'] else c
    f ++ tag ++ ['\n'] ++ c' ++ f
  | .list xs => joinWith ", ".toList (mdItems xs)
  | .imap ps => joinWith ", ".toList (mdPairs ps)
  | .null => "None".toList
  | .bool true => "True".toList
  | .bool false => "False".toList
  | .int i => intStr i
  | .float r => r
  | .str s => s
  | .holo raw => raw                   -- `return value.raw_pattern` (fix 80994f1; the CLI f-string still prints the repr)
  | .pydict _ => [opaqueMark]
def mdItems : List Value → List Str
  | [] => []
  | x :: xs => mdValue x :: mdItems xs
def mdPairs : List (Str × Value) → List Str
  | [] => []
  | (k, v) :: ps => (k ++ ": ".toList ++ mdValue v) :: mdPairs ps
end

/-- CLI copy: `f"{value}"`. -/
def mdValueCli (v : Value) : Str :=
  match scalarStr v with
  | some s => s
  | none => [opaqueMark]

inductive MdLine where
  | title (name : Str)                   -- f"# {doc.name}"
  | blank                                -- ""
  | heading (level : Nat) (key : Str)    -- f"{'#' * level} {key}"
  | bullet (key : Str) (text : Str)      -- f"- **{key}**: {text}"
  | para (key : Str) (text : Str)        -- f"**{key}**: {text}"
  deriving Repr, DecidableEq

def MdLine.render : MdLine → Str
  | .title n => "# ".toList ++ n
  | .blank => []
  | .heading l k => List.replicate l '#' ++ [' '] ++ k
  | .bullet k t => "- **".toList ++ k ++ "**: ".toList ++ t
  | .para k t => "**".toList ++ k ++ "**: ".toList ++ t

mutual
/-- `_block_to_markdown(block, lines, level)` for one child. -/
def mdNode (fmt : Value → Str) (level : Nat) : Node → List MdLine
  | .assign _ k v => [.bullet k (fmt v)]
  | .block _ k cs => .heading level k :: .blank :: mdChildren fmt (level + 1) cs
  | .sect _ _ k cs => .heading level k :: .blank :: mdChildren fmt (level + 1) cs     -- `Block | Section` (fix ea3edea)
  | .comment _ _ => []
def mdChildren (fmt : Value → Str) (level : Nat) : List Node → List MdLine
  | [] => []
  | n :: ns => mdNode fmt level n ++ mdChildren fmt level ns
end

/-- the `for section in doc.sections:` loop of `_ast_to_markdown` for one top-level node. -/
def mdTop (fmt : Value → Str) : Node → List MdLine
  | .assign _ k v => [.para k (fmt v), .blank]
  | .block _ k cs => .heading 2 k :: .blank :: mdChildren fmt 3 cs
  | .sect _ _ k cs => .heading 2 k :: .blank :: mdChildren fmt 3 cs
  | .comment _ _ => []

def mdMeta (fmt : Value → Str) (m : List (Str × Value)) : List MdLine :=
  if m.isEmpty then []
  else [.heading 2 "META".toList, .blank] ++ m.map (fun kv => .bullet kv.1 (fmt kv.2)) ++ [.blank]

/-- `_ast_to_markdown(doc)` as structured lines. -/
def mdLines (fmt : Value → Str) (d : Doc) : List MdLine :=
  [.title d.name, .blank] ++ mdMeta fmt d.dmeta ++ (d.sections.map (mdTop fmt)).flatten

/-- `"\n".join(lines)`. -/
def astToMarkdown (fmt : Value → Str) (d : Doc) : Str :=
  joinWith ['\n'] ((mdLines fmt d).map MdLine.render)

end Octave
