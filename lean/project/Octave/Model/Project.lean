/-
Executable model of `core/projector.py` (`_filter_fields`, `project`) and of the two copies of the
dict converters (`mcp/eject.py: _ast_to_dict/_convert_value/_convert_block`,
`cli/main.py: _ast_to_dict` with its nested `convert_value/convert_block`).
Transcription of the code that exists.  The keep-lists and the (mode → lossy, fields_omitted) table come
from `Gen/Project.lean`, regenerated from the source on every run.
-/
import Octave.Model.Doc
import Octave.Gen.Project
namespace Octave

/-! ### `_filter_fields` -/

mutual
/-- `filter_recursively(nodes, apply_filter=False)` on one node: a Block is rebuilt with its children
processed the same way, everything else is kept as is (the result equals the input, see `preserve_id`). -/
def preserveNode : Node → Node
  | .block a k cs => .block a k (preserveList cs)
  | n => n
def preserveList : List Node → List Node
  | [] => []
  | n :: ns => preserveNode n :: preserveList ns
end

mutual
/-- `filter_recursively(nodes, apply_filter=True)` on one node: zero or one output nodes. -/
def filterNode (keep : List Str) : Node → List Node
  | .assign a k v => if keep.contains k then [.assign a k v] else []
  | .block a k cs =>
    if keep.contains k then [.block a k (preserveList cs)]
    else match filterList keep cs with
      | [] => []                       -- `if filtered_children:` (empty list is falsy)
      | fc => [.block a k fc]
  | n => [n]                           -- "Keep other node types (comments, etc.)": Section, Comment
def filterList (keep : List Str) : List Node → List Node
  | [] => []
  | n :: ns => filterNode keep n ++ filterList keep ns
end

/-- `_filter_fields(doc, keep)` = `replace(doc, sections=…)`. -/
def filterFields (keep : List Str) (d : Doc) : Doc := { d with sections := filterList keep d.sections }

/-! ### `project` -/

/-- `ProjectionResult` without `output` (= `emit(filtered_doc)`, the emitter is outside this engine). -/
structure Projection where
  doc : Doc
  lossy : Bool
  omitted : List Str

def applyRow (r : Gen.ModeRow) (d : Doc) : Projection :=
  { doc := match r.keep with
      | none => d
      | some ks => filterFields (ks.map String.toList) d,
    lossy := r.lossy, omitted := r.omitted.map String.toList }

/-- first row whose `mode == "<literal>"` test succeeds, else the `else:` branch. -/
def findRow (mode : Str) : List Gen.ModeRow → Gen.ModeRow
  | [] => Gen.defaultRow
  | r :: rs => if r.mode.toList == mode then r else findRow mode rs

def project (mode : Str) (d : Doc) : Projection := applyRow (findRow mode Gen.modeRows) d

/-! ### dict converters -/

/-- Python `d[k] = v` on an insertion-ordered dict: update in place, else append. -/
def dictSet {β : Type} (ps : List (Str × β)) (k : Str) (v : β) : List (Str × β) :=
  match ps with
  | [] => [(k, v)]
  | (k', v') :: rest => if k' == k then (k', v) :: rest else (k', v') :: dictSet rest k v

/-- a dict built by successive assignments `result[k] = v`. -/
def dictOf {β : Type} (es : List (Str × β)) : List (Str × β) := es.foldl (fun acc e => dictSet acc e.1 e.2) []

def optStr : Option Str → PyVal
  | none => .none
  | some s => .str s

mutual
/-- `_convert_value`.  `zones = true` is the MCP copy (literal zones become a structured dict),
`zones = false` the CLI copy (`convert_value` has no literal-zone case: the object passes through). -/
def convertValue (zones : Bool) : Value → PyVal
  | .zone c t f =>
    if zones then .dict [("__literal_zone__".toList, .bool true), ("content".toList, .str c),
                         ("info_tag".toList, optStr t), ("fence_marker".toList, .str f)]
    else .obj "LiteralZoneValue".toList
  | .list xs => .list (convertItems zones xs)
  | .imap ps => .dict (dictOf (convertPairs zones ps))
  | .null => .none
  | .bool b => .bool b
  | .int i => .int i
  | .float r => .float r
  | .str s => .str s
  | .holo raw => .str raw                            -- `return value.raw_pattern` (both copies, fix 45b8e9f)
  | .pydict ps => .dict (dictOf (convertPairs zones ps))   -- nested META block: converted value by value (both copies, fix fd2ad16)
def convertItems (zones : Bool) : List Value → List PyVal
  | [] => []
  | x :: xs => convertValue zones x :: convertItems zones xs
def convertPairs (zones : Bool) : List (Str × Value) → List (Str × PyVal)
  | [] => []
  | (k, v) :: ps => (k, convertValue zones v) :: convertPairs zones ps
end

mutual
/-- the `result[child.key] = …` assignments one node contributes (none for Comment).  Since fix ea3edea a
Section is converted like a Block (`isinstance(child, Block | Section)`), keyed by the section name. -/
def nodeEntry (zones : Bool) : Node → List (Str × PyVal)
  | .assign _ k v => [(k, convertValue zones v)]
  | .block _ k cs => [(k, .dict (dictOf (nodeEntries zones cs)))]     -- `_convert_block`
  | .sect _ _ k cs => [(k, .dict (dictOf (nodeEntries zones cs)))]
  | .comment _ _ => []
def nodeEntries (zones : Bool) : List Node → List (Str × PyVal)
  | [] => []
  | n :: ns => nodeEntry zones n ++ nodeEntries zones ns
end

/-- `_convert_block(block)` on the children list. -/
def convertBlock (zones : Bool) (cs : List Node) : List (Str × PyVal) := dictOf (nodeEntries zones cs)

def metaEntries (zones : Bool) (m : List (Str × Value)) : List (Str × PyVal) :=
  if m.isEmpty then [] else [("META".toList, .dict (dictOf (convertPairs zones m)))]

/-- `_ast_to_dict(doc)`. -/
def astToDict (zones : Bool) (d : Doc) : PyVal :=
  .dict (dictOf (metaEntries zones d.dmeta ++ nodeEntries zones d.sections))

mutual
/-- does `json.dumps` accept the value (no foreign object anywhere)? -/
def jsonable : PyVal → Bool
  | .obj _ => false
  | .list xs => jsonableL xs
  | .dict ps => jsonableP ps
  | _ => true
def jsonableL : List PyVal → Bool
  | [] => true
  | x :: xs => jsonable x && jsonableL xs
def jsonableP : List (Str × PyVal) → Bool
  | [] => true
  | (_, v) :: ps => jsonable v && jsonableP ps
end

end Octave
