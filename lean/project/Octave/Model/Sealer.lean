/-
Executable model of `core/sealer.py` over an ABSTRACT canonical emitter and hash:
`compute_seal`, `seal_document`, `extract_seal`, `verify_seal`, `_remove_seal_section`.
`emit : Doc → Str` and `H : Str → Str` are parameters (a structure), never axioms: every theorem of
`Props/C15` holds for every emitter and every hash function.  The section key / child keys come from
`Gen/Sealer.lean`.
-/
import Octave.Model.Project
import Octave.Gen.Sealer
namespace Octave

structure SealEnv where
  /-- `emitter.emit(doc)` -/
  emit : Doc → Str
  /-- `hashlib.sha256(content.encode("utf-8")).hexdigest()` -/
  H : Str → Str

inductive SealStatus where
  | verified | invalid | noSeal
  deriving Repr, DecidableEq

def sealKey : Str := Gen.sealSectionKey.toList

/-- `isinstance(s, Section) and s.key == "SEAL"`. -/
def isSealSection : Node → Bool
  | .sect _ _ k _ => k == sealKey
  | _ => false

/-- `_remove_seal_section(doc)`: a fresh `Document(...)` built from six fields (everything else default). -/
def removeSeal (d : Doc) : Doc :=
  { name := d.name, dmeta := d.dmeta, sections := d.sections.filter (fun n => !isSealSection n),
    hasSeparator := d.hasSeparator, frontmatter := d.frontmatter, grammarVersion := d.grammarVersion }

/-- Python `s.strip('"')`. -/
def pyStripQuotes (s : Str) : Str :=
  ((s.dropWhile (· == '"')).reverse.dropWhile (· == '"')).reverse

/-- `len(content.split("\n"))`. -/
def lineCount (s : Str) : Nat := s.count '\n' + 1

/-- `compute_seal(content, grammar_version)` as an insertion-ordered dict of strings. -/
def computeSeal (E : SealEnv) (content : Str) (gv : Option Str) : List (Str × Str) :=
  [("SCOPE".toList, "LINES[1,".toList ++ Nat.toDigits 10 (lineCount content) ++ "]".toList),
   ("ALGORITHM".toList, "SHA256".toList),
   ("HASH".toList, '"' :: E.H content ++ ['"'])]
  ++ (match gv with | some g => [("GRAMMAR".toList, g)] | none => [])

def lookupStr (ps : List (Str × Str)) (k : Str) : Str :=
  match ps.find? (fun p => p.1 == k) with
  | some p => p.2
  | none => []

/-- the `Section(section_id="SEAL", key="SEAL", children=[…])` of `seal_document`. -/
def sealSection (E : SealEnv) (content : Str) (gv : Option Str) : Node :=
  let sd := computeSeal E content gv
  .sect {} Gen.sealSectionId.toList sealKey
    ([.assign {} "SCOPE".toList (.str (lookupStr sd "SCOPE".toList)),
      .assign {} "ALGORITHM".toList (.str (lookupStr sd "ALGORITHM".toList)),
      .assign {} "HASH".toList (.str (pyStripQuotes (lookupStr sd "HASH".toList)))]
     ++ (if sd.any (fun p => p.1 == "GRAMMAR".toList) then [.assign {} "GRAMMAR".toList (.str (lookupStr sd "GRAMMAR".toList))] else []))

/-- `seal_document(doc)`. -/
def sealDocument (E : SealEnv) (d : Doc) : Doc :=
  let d0 := removeSeal d
  { name := d.name, dmeta := d.dmeta, sections := d0.sections ++ [sealSection E (E.emit d0) d.grammarVersion],
    hasSeparator := d.hasSeparator, frontmatter := d.frontmatter, grammarVersion := d.grammarVersion }

/-- `seal_data[child.key] = child.value` for the Assignment children. -/
def sealData : List Node → List (Str × Value)
  | [] => []
  | .assign _ k v :: ns => (k, v) :: sealData ns
  | _ :: ns => sealData ns

/-- `extract_seal(doc)`: the FIRST `Section` keyed SEAL decides; an empty dict is reported as `None`. -/
def extractSeal : List Node → Option (List (Str × Value))
  | [] => none
  | .sect _ _ k cs :: ns =>
    if k == sealKey then
      (let sd := dictOf (sealData cs); if sd.isEmpty then none else some sd)
    else extractSeal ns
  | _ :: ns => extractSeal ns

/-- `seal_data.get("HASH", "")`, then `.strip('"')` when it is a `str`. -/
def storedHash (sd : List (Str × Value)) : Value :=
  match sd.find? (fun p => p.1 == Gen.storedHashKey.toList) with
  | some (_, .str s) => .str (pyStripQuotes s)
  | some (_, v) => v
  | none => .str (pyStripQuotes Gen.storedHashDefault.toList)

/-- `computed_hash == stored_hash` (a non-`str` stored value never equals the hex digest). -/
def hashEq (computed : Str) : Value → Bool
  | .str s => computed == s
  | _ => false

/-- `verify_seal(doc)`. -/
def verifySeal (E : SealEnv) (d : Doc) : SealStatus :=
  match extractSeal d.sections with
  | none => .noSeal
  | some sd =>
    if hashEq (E.H (E.emit (removeSeal d))) (storedHash sd) then .verified else .invalid

end Octave
