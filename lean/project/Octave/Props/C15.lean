/-
C15 — A seal verifies on the sealed content and on nothing else.

Property theorems + non-vacuity examples only.  The sealer model (`Octave.Model.Sealer`) is parametric in the
canonical emitter `E.emit : Doc → Str` and the hash `E.H : Str → Str` (a structure, NOT axioms): every theorem
below holds for every emitter and every hash function; what is needed of them is an explicit hypothesis of the
theorem that needs it:
  * `hH   : ∀ s, pyStripQuotes (E.H s) = E.H s`      a digest does not begin or end with `"` (true of hexdigest)
  * `hpos : ∀ x, E.emit (erasePos x) = E.emit x`      the emitter does not print line/column numbers
  * the reader/emitter round trip (C01/C02, text engine) and convergence of spellings (C03), per theorem
  * injectivity of `emit` on the pair and collision-freeness of `H` on the pair (C15_tamper_content)
-/
import Octave.Lemmas.Sealer
namespace Octave.C15
open Octave

/-! ## Facts about the generated tables -/

theorem gen_sealSection : Gen.sealSectionId = "SEAL" ∧ Gen.sealSectionKey = "SEAL" := by decide
theorem gen_sealChildKeys : Gen.sealChildKeys = ["SCOPE", "ALGORITHM", "HASH", "GRAMMAR"] := by decide
theorem gen_computeSealKeys : Gen.computeSealKeys = ["SCOPE", "ALGORITHM", "HASH"] := by decide
/-- `extract_seal` and `_remove_seal_section` test the same key with `==` -/
theorem gen_sealKeyTests : Gen.sealKeyTests = [("extract_seal", "SEAL", "Eq"), ("_remove_seal_section", "SEAL", "Eq")] := by decide
theorem gen_storedHash : Gen.storedHashKey = "HASH" ∧ Gen.storedHashDefault = "" := by decide
theorem gen_sealStatuses : Gen.sealStatuses = ["VERIFIED", "INVALID", "NO_SEAL"] := by decide

/-! ## The sealed document verifies -/

/-- the stored hash of `seal d` is the digest of the emission of `d` without its seal -/
theorem seal_stored (E : SealEnv) (hH : ∀ s, pyStripQuotes (E.H s) = E.H s) (d : Doc) :
    ∃ sd, extractSeal (sealDocument E d).sections = some sd ∧ storedHash sd = .str (E.H (E.emit (removeSeal d))) := by
  obtain ⟨sd, h1, h2⟩ := storedHash_sealSection E (E.emit (removeSeal d)) d.grammarVersion
  refine ⟨sd, ?_, by rw [h2, hH, hH]⟩
  simp only [sealDocument]
  rw [extractSeal_append_of_noSeal _ _ (removeSeal_noSeal d)]
  exact h1

/-- `verify_seal(seal_document(d))` is VERIFIED for every document (any content, with or without an earlier seal). -/
theorem C15_inmemory (E : SealEnv) (hH : ∀ s, pyStripQuotes (E.H s) = E.H s) (d : Doc) :
    verifySeal E (sealDocument E d) = .verified := by
  obtain ⟨sd, h1, h2⟩ := seal_stored E hH d
  simp [verifySeal, h1, h2, removeSeal_seal, hashEq]

/-- sealing again gives the same sealed document (same hash, same section, same place) -/
theorem C15_reseal (E : SealEnv) (d : Doc) : sealDocument E (sealDocument E d) = sealDocument E d := by
  have h := removeSeal_seal E d
  simp only [sealDocument] at h ⊢
  simp only [h]

/-- no top-level section keyed SEAL ⇒ NO_SEAL -/
theorem C15_noseal (E : SealEnv) (d : Doc) (h : ∀ n ∈ d.sections, isSealSection n = false) : verifySeal E d = .noSeal := by
  simp [verifySeal, extractSeal_none_of_noSeal d.sections h]

/-! ## Tampering -/

/-- stored hash ≠ recomputed hash ⇒ INVALID (any document that has a seal) -/
theorem C15_hash_tamper (E : SealEnv) (d : Doc) (sd : List (Str × Value)) (hs : extractSeal d.sections = some sd)
    (hne : storedHash sd ≠ .str (E.H (E.emit (removeSeal d)))) : verifySeal E d = .invalid := by
  have : hashEq (E.H (E.emit (removeSeal d))) (storedHash sd) = false := by
    cases h : hashEq (E.H (E.emit (removeSeal d))) (storedHash sd) with
    | false => rfl
    | true => exact absurd ((hashEq_iff _ _).mp h) hne
  simp [verifySeal, hs, this]

/-- A document `d'` that carries the seal of `d` but whose body hashes differently is INVALID. -/
theorem C15_tamper (E : SealEnv) (hH : ∀ s, pyStripQuotes (E.H s) = E.H s) (d d' : Doc)
    (hseal : extractSeal d'.sections = extractSeal (sealDocument E d).sections)
    (hne : E.H (E.emit (removeSeal d')) ≠ E.H (E.emit (removeSeal d))) : verifySeal E d' = .invalid := by
  obtain ⟨sd, h1, h2⟩ := seal_stored E hH d
  apply C15_hash_tamper E d' sd (hseal.trans h1)
  rw [h2]
  intro h
  injection h with h
  exact hne h.symm

/-- … in particular any change of the body — keys, values, value types, order, nesting, META, envelope name,
frontmatter, grammar version, attached comments: everything `removeSeal` keeps — provided the emitter tells the two
bodies apart (injectivity of `emit` on the pair: C01/C02) and the hash does not collide on the pair. -/
theorem C15_tamper_content (E : SealEnv) (hH : ∀ s, pyStripQuotes (E.H s) = E.H s) (d d' : Doc)
    (hseal : extractSeal d'.sections = extractSeal (sealDocument E d).sections)
    (hinj : E.emit (removeSeal d') = E.emit (removeSeal d) → removeSeal d' = removeSeal d)
    (hcf : E.emit (removeSeal d') ≠ E.emit (removeSeal d) → E.H (E.emit (removeSeal d')) ≠ E.H (E.emit (removeSeal d)))
    (hbody : removeSeal d' ≠ removeSeal d) : verifySeal E d' = .invalid :=
  C15_tamper E hH d d' hseal (hcf (fun h => hbody (hinj h)))

/-- conversely the seal keeps verifying as long as the body is the sealed body ("on the sealed content") -/
theorem C15_same_body_verifies (E : SealEnv) (hH : ∀ s, pyStripQuotes (E.H s) = E.H s) (d d' : Doc)
    (hseal : extractSeal d'.sections = extractSeal (sealDocument E d).sections)
    (hbody : removeSeal d' = removeSeal d) : verifySeal E d' = .verified := by
  obtain ⟨sd, h1, h2⟩ := seal_stored E hH d
  simp [verifySeal, hseal, h1, h2, hbody, hashEq]

/-! ## Written out and read back; cosmetic respellings -/

/-- Any document that equals the sealed document up to line/column numbers verifies. -/
theorem C15_reads_back (E : SealEnv) (hH : ∀ s, pyStripQuotes (E.H s) = E.H s)
    (hpos : ∀ x, E.emit (erasePos x) = E.emit x) (d d' : Doc)
    (h : erasePos d' = erasePos (sealDocument E d)) : verifySeal E d' = .verified := by
  rw [← verifySeal_erasePos E hpos d', h, verifySeal_erasePos E hpos, C15_inmemory E hH]

/-- emit → parse → verify.  The round trip of the reader on the emitted sealed document (property C01/C02, owned by
the text engine; it includes reading the `§SEAL::SEAL` section back as a top-level Section after whatever node
comes last) is an explicit hypothesis. -/
theorem C15_text (E : SealEnv) (parse : Str → Doc) (hH : ∀ s, pyStripQuotes (E.H s) = E.H s)
    (hpos : ∀ x, E.emit (erasePos x) = E.emit x) (d : Doc)
    (hrt : erasePos (parse (E.emit (sealDocument E d))) = erasePos (sealDocument E d)) :
    verifySeal E (parse (E.emit (sealDocument E d))) = .verified :=
  C15_reads_back E hH hpos d _ hrt

/-- every cosmetic respelling `t` of the sealed text — i.e. every text the lenient reader reads as the same content
(property C03) — still verifies -/
theorem C15_cosmetic (E : SealEnv) (parse : Str → Doc) (hH : ∀ s, pyStripQuotes (E.H s) = E.H s)
    (hpos : ∀ x, E.emit (erasePos x) = E.emit x) (d : Doc) (t : Str)
    (hsame : erasePos (parse t) = erasePos (sealDocument E d)) : verifySeal E (parse t) = .verified :=
  C15_reads_back E hH hpos d _ hsame

/-! ## Known finding F26: content smuggled in a second section keyed SEAL is outside the seal -/

/-- the sealed document with one more top-level Section keyed SEAL (any id, any children) appended -/
def smuggle (E : SealEnv) (d : Doc) (a : Ann) (id : Str) (cs : List Node) : Doc :=
  { sealDocument E d with sections := (sealDocument E d).sections ++ [.sect a id sealKey cs] }

/-- F26, for EVERY emitter and hash: inserting a Section keyed SEAL with arbitrary children after the seal is an
insertion of nodes into the sealed text, yet verification still reports VERIFIED (`_remove_seal_section` strips
every SEAL-keyed section, `extract_seal` reads the first). -/
theorem C15_KF_smuggle (E : SealEnv) (hH : ∀ s, pyStripQuotes (E.H s) = E.H s) (d : Doc) (a : Ann) (id : Str) (cs : List Node) :
    verifySeal E (smuggle E d a id cs) = .verified ∧ smuggle E d a id cs ≠ sealDocument E d := by
  constructor
  · apply C15_same_body_verifies E hH d
    · simp only [smuggle, sealDocument, List.append_assoc]
      rw [extractSeal_append_of_noSeal _ _ (removeSeal_noSeal d), extractSeal_append_of_noSeal _ _ (removeSeal_noSeal d)]
      simp [extractSeal, sealSection, sealKey]
    · have h := removeSeal_seal E d
      simp only [removeSeal, smuggle, sealDocument, List.filter_append] at h ⊢
      simp [isSealSection] at h ⊢
      exact h
  · intro h
    have := congrArg (fun x => x.sections.length) h
    simp [smuggle] at this

/-- the class predicate of F26: the (tampered) document has two or more top-level sections keyed SEAL -/
def KF_smuggle (d : Doc) : Bool := decide ((d.sections.filter isSealSection).length ≥ 2)

theorem smuggle_in_class (E : SealEnv) (d : Doc) (a : Ann) (id : Str) (cs : List Node) : KF_smuggle (smuggle E d a id cs) = true := by
  have h1 : isSealSection (sealSection E (E.emit (removeSeal d)) d.grammarVersion) = true := isSealSection_sealSection _ _ _
  have h2 : isSealSection (Node.sect a id sealKey cs) = true := by simp [isSealSection]
  simp only [KF_smuggle, smuggle, sealDocument, List.filter_append, List.length_append, List.filter_cons, h1, h2,
    if_true, List.filter_nil, List.length_cons, List.length_nil, decide_eq_true_eq]
  omega

/-- and the sealed document itself is never in the class -/
theorem seal_not_in_class (E : SealEnv) (d : Doc) : KF_smuggle (sealDocument E d) = false := by
  have h : (removeSeal d).sections.filter isSealSection = [] := by
    simp only [List.filter_eq_nil_iff]
    intro n hn
    simp [removeSeal_noSeal d n hn]
  simp [KF_smuggle, sealDocument, List.filter_append, isSealSection_sealSection, h]

/-! ## Non-vacuity: a toy emitter and hash meeting every hypothesis on concrete documents -/

def s (x : String) : Str := x.toList

def keyOf : Node → Str
  | .assign _ k (.int i) => k ++ s "=" ++ (if i < 0 then s "-" else []) ++ Nat.toDigits 10 i.natAbs
  | .assign _ k _ => k
  | .block _ k _ => k ++ s ":"
  | .sect _ _ k _ => s "§" ++ k
  | .comment _ _ => []

/-- toy canonical emitter (name, then one line per top-level node) and toy hash (wraps the text in `<…>`) -/
def toyEnv : SealEnv := { emit := fun d => d.name ++ (d.sections.map fun n => '\n' :: keyOf n).flatten, H := fun t => '<' :: t ++ ['>'] }

def wDoc : Doc := { name := s "DOC", sections := [.assign {} (s "A") (.int 1), .block {} (s "B") [.assign {} (s "C") (.int 2)]] }
def wTampered : Doc := { sealDocument toyEnv wDoc with
  sections := [.assign {} (s "A") (.int 2), .block {} (s "B") [.assign {} (s "C") (.int 2)]] ++ (sealDocument toyEnv wDoc).sections.drop 2 }

example : verifySeal toyEnv (sealDocument toyEnv wDoc) = .verified := by decide
example : verifySeal toyEnv wDoc = .noSeal := by decide
/-- hypotheses of `C15_tamper` are met by a one-value edit, and the verdict is INVALID -/
example : extractSeal wTampered.sections = extractSeal (sealDocument toyEnv wDoc).sections := rfl
example : toyEnv.H (toyEnv.emit (removeSeal wTampered)) ≠ toyEnv.H (toyEnv.emit (removeSeal wDoc))
    ∧ removeSeal wTampered ≠ removeSeal wDoc ∧ verifySeal toyEnv wTampered = .invalid := by
  refine ⟨by decide, ?_, by decide⟩
  intro h
  have := congrArg toyEnv.emit h
  revert this
  decide
/-- F26 on a witness: an extra `§9::SEAL` section with a child `EVIL::1` still verifies -/
example : verifySeal toyEnv (smuggle toyEnv wDoc {} (s "9") [.assign {} (s "EVIL") (.int 1)]) = .verified := by decide
/-- `hH` holds for the toy hash on the texts involved; `hpos` holds for the toy emitter on a positioned copy -/
example : pyStripQuotes (toyEnv.H (toyEnv.emit (removeSeal wDoc))) = toyEnv.H (toyEnv.emit (removeSeal wDoc)) := by decide
example : toyEnv.emit (erasePos { wDoc with sections := [.assign { line := 3, column := 1 } (s "A") (.int 1)] })
    = toyEnv.emit { wDoc with sections := [.assign { line := 3, column := 1 } (s "A") (.int 1)] } := by decide
/-- quirk worth knowing: a first SEAL section without Assignment children makes `extract_seal` answer None -/
example : verifySeal toyEnv { wDoc with sections := [.sect {} (s "0") sealKey [], .assign {} (s "A") (.int 1)] } = .noSeal := by decide

end Octave.C15
