/-
C14 without the `noDupSiblings` guard (finding F25): what the json / yaml dict holds when sibling keys repeat, for EVERY
document — first position, last value, at every nesting level; nothing invented; the number of leaves lost is exactly
the number of leaves below shadowed siblings; and the exact class in which leaves are lost while `lossy = false`.
Helpers prefixed `dupKeys` (generic part in Lemmas/DupKeys.lean).
-/
import Octave.Props.C14
import Octave.Lemmas.DupKeys
namespace Octave.C14
open Octave

/-! ## what is shadowed (source-level, independent of the converters) -/

/-- is the key of `n` assigned again by a later sibling? -/
def dupKeysIsShadowed (n : Node) (later : List Node) : Bool :=
  match n.key? with
  | some k => (dictKeys later).contains k
  | none => false

mutual
/-- leaves lost strictly inside one node -/
def dupKeysShadowedNode : Node → Nat
  | .block _ _ cs => dupKeysShadowedList cs
  | .sect _ _ _ cs => dupKeysShadowedList cs
  | _ => 0
/-- a sibling whose key is used again by a LATER sibling is shadowed with all its leaves; a surviving sibling loses what is
shadowed inside it -/
def dupKeysShadowedList : List Node → Nat
  | [] => 0
  | n :: ns => (if dupKeysIsShadowed n ns then n.leaves.length else dupKeysShadowedNode n) + dupKeysShadowedList ns
end

/-- META fields that a later META field with the same key shadows -/
def dupKeysLostM : List (Str × Value) → Nat
  | [] => 0
  | (k, _) :: m => (if dupKeysHas k m then 1 else 0) + dupKeysLostM m

/-- number of source leaves below shadowed siblings, whole document (the META block is the first top-level sibling: a body
field / block / section named `META` shadows it entirely) -/
def dupKeysShadowed (d : Doc) : Nat :=
  (if d.dmeta.isEmpty then 0
   else if (dictKeys d.sections).contains "META".toList then d.dmeta.length else dupKeysLostM d.dmeta)
  + dupKeysShadowedList d.sections

/-! ## helper lemmas -/

theorem dupKeysHas_nodeTrees (z : Bool) (k : Str) (ns : List Node) :
    dupKeysHas k (nodeTrees z ns) = (dictKeys ns).contains k := by
  rw [dupKeysHas_keys, nodeTrees_keys]

theorem dupKeys_leavesList_pre_length (k : Str) (cs : List Node) : (pre k (leavesList cs)).length = (leavesList cs).length :=
  dupKeys_pre_length k _

mutual
theorem dupKeys_node_count (z : Bool) : ∀ n : Node,
    (kidsLeaves (nodeTree z n)).length + dupKeysShadowedNode n = n.leaves.length
  | .assign _ k v => by simp [nodeTree, kidsLeaves, Tree.leaves, pre, Node.leaves, dupKeysShadowedNode]
  | .block _ k cs => by
    have hr := dupKeys_list_rel z cs
    have hc := dupKeys_count _ (nodeTrees z cs) (Nat.le_refl _)
    simp only [nodeTree, kidsLeaves, Tree.leaves, List.append_nil, dupKeys_pre_length, Node.leaves, dupKeysShadowedNode]
    omega
  | .sect _ _ k cs => by
    have hr := dupKeys_list_rel z cs
    have hc := dupKeys_count _ (nodeTrees z cs) (Nat.le_refl _)
    simp only [nodeTree, kidsLeaves, Tree.leaves, List.append_nil, dupKeys_pre_length, Node.leaves, dupKeysShadowedNode]
    omega
  | .comment _ _ => by simp [nodeTree, kidsLeaves, Node.leaves, dupKeysShadowedNode]
theorem dupKeys_list_rel (z : Bool) : ∀ ns : List Node,
    dupKeysLostK (nodeTrees z ns) + (leavesList ns).length = dupKeysShadowedList ns + (kidsLeaves (nodeTrees z ns)).length
  | [] => by simp [nodeTrees, dupKeysLostK, leavesList, dupKeysShadowedList, kidsLeaves]
  | .assign _ k v :: ns => by
    have ih := dupKeys_list_rel z ns
    by_cases hh : (dictKeys ns).contains k = true <;>
    simp only [hh, if_true, if_false, Bool.false_eq_true, Nat.zero_add, nodeTrees, nodeTree, List.singleton_append, dupKeysLostK, dupKeysHas_nodeTrees, leavesList, Node.leaves,
      List.length_append, List.length_cons, List.length_nil, dupKeysShadowedList, kidsLeaves, Tree.leaves, dupKeys_pre_length, dupKeysIsShadowed, Node.key?, dupKeysShadowedNode]
    <;> omega
  | .block a k cs :: ns => by
    have ih := dupKeys_list_rel z ns
    have hn := dupKeys_node_count z (.block a k cs)
    simp only [nodeTree, kidsLeaves, Tree.leaves, List.append_nil, dupKeys_pre_length, Node.leaves, dupKeysShadowedNode] at hn
    by_cases hh : (dictKeys ns).contains k = true <;>
    simp only [hh, if_true, if_false, Bool.false_eq_true, Nat.zero_add, nodeTrees, nodeTree, List.singleton_append, dupKeysLostK, dupKeysHas_nodeTrees, leavesList, Node.leaves,
      List.length_append, dupKeysShadowedList, kidsLeaves, Tree.leaves, dupKeys_pre_length, dupKeysIsShadowed, Node.key?, dupKeysShadowedNode]
    <;> omega
  | .sect a i k cs :: ns => by
    have ih := dupKeys_list_rel z ns
    have hn := dupKeys_node_count z (.sect a i k cs)
    simp only [nodeTree, kidsLeaves, Tree.leaves, List.append_nil, dupKeys_pre_length, Node.leaves, dupKeysShadowedNode] at hn
    by_cases hh : (dictKeys ns).contains k = true <;>
    simp only [hh, if_true, if_false, Bool.false_eq_true, Nat.zero_add, nodeTrees, nodeTree, List.singleton_append, dupKeysLostK, dupKeysHas_nodeTrees, leavesList, Node.leaves,
      List.length_append, dupKeysShadowedList, kidsLeaves, Tree.leaves, dupKeys_pre_length, dupKeysIsShadowed, Node.key?, dupKeysShadowedNode]
    <;> omega
  | .comment _ _ :: ns => by
    have ih := dupKeys_list_rel z ns
    simpa [nodeTrees, nodeTree, leavesList, Node.leaves, dupKeysShadowedList, dupKeysIsShadowed, Node.key?, dupKeysShadowedNode] using ih
end

theorem dupKeysHas_metaLeafs (z : Bool) (k : Str) : ∀ m : List (Str × Value),
    dupKeysHas k (m.map fun kv => (kv.1, Tree.leaf (convertValue z kv.2))) = dupKeysHas k m
  | [] => rfl
  | (k', v) :: m => by simp [dupKeysHas, dupKeysHas_metaLeafs z k m]

theorem dupKeysLostK_metaLeafs (z : Bool) : ∀ m : List (Str × Value),
    dupKeysLostK (m.map fun kv => (kv.1, Tree.leaf (convertValue z kv.2))) = dupKeysLostM m
  | [] => rfl
  | (k, v) :: m => by
    have ih := dupKeysLostK_metaLeafs z m
    simp only [List.map_cons, dupKeysLostK, dupKeysLostM, dupKeysHas_metaLeafs, Tree.leaves, List.length_cons, List.length_nil, ih]

theorem dupKeys_metaLeafs_length (z : Bool) (m : List (Str × Value)) :
    (kidsLeaves (m.map fun kv => (kv.1, Tree.leaf (convertValue z kv.2)))).length = m.length := by
  rw [kidsLeaves_metaLeafs]; simp

/-- leaves in the dict + shadowed leaves = leaves of the document (any document, both converter copies) -/
theorem dupKeys_doc_count (z : Bool) (d : Doc) :
    (docTree z d).leaves.length + dupKeysShadowed d = (Doc.leaves d).length := by
  have hc := dupKeys_count _ (metaTree z d.dmeta ++ nodeTrees z d.sections) (Nat.le_refl _)
  have hr := dupKeys_list_rel z d.sections
  simp only [docTree, Tree.leaves, Doc.leaves, List.length_append, dupKeysShadowed, metaLeaves, List.length_map]
  unfold metaTree at hc ⊢
  by_cases he : d.dmeta.isEmpty = true
  · have : d.dmeta = [] := by simpa using he
    simp only [this, List.isEmpty_nil, if_true, List.nil_append, List.length_nil] at hc ⊢
    omega
  · have hm := dupKeys_count _ (d.dmeta.map fun kv => (kv.1, Tree.leaf (convertValue z kv.2))) (Nat.le_refl _)
    rw [dupKeysLostK_metaLeafs, dupKeys_metaLeafs_length] at hm
    simp only [he, if_false, Bool.false_eq_true, List.singleton_append, dupKeysLostK, dupKeysHas_nodeTrees, kidsLeaves, Tree.leaves,
      List.length_append, dupKeys_pre_length] at hc ⊢
    by_cases hh : (dictKeys d.sections).contains "META".toList = true
    · simp only [hh, if_true] at hc ⊢; omega
    · simp only [hh, if_false, Bool.false_eq_true] at hc ⊢; omega

theorem dupKeysHas_others_self {β : Type} (k : Str) : ∀ es : List (Str × β), dupKeysHas k (dupKeysOthers k es) = false
  | [] => rfl
  | (k', v) :: es => by
    have ih := dupKeysHas_others_self k es
    by_cases h : k' = k
    · simp [dupKeysOthers, h] at ih ⊢; exact ih
    · simp [dupKeysOthers, dupKeysHas, h] at ih ⊢; exact ih

/-! ## the theorems -/

/-- **First position, last value, at every nesting level.**  Every level of the dict rendering (document level: the `META`
entry then the body nodes; every Block; every Section; both converter copies) is `dictOf` of the entries of that level in
source order, and `dictOf`, on ANY entry list `(k, v) :: es`, puts `k` FIRST (the position of the first sibling named `k`),
gives it the value of the LAST sibling named `k` (`dupKeysLast`), never repeats `k`, and continues with the siblings of
other names.  (Python: `result[k] = …` in source order on an insertion-ordered dict.)  The same holds for the tagged tree. -/
theorem C14_dict_last_wins (zones : Bool) (d : Doc) :
    astToDict zones d = .dict (dictOf (metaEntries zones d.dmeta ++ nodeEntries zones d.sections))
    ∧ docTree zones d = .node (dictOf (metaTree zones d.dmeta ++ nodeTrees zones d.sections))
    ∧ (∀ a k cs, nodeEntry zones (.block a k cs) = [(k, .dict (dictOf (nodeEntries zones cs)))]
               ∧ nodeTree zones (.block a k cs) = [(k, .node (dictOf (nodeTrees zones cs)))])
    ∧ (∀ a i k cs, nodeEntry zones (.sect a i k cs) = [(k, .dict (dictOf (nodeEntries zones cs)))]
               ∧ nodeTree zones (.sect a i k cs) = [(k, .node (dictOf (nodeTrees zones cs)))])
    ∧ (∀ (β : Type) (k : Str) (v : β) (es : List (Str × β)),
        dictOf ((k, v) :: es) = (k, dupKeysLast k v es) :: dictOf (dupKeysOthers k es)
        ∧ dupKeysHas k (dictOf (dupKeysOthers k es)) = false) := by
  refine ⟨rfl, rfl, fun _ _ _ => ⟨by simp [nodeEntry], by simp [nodeTree]⟩, fun _ _ _ _ => ⟨by simp [nodeEntry], by simp [nodeTree]⟩, ?_⟩
  intro β k v es
  refine ⟨dupKeys_dictOf_cons k v es, ?_⟩
  rw [dupKeys_dictOf_has _ _ (Nat.le_refl _), dupKeysHas_others_self]

/-- **Duplicates only remove.**  With no guard: every leaf of the dict rendering is a (converted) leaf of the document, at the
same path, and the number of leaves lost is exactly the number of leaves below shadowed siblings. -/
theorem C14_dup_only_removes (zones : Bool) (d : Doc) :
    (∀ l ∈ (docTree zones d).leaves, l ∈ (Doc.leaves d).map (convLeaf zones))
    ∧ (docTree zones d).leaves.length + dupKeysShadowed d = (Doc.leaves d).length :=
  ⟨C14_no_invention_dict zones d, dupKeys_doc_count zones d⟩

/-- **The exact class of F25.**  In canonical mode (`lossy = false`, the document itself is rendered) the dict rendering has
fewer leaves than the source iff some shadowed sibling has a leaf (`dupKeysShadowed d ≠ 0`); that implies
`noDupSiblings d = false`.  The converse is FALSE (`C14_dup_guard_not_exact`: duplicate siblings without leaves, e.g. two
empty blocks of the same name, lose nothing), so the guard of `C14_lossy_honest_partial` is slightly wider than the class
that loses leaves. -/
theorem C14_dup_guard_exact (zones : Bool) (d : Doc) :
    (project "canonical".toList d).lossy = false
    ∧ ((docTree zones (project "canonical".toList d).doc).leaves.length < (Doc.leaves d).length ↔ dupKeysShadowed d ≠ 0)
    ∧ (dupKeysShadowed d ≠ 0 → noDupSiblings d = false) := by
  have hc := dupKeys_doc_count zones d
  refine ⟨rfl, ?_, ?_⟩
  · rw [(C14_modes_canonical d).1]; omega
  · intro hs
    cases hd : noDupSiblings d with
    | false => rfl
    | true =>
      have := congrArg List.length (docTree_leaves_eq zones d hd)
      simp only [List.length_map] at this
      omega

/-- duplicate siblings without leaves: the guard fails, nothing is lost -/
def wDupEmpty : Doc := { name := s "DOC", sections := [.block {} (s "X") [], .assign {} (s "A") (.int 1), .block {} (s "X") []] }

theorem C14_dup_guard_not_exact :
    noDupSiblings wDupEmpty = false ∧ dupKeysShadowed wDupEmpty = 0
    ∧ (docTree true wDupEmpty).leaves.map Prod.fst = (Doc.leaves wDupEmpty).map Prod.fst := by
  decide

/-! ## non-vacuity -/

/-- `META: ⟨T::1, T::2⟩`, `B::2`, `BLK: ⟨P::1, P::2, Q::3⟩`, `B::3`, `BLK: ⟨R::4⟩`, `B: ⟨Z::9⟩` -/
def wDup : Doc := { name := s "DOC", dmeta := [(s "T", .int 1), (s "T", .int 2)],
                     sections := [.assign {} (s "B") (.int 2),
               .block {} (s "BLK") [.assign {} (s "P") (.int 1), .assign {} (s "P") (.int 2), .assign {} (s "Q") (.int 3)],
               .assign {} (s "B") (.int 3),
               .block {} (s "BLK") [.assign {} (s "R") (.int 4)],
               .block {} (s "B") [.assign {} (s "Z") (.int 9)]] }

example : noDupSiblings wDup = false ∧ dupKeysShadowed wDup = 6 ∧ (Doc.leaves wDup).length = 9
    ∧ (docTree true wDup).leaves.length = 3 := by decide
/-- key order `META, B, BLK` (first positions), values of the last siblings -/
example : (docTree true wDup).leaves.map (fun l => (l.1, match l.2 with | .int i => some i | _ => none)) =
    [([s "META", s "T"], some 2), ([s "B", s "Z"], some 9), ([s "BLK", s "R"], some 4)] := by decide
example : dupKeysShadowed wF25 = 1 ∧ dupKeysShadowed wOK = 0 := by decide
example : dictOf [(s "B", 2), (s "C", 5), (s "B", 3)] = [(s "B", 3), (s "C", 5)]
    ∧ dupKeysLast (s "B") 2 [(s "C", 5), (s "B", 3)] = 3 ∧ dupKeysOthers (s "B") [(s "C", 5), (s "B", 3)] = [(s "C", 5)] := by decide

end Octave.C14
