/-
C14 — Projections only remove, and say so (placeholder while the model is being validated).
-/
import Octave.Spec.Leaves
namespace Octave.C14
open Octave

end Octave.C14
