/-
C14 — Projections only remove, and say so: no invention, honest lossy flag.

Property theorems + non-vacuity examples only (helper lemmas live in Octave/Lemmas).  Statements are over the
executable model `Octave.Model.{Project,Markdown}` (tied to projector.py / eject.py / cli/main.py by the
regenerated tables of `Gen/Project.lean` and by the differential correspondence of tools/props/c14.py) and the
independent specification `Octave.Spec.Leaves` (leaves of a document; tagged tree / heading scan of a rendering).

Every theorem holds for documents of ANY depth and width (structural induction over the node tree).
-/
import Octave.Lemmas.FilterGuards
namespace Octave.C14
open Octave

/-! ## Facts about the generated tables (re-proved on every build; a changed table breaks them by name) -/

/-- the (mode → keep-list, lossy, fields_omitted) table of `project()` is the documented one -/
theorem gen_modeRows : Gen.modeRows =
    [{ mode := "canonical", keep := none, lossy := false, omitted := [] },
     { mode := "authoring", keep := none, lossy := false, omitted := [] },
     { mode := "executive", keep := some ["STATUS", "RISKS", "DECISIONS"], lossy := true, omitted := ["TESTS", "CI", "DEPS"] },
     { mode := "developer", keep := some ["TESTS", "CI", "DEPS"], lossy := true, omitted := ["STATUS", "RISKS", "DECISIONS"] }] := by
  decide

theorem gen_defaultRow : Gen.defaultRow = { mode := "", keep := none, lossy := false, omitted := [] } := by decide

/-- every row that filters says so (`keep` present ⇒ `lossy = true`) — the only fact `C14_project_honest` needs -/
def honestRow (r : Gen.ModeRow) : Bool := r.keep.isNone || r.lossy

theorem gen_rows_honest : (Gen.modeRows.all honestRow && honestRow Gen.defaultRow) = true := by decide

/-- `_filter_fields` filters Assignment and Block nodes and nothing else -/
theorem gen_filterClasses : Gen.filterClasses.eraseDups = ["Assignment", "Block"] := by decide

/-- node / value classes every converter dispatches on (both copies) — what `nodeEntry`, `convertValue`,
`mdNode`, `mdValue`, `mdValueCli` transcribe -/
theorem gen_converterDispatch : Gen.converterDispatch =
    [("mcp._ast_to_dict", ["Assignment", "Block", "Section"]),
     ("mcp._convert_value", ["LiteralZoneValue", "HolographicValue", "ListValue", "InlineMap", "dict"]),
     ("mcp._convert_block", ["Assignment", "Block", "Section"]),
     ("mcp._format_markdown_value", ["LiteralZoneValue", "ListValue", "InlineMap", "HolographicValue"]),
     ("mcp._ast_to_markdown", ["Assignment", "Block", "Section"]), ("mcp._block_to_markdown", ["Assignment", "Block", "Section"]),
     ("cli._ast_to_dict", ["Assignment", "Block", "Section"]), ("cli._ast_to_dict.convert_value", ["HolographicValue", "ListValue", "InlineMap", "dict"]),
     ("cli._ast_to_dict.convert_block", ["Assignment", "Block", "Section"]), ("cli._ast_to_markdown", ["Assignment", "Block", "Section"]),
     ("cli._block_to_markdown", ["Assignment", "Block", "Section"])] := by
  decide

/-- every format of `octave_eject` reports `result.lossy` and renders `result.filtered_doc` (or `result.output`,
its emission); the CLI renders the same objects -/
theorem gen_ejectFormats : Gen.ejectFormats =
    [("json", "result.lossy", "_ast_to_dict", "result.filtered_doc"), ("yaml", "result.lossy", "_ast_to_dict", "result.filtered_doc"),
     ("markdown", "result.lossy", "_ast_to_markdown", "result.filtered_doc"), ("octave", "result.lossy", "-", "result.output"),
     ("cli:json", "-", "_ast_to_dict", "result.filtered_doc"), ("cli:yaml", "-", "_ast_to_dict", "result.filtered_doc"),
     ("cli:markdown", "-", "_ast_to_markdown", "result.filtered_doc"), ("cli:octave", "-", "-", "result.output")] := by
  decide

/-! ## No invention -/

/-- `_filter_fields` only removes: the leaves of the filtered document are a sub-multiset of the source's
leaves, in the same order, each with the same path and the same value (any keep-list, any document). -/
theorem C14_no_invention_filter (keep : List Str) (d : Doc) :
    (Doc.leaves (filterFields keep d)).Sublist (Doc.leaves d) := by
  simp only [Doc.leaves, filterFields]
  exact List.Sublist.append (List.Sublist.refl _) (filterList_sublist keep d.sections)

/-- every mode (any mode string) projects to a sub-multiset of the source's leaves -/
theorem C14_no_invention_project (mode : Str) (d : Doc) :
    (Doc.leaves (project mode d).doc).Sublist (Doc.leaves d) := by
  simp only [project, applyRow]
  split
  · exact List.Sublist.refl _
  · exact C14_no_invention_filter _ d

/-- the value `json.dumps` / `yaml.dump` receive is the tagged tree with the tags forgotten … -/
theorem C14_dict_is_tree (zones : Bool) (d : Doc) : (docTree zones d).erase = astToDict zones d :=
  docTree_erase zones d

/-- … and every leaf of that tree is a leaf of the rendered document, at the same path, with the converted
value (both copies of the converter, any document: sections, duplicates, anything). -/
theorem C14_no_invention_dict (zones : Bool) (d : Doc) :
    ∀ l ∈ (docTree zones d).leaves, l ∈ (Doc.leaves d).map (convLeaf zones) :=
  docTree_leaves_sub zones d

/-- end to end: whatever the mode, a leaf of the JSON/YAML rendering is a (converted) leaf of the SOURCE -/
theorem C14_no_invention (zones : Bool) (mode : Str) (d : Doc) :
    ∀ l ∈ (docTree zones (project mode d).doc).leaves, ∃ s ∈ Doc.leaves d, l = convLeaf zones s := by
  intro l hl
  have h1 := docTree_leaves_sub zones _ l hl
  obtain ⟨s, hs, rfl⟩ := List.mem_map.mp h1
  exact ⟨s, (C14_no_invention_project mode d).subset hs, rfl⟩

/-- markdown, under the class guard (without it the scan attributes a bullet to the wrong sub-heading,
see `C14_KF_md_reparent`): the leaves read back are exactly the rendered document's leaves — sections included
(since fix ea3edea a section marker is a heading like a block). -/
theorem C14_no_invention_markdown_partial (fmt : Value → Str) (d : Doc) (ho : mdOrdered d = true) :
    mdLeaves (mdLines fmt d) = (Doc.leaves d).map (mdLeaf fmt []) :=
  mdLeaves_eq fmt d ho

/-! ## Modes -/

theorem C14_modes_canonical (d : Doc) :
    (project "canonical".toList d).doc = d ∧ (project "canonical".toList d).lossy = false
      ∧ (project "canonical".toList d).omitted = [] := by
  refine ⟨rfl, rfl, rfl⟩

theorem C14_modes_authoring (d : Doc) :
    (project "authoring".toList d).doc = d ∧ (project "authoring".toList d).lossy = false
      ∧ (project "authoring".toList d).omitted = [] := by
  refine ⟨rfl, rfl, rfl⟩

theorem C14_modes_executive (d : Doc) :
    (project "executive".toList d).doc = filterFields ["STATUS".toList, "RISKS".toList, "DECISIONS".toList] d
      ∧ (project "executive".toList d).lossy = true := by
  refine ⟨rfl, rfl⟩

theorem C14_modes_developer (d : Doc) :
    (project "developer".toList d).doc = filterFields ["TESTS".toList, "CI".toList, "DEPS".toList] d
      ∧ (project "developer".toList d).lossy = true := by
  refine ⟨rfl, rfl⟩

theorem findRow_mem (mode : Str) : ∀ rows : List Gen.ModeRow, findRow mode rows ∈ rows ∨ findRow mode rows = Gen.defaultRow
  | [] => Or.inr rfl
  | r :: rs => by
    simp only [findRow]
    split
    · exact Or.inl (by simp)
    · rcases findRow_mem mode rs with h | h
      · exact Or.inl (List.mem_cons_of_mem _ h)
      · exact Or.inr h

/-- The projection says so when it removes: for ANY mode string, `lossy = false` implies that the projected
document is the source document itself (nothing was filtered). -/
theorem C14_project_honest (mode : Str) (d : Doc) (h : (project mode d).lossy = false) : (project mode d).doc = d := by
  have hrow : honestRow (findRow mode Gen.modeRows) = true := by
    have hall := gen_rows_honest
    simp only [Bool.and_eq_true, List.all_eq_true] at hall
    rcases findRow_mem mode Gen.modeRows with hm | hm
    · exact hall.1 _ hm
    · rw [hm]; exact hall.2
  simp only [project, applyRow] at h ⊢
  cases hk : (findRow mode Gen.modeRows).keep with
  | none => rfl
  | some ks => simp [honestRow, hk, h] at hrow

/-! ## Honest lossy flag -/

/-- `C14_lossy_honest` is FALSE today without guards (see the `C14_KF_*` theorems below).  Under
`noDuplicateSiblings ∧ mdOrdered` (the `noSections` guard is gone with fix ea3edea) it holds for every mode string: when `lossy = false`, the JSON/YAML
tree (both copies) and the markdown scan contain every leaf of the source, nothing else, at the same paths.
(Equivalently: a rendering that lacks a leaf ⇒ `lossy = true`.)  The OCTAVE rendering is `emit` of the same
projected document; that `parse (emit d)` has the leaves of `d` is property C01/C02 (text engine). -/
theorem C14_lossy_honest_partial (zones : Bool) (fmt : Value → Str) (mode : Str) (d : Doc)
    (hd : noDupSiblings d = true) (ho : mdOrdered d = true)
    (hl : (project mode d).lossy = false) :
    (docTree zones (project mode d).doc).leaves = (Doc.leaves d).map (convLeaf zones)
      ∧ mdLeaves (mdLines fmt (project mode d).doc) = (Doc.leaves d).map (mdLeaf fmt []) := by
  rw [C14_project_honest mode d hl]
  exact ⟨docTree_leaves_eq zones d hd, mdLeaves_eq fmt d ho⟩

/-- contrapositive form, as the property states it -/
theorem C14_missing_leaf_means_lossy_partial (zones : Bool) (mode : Str) (d : Doc)
    (hd : noDupSiblings d = true)
    (hm : (docTree zones (project mode d).doc).leaves ≠ (Doc.leaves d).map (convLeaf zones)) :
    (project mode d).lossy = true := by
  cases hl : (project mode d).lossy with
  | true => rfl
  | false =>
    exfalso; apply hm
    rw [C14_project_honest mode d hl]
    exact docTree_leaves_eq zones d hd

/-- and `json.dumps` never raises on the MCP conversion — no guard left (F33 and the json/yaml half of F52 are fixed in /repo) -/
theorem C14_jsonable (d : Doc) : jsonable (astToDict true d) = true :=
  astToDict_jsonable d

/-! ## The four renderings of one projection agree -/

/-- Under the guards on the projected document `d'`, the JSON/YAML tree, the markdown scan and (given the
reader/emitter round trip, property C01/C02, as an explicit hypothesis) the OCTAVE text all contain exactly the
leaves of `d'`: same paths, each value the format's image of the same source value. -/
theorem C14_formats_agree_partial (zones : Bool) (fmt : Value → Str) (d' : Doc)
    (emit : Doc → Str) (parse : Str → Doc) (hrt : ∀ x, Doc.leaves (parse (emit x)) = Doc.leaves x)
    (hd : noDupSiblings d' = true) (ho : mdOrdered d' = true) :
    (docTree zones d').leaves = (Doc.leaves d').map (convLeaf zones)
      ∧ mdLeaves (mdLines fmt d') = (Doc.leaves d').map (mdLeaf fmt [])
      ∧ Doc.leaves (parse (emit d')) = Doc.leaves d'
      ∧ (docTree zones d').leaves.map Prod.fst = (mdLeaves (mdLines fmt d')).map Prod.fst := by
  have h1 := docTree_leaves_eq zones d' hd
  have h2 := mdLeaves_eq fmt d' ho
  refine ⟨h1, h2, hrt d', ?_⟩
  rw [h1, h2]
  simp [convLeaf, mdLeaf, List.map_map, Function.comp_def]

/-- the guards hold for every projection of a document that meets them (any mode string) -/
theorem C14_guards_preserved (mode : Str) (d : Doc) (hd : noDupSiblings d = true) (ho : mdOrdered d = true) :
    noDupSiblings (project mode d).doc = true ∧ mdOrdered (project mode d).doc = true := by
  simp only [project, applyRow]
  split
  · exact ⟨hd, ho⟩
  · exact ⟨filterFields_noDup _ d hd, filterFields_mdOrdered _ d ho⟩

/-- … hence, with the guards on the SOURCE only: in every mode (lossy ones included) the JSON/YAML tree and the markdown
scan of the projection contain exactly the projection's leaves, which are a sub-multiset of the source's. -/
theorem C14_formats_agree_all_modes_partial (zones : Bool) (fmt : Value → Str) (mode : Str) (d : Doc)
    (hd : noDupSiblings d = true) (ho : mdOrdered d = true) :
    (docTree zones (project mode d).doc).leaves = (Doc.leaves (project mode d).doc).map (convLeaf zones)
      ∧ mdLeaves (mdLines fmt (project mode d).doc) = (Doc.leaves (project mode d).doc).map (mdLeaf fmt [])
      ∧ (Doc.leaves (project mode d).doc).Sublist (Doc.leaves d) := by
  obtain ⟨h2, h3⟩ := C14_guards_preserved mode d hd ho
  exact ⟨docTree_leaves_eq zones _ h2, mdLeaves_eq fmt _ h3, C14_no_invention_project mode d⟩

/-! ## The CLI copy of the converters -/

/-- `cli/main.py:_ast_to_dict` equals `mcp/eject.py:_ast_to_dict` on documents without literal zones -/
theorem C14_cli_same_dict (d : Doc) (h : noZones d = true) : astToDict false d = astToDict true d :=
  astToDict_cli_eq d h

/-- `cli/main.py:_ast_to_markdown` equals the MCP copy when every value is a scalar (the CLI copy formats
values with a bare f-string) -/
theorem C14_cli_same_markdown (d : Doc) (h : scalarOnly d = true) :
    astToMarkdown mdValueCli d = astToMarkdown mdValue d := by
  simp [astToMarkdown, mdLines_cli_eq d h]

/-! ## Known findings: the unguarded statements are false (negations proved on the witnesses of
`known_findings/C14.txt`; each witness is replayed on the real code on every run) -/

def s (x : String) : Str := x.toList

/-- former F24 witness `§1::S ⟨A::1⟩, B::2` -/
def wF24 : Doc := { name := s "DOC", sections := [.sect {} (s "1") (s "S") [.assign {} (s "A") (.int 1)], .assign {} (s "B") (.int 2)] }
/-- F24 is FIXED (ea3edea): the leaf `S/A` below the section marker is in both dict copies and in the markdown scan
(instance of `C14_lossy_honest_partial` on a document with a Section node; kept as a regression fact). -/
theorem C14_F24_fixed :
    (project (s "canonical") wF24).lossy = false
    ∧ (docTree true (project (s "canonical") wF24).doc).leaves.map Prod.fst = (Doc.leaves wF24).map Prod.fst
    ∧ (docTree false (project (s "canonical") wF24).doc).leaves.map Prod.fst = (Doc.leaves wF24).map Prod.fst
    ∧ (mdLeaves (mdLines mdValue (project (s "canonical") wF24).doc)).map Prod.fst = (Doc.leaves wF24).map Prod.fst
    ∧ noSections wF24 = false ∧ noDupSiblings wF24 = true ∧ mdOrdered wF24 = true := by
  decide

/-- F25 witness `B::2, B::3` -/
def wF25 : Doc := { name := s "DOC", sections := [.assign {} (s "B") (.int 2), .assign {} (s "B") (.int 3)] }
/-- F25: two leaves in, one leaf out, `lossy = false` -/
theorem C14_KF_duplicates :
    (project (s "canonical") wF25).lossy = false
    ∧ (Doc.leaves wF25).length = 2
    ∧ (docTree true (project (s "canonical") wF25).doc).leaves.length = 1
    ∧ noDupSiblings wF25 = false := by
  decide

/-- former F33 witness `K::["x"∧REQ]` -/
def wF33 : Doc := { name := s "DOC", sections := [.assign {} (s "K") (.holo (s "[\"x\"∧REQ]"))] }
/-- F33 is FIXED for the MCP copy (45b8e9f json/yaml, 80994f1 markdown): the pattern text everywhere.  The CLI markdown copy
still prints the `repr` (bare f-string) — that remainder belongs to F51 (`C14_KF_cli_differs`). -/
theorem C14_F33_fixed :
    jsonable (astToDict true wF33) = true ∧ jsonable (astToDict false wF33) = true
    ∧ mdLeaves (mdLines mdValue wF33) = [([s "K"], s "[\"x\"∧REQ]")]
    ∧ mdLeaves (mdLines mdValueCli wF33) = [([s "K"], [opaqueMark])] := by
  decide

/-- F50 witness `BLK: ⟨P::1, IN: ⟨Q::2⟩, R::3⟩` -/
def wF50 : Doc := { name := s "DOC", sections := [.block {} (s "BLK")
  [.assign {} (s "P") (.int 1), .block {} (s "IN") [.assign {} (s "Q") (.int 2)], .assign {} (s "R") (.int 3)]] }
/-- F50: the markdown scan finds `BLK/IN/R`, which the source does not have, and misses `BLK/R` -/
theorem C14_KF_md_reparent :
    (project (s "canonical") wF50).lossy = false
    ∧ [s "BLK", s "IN", s "R"] ∈ (mdLeaves (mdLines mdValue wF50)).map Prod.fst
    ∧ [s "BLK", s "IN", s "R"] ∉ (Doc.leaves wF50).map Prod.fst
    ∧ [s "BLK", s "R"] ∉ (mdLeaves (mdLines mdValue wF50)).map Prod.fst
    ∧ mdOrdered wF50 = false := by
  decide

/-- F51 witnesses: a literal zone, a list -/
def wF51z : Doc := { name := s "DOC", sections := [.assign {} (s "Z") (.zone (s "x") none (s "```"))] }
def wF51l : Doc := { name := s "DOC", sections := [.assign {} (s "L") (.list [.str (s "a"), .str (s "b")])] }
/-- F51: the CLI copy is NOT the MCP copy on zones (dict) and on non-scalars (markdown) -/
theorem C14_KF_cli_differs :
    jsonable (astToDict true wF51z) = true ∧ jsonable (astToDict false wF51z) = false
    ∧ mdLines mdValueCli wF51l ≠ mdLines mdValue wF51l
    ∧ noZones wF51z = false ∧ scalarOnly wF51l = false := by
  decide

/-- F52 witness: `META: ⟨TYPE::X, SUB: ⟨K::[a,b]⟩⟩` -/
def wF52 : Doc := { name := s "DOC", dmeta := [(s "TYPE", .str (s "X")), (s "SUB", .pydict [(s "K", .list [.str (s "a"), .str (s "b")])])],
                    sections := [.assign {} (s "A") (.int 1)] }
/-- F52, what is left after fix fd2ad16 (json/yaml descend into the nested META block): markdown prints the `repr` of the dict
at `META/SUB` instead of the fields below it. -/
theorem C14_KF_meta_nested_markdown :
    jsonable (astToDict true wF52) = true
    ∧ ([s "META", s "SUB"], [opaqueMark]) ∈ mdLeaves (mdLines mdValue wF52)
    ∧ noPyDict wF52 = false := by
  decide

/-! ## Non-vacuity: a document with nested blocks, lists, an inline map, a literal zone, META and the filter keys
at top level and nested meets every guard, and the executive projection really removes something -/

def wOK : Doc := {
  name := s "DOC", dmeta := [(s "TYPE", .str (s "T"))],
  sections := [.assign {} (s "STATUS") (.str (s "ACTIVE")),
               .assign {} (s "L") (.list [.imap [(s "k", .int 1)], .str (s "x")]),
               .block {} (s "BLK") [.assign {} (s "RISKS") (.list [.str (s "r1")]), .assign {} (s "Z") (.zone (s "raw") (some (s "py")) (s "```")),
                                    .block {} (s "IN") [.assign {} (s "TESTS") (.bool true)]],
               .sect {} (s "2") (s "SEC") [.assign {} (s "S1") (.int 1), .block {} (s "SB") [.assign {} (s "CI") (.str (s "yes"))]],
               .comment {} (s "note")] }

example : noDupSiblings wOK = true ∧ mdOrdered wOK = true := by decide
example : (project (s "canonical") wOK).lossy = false := by decide
example : (Doc.leaves (project (s "executive") wOK).doc).length = 5 ∧ (Doc.leaves wOK).length = 8 := by decide
example : (docTree true wOK).leaves.map Prod.fst = (Doc.leaves wOK).map Prod.fst := by decide
example : (mdLeaves (mdLines mdValue wOK)).map Prod.fst = (Doc.leaves wOK).map Prod.fst := by decide
example : noZones wF25 = true ∧ scalarOnly wF25 = true := by decide
/-- the hypothesis of `C14_missing_leaf_means_lossy_partial` is met by the developer projection of `wOK` -/
example : (docTree true (project (s "developer") wOK).doc).leaves.length ≠ ((Doc.leaves wOK).map (convLeaf true)).length := by decide

end Octave.C14
