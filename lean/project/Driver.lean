/-
JSON-lines driver for the `project` engine: one request per line on stdin, one reply per line.

  {"op":"project","doc":<doc>,"mode":"executive"}
      -> {"doc":<doc>,"lossy":b,"omitted":[..],"dict_mcp":<py>,"dict_cli":<py>,"jsonable_mcp":b,"jsonable_cli":b,
          "md_mcp":"…","md_cli":"…","leaves":[[path,value]..],"md_leaves":[[path,text]..],"kf":{…class predicates…}}
  {"op":"seal","doc":<doc>,"emits":[[<doc>,"text"]..],"hashes":[["text","hex"]..]}
      -> {"sealed":<doc>,"verify_sealed":"VERIFIED","verify_input":"…","reseal_equal":b}
  {"op":"verify","doc":<doc>,"emits":[..],"hashes":[..]} -> {"status":"…"}

The emitter and the hash are EXTERNAL to this engine (parameters of `SealEnv`): the harness supplies, per
case, the real `emit()` text of every document the sealer may emit and the real SHA-256 of those texts;
a call outside the supplied table answers {"unsupported": …} (never a guessed value).

doc / value encoding: see tools/harness/project_docs.py.
-/
import Lean.Data.Json
import Octave.Model.Markdown
import Octave.Model.Sealer
import Octave.Spec.Leaves
open Lean Octave

def sOf (s : String) : Str := s.toList
def strOf (s : Str) : String := String.ofList s

partial def valueOfJson (j : Json) : Except String Value := do
  let t ← j.getObjValAs? String "t"
  match t with
  | "null" => pure .null
  | "bool" => pure (.bool (← j.getObjValAs? Bool "v"))
  | "int" =>
    match (← j.getObjValAs? String "v").toInt? with
    | some n => pure (.int n)
    | none => throw "bad int"
  | "float" => pure (.float (sOf (← j.getObjValAs? String "v")))
  | "str" => pure (.str (sOf (← j.getObjValAs? String "v")))
  | "list" => do
    let xs ← j.getObjValAs? (Array Json) "v"
    pure (.list (← xs.toList.mapM valueOfJson))
  | "imap" => pure (.imap (← pairs (← j.getObjValAs? (Array Json) "v")))
  | "pydict" => pure (.pydict (← pairs (← j.getObjValAs? (Array Json) "v")))
  | "zone" => do
    let tag ← match j.getObjVal? "tag" with
      | .ok (.str s) => pure (some (sOf s))
      | _ => pure none
    pure (.zone (sOf (← j.getObjValAs? String "c")) tag (sOf (← j.getObjValAs? String "f")))
  | "holo" => pure (.holo (sOf (← j.getObjValAs? String "raw")))
  | other => throw s!"value kind {other}"
where
  pairs (xs : Array Json) : Except String (List (Str × Value)) :=
    xs.toList.mapM fun p => do
      let a ← p.getArr?
      if a.size != 2 then throw "pair"
      let k ← a[0]!.getStr?
      let v ← valueOfJson a[1]!
      pure (sOf k, v)

def annOfJson (j : Json) : Ann :=
  let lc : List Str := match j.getObjValAs? (Array String) "lc" with
    | .ok a => a.toList.map sOf
    | _ => []
  let tc : Option Str := match j.getObjValAs? String "tc" with
    | .ok s => some (sOf s)
    | _ => none
  { leading := lc, trailing := tc }

partial def nodeOfJson (j : Json) : Except String Node := do
  let n ← j.getObjValAs? String "n"
  let a := annOfJson j
  match n with
  | "a" => pure (.assign a (sOf (← j.getObjValAs? String "k")) (← valueOfJson (← j.getObjVal? "v")))
  | "b" => pure (.block a (sOf (← j.getObjValAs? String "k")) (← (← j.getObjValAs? (Array Json) "c").toList.mapM nodeOfJson))
  | "s" => pure (.sect a (sOf (← j.getObjValAs? String "id")) (sOf (← j.getObjValAs? String "k"))
                  (← (← j.getObjValAs? (Array Json) "c").toList.mapM nodeOfJson))
  | "c" => pure (.comment a (sOf (← j.getObjValAs? String "text")))
  | other => throw s!"node kind {other}"

def optStrOfJson (j : Json) (k : String) : Option Str :=
  match j.getObjVal? k with
  | .ok (.str s) => some (sOf s)
  | _ => none

def docOfJson (j : Json) : Except String Doc := do
  let metaJ ← j.getObjValAs? (Array Json) "meta"
  let m ← metaJ.toList.mapM fun p => do
    let a ← p.getArr?
    if a.size != 2 then throw "meta pair"
    pure (sOf (← a[0]!.getStr?), ← valueOfJson a[1]!)
  let secs ← (← j.getObjValAs? (Array Json) "sections").toList.mapM nodeOfJson
  pure { name := sOf (← j.getObjValAs? String "name"), dmeta := m, sections := secs,
         hasSeparator := (j.getObjValAs? Bool "sep").toOption.getD false,
         frontmatter := optStrOfJson j "front", grammarVersion := optStrOfJson j "gv" }

partial def valueToJson : Value → Json
  | .null => Json.mkObj [("t", "null")]
  | .bool b => Json.mkObj [("t", "bool"), ("v", b)]
  | .int i => Json.mkObj [("t", "int"), ("v", toString i)]
  | .float r => Json.mkObj [("t", "float"), ("v", strOf r)]
  | .str s => Json.mkObj [("t", "str"), ("v", strOf s)]
  | .list xs => Json.mkObj [("t", "list"), ("v", Json.arr (xs.map valueToJson).toArray)]
  | .imap ps => Json.mkObj [("t", "imap"), ("v", Json.arr (ps.map fun (k, v) => Json.arr #[strOf k, valueToJson v]).toArray)]
  | .pydict ps => Json.mkObj [("t", "pydict"), ("v", Json.arr (ps.map fun (k, v) => Json.arr #[strOf k, valueToJson v]).toArray)]
  | .zone c t f => Json.mkObj [("t", "zone"), ("c", strOf c), ("tag", match t with | some x => Json.str (strOf x) | none => Json.null), ("f", strOf f)]
  | .holo r => Json.mkObj [("t", "holo"), ("raw", strOf r)]

def annFields (a : Ann) : List (String × Json) :=
  (if a.leading.isEmpty then [] else [("lc", Json.arr (a.leading.map (fun s => Json.str (strOf s))).toArray)])
  ++ (match a.trailing with | some t => [("tc", Json.str (strOf t))] | none => [])

partial def nodeToJson : Node → Json
  | .assign a k v => Json.mkObj (([("n", Json.str "a"), ("k", Json.str (strOf k)), ("v", valueToJson v)] : List (String × Json)) ++ annFields a)
  | .block a k cs => Json.mkObj (([("n", Json.str "b"), ("k", Json.str (strOf k)), ("c", Json.arr (cs.map nodeToJson).toArray)] : List (String × Json)) ++ annFields a)
  | .sect a i k cs => Json.mkObj (([("n", Json.str "s"), ("id", Json.str (strOf i)), ("k", Json.str (strOf k)), ("c", Json.arr (cs.map nodeToJson).toArray)] : List (String × Json)) ++ annFields a)
  | .comment _ t => Json.mkObj [("n", "c"), ("text", strOf t)]

def optJson : Option Str → Json
  | some s => Json.str (strOf s)
  | none => Json.null

def docToJson (d : Doc) : Json :=
  Json.mkObj [("name", strOf d.name), ("meta", Json.arr (d.dmeta.map fun (k, v) => Json.arr #[strOf k, valueToJson v]).toArray),
              ("sections", Json.arr (d.sections.map nodeToJson).toArray), ("sep", d.hasSeparator),
              ("front", optJson d.frontmatter), ("gv", optJson d.grammarVersion)]

partial def pyToJson : PyVal → Json
  | .none => Json.null
  | .bool b => b
  | .int i => Json.mkObj [("$int", toString i)]
  | .float r => Json.mkObj [("$float", strOf r)]
  | .str s => Json.str (strOf s)
  | .list xs => Json.arr (xs.map pyToJson).toArray
  | .dict ps => Json.mkObj [("$dict", Json.arr (ps.map fun (k, v) => Json.arr #[strOf k, pyToJson v]).toArray)]
  | .obj c => Json.mkObj [("$obj", strOf c)]

def pathJson (p : List Str) : Json := Json.arr (p.map (fun s => Json.str (strOf s))).toArray

def handleProject (j : Json) : Except String Json := do
  let d ← docOfJson (← j.getObjVal? "doc")
  let mode ← j.getObjValAs? String "mode"
  let pr := project (sOf mode) d
  let f := pr.doc
  let dm := astToDict true f
  let dc := astToDict false f
  pure (Json.mkObj [
    ("doc", docToJson f), ("lossy", pr.lossy), ("omitted", Json.arr (pr.omitted.map (fun s => Json.str (strOf s))).toArray),
    ("dict_mcp", pyToJson dm), ("dict_cli", pyToJson dc), ("jsonable_mcp", jsonable dm), ("jsonable_cli", jsonable dc),
    ("md_mcp", strOf (astToMarkdown mdValue f)), ("md_cli", strOf (astToMarkdown mdValueCli f)),
    ("leaves", Json.arr ((Doc.leaves f).map fun (p, v) => Json.arr #[pathJson p, valueToJson v]).toArray),
    ("src_leaves", (Doc.leaves d).length),
    ("md_leaves", Json.arr ((mdLeaves (mdLines mdValue f)).map fun (p, t) => Json.arr #[pathJson p, Json.str (strOf t)]).toArray),
    ("kf", Json.mkObj [("sections", !noSections d), ("dups", !noDupSiblings d), ("holo", !noHolo d),
                       ("bullet_after_block", !mdOrdered d), ("zones", !noZones d), ("scalar_only", scalarOnly d),
                       ("meta_nested", !noPyDict d)])])

/-- external emitter / hash tables supplied by the harness -/
structure Ext where
  emits : List (String × String)     -- compressed doc json ↦ emitted text
  hashes : List (String × String)

def extOfJson (j : Json) : Except String Ext := do
  let es ← (← j.getObjValAs? (Array Json) "emits").toList.mapM fun p => do
    let a ← p.getArr?
    if a.size != 2 then throw "emit pair"
    let d ← docOfJson a[0]!
    pure ((docToJson d).compress, ← a[1]!.getStr?)
  let hs ← (← j.getObjValAs? (Array Json) "hashes").toList.mapM fun p => do
    let a ← p.getArr?
    if a.size != 2 then throw "hash pair"
    pure (← a[0]!.getStr?, ← a[1]!.getStr?)
  pure { emits := es, hashes := hs }

/-- marker returned by the table-driven externals when the model asks for something the harness did not supply -/
def missMark : Str := "\x00MISSING".toList

def envOf (x : Ext) : SealEnv :=
  { emit := fun d => match x.emits.lookup (docToJson d).compress with
      | some t => sOf t
      | none => missMark,
    H := fun s => match x.hashes.lookup (strOf s) with
      | some h => sOf h
      | none => missMark }

def statusStr : SealStatus → String
  | .verified => "VERIFIED" | .invalid => "INVALID" | .noSeal => "NO_SEAL"

def missing (E : SealEnv) (d : Doc) : Bool :=
  let t := E.emit (removeSeal d)
  t == missMark || E.H t == missMark

def handleSeal (j : Json) : Except String Json := do
  let d ← docOfJson (← j.getObjVal? "doc")
  let E := envOf (← extOfJson j)
  if missing E d then throw "external emit/hash not supplied for removeSeal(doc)"
  let s := sealDocument E d
  pure (Json.mkObj [("sealed", docToJson s), ("verify_sealed", statusStr (verifySeal E s)),
                    ("verify_input", statusStr (verifySeal E d)),
                    ("reseal_equal", (docToJson (sealDocument E s)).compress == (docToJson s).compress)])

def handleVerify (j : Json) : Except String Json := do
  let d ← docOfJson (← j.getObjVal? "doc")
  let E := envOf (← extOfJson j)
  if (extractSeal d.sections).isSome && missing E d then throw "external emit/hash not supplied for removeSeal(doc)"
  pure (Json.mkObj [("status", statusStr (verifySeal E d)),
                    ("smuggle_class", decide ((d.sections.filter isSealSection).length ≥ 2))])

def handle (j : Json) : Json :=
  let r : Except String Json :=
    match j.getObjValAs? String "op" with
    | .ok "project" => handleProject j
    | .ok "seal" => handleSeal j
    | .ok "verify" => handleVerify j
    | _ => throw "op"
  match r with
  | .ok out => out
  | .error e => Json.mkObj [("unsupported", e)]

partial def loop (h : IO.FS.Stream) (out : IO.FS.Stream) : IO Unit := do
  let line ← h.getLine
  if line.isEmpty then return ()
  let reply := match Json.parse line with
    | .ok j => handle j
    | .error e => Json.mkObj [("unsupported", s!"json: {e}")]
  out.putStrLn reply.compress
  loop h out

def main : IO Unit := do
  let out ← IO.getStdout
  loop (← IO.getStdin) out
  out.flush
