/-
JSON-lines driver for the `tools` engine: one request per line on stdin, one reply per line.

  {"op":"name_ok","name":s}                               -> {"ok":bool}                    (SCHEMA_NAME_PATTERN gate)
  {"op":"validate","a":{…VArgs…},"o":{…VOut…}}            -> <envelope view> | {"raise":"<stage>"}
  {"op":"write","a":{…},"o":{…}}  {"op":"eject",…}  {"op":"grammar",…}      (same reply shape)
  {"op":"cli_validate","a":{…},"o":{…}} {"op":"cli_write",…}  -> {"exit":n,"line":"VALIDATED"|…|null}
  {"op":"guards"}                                         -> {"<stage>":{"tool":…,"call":…,"idx":n,"guard":"exc|narrow|none"}…}

Field names are those of the Lean structures; absent fields take the structure defaults.
raises: {"<stage>":"narrow"|"other"}; lookups: {"k":"notFound"|"raises"|"found","name":s,"version":s|null,"fields":bool};
error lists: arrays of code strings; parse: "ok" | "tok" | "parse".
The builtin-schema table is the regenerated `Gen.builtinSchemas`.
-/
import Lean.Data.Json
import Octave.Model.Tools
import Octave.Gen.Schema
open Lean Octave.Tools

def stageName (s : Stage) : String := ((reprStr s).splitOn ".").getLast!

def stageOfName (n : String) : Option Stage := Stage.all.find? (fun s => stageName s == n)

def genBuiltins : Builtins :=
  Octave.Gen.builtinSchemas.map fun (k, n, v, _) =>
    (k.toList, { name := if n == "" then none else some n.toList, version := if v == "" then none else some v.toList })

def getB (j : Json) (k : String) (d : Bool) : Bool := (j.getObjValAs? Bool k).toOption.getD d

def getOptStr (j : Json) (k : String) : Option Str :=
  match j.getObjValAs? String k with
  | .ok s => some s.toList
  | .error _ => none

def getErrs (j : Json) (k : String) : List VErr :=
  match j.getObjValAs? (Array String) k with
  | .ok a => a.toList.map fun c => ⟨c.toList⟩
  | .error _ => []

def getParse (j : Json) : ParseOut :=
  match j.getObjValAs? String "parse" with
  | .ok "tok" => .fails true
  | .ok "parse" => .fails false
  | _ => .ok

def getLookup (j : Json) (k : String) (d : Lookup) : Lookup :=
  match j.getObjVal? k with
  | .ok l =>
    match l.getObjValAs? String "k" with
    | .ok "notFound" => .notFound
    | .ok "raises" => .raises
    | .ok "found" => .found ((l.getObjValAs? String "name").toOption.getD "").toList (getOptStr l "version") (getB l "fields" false)
    | _ => d
  | .error _ => d

def getRaises (j : Json) : Stage → Raise :=
  match j.getObjVal? "raises" with
  | .ok (.obj kvs) =>
    let tbl : List (Stage × Raise) := kvs.toList.filterMap fun (k, v) =>
      match stageOfName k, v with
      | some s, .str "narrow" => some (s, .narrow)
      | some s, .str "other" => some (s, .other)
      | _, _ => none
    fun s => ((tbl.find? (fun p => p.1 == s)).map (·.2)).getD .no
  | _ => fun _ => .no

def jOpt {α} (f : α → Json) : Option α → Json
  | some a => f a
  | none => .null

def jStr (s : Str) : Json := .str (String.ofList s)

def envJson (e : Envelope) : Json :=
  Json.mkObj [
    ("status", jOpt (fun s => match s with | RunStatus.success => "success" | .error => "error") e.status),
    ("vs", jOpt (fun s => match s with | VStatus.validated => "VALIDATED" | .unvalidated => "UNVALIDATED" | .invalid => "INVALID") e.vstatus),
    ("valid", jOpt (fun b => Json.bool b) e.valid),
    ("verr_codes", jOpt (fun l => toJson (l.map fun (x : VErr) => String.ofList x.code)) e.verrs),
    ("verr_count", jOpt (fun (n : Nat) => toJson n) e.verrCount),
    ("schema_name", jOpt jStr e.schemaName),
    ("schema_version", jOpt jStr e.schemaVersion),
    ("warn_codes", toJson (e.warnings.map fun x => String.ofList x.code)),
    ("warning_count", jOpt (fun (n : Nat) => toJson n) e.warningCount),
    ("has_warnings", jOpt (fun b => Json.bool b) e.hasWarnings),
    ("err_codes", toJson (e.errCodes.map fun c => ((reprStr c).splitOn ".").getLast!)),
    ("grammar_hint", jOpt (fun b => Json.bool b) e.grammarHint),
    ("debug_info", Json.bool e.debugInfo)]

def resJson : Except Exc Envelope → Json
  | .ok e => envJson e
  | .error (.py s) => Json.mkObj [("raise", stageName s)]

def cliJson (c : CliOut) : Json :=
  Json.mkObj [("exit", toJson c.exit),
    ("line", jOpt (fun s => match s with | VStatus.validated => "VALIDATED" | .unvalidated => "UNVALIDATED" | .invalid => "INVALID") c.line)]

def handle (j : Json) : Json :=
  let a := (j.getObjVal? "a").toOption.getD (Json.mkObj [])
  let o := (j.getObjVal? "o").toOption.getD (Json.mkObj [])
  match j.getObjValAs? String "op" with
  | .ok "name_ok" =>
    match j.getObjValAs? String "name" with
    | .ok n => Json.mkObj [("ok", Json.bool (schemaNameOk n.toList))]
    | .error e => Json.mkObj [("unsupported", e)]
  | .ok "validate" =>
    let va : VArgs := { profileUp := getOptStr a "profileUp", hasContent := getB a "hasContent" true, hasFilePath := getB a "hasFilePath" false,
                        schemaName := (getOptStr a "schemaName").getD [], fix := getB a "fix" false, debugGrammar := getB a "debugGrammar" false,
                        grammarHint := getB a "grammarHint" false, diffOnly := getB a "diffOnly" false, compact := getB a "compact" false }
    let vo : VOut := { pathValid := getB o "pathValid" true, fileExists := getB o "fileExists" true, parse := getParse o,
                       search := getLookup o "search" .notFound, errs := getErrs o "errs", softWarnings := getErrs o "softWarnings",
                       errsNoSchema := getErrs o "errsNoSchema",
                       errsAfterFix := getErrs o "errsAfterFix", raises := getRaises o }
    resJson (ValidateExec genBuiltins va vo)
  | .ok "write" =>
    let wa : WArgs := { policyOk := getB a "policyOk" true, hasContent := getB a "hasContent" true, hasChanges := getB a "hasChanges" false,
                        baseHash := getB a "baseHash" false, schemaName := getOptStr a "schemaName", debugGrammar := getB a "debugGrammar" false,
                        grammarHint := getB a "grammarHint" false, lenient := getB a "lenient" false,
                        correctionsOnly := getB a "correctionsOnly" false, salvage := getB a "salvage" false }
    let wr : WriteOut := match o.getObjValAs? String "write" with
      | .ok "symlink" => .symlink | .ok "toctou" => .toctou | .ok "permission" => .permission | .ok "other" => .other | _ => .ok
    let wo : WOut := { pathValid := getB o "pathValid" true, fileExists := getB o "fileExists" false, hashMatches := getB o "hashMatches" true,
                       baselineNonEmpty := getB o "baselineNonEmpty" false, looksStructured := getB o "looksStructured" true,
                       blank := getB o "blank" false, docHasFrontmatter := getB o "docHasFrontmatter" false, parse := getParse o,
                       tokenizeFails := getB o "tokenizeFails" false, search := getLookup o "search" .notFound,
                       hermetic := getLookup o "hermetic" .raises, isHermeticRef := getB o "isHermeticRef" false,
                       errs0 := getErrs o "errs0", didRepair := getB o "didRepair" false, errs1 := getErrs o "errs1", errs2 := getErrs o "errs2",
                       write := wr, raises := getRaises o }
    resJson (WriteExec genBuiltins wa wo)
  | .ok "eject" =>
    let f : EFormat := match a.getObjValAs? String "format" with
      | .ok "json" => .json | .ok "yaml" => .yaml | .ok "markdown" => .markdown | .ok "gbnf" => .gbnf | _ => .octave
    resJson (EjectExec { hasContent := getB a "hasContent" true, format := f }
                       { parse := getParse o, hasContract := getB o "hasContract" false, raises := getRaises o })
  | .ok "grammar" =>
    let f : GFormat := match a.getObjValAs? String "format" with
      | .ok "gbnf" => .gbnf | .ok "json_schema" => .jsonSchema | _ => .invalid
    resJson (GrammarExec { format := f, schemaName := getOptStr a "schemaName", hasContent := getB a "hasContent" false }
                         { search := getLookup o "search" .notFound, parse := getParse o, hasContract := getB o "hasContract" false,
                           raises := getRaises o })
  | .ok "cli_validate" =>
    cliJson (CliValidate genBuiltins { schema := getOptStr a "schema", fix := getB a "fix" false }
              { parse := getParse o, loadRaises := getB o "loadRaises" false, errs := getErrs o "errs", errsNone := getErrs o "errsNone",
                errsAfterFix := getErrs o "errsAfterFix", laterRaises := getB o "laterRaises" false })
  | .ok "cli_write" =>
    cliJson (CliWrite genBuiltins { schema := getOptStr a "schema" }
              { pathValid := getB o "pathValid" true, parse := getParse o, errs := getErrs o "errs",
                stageRaises := getB o "stageRaises" false, writeOk := getB o "writeOk" true })
  | .ok "guards" =>
    Json.mkObj (Stage.all.map fun s =>
      let (t, c, i) := s.site
      (stageName s, Json.mkObj [("tool", t), ("call", c), ("idx", toJson i),
        ("guard", match s.guard with | .exc => "exc" | .narrow => "narrow" | .none => "none")]))
  | _ => Json.mkObj [("unsupported", "op")]

partial def loop (h : IO.FS.Stream) (out : IO.FS.Stream) : IO Unit := do
  let line ← h.getLine
  if line.isEmpty then return ()
  let reply := match Json.parse line with
    | .ok j => handle j
    | .error e => Json.mkObj [("unsupported", s!"json: {e}")]
  out.putStrLn reply.compress
  loop h out

def main : IO Unit := do
  let out ← IO.getStdout
  loop (← IO.getStdin) out
  out.flush
