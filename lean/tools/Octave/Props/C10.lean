/-
C10 — Validation status is always present and never overstated (I5).

Property theorems over the executable model `Octave.Model.Tools` (decision skeleton of the four MCP tools
and of the CLI `validate`/`write`), for all arguments, flags and stage outcomes, plus `decide` facts about
the data regenerated from the source on every run (`Gen.Envelopes`, `Gen.Schema`): when an envelope literal,
an assignment site or the schema-name pattern changes in /repo, the corresponding fact stops compiling.

The model is tied to the code by tools/props/c10.py (differential correspondence on forced stage outcomes).
Helper lemmas: Octave/Lemmas/Tools.lean.
-/
import Octave.Lemmas.Tools
import Octave.Lemmas.Guards
import Octave.Gen.Envelopes
import Octave.Gen.Schema
namespace Octave.C10
open Octave.Tools

/-! ## Presence -/

/-- Every envelope returned by any of the four tools carries validation_status, and its value is one of
VALIDATED / UNVALIDATED / INVALID (all arguments, all flags, all stage outcomes, including raising stages). -/
theorem C10_present (B : Builtins) (c : Call) (e : Envelope) (h : toolExec B c = .ok e) :
    e.vstatus = some .validated ∨ e.vstatus = some .unvalidated ∨ e.vstatus = some .invalid := by
  have key : ∃ s, e.vstatus = some s := by
    cases c with
    | validate a o =>
      rcases validate_cases h with ⟨hb, -, -⟩ | ⟨-, -, p, -, rfl⟩
      · exact ⟨_, hb.1⟩
      · rw [vResult_vstatus]; split <;> (try split) <;> exact ⟨_, rfl⟩
    | write a o =>
      rcases write_cases h with hb | ⟨-, rfl⟩
      · exact ⟨_, hb.1⟩
      · rw [wResult_vstatus]; split <;> (try split) <;> (try split) <;> exact ⟨_, rfl⟩
    | eject a o => rw [eject_cases h]; exact ⟨_, rfl⟩
    | grammar a o =>
      rcases grammar_cases h with rfl | ⟨c, rfl⟩ <;> exact ⟨_, rfl⟩
  obtain ⟨s, hs⟩ := key
  cases s <;> simp [hs]

/-- eject and compile_grammar never claim anything: always UNVALIDATED. -/
theorem C10_eject_grammar_unvalidated (B : Builtins) (c : Call) (e : Envelope) (h : toolExec B c = .ok e)
    (hc : (∃ a o, c = .eject a o) ∨ (∃ a o, c = .grammar a o)) : e.vstatus = some .unvalidated := by
  rcases hc with ⟨a, o, rfl⟩ | ⟨a, o, rfl⟩
  · rw [eject_cases h]; rfl
  · rcases grammar_cases h with rfl | ⟨c, rfl⟩ <;> rfl

/-! ## octave_validate -/

/-- VALIDATED only if the named schema was found (builtin entry, or a schema file with fields that loaded
without raising) and the validator produced no error or the profile downgrades errors by design. -/
theorem C10_validated_needs_schema_validate (B : Builtins) (a : VArgs) (o : VOut) (e : Envelope)
    (h : ValidateExec B a o = .ok e) (hv : e.vstatus = some .validated) :
    vHasSchema B a o = true ∧ o.parse = .ok ∧
      ∃ p, vProfile a = some p ∧ (o.errs = [] ∨ p = .lenient ∨ p = .ultra) := by
  rcases validate_cases h with ⟨hb, -, -⟩ | ⟨hpre, -, p, hp, rfl⟩
  · exact absurd hv (Bypass_not_validated hb)
  · rw [vResult_vstatus] at hv
    by_cases hs : vHasSchema B a o = true
    · refine ⟨hs, vPre_none_parse hpre, p, hp, ?_⟩
      simp only [hs, ↓reduceIte] at hv
      by_cases he : (o.errs.isEmpty || p.downgrades) = true
      · simp only [Bool.or_eq_true, List.isEmpty_iff] at he
        rcases he with he | he
        · exact Or.inl he
        · cases p <;> simp [Profile.downgrades] at he ⊢
      · simp [he] at hv
    · simp [hs] at hv

/-- A name that is no builtin key and that is malformed, not found on the search path, unloadable, or found
without fields gives UNVALIDATED (and valid = false). -/
theorem C10_unknown_schema_validate (B : Builtins) (a : VArgs) (o : VOut) (e : Envelope)
    (h : ValidateExec B a o = .ok e) (hb : getBuiltin B a.schemaName = none)
    (hu : schemaNameOk a.schemaName = false ∨ o.search = .notFound ∨ o.search = .raises
          ∨ raised o.raises .v_load = true ∨ ∃ n v, o.search = .found n v false) :
    e.vstatus = some .unvalidated ∧ e.valid = some false := by
  rcases validate_cases h with ⟨hbp, hval, -⟩ | ⟨-, -, p, -, rfl⟩
  · exact ⟨hbp.1, hval⟩
  · have hs : vHasSchema B a o = false := by
      simp only [vHasSchema, vBuiltin, hb, Option.isSome_none, Bool.false_or, vDefn]
      by_cases hl : raised o.raises .v_load = true
      · simp [hl, defnHasFields]
      · simp only [hl, Bool.false_eq_true, ↓reduceIte]
        apply defnHasFields_loadByName_false
        rcases hu with hu | hu | hu | hu | hu
        · exact Or.inl hu
        · exact Or.inr (Or.inl hu)
        · exact Or.inr (Or.inr (Or.inl hu))
        · exact absurd hu hl
        · exact Or.inr (Or.inr (Or.inr hu))
    rw [vResult_vstatus, vResult_valid]; simp [hs]

/-- Any tokenise / parse failure gives UNVALIDATED (and valid = false), whatever the schema argument. -/
theorem C10_parse_failure_validate (B : Builtins) (a : VArgs) (o : VOut) (e : Envelope) (t : Bool)
    (h : ValidateExec B a o = .ok e) (hp : o.parse = .fails t) :
    e.vstatus = some .unvalidated ∧ e.valid = some false := by
  rcases validate_cases h with ⟨hbp, hval, -⟩ | ⟨hpre, -, -⟩
  · exact ⟨hbp.1, hval⟩
  · rw [vPre_none_parse hpre] at hp; cases hp

/-- INVALID comes with at least one validation error (the list, or in compact mode a positive count), with
schema name and version, and only under STRICT / STANDARD. -/
theorem C10_invalid_has_errors_validate (B : Builtins) (a : VArgs) (o : VOut) (e : Envelope)
    (h : ValidateExec B a o = .ok e) (hv : e.vstatus = some .invalid) :
    ((∃ l, e.verrs = some l ∧ l ≠ []) ∨ (∃ n, e.verrCount = some n ∧ 0 < n))
      ∧ e.schemaName.isSome = true ∧ e.schemaVersion.isSome = true
      ∧ (vProfile a = some .strict ∨ vProfile a = some .standard) ∧ o.errs ≠ [] := by
  rcases validate_cases h with ⟨hb, -, -⟩ | ⟨-, -, p, hp, rfl⟩
  · exact absurd hv (Bypass_not_invalid hb)
  · unfold vResult at hv ⊢
    rw [vPost_vstatus] at hv
    obtain ⟨h1, h2, h3, h4, h5⟩ := vDecide_invalid _ _ _ _ _ _ _ hv (by simp)
    refine ⟨vPost_verrs a o _ _ h1 h2, ?_, ?_, ?_, h2⟩
    · rw [vPost_schemaName]; exact h4
    · rw [vPost_schemaVersion]; exact h5
    · rw [hp]; cases p <;> simp [Profile.downgrades] at h3 ⊢

/-- `valid` is always present and is true exactly when the status is VALIDATED. -/
theorem C10_valid_iff_validate (B : Builtins) (a : VArgs) (o : VOut) (e : Envelope)
    (h : ValidateExec B a o = .ok e) :
    (e.valid = some true ↔ e.vstatus = some .validated) ∧ e.valid.isSome = true := by
  rcases validate_cases h with ⟨hb, hval, -⟩ | ⟨-, -, p, -, rfl⟩
  · rw [hval, hb.1]; simp
  · rw [vResult_vstatus, vResult_valid]
    split <;> (try split) <;> simp

/-- The downgrade of LENIENT / ULTRA is visible: a VALIDATED envelope of a call whose validator reported errors
carries has_warnings = true (whenever the emit stage did not fail, i.e. status = success), also in compact mode. -/
theorem C10_downgrade_flagged_validate (B : Builtins) (a : VArgs) (o : VOut) (e : Envelope)
    (h : ValidateExec B a o = .ok e) (hv : e.vstatus = some .validated) (he : o.errs ≠ [])
    (hemit : (raised o.raises .v_emit || (a.diffOnly && raised o.raises .v_diff)) = false) :
    e.hasWarnings = some true := by
  obtain ⟨hs, -, -⟩ := C10_validated_needs_schema_validate B a o e h hv
  rcases validate_cases h with ⟨hb, -, -⟩ | ⟨-, -, p, -, rfl⟩
  · exact absurd hv (Bypass_not_validated hb)
  · unfold vResult
    exact vPost_hasWarnings a o _ (vDecide_errors_in_warnings _ _ _ _ _ _ _ (by simpa [vHasSchema] using hs) he) hemit

/-- Stability: if a call returned VALIDATED and its canonical text is validated again with the same schema
argument, profile and flags, the answer is VALIDATED again — *given* (hypotheses, which are properties C01 and
C09/C11 of other engines): the canonical text parses (`hparse`), the schema resolves as before (`hsearch`,
`hload`), and the validator's verdict on the canonical text is no worse than on the original (`hverdict`). -/
theorem C10_stable_validate (B : Builtins) (a : VArgs) (o o' : VOut) (e e' : Envelope)
    (h : ValidateExec B a o = .ok e) (hv : e.vstatus = some .validated)
    (hparse : vParseFailure o' = none)
    (hsearch : o'.search = o.search) (hload : raised o'.raises .v_load = raised o.raises .v_load)
    (hverdict : o.errs = [] → o'.errs = [])
    (h' : ValidateExec B { a with hasContent := true, hasFilePath := false } o' = .ok e') :
    e'.vstatus = some .validated := by
  obtain ⟨hs, -, p, hp, herr⟩ := C10_validated_needs_schema_validate B a o e h hv
  have hp' : vProfile { a with hasContent := true, hasFilePath := false } = some p := hp
  have hs' : vHasSchema B { a with hasContent := true, hasFilePath := false } o' = true := by
    simpa [vHasSchema, vBuiltin, vDefn, hsearch, hload] using hs
  rcases validate_cases h' with ⟨-, -, hfire⟩ | ⟨-, -, q, hq, rfl⟩
  · -- no early return is possible: profile valid, content given, parse ok
    exfalso
    obtain ⟨r, hr, hc, -⟩ := firstFiring_some hfire
    simp only [vPreTable, List.mem_cons, List.mem_nil_iff, or_false] at hr
    rcases hr with rfl | rfl | rfl | rfl | rfl | rfl | rfl <;> simp_all
  · rw [hp'] at hq; cases hq
    rw [vResult_vstatus, hs']
    rcases herr with herr | herr | herr
    · simp [hverdict herr]
    · subst herr; simp [Profile.downgrades]
    · subst herr; simp [Profile.downgrades]

/-! ## octave_write -/

/-- What "the named schema was found" means for octave_write (hermetic references included). -/
theorem C10_validated_needs_schema_write (B : Builtins) (a : WArgs) (o : WOut) (e : Envelope)
    (h : WriteExec B a o = .ok e) (hv : e.vstatus = some .validated) :
    ∃ n, a.schemaName = some n ∧ wHasSchema B o n = true ∧ wFinalErrs B a o n = [] := by
  rcases write_cases h with hb | ⟨-, rfl⟩
  · exact absurd hv (Bypass_not_validated hb)
  · rw [wResult_vstatus] at hv
    cases hn : a.schemaName with
    | none => simp [hn] at hv
    | some n =>
      simp only [hn] at hv
      by_cases hs : wHasSchema B o n = true
      · by_cases he : (wFinalErrs B a o n).isEmpty = true
        · exact ⟨n, rfl, hs, by simpa using he⟩
        · simp [hs, he] at hv
      · simp [hs] at hv

/-- No schema argument, or a name that is no builtin key and is malformed / not found / unloadable / without
fields (for `frozen@…` / `latest`: the hermetic resolution fails or yields no fields): UNVALIDATED. -/
theorem C10_unknown_schema_write (B : Builtins) (a : WArgs) (o : WOut) (e : Envelope)
    (h : WriteExec B a o = .ok e)
    (hu : a.schemaName = none ∨ ∃ n, a.schemaName = some n ∧ getBuiltin B n = none ∧
          (if o.isHermeticRef then
             (o.hermetic = .raises ∨ o.hermetic = .notFound ∨ raised o.raises .w_hermetic = true ∨ ∃ m v, o.hermetic = .found m v false)
           else
             (schemaNameOk n = false ∨ o.search = .notFound ∨ o.search = .raises ∨ raised o.raises .w_load = true
               ∨ ∃ m v, o.search = .found m v false))) :
    e.vstatus = some .unvalidated := by
  rcases write_cases h with hb | ⟨-, rfl⟩
  · exact hb.1
  · rw [wResult_vstatus]
    rcases hu with hn | ⟨n, hn, hb, hu⟩
    · simp [hn]
    · have hs : wHasSchema B o n = false := by
        simp only [wHasSchema, wBuiltin, hb, Option.isSome_none, Bool.false_or, wDefn]
        by_cases hh : o.isHermeticRef = true
        · simp only [hh, ↓reduceIte] at hu ⊢
          rcases hu with hu | hu | hu | ⟨m, v, hu⟩
          · split <;> simp [hu, defnOf, defnHasFields]
          · split <;> simp [hu, defnOf, defnHasFields]
          · simp [hu, defnHasFields]
          · split <;> simp [hu, defnOf, defnHasFields]
        · simp only [hh, Bool.false_eq_true, ↓reduceIte] at hu ⊢
          by_cases hl : raised o.raises .w_load = true
          · simp [hl, defnHasFields]
          · simp only [hl, Bool.false_eq_true, ↓reduceIte]
            apply defnHasFields_loadByName_false
            rcases hu with hu | hu | hu | hu | hu
            · exact Or.inl hu
            · exact Or.inr (Or.inl hu)
            · exact Or.inr (Or.inr (Or.inl hu))
            · exact absurd hu hl
            · exact Or.inr (Or.inr (Or.inr hu))
      simp [hn, hs]

/-- A parse failure of the text being written gives UNVALIDATED — *provided* parse_error_policy is not "salvage".
`_partial`: with lenient=true and parse_error_policy="salvage" the tool salvages the text into a document of its
own making and validates that (known finding F100, class `salvage_policy_parse_failure`; negation below). -/
theorem C10_parse_failure_write_partial (B : Builtins) (a : WArgs) (o : WOut) (e : Envelope) (t : Bool)
    (h : WriteExec B a o = .ok e) (hp : o.parse = .fails t) (hs : a.salvage = false) :
    e.vstatus = some .unvalidated := by
  rcases write_cases h with hb | ⟨hpre, -⟩
  · exact hb.1
  · rw [wPre_none_parse hpre hs] at hp; cases hp

/-- F100, negation on the witness: unparseable text, lenient + salvage, builtin schema ⇒ VALIDATED. -/
theorem C10_F100_salvage_overstates :
    ∃ (a : WArgs) (o : WOut) (e : Envelope), a.salvage = true ∧ a.lenient = true ∧ o.parse = .fails false ∧
      WriteExec [("META".toList, { name := some "META".toList, version := some "1.0.0".toList })] a o = .ok e ∧
      e.vstatus = some .validated :=
  ⟨{ schemaName := some "META".toList, lenient := true, salvage := true }, { parse := .fails false },
   _, rfl, rfl, rfl, rfl, by decide⟩

/-- INVALID comes with a non-empty validation_errors list and schema name / version.  (octave_write has no
profile argument: it always behaves like STANDARD with strict=False.) -/
theorem C10_invalid_has_errors_write (B : Builtins) (a : WArgs) (o : WOut) (e : Envelope)
    (h : WriteExec B a o = .ok e) (hv : e.vstatus = some .invalid) :
    (∃ l, e.verrs = some l ∧ l ≠ []) ∧ e.schemaName.isSome = true ∧ e.schemaVersion.isSome = true := by
  rcases write_cases h with hb | ⟨-, rfl⟩
  · exact absurd hv (Bypass_not_invalid hb)
  · unfold wResult at hv ⊢
    cases hn : a.schemaName with
    | none => simp [hn] at hv
    | some n =>
      simp only [hn] at hv ⊢
      obtain ⟨h1, h2, h3, h4⟩ := wDecide_invalid B a o n _ hv (by simp)
      exact ⟨⟨_, h1, h2⟩, h3, h4⟩

/-- octave_write envelopes have no `valid` key, so "valid ⇔ VALIDATED" is vacuous there; it never says true. -/
theorem C10_valid_absent_write (B : Builtins) (a : WArgs) (o : WOut) (e : Envelope)
    (h : WriteExec B a o = .ok e) : e.valid ≠ some true := by
  rcases write_cases h with hb | ⟨-, rfl⟩
  · exact hb.2.1
  · rw [wResult_valid]; simp

/-- Stability for octave_write: writing the canonical text again (content mode) with the same schema argument
and flags reaches the schema block (`hpre'`: no early error — in particular it parses, C01), resolves the schema
as before, the final verdict is no worse (`hverdict`, C09/C11), and the write itself succeeds or is a dry
run (`hpost'`) ⇒ VALIDATED again. -/
theorem C10_stable_write (B : Builtins) (a : WArgs) (o o' : WOut) (e e' : Envelope)
    (h : WriteExec B a o = .ok e) (hv : e.vstatus = some .validated)
    (hpre' : firstFiring (wPreTable a o') = none)
    (hschema : ∀ n, wHasSchema B o' n = wHasSchema B o n)
    (hverdict : ∀ n, wFinalErrs B a o n = [] → wFinalErrs B a o' n = [])
    (hpost' : a.correctionsOnly = true ∨ (raised o'.raises .w_write = false ∧ o'.write = .ok))
    (h' : WriteExec B a o' = .ok e') :
    e'.vstatus = some .validated := by
  obtain ⟨n, hn, hs, he⟩ := C10_validated_needs_schema_write B a o e h hv
  have hres : (wResult B a o').vstatus = some .validated := by
    rw [wResult_vstatus]; simp [hn, hschema, hs, hverdict n he]
  -- the returned envelope is the result (not an error envelope)
  unfold WriteExec at h'
  cases hf : firstFiring (wTable B a o') with
  | none => simp only [hf, Except.ok.injEq] at h'; rw [← h']; exact hres
  | some s =>
    simp only [hf] at h'
    unfold wTable at hf
    rcases firstFiring_append_some hf with h1 | ⟨-, h1⟩
    · rcases firstFiring_append_some h1 with h2 | ⟨-, h2⟩
      · rw [hpre'] at h2; cases h2
      · obtain ⟨r, hr, -, hr2⟩ := firstFiring_some h2
        unfold wSchemaEsc at hr
        simp only [hn] at hr
        cases s with
        | ret x => exact absurd hr2 (wSchemaEscape_no_ret r hr _)
        | escape x => simp [Step.run] at h'
    · -- post table
      simp only [wPostTable, firstFiring] at h1
      by_cases hd : raised o'.raises .w_diff = true
      · simp only [hd, ↓reduceIte, Option.some.injEq] at h1; subst h1; simp [Step.run] at h'
      · simp only [hd, Bool.false_eq_true, ↓reduceIte] at h1
        rcases hpost' with hc | ⟨hw1, hw2⟩
        · simp only [hc, ↓reduceIte, Option.some.injEq] at h1; subst h1
          simp only [Step.run, Except.ok.injEq] at h'; rw [← h']; exact hres
        · by_cases hc : a.correctionsOnly = true
          · simp only [hc, ↓reduceIte, Option.some.injEq] at h1; subst h1
            simp only [Step.run, Except.ok.injEq] at h'; rw [← h']; exact hres
          · simp [hc, hw1, hw2] at h1; subst h1
            simp only [Step.run, Except.ok.injEq] at h'; rw [← h']; exact hres

/-! ## CLI -/

/-- `octave validate`: a status line, when printed, says VALIDATED only if the schema argument is a builtin key
and the (possibly post-repair) error list is empty; exit code 1 whenever the line says INVALID.
`_partial`: the clause needs the stage fact `hnone` — `Validator(schema=None).validate(doc)` returns no
errors — because the post-`--fix` upgrade site is not dominated by a schema-found test (see
`C10_sites_cli_validate_fix_site`); the correspondence harness checks `hnone` on every case. -/
theorem C10_cli_validate_partial (B : Builtins) (a : CVArgs) (o : CVOut) (hnone : o.errsNone = []) :
    let r := CliValidate B a o
    (r.line = some .validated → ∃ n, a.schema = some n ∧ (getBuiltin B n).isSome = true ∧
        (o.errs = [] ∨ (a.fix = true ∧ o.errsAfterFix = []))) ∧
    (r.line = some .invalid → r.exit = 1 ∧ o.errs ≠ []) ∧
    (o.parse ≠ .ok → r.line = none ∧ r.exit = 1) := by
  simp only [CliValidate]
  by_cases hp : (o.parse != .ok) = true
  · have : o.parse ≠ .ok := by simpa using hp
    simp [hp, this]
  · have hok : o.parse = .ok := by simpa using hp
    simp only [hok, ne_eq, not_true_eq_false, false_implies, and_true]
    by_cases hl : (a.schema.isSome && o.loadRaises) = true
    · simp [hl]
    · simp only [hl, Bool.false_eq_true, ↓reduceIte]
      cases hs : a.schema with
      | none => by_cases hr : o.laterRaises = true <;> simp [hr, hnone]
      | some n =>
        cases hb : getBuiltin B n with
        | none => by_cases hr : o.laterRaises = true <;> simp [hb, hr, hnone]
        | some b =>
          by_cases hr : o.laterRaises = true
          · simp [hb, hr]
          · by_cases he : o.errs = []
            · simp [hb, hr, he]
            · by_cases hf : a.fix = true
              · by_cases haf : o.errsAfterFix = [] <;> simp [hb, hr, he, hf, haf]
              · simp [hb, hr, he, hf]

/-- `octave write`: VALIDATED only with a builtin key and no errors; a failed parse prints no status line. -/
theorem C10_cli_write (B : Builtins) (a : CWArgs) (o : CWOut) :
    let r := CliWrite B a o
    (r.line = some .validated → ∃ n, a.schema = some n ∧ (getBuiltin B n).isSome = true ∧ o.errs = []) ∧
    (r.line = some .invalid → o.errs ≠ []) ∧
    (o.parse ≠ .ok → r.line = none ∧ r.exit = 1) := by
  simp only [CliWrite]
  by_cases hv : o.pathValid = true
  · by_cases hp : (o.parse != .ok || o.stageRaises) = true
    · simp [hv, hp]
    · have hok : o.parse = .ok := by
        have : (o.parse != .ok) = false := by
          cases h1 : (o.parse != .ok) <;> simp_all
        simpa using this
      have hsr : o.stageRaises = false := by
        cases h1 : o.stageRaises <;> simp_all
      by_cases hw : o.writeOk = true
      · cases hs : a.schema with
        | none => simp [hv, hsr, hw, hok]
        | some n =>
          cases hb : getBuiltin B n with
          | none => simp [hv, hsr, hw, hok, hb]
          | some b => by_cases he : o.errs = [] <;> simp [hv, hsr, hw, hok, hb, he]
      · simp [hv, hsr, hw, hok]
  · simp [hv]

/-! ## The schema-name gate -/

/-- A name accepted by the gate consists of ASCII upper-case letters, digits and `_` only, apart from one
optional trailing newline (Python's `$`): in particular no `/`, `.`, `\`, lower-case letter or NUL, so the file
names `load_schema_by_name` builds stay inside the search directories. -/
theorem C10_name_gate_chars (s : Str) (h : schemaNameOk s = true) :
    ∀ c ∈ s, isNameBody c = true ∨ c = '\n' := by
  cases s with
  | nil => simp [schemaNameOk] at h
  | cons c rest =>
    simp only [schemaNameOk, Bool.and_eq_true] at h
    intro d hd
    rcases List.mem_cons.mp hd with rfl | hd
    · exact Or.inl (by simp [isNameBody, h.1])
    · exact nameBodyThenEnd_chars rest h.2 d hd

/-- No path separator, dot or lower-case letter passes `isNameBody`. -/
theorem isNameBody_excludes : isNameBody '/' = false ∧ isNameBody '.' = false ∧ isNameBody '\\' = false
    ∧ isNameBody 'a' = false ∧ isNameBody 'z' = false ∧ isNameBody '@' = false ∧ isNameBody ':' = false
    ∧ isNameBody '-' = false ∧ isNameBody ' ' = false ∧ isNameBody (Char.ofNat 0) = false := by decide

/-! ## Facts about the regenerated source data (`decide`; re-proved on every run) -/

open Octave.Gen

/-- The pattern the model's `schemaNameOk` transcribes, and how the loader applies it. -/
theorem gen_schema_name_pattern : schemaNamePatternNorm = "[A-Z][A-Z0-9_]*$" := by decide
theorem gen_schema_name_gate : schemaNameGate = "if not SCHEMA_NAME_PATTERN.match(schema_name): return None" := by decide
theorem gen_get_builtin_is_dict_get : getBuiltinBody = ["return BUILTIN_SCHEMA_DEFINITIONS.get(schema_name)"] := by decide

/-- Every builtin key passes the gate (so a malformed name is never a builtin key). -/
theorem gen_builtin_keys_wellformed : builtinSchemas.all (fun r => schemaNameOk r.1.toList) = true := by decide

theorem gen_profiles : validProfiles = ["LENIENT", "STANDARD", "STRICT", "ULTRA"] ∧ defaultProfile = "STANDARD" := by decide

/-- The model's profile table is the source's: exactly the VALID_PROFILES strings are recognised. -/
theorem gen_profiles_model :
    validProfiles.all (fun p => (profileOfUpper p.toList).isSome) = true
    ∧ profileOfUpper defaultProfile.toList = some .standard := by decide

def statusLits : List String := ["VALIDATED", "UNVALIDATED", "INVALID"]

/-- C10_present on the source: every envelope literal that is returned or initialises a returned variable in
the four tools / their error helpers binds validation_status to one of the three literals. -/
theorem C10_present_sites :
    (envLits.filter (fun l => l.role != "spread-init:zone_extras")).all
      (fun l => l.keys.contains "validation_status" && statusLits.contains l.vs) = true := by decide

/-- Every `return` in those functions returns such a literal, a call to an error helper, or the variable
`result` (which is initialised from such a literal). -/
theorem C10_return_kinds :
    retSites.all (fun r => r.kind == "dict" || r.kind == "helper:_error_envelope" || r.kind == "helper:_error_response"
                           || r.kind == "var:result") = true := by decide

/-- Every returned variable is initialised from a literal with the key, in the same function. -/
theorem C10_result_initialised :
    (retSites.filter (fun r => r.kind == "var:result")).all
      (fun r => envLits.any (fun l => l.tool == r.tool && l.func == r.func && l.role == "init:result"
                                      && statusLits.contains l.vs)) = true := by decide

/-- Nothing deletes or overwrites keys of an envelope variable other than by `var["literal"] = …`, and the
dictionaries spread into eject's envelopes never carry a decision key. -/
theorem C10_no_other_mutation :
    otherMutations = [] ∧
    (envLits.all fun l => l.spreads.all fun v => v == "zone_extras") = true ∧
    (storedKeys.filter (fun r => r.2.2.1 == "zone_extras")).all
      (fun r => !(r.2.2.2.contains "validation_status" || r.2.2.2.contains "valid" || r.2.2.2.contains "status")) = true := by
  decide

/-- Every assignment to validation_status assigns one of the three literals. -/
theorem C10_sites_literals :
    (assignSites.filter (fun s => s.key == "validation_status")).all (fun s => statusLits.contains s.lit) = true := by decide

/-- C10_sites: in the MCP tools every site assigning "VALIDATED" or "INVALID" is dominated by the positive
test `has_schema`. -/
theorem C10_sites :
    (assignSites.filter (fun s => s.key == "validation_status" && (s.tool == "validate" || s.tool == "write")
                                   && (s.lit == "VALIDATED" || s.lit == "INVALID"))).all
      (fun s => s.guards.contains "has_schema") = true := by decide

/-- … INVALID sites additionally by a non-empty error list (`validation_errors`, or `blocking_errors` in the shape
of fix F37), and no site in the tools assigns validation_status outside these (the initial UNVALIDATED comes from
the literal). -/
theorem C10_sites_invalid_needs_errors :
    (assignSites.filter (fun s => s.key == "validation_status" && s.lit == "INVALID")).all
      (fun s => s.guards.contains "validation_errors" || s.guards.contains "blocking_errors") = true := by decide

/-- `valid` is assigned only next to validation_status, in the same block, and with the matching value. -/
theorem C10_sites_valid_paired :
    (assignSites.filter (fun s => s.key == "valid")).all
      (fun s => assignSites.any (fun t => t.key == "validation_status" && t.tool == s.tool && t.block == s.block
                  && ((t.lit == "VALIDATED" && s.lit == "True") || (t.lit != "VALIDATED" && s.lit == "False")))) = true
    ∧ (assignSites.filter (fun s => s.key == "validation_status" && s.tool == "validate")).all
      (fun t => assignSites.any (fun s => s.key == "valid" && s.tool == t.tool && s.block == t.block)) = true := by decide

/-- The envelope literals of validate pair UNVALIDATED with valid = False. -/
theorem C10_literals_valid_paired :
    (envLits.filter (fun l => l.tool == "validate")).all (fun l => l.vs == "UNVALIDATED" && l.valid == "False") = true
    ∧ (envLits.filter (fun l => l.tool != "validate")).all (fun l => l.valid == "") = true := by decide

/-- CLI: the VALIDATED / INVALID sites of `octave validate` / `octave write` are dominated by
`schema_def is not None`, **except one**: the upgrade after `--fix`, which only tests `schema` (truthy) and the
emptiness of the re-validation.  That site is reachable only when the first validation produced errors, which
today implies a builtin schema was found (see `C10_cli_validate_partial`). -/
theorem C10_sites_cli :
    (assignSites.filter (fun s => (s.tool == "cli_validate" || s.tool == "cli_write")
                                   && (s.lit == "VALIDATED" || s.lit == "INVALID")
                                   && !(s.guards.contains "schema_def is not None"))).map (fun s => (s.tool, s.lit, s.guards)) =
      [("cli_validate", "VALIDATED", ["fix and validation_errors", "schema", "not validation_errors"])] := by decide

/-- The stages whose failure the model turns into an UNVALIDATED error envelope (parse, read, load, emit, write
…) are inside an `except Exception` guard in the source, and every other stage has the guard the model assumes:
dropping or narrowing a `try` in an execute() body breaks this fact. -/
theorem C10_guards_model : Stage.all.all (stageGuardAgrees callSites) = true := guards_model

/-! ## Non-vacuity -/

def B0 : Builtins := [("META".toList, { name := some "META".toList, version := some "1.0.0".toList })]

/-- VALIDATED is reachable (builtin schema, no errors) … -/
example : (ValidateExec B0 { schemaName := "META".toList } {}).toOption.map (·.vstatus) = some (some .validated) := by decide
/-- … INVALID too (STANDARD, one error), with compact mode turning the list into a count … -/
example : (ValidateExec B0 { schemaName := "META".toList, compact := true } { errs := [⟨"E003".toList⟩] }).toOption.map (fun e => (e.vstatus, e.verrs, e.verrCount, e.valid)) = some (some .invalid, some [], some 1, some false) := by decide
/-- … LENIENT downgrades the same errors … -/
example : (ValidateExec B0 { schemaName := "META".toList, profileUp := some "LENIENT".toList } { errs := [⟨"E003".toList⟩] }).toOption.map (fun e => (e.vstatus, e.hasWarnings)) = some (some .validated, some true) := by decide
/-- … a schema file with fields validates, one without fields does not, a path-like name never does. -/
example : (ValidateExec B0 { schemaName := "GEN".toList } { search := .found "GEN".toList none true }).toOption.map (fun e => (e.vstatus, e.schemaVersion)) = some (some .validated, some "unknown".toList) := by decide
example : (ValidateExec B0 { schemaName := "GEN".toList } { search := .found "GEN".toList none false }).toOption.map (·.vstatus)
    = some (some .unvalidated) := by decide
example : (ValidateExec B0 { schemaName := "../X".toList } { search := .found "X".toList none true }).toOption.map (·.vstatus)
    = some (some .unvalidated) := by decide
/-- hypotheses of C10_stable_validate are satisfiable with a non-trivial instance -/
example : (ValidateExec B0 { schemaName := "META".toList, fix := true } { errs := [] }).toOption.map (·.vstatus) = some (some .validated)
    ∧ vParseFailure {} = none
    ∧ (ValidateExec B0 { schemaName := "META".toList, fix := true, hasContent := true, hasFilePath := false } {}).toOption.map (·.vstatus)
      = some (some .validated) := by decide
/-- octave_write: INVALID carries the final error list; lenient repair can turn it into VALIDATED. -/
example : (WriteExec B0 { schemaName := some "META".toList } { errs0 := [⟨"E005".toList⟩] }).toOption.map (fun e => (e.vstatus, e.verrs)) = some (some .invalid, some [⟨"E005".toList⟩]) := by decide
example : (WriteExec B0 { schemaName := some "META".toList, lenient := true } { errs0 := [⟨"E005".toList⟩], didRepair := true, errs1 := [] }).toOption.map (·.vstatus) = some (some .validated) := by decide
/-- a failed write after a successful validation reports UNVALIDATED (error envelope) -/
example : (WriteExec B0 { schemaName := some "META".toList } { write := .other }).toOption.map (fun e => (e.status, e.vstatus))
    = some (some .error, some .unvalidated) := by decide
/-- CLI: hypothesis `hnone` satisfiable, INVALID exits 1 -/
example : CliValidate B0 { schema := some "META".toList } { errs := [⟨"E003".toList⟩] } = ⟨1, some .invalid⟩ := by decide
/-- the gate: accepts `META`, and (Python `$`) `META\n`; rejects lower case, path-like, empty, leading digit. -/
example : schemaNameOk "META".toList = true ∧ schemaNameOk "META\n".toList = true ∧ schemaNameOk "meta".toList = false
    ∧ schemaNameOk "../X".toList = false ∧ schemaNameOk "".toList = false ∧ schemaNameOk "1A".toList = false
    ∧ schemaNameOk "A\nB".toList = false ∧ schemaNameOk "A\n\n".toList = false := by decide

end Octave.C10
