/-
C20 (tools clause) — every MCP tool call with well-typed arguments returns an envelope instead of raising.

Over the model `Octave.Model.Tools` and the guard coverage regenerated from the source (`Gen.Guards`: for
every call expression in each `execute()` body, is it lexically inside a `try` whose handlers catch
`Exception`?):

* `C20_guards_model`       (decide)  the guard the model hard-wires for each of its stages is the guard the
                                     source gives the corresponding call site today;
* `C20_guards_classified`  (decide)  every call site of the four `execute()` bodies that is *not* inside an
                                     `except Exception` guard is a stage of the model, or is on the explicit list
                                     of calls that are total on well-typed values / folded into a neighbouring
                                     stage (trusted by inspection, listed below) — a new unguarded call breaks it;
* `C20_tools_total_partial`          whatever the arguments and the stage outcomes: if every stage that raises
                                     is absorbed by its guard, `toolExec` returns an envelope (never `.error`);
                                     conversely (`C20_escape_only_unguarded`) an escaping exception always comes
                                     from a stage whose guard does not absorb it;
* `C20_eject_json_raises_F52`        the negation on the F33 witness: octave_eject(format=json) lets the
                                     exception of its unguarded `json.dumps` stage escape.

`_partial`: the full statement "`toolExec args` always returns an envelope" is **false today** — 38 stages
are unguarded and 3 only narrowly guarded (`unguardedStages`), so totality rests on those stages being exception-free, which for
`e_jsonDumps` is refuted on the real code (F33, fixed since; F52: an AST value inside a nested META block reaches
json.dumps).
-/
import Octave.Lemmas.Tools
import Octave.Lemmas.Guards
import Octave.Lemmas.Totality
namespace Octave.C20tools
open Octave.Tools

/-! ## Tie to the regenerated guard coverage -/

open Octave.Gen

/-- The guard each model stage assumes is the guard of its call site in today's source. -/
theorem C20_guards_model : Stage.all.all (stageGuardAgrees callSites) = true := guards_model

/-- Calls that are not modelled as separately failing stages.  `total`: builtins, methods of str / dict / list
values whose type is fixed by the surrounding code, dataclass constructors, the tools' own envelope helpers.
`folded`: part of a neighbouring model stage (raises exactly when that stage is said to raise). -/
def totalCalls : List String :=
  ["', '.join", "FieldDefinition", "GBNFCompiler", "HolographicPattern", "LiteralZoneRepairLog",
   "LiteralZoneRepairLog(entries=[]).to_dict", "Path", "SchemaDefinition", "Validator", "_compilation_rule_map.get",
   "_extract_spec_code", "bool", "c.get", "compilations.append", "corrections.append", "corrections.extend",
   "current.lower", "doc.meta.get", "field_spec.get", "fields.items", "hasattr", "isinstance", "len", "meta_schema.get",
   "params.get", "parse_input.strip", "path.exists", "profile_raw.upper", "result.get", "result['corrections'].append",
   "result['errors'].append", "result['repairs'].extend", "result['warnings'].extend", "schema_def.get",
   "schema_definition.fields.items", "schema_name.startswith", "self._error_envelope", "self._error_response", "sorted",
   "str", "type", "v.lower",
   -- raises only when a *required* argument is missing, i.e. on ill-typed calls
   "self.validate_parameters"]

def foldedCalls : List (String × String) :=
  [("chain.to_string", "v_debug / w_debug"), ("entry.to_dict", "v_repair"), ("extract_structural_metrics", "w_baselineMetrics / w_reemit1"),
   ("parse_with_warnings", "w_baselineMetrics (fallback inside the narrow handler)"), ("re.search", "w_detect"),
   ("self._compute_hash", "w_diff"), ("self._generate_diff", "w_diff"),
   ("self._validate_path", "own try/except inside (validate tool)")]

def isStageSite (c : CallSite) : Bool :=
  Stage.all.any (fun s => s.site.1 == c.tool && s.site.2.1 == c.call && s.site.2.2 == c.idx)

/-- Every call site outside an `except Exception` guard is a model stage or on the lists above. -/
theorem C20_guards_classified :
    (callSites.filter (fun c => c.guard != "Exception")).all
      (fun c => isStageSite c || totalCalls.contains c.call || foldedCalls.any (fun f => f.1 == c.call)) = true := by
  decide +kernel

/-- The only explicit `raise` in the four execute() bodies re-raises inside the guarded WRITE FILE block. -/
theorem C20_raise_sites : raiseSites = [("write", "Exception", true, "raise")] := by decide

/-! ## Totality over the model -/

/-- **C20_tools_total (partial).**  For every tool, all arguments and all stage outcomes: if each stage's raise
(if any) is absorbed by the guard around it, the tool returns an envelope.
Missing for the full statement: the unguarded stages (`unguardedStages`) must be shown exception-free on
well-typed arguments; `e_jsonDumps` is not (F52; F33 until 45b8e9f). -/
theorem C20_tools_total_partial (B : Builtins) (c : Call)
    (habs : ∀ s : Stage, s.guard.absorbs (c.raises s) = true) : ∃ e, toolExec B c = .ok e := by
  obtain ⟨t, dflt, hs, heq⟩ := toolExec_eq B c
  rw [heq]; exact run_ok_of_sound hs habs dflt

/-- Corollary in terms of the guards found in the source: it is enough that only stages whose call site is
inside an `except Exception` guard raise (narrowly guarded stages may raise their own error type). -/
theorem C20_tools_total_guarded_partial (B : Builtins) (c : Call)
    (h : ∀ s : Stage, c.raises s ≠ .no → s.guard = .exc ∨ (s.guard = .narrow ∧ c.raises s = .narrow)) :
    ∃ e, toolExec B c = .ok e := by
  apply C20_tools_total_partial
  intro s
  cases hr : c.raises s with
  | no => cases s.guard <;> rfl
  | narrow =>
    rcases h s (by rw [hr]; decide) with hg | ⟨hg, -⟩ <;> rw [hg] <;> rfl
  | other =>
    rcases h s (by rw [hr]; decide) with hg | ⟨-, hk⟩
    · rw [hg]; rfl
    · rw [hr] at hk; cases hk

/-- An exception escaping a tool always originates in a stage whose guard does not absorb it. -/
theorem C20_escape_only_unguarded (B : Builtins) (c : Call) (s : Stage) (h : toolExec B c = .error (.py s)) :
    s.guard.absorbs (c.raises s) = false := by
  obtain ⟨t, dflt, hs, heq⟩ := toolExec_eq B c
  rw [heq] at h; exact escape_of_sound hs dflt s h

/-- and every returned envelope carries validation_status (so "status or validation_status" holds). -/
theorem C20_envelope_has_status (B : Builtins) (c : Call) (e : Envelope) (h : toolExec B c = .ok e) :
    e.vstatus.isSome = true := by
  cases c with
  | validate a o =>
    rcases validate_cases h with ⟨hb, -, -⟩ | ⟨-, -, p, -, rfl⟩
    · rw [hb.1]; rfl
    · rw [vResult_vstatus]; split <;> (try split) <;> rfl
  | write a o =>
    rcases write_cases h with hb | ⟨-, rfl⟩
    · rw [hb.1]; rfl
    · rw [wResult_vstatus]; split <;> (try split) <;> (try split) <;> rfl
  | eject a o => rw [eject_cases h]; rfl
  | grammar a o => rcases grammar_cases h with rfl | ⟨c, rfl⟩ <;> rfl

/-- The stages on which totality rests today (no guard, or only a narrow one). -/
def unguardedStages : List Stage := Stage.all.filter (fun s => s.guard != .exc)

theorem unguardedStages_count : unguardedStages.length = 41 := by decide

/-! ## F33 / F52: the negation on the witness -/

/-- Known-finding class on the abstract call: octave_eject with format = json whose `json.dumps` stage raises.
On the real code two input classes forced that outcome: the projected document holds a HolographicValue (F33,
**fixed** in /repo 45b8e9f), or META holds a nested block with a list / inline-map / holographic / literal-zone
value (F52, open); the Python class predicates are `eject_json_holographic` and `eject_json_meta_nested_block`
(tools/harness/tools_total.py). -/
def KF_eject_json_dumps (c : Call) : Prop :=
  ∃ a o, c = .eject a o ∧ a.hasContent = true ∧ a.format = .json ∧ o.raises .e_jsonDumps ≠ .no

/-- `C20_tools_total` is false today: when json.dumps raises (F52 inputs) the tool raises instead of returning. -/
theorem C20_eject_json_raises_F52 (B : Builtins) :
    ∃ c, KF_eject_json_dumps c ∧ (∀ s, s ≠ .e_jsonDumps → c.raises s = .no) ∧ toolExec B c = .error (.py .e_jsonDumps) := by
  refine ⟨.eject { format := .json } { raises := fun s => if s = .e_jsonDumps then .other else .no }, ?_, ?_, ?_⟩
  · exact ⟨_, _, rfl, rfl, rfl, by decide⟩
  · intro s hs; simp [Call.raises, hs]
  · rfl

/-! ## Non-vacuity -/

/-- the hypothesis of C20_tools_total_partial is satisfiable with raising stages: parse fails (guarded) in
every tool → envelopes -/
example : (toolExec [] (.validate { schemaName := "X".toList } { raises := fun s => if s = .v_parse then .other else .no })).toOption.map
    (fun e => (e.status, e.vstatus)) = some (some .error, some .unvalidated) := by decide
example : (toolExec [] (.eject {} { raises := fun s => if s = .e_parse then .other else .no })).toOption.map (·.vstatus)
    = some (some .unvalidated) := by decide
example : ∀ s : Stage, s ∈ Stage.all → s.guard.absorbs ((fun s => if s = Stage.v_parse then Raise.other else Raise.no) s) = true := by decide
/-- a narrowly guarded stage absorbs its own error type but not others -/
example : (toolExec [] (.write {} { fileExists := true, baselineNonEmpty := true, raises := fun s => if s = .w_baselineMetrics then .narrow else .no })).toOption.map (·.vstatus) = some (some .unvalidated) := by decide
example : (toolExec [] (.write {} { fileExists := true, baselineNonEmpty := true, raises := fun s => if s = .w_baselineMetrics then .other else .no })).toOption = none := by decide
/-- every stage is listed in `Stage.all` -/
example : Stage.all.length = 66 := by decide

end Octave.C20tools
