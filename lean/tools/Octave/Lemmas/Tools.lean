/-
Helper lemmas for the `tools` engine (decision tables, case analysis of the four `…Exec` functions).
Property theorems live in Props/C10.lean and Props/C20tools.lean.
-/
import Octave.Model.Tools
namespace Octave.Tools

/-! ### first-match tables -/

theorem firstFiring_none {t : List (Bool × Step)} : firstFiring t = none ↔ ∀ r ∈ t, r.1 = false := by
  induction t with
  | nil => simp [firstFiring]
  | cons r rest ih =>
    obtain ⟨c, s⟩ := r
    cases c <;> simp [firstFiring, ih]

theorem firstFiring_some {t : List (Bool × Step)} {s : Step} (h : firstFiring t = some s) :
    ∃ r ∈ t, r.1 = true ∧ r.2 = s := by
  induction t with
  | nil => simp [firstFiring] at h
  | cons r rest ih =>
    obtain ⟨c, s'⟩ := r
    cases c
    · simp only [firstFiring, Bool.false_eq_true, ↓reduceIte] at h
      obtain ⟨r, hr, h1, h2⟩ := ih h
      exact ⟨r, List.mem_cons_of_mem _ hr, h1, h2⟩
    · simp only [firstFiring, ↓reduceIte, Option.some.injEq] at h
      exact ⟨(true, s'), List.mem_cons_self, rfl, h⟩

theorem firstFiring_append (t1 t2 : List (Bool × Step)) :
    firstFiring (t1 ++ t2) = match firstFiring t1 with | some s => some s | none => firstFiring t2 := by
  induction t1 with
  | nil => simp [firstFiring]
  | cons r rest ih =>
    obtain ⟨c, s⟩ := r
    cases c <;> simp [firstFiring, ih]

theorem firstFiring_append_none {t1 t2 : List (Bool × Step)} (h : firstFiring (t1 ++ t2) = none) :
    firstFiring t1 = none ∧ firstFiring t2 = none := by
  rw [firstFiring_append] at h
  cases h1 : firstFiring t1 with
  | some s => simp [h1] at h
  | none => simp only [h1] at h; exact ⟨rfl, h⟩

/-- If the table fires, the fired row is in the table with a true condition and every earlier … (we only
need membership). -/
theorem firstFiring_append_some {t1 t2 : List (Bool × Step)} {s : Step} (h : firstFiring (t1 ++ t2) = some s) :
    firstFiring t1 = some s ∨ (firstFiring t1 = none ∧ firstFiring t2 = some s) := by
  rw [firstFiring_append] at h
  cases h1 : firstFiring t1 with
  | some s' => simp only [h1, Option.some.injEq] at h; exact Or.inl (by rw [h])
  | none => simp only [h1] at h; exact Or.inr ⟨rfl, h⟩

/-! ### envelopes that claim nothing -/

/-- UNVALIDATED, not flagged valid, no schema recorded. -/
def Envelope.Bypass (e : Envelope) : Prop :=
  e.vstatus = some .unvalidated ∧ e.valid ≠ some true ∧ e.schemaName = none ∧ e.schemaVersion = none

theorem Bypass_not_validated {e : Envelope} (h : e.Bypass) : e.vstatus ≠ some .validated := by
  rw [h.1]; decide

theorem Bypass_not_invalid {e : Envelope} (h : e.Bypass) : e.vstatus ≠ some .invalid := by
  rw [h.1]; decide

/-! ### loader gate -/

/-- A malformed name, a miss, a raising load or a schema without fields never counts as "has fields". -/
theorem defnHasFields_loadByName_false (n : Str) (s : Lookup)
    (h : schemaNameOk n = false ∨ s = .notFound ∨ s = .raises ∨ ∃ m v, s = .found m v false) :
    defnHasFields (defnOf (loadByName n s)) = false := by
  unfold loadByName
  by_cases hn : schemaNameOk n = true
  · rcases h with h | h | h | ⟨m, v, h⟩
    · rw [h] at hn; cases hn
    · simp [hn, h, defnOf, defnHasFields]
    · simp [hn, h, defnOf, defnHasFields]
    · simp [hn, h, defnOf, defnHasFields]
  · simp [hn, defnOf, defnHasFields]

/-! ### loader gate: characters of an accepted name -/

theorem nameBodyThenEnd_chars : ∀ (s : Str), nameBodyThenEnd s = true →
    ∀ c ∈ s, isNameBody c = true ∨ c = '\n'
  | [], _ => by simp
  | [c], h => by
    intro d hd
    simp only [List.mem_cons, List.mem_nil_iff, or_false] at hd; subst hd
    simp only [nameBodyThenEnd, Bool.or_eq_true, beq_iff_eq] at h
    rcases h with h | h
    · exact Or.inr h
    · exact Or.inl h
  | c :: c2 :: rest, h => by
    intro d hd
    simp only [nameBodyThenEnd, Bool.and_eq_true] at h
    rcases List.mem_cons.mp hd with rfl | hd
    · exact Or.inl h.1
    · exact nameBodyThenEnd_chars (c2 :: rest) h.2 d hd

/-! ### recordSchema -/

theorem recordSchema_vstatus (b : Option Builtin) (d : Option (Str × Option Str × Bool)) (n : Str) (r : Envelope) :
    (recordSchema b d n r).vstatus = r.vstatus := by
  unfold recordSchema; split <;> rfl

theorem recordSchema_valid (b : Option Builtin) (d : Option (Str × Option Str × Bool)) (n : Str) (r : Envelope) :
    (recordSchema b d n r).valid = r.valid := by
  unfold recordSchema; split <;> rfl

theorem recordSchema_verrs (b : Option Builtin) (d : Option (Str × Option Str × Bool)) (n : Str) (r : Envelope) :
    (recordSchema b d n r).verrs = r.verrs := by
  unfold recordSchema; split <;> rfl

theorem recordSchema_warnings (b : Option Builtin) (d : Option (Str × Option Str × Bool)) (n : Str) (r : Envelope) :
    (recordSchema b d n r).warnings = r.warnings := by
  unfold recordSchema; split <;> rfl

theorem recordSchema_present (b : Option Builtin) (d : Option (Str × Option Str × Bool)) (n : Str) (r : Envelope)
    (h : (b.isSome || defnHasFields d) = true) :
    (recordSchema b d n r).schemaName.isSome = true ∧ (recordSchema b d n r).schemaVersion.isSome = true := by
  unfold recordSchema
  cases b with
  | some b => simp
  | none =>
    cases d with
    | some t => obtain ⟨n', v, f⟩ := t; simp
    | none => simp [defnHasFields] at h

/-! ### validate -/

theorem vPre_ret {a : VArgs} {o : VOut} :
    ∀ r ∈ vPreTable a o, ∀ e, r.2 = Step.ret e → e.Bypass ∧ e.valid = some false := by
  intro r hr
  simp only [vPreTable, List.mem_cons, List.mem_nil_iff, or_false] at hr
  rcases hr with rfl | rfl | rfl | rfl | rfl | rfl | rfl <;> intro e he <;> cases he <;>
    simp [Envelope.Bypass, vErrorEnvelope, vParseFailEnvelope]

theorem vEscape_no_ret {B : Builtins} {a : VArgs} {o : VOut} :
    ∀ r ∈ vEscapeTable B a o, ∀ e, r.2 ≠ Step.ret e := by
  intro r hr
  simp only [vEscapeTable, List.mem_cons, List.mem_nil_iff, or_false] at hr
  rcases hr with rfl | rfl | rfl | rfl | rfl | rfl | rfl <;> intro e he <;> cases he

/-- A returned envelope of `ValidateExec` is either one of the early error envelopes (all of them
bypass envelopes) or the main-path envelope `vResult`. -/
theorem validate_cases {B : Builtins} {a : VArgs} {o : VOut} {e : Envelope} (h : ValidateExec B a o = .ok e) :
    (e.Bypass ∧ e.valid = some false ∧ firstFiring (vPreTable a o) = some (.ret e)) ∨
    (firstFiring (vPreTable a o) = none ∧ firstFiring (vEscapeTable B a o) = none ∧
      ∃ p, vProfile a = some p ∧ e = vResult B a o p) := by
  unfold ValidateExec at h
  rw [firstFiring_append] at h
  cases hp : firstFiring (vPreTable a o) with
  | some s =>
    simp only [hp] at h
    cases s with
    | ret e' =>
      simp only [Step.run, Except.ok.injEq] at h; subst h
      obtain ⟨r, hr, -, h2⟩ := firstFiring_some hp
      exact Or.inl ⟨(vPre_ret r hr _ h2).1, (vPre_ret r hr _ h2).2, rfl⟩
    | escape s => simp [Step.run] at h
  | none =>
    simp only [hp] at h
    cases he : firstFiring (vEscapeTable B a o) with
    | some s =>
      simp only [he] at h
      cases s with
      | ret e' =>
        obtain ⟨r, hr, -, h2⟩ := firstFiring_some he
        exact absurd h2 (vEscape_no_ret r hr _)
      | escape s => simp [Step.run] at h
    | none =>
      simp only [he, Except.ok.injEq] at h
      refine Or.inr ⟨rfl, rfl, ?_⟩
      have h1 := (firstFiring_none.mp hp) ((vProfile a).isNone, _) (List.mem_cons_self)
      cases hv : vProfile a with
      | none => simp [hv] at h1
      | some p => exact ⟨p, rfl, by simpa [hv] using h.symm⟩

/-- When the pre-table does not fire the content was parsed. -/
theorem vPre_none_parse {a : VArgs} {o : VOut} (h : firstFiring (vPreTable a o) = none) : o.parse = .ok := by
  have h1 := (firstFiring_none.mp h)
    ((vParseFailure o).isSome, .ret (vParseFailEnvelope ((vParseFailure o).getD false) a.compact)) (by simp [vPreTable])
  cases hp : o.parse with
  | ok => rfl
  | fails t => simp [vParseFailure, hp] at h1

/-- status / valid / schema fields of the has_schema block. -/
theorem vDecide_vstatus (p : Profile) (b : Option Builtin) (d : Option (Str × Option Str × Bool)) (n : Str)
    (errs en : List VErr) (r : Envelope) :
    (vDecide p b d n errs en r).vstatus =
      if b.isSome || defnHasFields d then
        (if errs.isEmpty || p.downgrades then some .validated else some .invalid)
      else r.vstatus := by
  unfold vDecide
  by_cases hs : (b.isSome || defnHasFields d) = true
  · simp only [hs, ↓reduceIte]
    by_cases he : errs.isEmpty = true
    · simp [he]
    · by_cases hd : p.downgrades = true <;> simp [he, hd]
  · simp [hs]

theorem vDecide_valid (p : Profile) (b : Option Builtin) (d : Option (Str × Option Str × Bool)) (n : Str)
    (errs en : List VErr) (r : Envelope) :
    (vDecide p b d n errs en r).valid =
      if b.isSome || defnHasFields d then
        (if errs.isEmpty || p.downgrades then some true else some false)
      else r.valid := by
  unfold vDecide
  by_cases hs : (b.isSome || defnHasFields d) = true
  · simp only [hs, ↓reduceIte]
    by_cases he : errs.isEmpty = true
    · simp [he]
    · by_cases hd : p.downgrades = true <;> simp [he, hd]
  · simp [hs]

theorem vDecide_invalid (p : Profile) (b : Option Builtin) (d : Option (Str × Option Str × Bool)) (n : Str)
    (errs en : List VErr) (r : Envelope)
    (h : (vDecide p b d n errs en r).vstatus = some .invalid) (hr : r.vstatus ≠ some .invalid) :
    (vDecide p b d n errs en r).verrs = some errs ∧ errs ≠ [] ∧ p.downgrades = false
      ∧ (vDecide p b d n errs en r).schemaName.isSome = true ∧ (vDecide p b d n errs en r).schemaVersion.isSome = true := by
  unfold vDecide at h ⊢
  by_cases hs : (b.isSome || defnHasFields d) = true
  · simp only [hs, ↓reduceIte] at h ⊢
    by_cases he : errs.isEmpty = true
    · simp [he] at h
    · by_cases hd : p.downgrades = true
      · simp [he, hd] at h
      · have hne : errs ≠ [] := by intro h0; simp [h0] at he
        simp only [he, hd, Bool.false_eq_true, ↓reduceIte]
        exact ⟨trivial, hne, trivial, (recordSchema_present b d n r hs).1, (recordSchema_present b d n r hs).2⟩
  · simp [hs] at h; exact absurd h hr

/-- The post-processing (hint, repair warnings, emit, compact, has_warnings) never touches the decision
fields. -/
theorem vPost_vstatus (a : VArgs) (o : VOut) (r : Envelope) : (vPost a o r).vstatus = r.vstatus := by
  unfold vPost vFinish
  by_cases h1 : (r.vstatus == some .invalid && a.grammarHint && (vDefn a o).isSome) = true <;>
  by_cases h2 : a.fix = true <;>
  by_cases h3 : (raised o.raises .v_emit || (a.diffOnly && raised o.raises .v_diff)) = true <;>
  by_cases h4 : a.compact = true <;> simp only [h1, h2, h3, h4, ↓reduceIte, Bool.false_eq_true]

theorem vPost_valid (a : VArgs) (o : VOut) (r : Envelope) : (vPost a o r).valid = r.valid := by
  unfold vPost vFinish
  by_cases h1 : (r.vstatus == some .invalid && a.grammarHint && (vDefn a o).isSome) = true <;>
  by_cases h2 : a.fix = true <;>
  by_cases h3 : (raised o.raises .v_emit || (a.diffOnly && raised o.raises .v_diff)) = true <;>
  by_cases h4 : a.compact = true <;> simp only [h1, h2, h3, h4, ↓reduceIte, Bool.false_eq_true]

theorem vPost_schemaName (a : VArgs) (o : VOut) (r : Envelope) : (vPost a o r).schemaName = r.schemaName := by
  unfold vPost vFinish
  by_cases h1 : (r.vstatus == some .invalid && a.grammarHint && (vDefn a o).isSome) = true <;>
  by_cases h2 : a.fix = true <;>
  by_cases h3 : (raised o.raises .v_emit || (a.diffOnly && raised o.raises .v_diff)) = true <;>
  by_cases h4 : a.compact = true <;> simp only [h1, h2, h3, h4, ↓reduceIte, Bool.false_eq_true]

theorem vPost_schemaVersion (a : VArgs) (o : VOut) (r : Envelope) : (vPost a o r).schemaVersion = r.schemaVersion := by
  unfold vPost vFinish
  by_cases h1 : (r.vstatus == some .invalid && a.grammarHint && (vDefn a o).isSome) = true <;>
  by_cases h2 : a.fix = true <;>
  by_cases h3 : (raised o.raises .v_emit || (a.diffOnly && raised o.raises .v_diff)) = true <;>
  by_cases h4 : a.compact = true <;> simp only [h1, h2, h3, h4, ↓reduceIte, Bool.false_eq_true]

/-- A non-empty validation_errors list survives as the list itself or, in compact mode, as a positive count. -/
theorem vPost_verrs (a : VArgs) (o : VOut) (r : Envelope) (l : List VErr) (h : r.verrs = some l) (hl : l ≠ []) :
    (∃ l', (vPost a o r).verrs = some l' ∧ l' ≠ []) ∨ (∃ n, (vPost a o r).verrCount = some n ∧ 0 < n) := by
  unfold vPost vFinish
  by_cases h1 : (r.vstatus == some .invalid && a.grammarHint && (vDefn a o).isSome) = true <;>
  by_cases h2 : a.fix = true <;>
  by_cases h3 : (raised o.raises .v_emit || (a.diffOnly && raised o.raises .v_diff)) = true <;>
  by_cases h4 : a.compact = true <;> simp only [h1, h2, h3, h4, ↓reduceIte, Bool.false_eq_true] <;>
  first
    | exact Or.inl ⟨l, h, hl⟩
    | (refine Or.inr ⟨l.length, ?_, List.length_pos_iff.mpr hl⟩; simp [h])

/-- If the emit stage succeeds, non-empty warnings are flagged: has_warnings = true (also in compact mode, where
the list itself is replaced by its count). -/
theorem vPost_hasWarnings (a : VArgs) (o : VOut) (r : Envelope) (hw : r.warnings ≠ [])
    (hemit : (raised o.raises .v_emit || (a.diffOnly && raised o.raises .v_diff)) = false) :
    (vPost a o r).hasWarnings = some true := by
  have hpos : 0 < r.warnings.length := List.length_pos_iff.mpr hw
  unfold vPost vFinish
  by_cases h1 : (r.vstatus == some .invalid && a.grammarHint && (vDefn a o).isSome) = true <;>
  by_cases h2 : a.fix = true <;>
  by_cases h4 : a.compact = true <;>
  simp only [h1, h2, hemit, h4, ↓reduceIte, Bool.false_eq_true] <;>
  simp [List.length_append] <;> omega

/-- With a schema and a non-empty error list the has_schema block always leaves the errors in `warnings`
(downgraded under LENIENT/ULTRA, duplicated "for backward compatibility" under STRICT/STANDARD). -/
theorem vDecide_errors_in_warnings (p : Profile) (b : Option Builtin) (d : Option (Str × Option Str × Bool)) (n : Str)
    (errs en : List VErr) (r : Envelope) (hs : (b.isSome || defnHasFields d) = true) (he : errs ≠ []) :
    (vDecide p b d n errs en r).warnings ≠ [] := by
  unfold vDecide
  have he' : errs.isEmpty = false := by cases errs <;> simp_all
  by_cases hd : p.downgrades = true <;> simp [hs, he', hd, recordSchema_warnings, he]

theorem vResult_vstatus (B : Builtins) (a : VArgs) (o : VOut) (p : Profile) :
    (vResult B a o p).vstatus =
      if vHasSchema B a o then (if o.errs.isEmpty || p.downgrades then some .validated else some .invalid)
      else some .unvalidated := by
  unfold vResult
  simp only [vPost_vstatus, vDecide_vstatus, vHasSchema]
  rfl

theorem vResult_valid (B : Builtins) (a : VArgs) (o : VOut) (p : Profile) :
    (vResult B a o p).valid =
      if vHasSchema B a o then (if o.errs.isEmpty || p.downgrades then some true else some false)
      else some false := by
  unfold vResult
  simp only [vPost_valid, vDecide_valid, vHasSchema]
  rfl

/-! ### write -/

theorem wPre_ret {a : WArgs} {o : WOut} :
    ∀ r ∈ wPreTable a o, ∀ e, r.2 = Step.ret e → e.Bypass := by
  intro r hr
  simp only [wPreTable, List.mem_cons, List.mem_nil_iff, or_false] at hr
  rcases hr with rfl | rfl | rfl | rfl | rfl | rfl | rfl | rfl | rfl | rfl | rfl | rfl | rfl | rfl | rfl | rfl | rfl | rfl | rfl | rfl
      | rfl | rfl | rfl | rfl | rfl | rfl | rfl | rfl | rfl | rfl <;>
    intro e he <;> cases he <;> simp [Envelope.Bypass, wErrorEnvelope]

theorem wSchemaEscape_no_ret {B : Builtins} {a : WArgs} {o : WOut} {n : Str} :
    ∀ r ∈ wSchemaEscapeTable B a o n, ∀ e, r.2 ≠ Step.ret e := by
  intro r hr
  simp only [wSchemaEscapeTable, List.mem_cons, List.mem_nil_iff, or_false] at hr
  rcases hr with rfl | rfl | rfl | rfl | rfl <;> intro e he <;> cases he

theorem wPost_ret {a : WArgs} {o : WOut} {res : Envelope} :
    ∀ r ∈ wPostTable a o res, ∀ e, r.2 = Step.ret e → e.Bypass ∨ e = res := by
  intro r hr
  simp only [wPostTable, List.mem_cons, List.mem_nil_iff, or_false] at hr
  rcases hr with rfl | rfl | rfl | rfl | rfl | rfl <;> intro e he <;> cases he <;>
    simp [Envelope.Bypass, wErrorEnvelope]

/-- A returned envelope of `WriteExec` is a bypass envelope or the `result` after the schema block,
and in the latter case the pre-table did not fire. -/
theorem write_cases {B : Builtins} {a : WArgs} {o : WOut} {e : Envelope} (h : WriteExec B a o = .ok e) :
    e.Bypass ∨ (firstFiring (wPreTable a o) = none ∧ e = wResult B a o) := by
  unfold WriteExec at h
  cases hf : firstFiring (wTable B a o) with
  | none => simp only [hf, Except.ok.injEq] at h
            unfold wTable at hf
            have := firstFiring_append_none hf
            have h1 := firstFiring_append_none this.1
            exact Or.inr ⟨h1.1, h.symm⟩
  | some s =>
    simp only [hf] at h
    unfold wTable at hf
    cases s with
    | escape s => simp [Step.run] at h
    | ret e' =>
      simp only [Step.run, Except.ok.injEq] at h; subst h
      rcases firstFiring_append_some hf with h1 | ⟨h0, h1⟩
      · rcases firstFiring_append_some h1 with h2 | ⟨hpre, h2⟩
        · obtain ⟨r, hr, -, hr2⟩ := firstFiring_some h2
          exact Or.inl (wPre_ret r hr _ hr2)
        · obtain ⟨r, hr, -, hr2⟩ := firstFiring_some h2
          unfold wSchemaEsc at hr
          cases hn : a.schemaName with
          | none => simp [hn] at hr
          | some name => simp only [hn] at hr; exact absurd hr2 (wSchemaEscape_no_ret r hr _)
      · obtain ⟨r, hr, -, hr2⟩ := firstFiring_some h1
        have hpre := (firstFiring_append_none h0).1
        rcases wPost_ret r hr _ hr2 with hb | rfl
        · exact Or.inl hb
        · exact Or.inr ⟨hpre, rfl⟩

theorem wPre_none_parse {a : WArgs} {o : WOut} (h : firstFiring (wPreTable a o) = none)
    (hs : a.salvage = false) : o.parse = .ok := by
  have hall := firstFiring_none.mp h
  cases hp : o.parse with
  | ok => rfl
  | fails t =>
    exfalso
    by_cases hc : a.hasChanges = true
    · have := hall (a.hasChanges && (o.parse != .ok || raised o.raises .w_parseChanges), wErr .E_PARSE)
        (by simp [wPreTable])
      simp [hc, hp] at this
    · by_cases hl : a.lenient = true
      · have := hall ((!a.hasChanges) && a.lenient && (o.parse != .ok || raised o.raises .w_parseLenient) && !a.salvage,
          wErr .E_PARSE) (by simp [wPreTable])
        simp [hc, hl, hp, hs] at this
      · have := hall ((!a.hasChanges) && !a.lenient && (o.parse != .ok || raised o.raises .w_parseStrict), wErr .E_PARSE)
          (by simp [wPreTable])
        simp [hc, hl, hp] at this

/-- status of the schema block. -/
theorem wDecide_vstatus (B : Builtins) (a : WArgs) (o : WOut) (n : Str) (r : Envelope) :
    (wDecide B a o n r).vstatus =
      if wHasSchema B o n then (if (wFinalErrs B a o n).isEmpty then some .validated else some .invalid)
      else r.vstatus := by
  unfold wDecide
  by_cases hs : wHasSchema B o n = true
  · by_cases he : (wFinalErrs B a o n).isEmpty = true
    · simp [hs, he]
    · by_cases hh : (a.grammarHint && (wDefn o n).isSome) = true <;> simp [hs, he, hh]
  · simp [hs]

theorem wResult_vstatus (B : Builtins) (a : WArgs) (o : WOut) :
    (wResult B a o).vstatus =
      match a.schemaName with
      | none => some .unvalidated
      | some n => if wHasSchema B o n then (if (wFinalErrs B a o n).isEmpty then some .validated else some .invalid)
                  else some .unvalidated := by
  unfold wResult
  cases a.schemaName with
  | none => rfl
  | some n => simp [wDecide_vstatus]

theorem wResult_valid (B : Builtins) (a : WArgs) (o : WOut) : (wResult B a o).valid = none := by
  unfold wResult
  cases a.schemaName with
  | none => rfl
  | some n =>
    simp only [wDecide]
    by_cases hs : wHasSchema B o n = true
    · by_cases he : (wFinalErrs B a o n).isEmpty = true
      · simp [hs, he, recordSchema_valid]
      · by_cases hh : (a.grammarHint && (wDefn o n).isSome) = true <;> simp [hs, he, hh, recordSchema_valid]
    · simp [hs]

theorem wDecide_invalid (B : Builtins) (a : WArgs) (o : WOut) (n : Str) (r : Envelope)
    (h : (wDecide B a o n r).vstatus = some .invalid) (hr : r.vstatus ≠ some .invalid) :
    (wDecide B a o n r).verrs = some (wFinalErrs B a o n) ∧ wFinalErrs B a o n ≠ []
      ∧ (wDecide B a o n r).schemaName.isSome = true ∧ (wDecide B a o n r).schemaVersion.isSome = true := by
  have hv := wDecide_vstatus B a o n r
  by_cases hs : wHasSchema B o n = true
  · by_cases he : (wFinalErrs B a o n).isEmpty = true
    · rw [hv] at h; simp [hs, he] at h
    · have hne : wFinalErrs B a o n ≠ [] := by intro h0; simp [h0] at he
      have hp := recordSchema_present (wBuiltin B n) (wDefn o n) n
        { r with debugInfo := a.debugGrammar && (wDefn o n).isSome } (by simpa [wHasSchema] using hs)
      unfold wDecide
      by_cases hh : (a.grammarHint && (wDefn o n).isSome) = true
      · simp only [hs, he, hh, Bool.not_true, Bool.not_false, Bool.false_eq_true, ↓reduceIte]
        exact ⟨trivial, hne, hp.1, hp.2⟩
      · simp only [hs, he, hh, Bool.not_true, Bool.not_false, Bool.false_eq_true, ↓reduceIte]
        exact ⟨trivial, hne, hp.1, hp.2⟩
  · rw [hv] at h; simp [hs] at h; exact absurd h hr

/-! ### eject / grammar -/

theorem eTable_ret {a : EArgs} {o : EOut} : ∀ r ∈ eTable a o, ∀ e, r.2 = Step.ret e → e = eEnvelope := by
  intro r hr
  simp only [eTable, List.mem_cons, List.mem_nil_iff, or_false] at hr
  rcases hr with rfl | rfl | rfl | rfl | rfl | rfl | rfl | rfl | rfl | rfl | rfl | rfl | rfl <;>
    intro e he <;> cases he <;> rfl

theorem eject_cases {a : EArgs} {o : EOut} {e : Envelope} (h : EjectExec a o = .ok e) : e = eEnvelope := by
  unfold EjectExec at h
  cases hf : firstFiring (eTable a o) with
  | none => simp only [hf, Except.ok.injEq] at h; exact h.symm
  | some s =>
    simp only [hf] at h
    cases s with
    | escape s => simp [Step.run] at h
    | ret e' =>
      simp only [Step.run, Except.ok.injEq] at h; subst h
      obtain ⟨r, hr, -, hr2⟩ := firstFiring_some hf
      exact eTable_ret r hr _ hr2

theorem gTable_ret {a : GArgs} {o : GOut} :
    ∀ r ∈ gTable a o, ∀ e, r.2 = Step.ret e → e = gSuccess ∨ ∃ c, e = gError c := by
  intro r hr
  simp only [gTable, List.mem_cons, List.mem_nil_iff, or_false] at hr
  rcases hr with rfl | rfl | rfl | rfl | rfl | rfl | rfl | rfl | rfl | rfl | rfl | rfl | rfl <;>
    intro e he <;> cases he <;> first | exact Or.inl rfl | exact Or.inr ⟨_, rfl⟩

theorem grammar_cases {a : GArgs} {o : GOut} {e : Envelope} (h : GrammarExec a o = .ok e) :
    e = gSuccess ∨ ∃ c, e = gError c := by
  unfold GrammarExec at h
  cases hf : firstFiring (gTable a o) with
  | none => simp only [hf, Except.ok.injEq] at h; exact Or.inl h.symm
  | some s =>
    simp only [hf] at h
    cases s with
    | escape s => simp [Step.run] at h
    | ret e' =>
      simp only [Step.run, Except.ok.injEq] at h; subst h
      obtain ⟨r, hr, -, hr2⟩ := firstFiring_some hf
      exact gTable_ret r hr _ hr2

end Octave.Tools
