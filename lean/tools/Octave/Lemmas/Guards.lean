/-
Tie between the guard table of the model (`Stage.site`, `Stage.guard`) and the guard coverage regenerated
from the source (`Gen.callSites`).  Used by Props/C10.lean (the error envelopes the model returns for raising
stages exist only because those stages are guarded) and Props/C20tools.lean.
-/
import Octave.Model.Tools
import Octave.Gen.Guards
namespace Octave.Tools
open Octave.Gen

def guardMatches : Guard → String → Bool
  | .exc, g => g == "Exception"
  | .narrow, g => "narrow:".toList.isPrefixOf g.toList
  | .none, g => g == "none"

def siteGuard (sites : List CallSite) (tool call : String) (idx : Nat) : Option String :=
  (sites.find? (fun c => c.tool == tool && c.call == call && c.idx == idx)).map (·.guard)

def stageGuardAgrees (sites : List CallSite) (s : Stage) : Bool :=
  match siteGuard sites s.site.1 s.site.2.1 s.site.2.2 with
  | some g => guardMatches s.guard g
  | none => false

/-- The guard each model stage assumes is the guard of its call site in today's source
(`except Exception` / narrow handler / none), for all 66 stages. -/
theorem guards_model : Stage.all.all (stageGuardAgrees callSites) = true := by decide +kernel

end Octave.Tools
