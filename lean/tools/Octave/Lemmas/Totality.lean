/-
Helper lemmas for Props/C20tools.lean: every decision table of the model is *escape-sound* — an `escape s`
row can fire only if the guard of stage `s` does not absorb what `s` raises — and what follows from that.
-/
import Octave.Lemmas.Tools
namespace Octave.Tools

theorem absorbs_none_of_raised {f : Stage → Raise} {s : Stage} (h : raised f s = true) :
    Guard.none.absorbs (f s) = false := by
  unfold raised at h
  cases hr : f s <;> simp_all [Guard.absorbs]

theorem absorbs_narrow_of_other {f : Stage → Raise} {s : Stage} (h : (f s == Raise.other) = true) :
    Guard.narrow.absorbs (f s) = false := by
  cases hr : f s <;> simp_all [Guard.absorbs]

/-- A table is *escape-sound* for the raise function `f` when an `escape s` row can only fire if the guard of
`s` does not absorb what `s` raises. -/
def EscapeSound (f : Stage → Raise) (t : List (Bool × Step)) : Prop :=
  ∀ r ∈ t, r.1 = true → ∀ s : Stage, r.2 = Step.escape s → s.guard.absorbs (f s) = false

theorem EscapeSound.append {f : Stage → Raise} {t1 t2 : List (Bool × Step)} (h1 : EscapeSound f t1) (h2 : EscapeSound f t2) :
    EscapeSound f (t1 ++ t2) := by
  intro r hr
  rcases List.mem_append.mp hr with h | h
  · exact h1 r h
  · exact h2 r h

/-- If every raise is absorbed, an escape-sound table never yields an escaping exception. -/
theorem run_ok_of_sound {f : Stage → Raise} {t : List (Bool × Step)} (hs : EscapeSound f t)
    (habs : ∀ s : Stage, s.guard.absorbs (f s) = true) (dflt : Envelope) :
    ∃ e, (match firstFiring t with | some step => step.run | none => .ok dflt) = .ok e := by
  cases hf : firstFiring t with
  | none => exact ⟨dflt, rfl⟩
  | some step =>
    cases step with
    | ret e => exact ⟨e, rfl⟩
    | escape s =>
      obtain ⟨r, hr, hc, h2⟩ := firstFiring_some hf
      have := hs r hr hc s h2
      rw [habs s] at this; cases this

/-- … and when an exception does escape, it comes from a stage whose guard does not absorb it. -/
theorem escape_of_sound {f : Stage → Raise} {t : List (Bool × Step)} (hs : EscapeSound f t) (dflt : Envelope) (s : Stage)
    (h : (match firstFiring t with | some step => step.run | none => .ok dflt) = .error (.py s)) :
    s.guard.absorbs (f s) = false := by
  cases hf : firstFiring t with
  | none => simp [hf] at h
  | some step =>
    simp only [hf] at h
    cases step with
    | ret e => simp [Step.run] at h
    | escape s' =>
      simp only [Step.run, Except.error.injEq, Exc.py.injEq] at h; subst h
      obtain ⟨r, hr, hc, h2⟩ := firstFiring_some hf
      exact hs r hr hc _ h2

macro "escape_row" : tactic =>
  `(tactic| (intro hc s hs; cases hs <;>
      simp only [Bool.and_eq_true, Bool.or_eq_true, Bool.not_eq_true', beq_iff_eq] at hc <;>
      first
        | (apply absorbs_none_of_raised; simp_all)
        | (apply absorbs_narrow_of_other; simp_all)))

theorem vPre_sound (a : VArgs) (o : VOut) : EscapeSound o.raises (vPreTable a o) := by
  intro r hr
  simp only [vPreTable, List.mem_cons, List.mem_nil_iff, or_false] at hr
  rcases hr with rfl | rfl | rfl | rfl | rfl | rfl | rfl <;> (intro hc s hs; cases hs)

theorem vEscape_sound (B : Builtins) (a : VArgs) (o : VOut) : EscapeSound o.raises (vEscapeTable B a o) := by
  intro r hr
  simp only [vEscapeTable, List.mem_cons, List.mem_nil_iff, or_false] at hr
  rcases hr with rfl | rfl | rfl | rfl | rfl | rfl | rfl <;> escape_row

theorem wPre_sound (a : WArgs) (o : WOut) : EscapeSound o.raises (wPreTable a o) := by
  intro r hr
  simp only [wPreTable, List.mem_cons, List.mem_nil_iff, or_false] at hr
  rcases hr with rfl | rfl | rfl | rfl | rfl | rfl | rfl | rfl | rfl | rfl | rfl | rfl | rfl | rfl | rfl | rfl | rfl | rfl | rfl | rfl
      | rfl | rfl | rfl | rfl | rfl | rfl | rfl | rfl | rfl | rfl <;>
    first
      | (intro hc s hs; cases hs; done)
      | escape_row

theorem wSchemaEsc_sound (B : Builtins) (a : WArgs) (o : WOut) : EscapeSound o.raises (wSchemaEsc B a o) := by
  unfold wSchemaEsc
  cases a.schemaName with
  | none => intro r hr; cases hr
  | some n =>
    intro r hr
    simp only [wSchemaEscapeTable, List.mem_cons, List.mem_nil_iff, or_false] at hr
    rcases hr with rfl | rfl | rfl | rfl | rfl <;> escape_row

theorem wPost_sound (a : WArgs) (o : WOut) (res : Envelope) : EscapeSound o.raises (wPostTable a o res) := by
  intro r hr
  simp only [wPostTable, List.mem_cons, List.mem_nil_iff, or_false] at hr
  rcases hr with rfl | rfl | rfl | rfl | rfl | rfl <;>
    first
      | (intro hc s hs; cases hs; done)
      | escape_row

theorem eTable_sound (a : EArgs) (o : EOut) : EscapeSound o.raises (eTable a o) := by
  intro r hr
  simp only [eTable, List.mem_cons, List.mem_nil_iff, or_false] at hr
  rcases hr with rfl | rfl | rfl | rfl | rfl | rfl | rfl | rfl | rfl | rfl | rfl | rfl | rfl <;>
    first
      | (intro hc s hs; cases hs; done)
      | escape_row

theorem gTable_sound (a : GArgs) (o : GOut) : EscapeSound o.raises (gTable a o) := by
  intro r hr
  simp only [gTable, List.mem_cons, List.mem_nil_iff, or_false] at hr
  rcases hr with rfl | rfl | rfl | rfl | rfl | rfl | rfl | rfl | rfl | rfl | rfl | rfl | rfl <;>
    first
      | (intro hc s hs; cases hs; done)
      | escape_row

/-- The table each tool runs, its raise function and its default envelope. -/
theorem toolExec_eq (B : Builtins) (c : Call) :
    ∃ t dflt, EscapeSound c.raises t ∧
      toolExec B c = (match firstFiring t with | some step => step.run | none => .ok dflt) := by
  cases c with
  | validate a o =>
    exact ⟨vPreTable a o ++ vEscapeTable B a o, vResult B a o ((vProfile a).getD .standard),
      (vPre_sound a o).append (vEscape_sound B a o), rfl⟩
  | write a o =>
    exact ⟨wTable B a o, wResult B a o,
      ((wPre_sound a o).append (wSchemaEsc_sound B a o)).append (wPost_sound a o _), rfl⟩
  | eject a o => exact ⟨eTable a o, eEnvelope, eTable_sound a o, rfl⟩
  | grammar a o => exact ⟨gTable a o, gSuccess, gTable_sound a o, rfl⟩

end Octave.Tools
