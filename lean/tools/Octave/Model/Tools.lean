/-
Executable model of the *decision skeleton* of the four MCP tools and of the CLI `validate` / `write`
commands (transcription of the code that exists, quirks included):

  src/octave_mcp/mcp/validate.py         ValidateTool.execute, _error_envelope
  src/octave_mcp/mcp/write.py            WriteTool.execute, _error_envelope
  src/octave_mcp/mcp/eject.py            EjectTool.execute
  src/octave_mcp/mcp/compile_grammar.py  CompileGrammarTool.execute, _error_response
  src/octave_mcp/schemas/loader.py       SCHEMA_NAME_PATTERN gate of load_schema_by_name, get_builtin_schema
  src/octave_mcp/cli/main.py             validate, write   (status line + exit code)

What is modelled: stage order, which stage is guarded by which kind of `try`, and how
`status`, `validation_status`, `valid`, `validation_errors`, `validation_error_count`, `schema_name`,
`schema_version`, `warnings`/`has_warnings` and the `errors[*].code` list are computed from *abstract
stage outcomes* (parse ok / fails, result of the schema file search, validator error lists, which stage
raises what kind of exception).  Stage outcomes are inputs: the correspondence harness obtains them by
calling the real stage functions separately and compares the real envelope with this model's.

Import-free (core Lean only); strings are `List Char`.
-/
namespace Octave.Tools

abbrev Str := List Char

/-! ## Vocabulary -/

inductive Profile where
  | strict | standard | lenient | ultra
  deriving DecidableEq, Repr

inductive VStatus where
  | validated | unvalidated | invalid
  deriving DecidableEq, Repr

inductive RunStatus where
  | success | error
  deriving DecidableEq, Repr

/-- A validation error record; the envelope logic only looks at the list's emptiness / length. -/
structure VErr where
  code : Str
  deriving DecidableEq, Repr

/-- The `code` of an entry of the envelope's `errors` list. -/
inductive ECode where
  | E_PROFILE | E_INPUT | E_PATH | E_FILE | E_READ | E_TOKENIZE | E_PARSE | E_EMIT | E_HASH | E_APPLY | E_WRITE
  | E_FORMAT | E_SCHEMA | E_COMPILE
  deriving DecidableEq, Repr

/-- Every stage of the tools that is a call into other code (and therefore might raise).  The mapping to
call sites of the source is `Stage.site`; the guard the model assumes is `Stage.guard`; both are
checked against the regenerated `Gen.callSites` in `Props/C20tools.lean`. -/
inductive Stage where
  -- validate
  | v_read | v_parse | v_zones | v_builtin | v_load | v_debug | v_validate | v_validateNone | v_hint
  | v_routing | v_repair | v_revalidate | v_emit | v_diff
  -- write
  | w_validatePath | w_exists | w_readN | w_readC | w_parseChanges | w_applyChanges | w_mutationsC
  | w_readB | w_baselineMetrics | w_unwrap | w_detect | w_curly | w_wrapPlain | w_parseLenient | w_salvage
  | w_tokenize | w_parseStrict | w_trackFail | w_track | w_mutations | w_parseInherit | w_emit | w_zones
  | w_builtin | w_hermetic | w_load | w_debug | w_validate | w_reemit1 | w_revalidate1 | w_repair | w_hint
  | w_diff | w_write
  -- eject
  | e_parse | e_project | e_zones | e_toDictJson | e_jsonDumps | e_toDictYaml | e_yamlDump | e_markdown
  | e_gbnfMeta | e_extract | e_compile
  -- compile_grammar
  | g_load | g_parse | g_gbnfMeta | g_contractSpecs | g_contractField | g_extract | g_compile
  deriving DecidableEq, Repr

/-- How a stage ends. `narrow` = raises the exception type its narrow handler names (LexerError /
ParserError for parse stages, ValueError for `parse_contract_field`, RecursionError for `yaml.dump` and — since repo commit
f33b1a5 — also for the two baseline parses of octave_write); `other` = raises anything else. -/
inductive Raise where
  | no | narrow | other
  deriving DecidableEq, Repr

/-- Lexical guard of a call: inside a `try` catching `Exception`, only a narrow handler, or none. -/
inductive Guard where
  | exc | narrow | none
  deriving DecidableEq, Repr

inductive Exc where
  | py (stage : Stage)       -- an exception escaped from this stage out of `execute()`
  deriving DecidableEq, Repr

/-- Outcome of the parse stage as far as the envelope logic can see it. -/
inductive ParseOut where
  | ok
  | fails (tokenizeLike : Bool)   -- message contains "E005" or "Unexpected character" (→ E_TOKENIZE) or not (→ E_PARSE)
  deriving DecidableEq, Repr

/-- Result of the schema-file search of `load_schema_by_name` (after the name passed the pattern gate) or
of `resolve_hermetic_standard` + `load_schema`.  `raises` = the loader raised (unparsable schema file,
hash mismatch, cache miss …). -/
inductive Lookup where
  | notFound
  | raises
  | found (name : Str) (version : Option Str) (hasFields : Bool)
  deriving DecidableEq, Repr

/-- An entry of `BUILTIN_SCHEMA_DEFINITIONS`: its optional "name" and "version" items. -/
structure Builtin where
  name : Option Str
  version : Option Str
  deriving DecidableEq, Repr

abbrev Builtins := List (Str × Builtin)

/-- The decision fields of a response envelope.  `none` = key absent. -/
structure Envelope where
  status : Option RunStatus := none
  vstatus : Option VStatus := none
  valid : Option Bool := none
  verrs : Option (List VErr) := none        -- validation_errors
  verrCount : Option Nat := none            -- validation_error_count (compact mode)
  schemaName : Option Str := none
  schemaVersion : Option Str := none
  warnings : List VErr := []                -- warnings (validate only)
  warningCount : Option Nat := none
  hasWarnings : Option Bool := none
  errCodes : List ECode := []               -- errors[*].code
  grammarHint : Option Bool := none         -- some true = compiled grammar, some false = error stub
  debugInfo : Bool := false
  deriving DecidableEq, Repr

/-! ## loader.py -/

def isUpperAZ (c : Char) : Bool := decide ('A'.toNat ≤ c.toNat) && decide (c.toNat ≤ 'Z'.toNat)
def isDigit09 (c : Char) : Bool := decide ('0'.toNat ≤ c.toNat) && decide (c.toNat ≤ '9'.toNat)
def isNameBody (c : Char) : Bool := isUpperAZ c || isDigit09 c || c == '_'

/-- `[A-Z0-9_]*$` with Python's `$` (end of string, or just before a final newline). -/
def nameBodyThenEnd : Str → Bool
  | [] => true
  | [c] => c == '\n' || isNameBody c
  | c :: rest => isNameBody c && nameBodyThenEnd rest

/-- `SCHEMA_NAME_PATTERN.match(name)` for the pattern `^[A-Z][A-Z0-9_]*$`. -/
def schemaNameOk : Str → Bool
  | [] => false
  | c :: rest => isUpperAZ c && nameBodyThenEnd rest

/-- `get_builtin_schema`: a plain dict lookup. -/
def getBuiltin (B : Builtins) (name : Str) : Option Builtin :=
  (B.find? (fun p => p.1 == name)).map (·.2)

/-- `load_schema_by_name`: pattern gate, then the file search (whose outcome is an input). -/
def loadByName (name : Str) (search : Lookup) : Lookup :=
  if schemaNameOk name then search else .notFound

/-- What the `try: … load … except Exception: pass/None` blocks leave in `schema_definition`:
`some (name, version, hasFields)` or `none`. -/
def defnOf : Lookup → Option (Str × Option Str × Bool)
  | .found n v f => some (n, v, f)
  | _ => none

def defnHasFields : Option (Str × Option Str × Bool) → Bool
  | some (_, _, f) => f
  | none => false

/-- `x or "unknown"` on an optional string (None and "" are falsy). -/
def orUnknown : Option Str → Str
  | some (c :: cs) => c :: cs
  | _ => "unknown".toList

/-! ## validate.py -/

def profileOfUpper (s : Str) : Option Profile :=
  if s == "STRICT".toList then some .strict
  else if s == "STANDARD".toList then some .standard
  else if s == "LENIENT".toList then some .lenient
  else if s == "ULTRA".toList then some .ultra
  else none

def Profile.downgrades : Profile → Bool
  | .lenient | .ultra => true
  | _ => false

structure VArgs where
  /-- `profile_raw.upper()`; `none` when the argument is absent or empty (→ DEFAULT_PROFILE). -/
  profileUp : Option Str := none
  hasContent : Bool := true
  hasFilePath : Bool := false
  schemaName : Str
  fix : Bool := false
  debugGrammar : Bool := false
  grammarHint : Bool := false
  diffOnly : Bool := false
  compact : Bool := false
  deriving Repr

structure VOut where
  pathValid : Bool := true
  fileExists : Bool := true
  parse : ParseOut := .ok
  search : Lookup := .notFound
  /-- The entries of `Validator(schema_def).validate(doc, strict = (profile == STRICT), section_schemas)` that the
  has_schema block treats as *blocking*: all of them in the code as pinned; those with severity ≠ "warning" in the
  shape proposed as fix F37 (which shape the source has is regenerated as `Gen.validateBlockingShape`, and the
  harness splits the validator's list accordingly). -/
  errs : List VErr := []
  /-- the remaining entries (severity = "warning"), which that shape appends to `warnings` only; [] today -/
  softWarnings : List VErr := []
  /-- `Validator(None).validate(doc, strict=False, section_schemas)` (the no-schema branch) -/
  errsNoSchema : List VErr := []
  /-- re-validation after `repair(...)` when fix=True -/
  errsAfterFix : List VErr := []
  raises : Stage → Raise := fun _ => .no

/-- `_error_envelope(errors, diff_only=…, compact=…, profile=…)`. -/
def vErrorEnvelope (codes : List ECode) (compact : Bool) : Envelope :=
  { status := some .error, vstatus := some .unvalidated, valid := some false, verrs := some [],
    warnings := [], errCodes := codes,
    warningCount := if compact then some 0 else none,
    verrCount := if compact then some 0 else none,
    hasWarnings := some false }

/-- `result["schema_name"] = …; result["schema_version"] = …` (the builtin dict wins over the schema file). -/
def recordSchema (builtin : Option Builtin) (defn : Option (Str × Option Str × Bool)) (argName : Str) (r : Envelope) : Envelope :=
  match builtin, defn with
  | some b, _ => { r with schemaName := some (b.name.getD argName), schemaVersion := some (b.version.getD "unknown".toList) }
  | none, some (n, v, _) => { r with schemaName := some n, schemaVersion := some (orUnknown v) }
  | none, none => r

/-- The `if has_schema: … else: …` block of ValidateTool.execute applied to the initial `result`. -/
def vDecide (p : Profile) (builtin : Option Builtin) (defn : Option (Str × Option Str × Bool))
    (argName : Str) (errs errsNoSchema : List VErr) (r : Envelope) : Envelope :=
  if builtin.isSome || defnHasFields defn then
    let r := recordSchema builtin defn argName r
    if errs.isEmpty then
      { r with vstatus := some .validated, valid := some true }
    else if p.downgrades then
      { r with vstatus := some .validated, valid := some true, warnings := r.warnings ++ errs, verrs := some [] }
    else
      { r with vstatus := some .invalid, valid := some false, verrs := some errs, warnings := r.warnings ++ errs }
  else
    { r with warnings := r.warnings ++ errsNoSchema }

/-- compact-mode summary + has_warnings, the last two steps of ValidateTool.execute. -/
def vFinish (compact : Bool) (r : Envelope) : Envelope :=
  let r := if compact then
      { r with warningCount := some r.warnings.length, verrCount := some ((r.verrs.getD []).length),
               warnings := [], verrs := some [] }
    else r
  { r with hasWarnings := some (decide (r.warnings.length > 0) || decide (r.warningCount.getD 0 > 0)) }

def raised (o : Stage → Raise) (s : Stage) : Bool := o s != .no

/-! ### Decision tables

Each `execute()` is a straight line of checks, each of which either returns an envelope, lets an
exception escape (an unguarded stage raised), or falls through.  The model writes that line as an
ordered table of `(condition, step)` rows, evaluated first-match (`firstFiring`); conditions of rows
inside an `if mode:` block carry the mode as a conjunct.  Source order = row order. -/

inductive Step where
  | ret (e : Envelope)        -- `return <envelope>`
  | escape (s : Stage)        -- stage `s` raised and nothing around it catches that
  deriving Repr

def firstFiring : List (Bool × Step) → Option Step
  | [] => none
  | (c, s) :: rest => if c then some s else firstFiring rest

def Step.run : Step → Except Exc Envelope
  | .ret e => .ok e
  | .escape s => .error (.py s)

/-- `profile_raw.upper() if profile_raw else DEFAULT_PROFILE`, then membership in VALID_PROFILES. -/
def vProfile (a : VArgs) : Option Profile :=
  match a.profileUp with
  | none => some .standard
  | some u => profileOfUpper u

/-- The envelope returned from the `except` of STAGE 1+2 (`return result`, before has_warnings). -/
def vParseFailEnvelope (tok : Bool) (compact : Bool) : Envelope :=
  { status := some .error, vstatus := some .unvalidated, valid := some false, verrs := some [],
    errCodes := [if tok then .E_TOKENIZE else .E_PARSE],
    warningCount := if compact then some 0 else none,
    verrCount := if compact then some 0 else none }

/-- STAGE 1+2 is guarded: a raise of parse_with_warnings / _count_literal_zones ends in the handler. -/
def vParseFailure (o : VOut) : Option Bool :=
  match o.parse with
  | .fails t => some t
  | .ok => if raised o.raises .v_parse || raised o.raises .v_zones then some false else none

/-- Everything before STAGE 3. -/
def vPreTable (a : VArgs) (o : VOut) : List (Bool × Step) :=
  [ ((vProfile a).isNone,                                   .ret (vErrorEnvelope [.E_PROFILE] a.compact)),
    (a.hasContent && a.hasFilePath,                         .ret (vErrorEnvelope [.E_INPUT] a.compact)),
    (!a.hasContent && !a.hasFilePath,                       .ret (vErrorEnvelope [.E_INPUT] a.compact)),
    (a.hasFilePath && !o.pathValid,                         .ret (vErrorEnvelope [.E_PATH] a.compact)),
    (a.hasFilePath && !o.fileExists,                        .ret (vErrorEnvelope [.E_FILE] a.compact)),
    (a.hasFilePath && raised o.raises .v_read,              .ret (vErrorEnvelope [.E_READ] a.compact)),   -- guarded
    ((vParseFailure o).isSome,                              .ret (vParseFailEnvelope ((vParseFailure o).getD false) a.compact)) ]

def vBuiltin (B : Builtins) (a : VArgs) : Option Builtin := getBuiltin B a.schemaName

/-- `schema_definition` after the guarded `load_schema_by_name` (`except Exception: pass`). -/
def vDefn (a : VArgs) (o : VOut) : Option (Str × Option Str × Bool) :=
  if raised o.raises .v_load then none else defnOf (loadByName a.schemaName o.search)

/-- `has_schema = schema_def is not None or (schema_definition is not None and schema_definition.fields)` -/
def vHasSchema (B : Builtins) (a : VArgs) (o : VOut) : Bool :=
  (vBuiltin B a).isSome || defnHasFields (vDefn a o)

/-- The unguarded stages of STAGE 3–4 in source order. -/
def vEscapeTable (B : Builtins) (a : VArgs) (o : VOut) : List (Bool × Step) :=
  [ (raised o.raises .v_builtin,                                              .escape .v_builtin),
    (a.debugGrammar && (vDefn a o).isSome && raised o.raises .v_debug,         .escape .v_debug),
    (vHasSchema B a o && raised o.raises .v_validate,                          .escape .v_validate),
    (!vHasSchema B a o && raised o.raises .v_validateNone,                     .escape .v_validateNone),
    (raised o.raises .v_routing,                                               .escape .v_routing),
    (a.fix && raised o.raises .v_repair,                                       .escape .v_repair),
    (a.fix && raised o.raises .v_revalidate,                                   .escape .v_revalidate) ]

/-- Everything after the has_schema block: grammar hint, repair warnings, emit, compact, has_warnings. -/
def vPost (a : VArgs) (o : VOut) (r2 : Envelope) : Envelope :=
  -- grammar hint (guarded), only on INVALID
  let r3 := if r2.vstatus == some .invalid && a.grammarHint && (vDefn a o).isSome
            then { r2 with grammarHint := some (!raised o.raises .v_hint) } else r2
  -- STAGE 4: post-repair re-validation errors are appended to warnings only
  let r4 := if a.fix then { r3 with warnings := r3.warnings ++ o.errsAfterFix } else r3
  -- STAGE 5: emit (guarded): on failure `return result` before compact / has_warnings
  if raised o.raises .v_emit || (a.diffOnly && raised o.raises .v_diff) then
    { r4 with status := some .error, errCodes := [.E_EMIT] }
  else
    vFinish a.compact r4

/-- The envelope of the main path (no early return, no escaping exception). -/
def vResult (B : Builtins) (a : VArgs) (o : VOut) (p : Profile) : Envelope :=
  let r0 : Envelope := { status := some .success, vstatus := some .unvalidated, valid := some false, verrs := some [] }
  let r1 := { r0 with debugInfo := a.debugGrammar && (vDefn a o).isSome,
                      warnings := if vHasSchema B a o then o.softWarnings else [] }
  vPost a o (vDecide p (vBuiltin B a) (vDefn a o) a.schemaName o.errs o.errsNoSchema r1)

def ValidateExec (B : Builtins) (a : VArgs) (o : VOut) : Except Exc Envelope :=
  match firstFiring (vPreTable a o ++ vEscapeTable B a o) with
  | some step => step.run
  | none => .ok (vResult B a o ((vProfile a).getD .standard))

/-! ## write.py -/

structure WArgs where
  policyOk : Bool := true
  hasContent : Bool := true
  hasChanges : Bool := false
  baseHash : Bool := false            -- base_hash truthy
  schemaName : Option Str := none     -- none = absent or empty (falsy)
  debugGrammar : Bool := false
  grammarHint : Bool := false
  lenient : Bool := false
  correctionsOnly : Bool := false
  salvage : Bool := false             -- parse_error_policy == "salvage"
  deriving Repr

inductive WriteOut where
  | ok | symlink | toctou | permission | other
  deriving DecidableEq, Repr

structure WOut where
  pathValid : Bool := true
  fileExists : Bool := false
  hashMatches : Bool := true
  baselineNonEmpty : Bool := false
  looksStructured : Bool := true
  blank : Bool := false
  docHasFrontmatter : Bool := false
  parse : ParseOut := .ok               -- the parse that decides: new content (content mode), existing file (changes / normalize)
  tokenizeFails : Bool := false         -- strict mode: the failure is already raised by tokenize()
  search : Lookup := .notFound
  hermetic : Lookup := .raises
  isHermeticRef : Bool := false         -- schema_name.startswith("frozen@") or schema_name == "latest"
  errs0 : List VErr := []               -- first validator.validate
  didRepair : Bool := false             -- lenient builtin enum-casefold repaired something
  errs1 : List VErr := []               -- re-validation after that
  errs2 : List VErr := []               -- re-validation after the schema-driven repair()
  write : WriteOut := .ok
  raises : Stage → Raise := fun _ => .no

def wErrorEnvelope (codes : List ECode) : Envelope :=
  { status := some .error, vstatus := some .unvalidated, errCodes := codes }

def wErr (code : ECode) : Step := .ret (wErrorEnvelope [code])

/-- Everything before the schema block, in source order. -/
def wPreTable (a : WArgs) (o : WOut) : List (Bool × Step) :=
  let normalize := !a.hasContent && !a.hasChanges
  let content := !a.hasChanges                      -- content mode, which is also the tail of normalize mode
  let parseBad := o.parse != .ok
  let lenientFails := parseBad || raised o.raises .w_parseLenient
  let strictFails := parseBad || raised o.raises .w_parseStrict
  [ (!a.policyOk,                                                     wErr .E_INPUT),
    (raised o.raises .w_validatePath,                                 .escape .w_validatePath),
    (!o.pathValid,                                                    wErr .E_PATH),
    (a.hasContent && a.hasChanges,                                    wErr .E_INPUT),
    (raised o.raises .w_exists,                                       .escape .w_exists),
    -- NORMALIZE prelude
    (normalize && !o.fileExists,                                      wErr .E_FILE),
    (normalize && raised o.raises .w_readN,                           wErr .E_READ),
    (normalize && a.baseHash && !o.hashMatches,                       wErr .E_HASH),
    -- CHANGES mode
    (a.hasChanges && !o.fileExists,                                   wErr .E_FILE),
    (a.hasChanges && raised o.raises .w_readC,                        wErr .E_READ),
    (a.hasChanges && a.baseHash && !o.hashMatches,                    wErr .E_HASH),
    (a.hasChanges && (parseBad || raised o.raises .w_parseChanges),   wErr .E_PARSE),
    (a.hasChanges && raised o.raises .w_applyChanges,                 wErr .E_APPLY),
    (a.hasChanges && raised o.raises .w_mutationsC,                   .escape .w_mutationsC),
    -- CONTENT mode: baseline read is guarded (→ ""), the baseline metrics only narrowly
    (content && o.fileExists && !raised o.raises .w_readB && o.baselineNonEmpty && o.raises .w_baselineMetrics == .other,
                                                                      .escape .w_baselineMetrics),
    (content && a.baseHash && o.fileExists && !o.hashMatches,         wErr .E_HASH),
    (content && raised o.raises .w_unwrap,                            .escape .w_unwrap),
    (content && a.lenient && raised o.raises .w_detect,               .escape .w_detect),
    (content && a.lenient && o.looksStructured && raised o.raises .w_curly,                 .escape .w_curly),
    (content && a.lenient && !o.looksStructured && !o.blank && raised o.raises .w_wrapPlain, .escape .w_wrapPlain),
    (content && a.lenient && lenientFails && !a.salvage,              wErr .E_PARSE),
    (content && a.lenient && lenientFails && a.salvage && raised o.raises .w_salvage,       .escape .w_salvage),
    (content && !a.lenient && ((parseBad && o.tokenizeFails) || raised o.raises .w_tokenize), wErr .E_TOKENIZE),
    (content && !a.lenient && strictFails && raised o.raises .w_trackFail,                  .escape .w_trackFail),
    (content && !a.lenient && strictFails,                            wErr .E_PARSE),
    (content && !a.lenient && raised o.raises .w_track,               .escape .w_track),
    (content && raised o.raises .w_mutations,                         .escape .w_mutations),
    (content && !normalize && !o.docHasFrontmatter && o.fileExists && o.baselineNonEmpty && o.raises .w_parseInherit == .other,
                                                                      .escape .w_parseInherit),
    (raised o.raises .w_emit,                                         wErr .E_EMIT),
    (raised o.raises .w_zones,                                        .escape .w_zones) ]

def wBuiltin (B : Builtins) (name : Str) : Option Builtin := getBuiltin B name

/-- `schema_definition` after the guarded hermetic / by-name load (`except Exception: None`). -/
def wDefn (o : WOut) (name : Str) : Option (Str × Option Str × Bool) :=
  if o.isHermeticRef then (if raised o.raises .w_hermetic then none else defnOf o.hermetic)
  else (if raised o.raises .w_load then none else defnOf (loadByName name o.search))

def wHasSchema (B : Builtins) (o : WOut) (name : Str) : Bool :=
  (wBuiltin B name).isSome || defnHasFields (wDefn o name)

/-- lenient builtin enum-casefold repair happened and triggers the unguarded re-emit / re-validate -/
def wCasefold (B : Builtins) (a : WArgs) (o : WOut) (name : Str) : Bool :=
  a.lenient && (wBuiltin B name).isSome && !o.errs0.isEmpty && o.didRepair

/-- `validation_errors` as it stands when the status is decided. -/
def wFinalErrs (B : Builtins) (a : WArgs) (o : WOut) (name : Str) : List VErr :=
  let errsA := if wCasefold B a o name then o.errs1 else o.errs0
  if a.lenient && (wDefn o name).isSome && !errsA.isEmpty then
    (if raised o.raises .w_repair then errsA else o.errs2)      -- guarded, best effort
  else errsA

def wSchemaEscapeTable (B : Builtins) (a : WArgs) (o : WOut) (name : Str) : List (Bool × Step) :=
  [ (raised o.raises .w_builtin,                                                   .escape .w_builtin),
    (a.debugGrammar && (wDefn o name).isSome && raised o.raises .w_debug,           .escape .w_debug),
    (wHasSchema B o name && raised o.raises .w_validate,                            .escape .w_validate),
    (wHasSchema B o name && wCasefold B a o name && raised o.raises .w_reemit1,     .escape .w_reemit1),
    (wHasSchema B o name && wCasefold B a o name && raised o.raises .w_revalidate1, .escape .w_revalidate1) ]

/-- the `if schema_name:` block applied to `result` -/
def wDecide (B : Builtins) (a : WArgs) (o : WOut) (name : Str) (r : Envelope) : Envelope :=
  let builtin := wBuiltin B name
  let defn := wDefn o name
  let r := { r with debugInfo := a.debugGrammar && defn.isSome }
  if !wHasSchema B o name then r else
  let r := recordSchema builtin defn name r
  let errs := wFinalErrs B a o name
  if !errs.isEmpty then
    let r := { r with vstatus := some .invalid, verrs := some errs }
    if a.grammarHint && defn.isSome then { r with grammarHint := some (!raised o.raises .w_hint) } else r
  else
    { r with vstatus := some .validated }

/-- `result` after the schema block. -/
def wResult (B : Builtins) (a : WArgs) (o : WOut) : Envelope :=
  let r0 : Envelope := { status := some .success, vstatus := some .unvalidated }
  match a.schemaName with
  | none => r0
  | some name => wDecide B a o name r0

/-- diff/hash (unguarded), dry run, then the guarded WRITE FILE block. -/
def wPostTable (a : WArgs) (o : WOut) (r : Envelope) : List (Bool × Step) :=
  [ (raised o.raises .w_diff,          .escape .w_diff),
    (a.correctionsOnly,                .ret r),
    (raised o.raises .w_write,         wErr .E_WRITE),
    (o.write == .toctou,               wErr .E_HASH),
    (o.write != .ok,                   wErr .E_WRITE),
    (true,                             .ret r) ]

def wSchemaEsc (B : Builtins) (a : WArgs) (o : WOut) : List (Bool × Step) :=
  match a.schemaName with
  | none => []
  | some name => wSchemaEscapeTable B a o name

def wTable (B : Builtins) (a : WArgs) (o : WOut) : List (Bool × Step) :=
  wPreTable a o ++ wSchemaEsc B a o ++ wPostTable a o (wResult B a o)

def WriteExec (B : Builtins) (a : WArgs) (o : WOut) : Except Exc Envelope :=
  match firstFiring (wTable B a o) with
  | some step => step.run
  | none => .ok (wResult B a o)      -- unreachable: the last row of wPostTable always fires

/-! ## eject.py -/

inductive EFormat where
  | octave | json | yaml | markdown | gbnf
  deriving DecidableEq, Repr

structure EArgs where
  hasContent : Bool := true
  format : EFormat := .octave
  deriving Repr

structure EOut where
  parse : ParseOut := .ok
  hasContract : Bool := false
  raises : Stage → Raise := fun _ => .no

/-- every envelope literal of EjectTool.execute: no `status`, validation_status UNVALIDATED -/
def eEnvelope : Envelope := { vstatus := some .unvalidated }

def eTable (a : EArgs) (o : EOut) : List (Bool × Step) :=
  [ (!a.hasContent,                                              .ret eEnvelope),       -- template
    (o.parse != .ok || raised o.raises .e_parse,                 .ret eEnvelope),       -- guarded
    (raised o.raises .e_project,                                 .escape .e_project),
    (raised o.raises .e_zones,                                   .escape .e_zones),
    (a.format == .json && raised o.raises .e_toDictJson,         .escape .e_toDictJson),
    (a.format == .json && raised o.raises .e_jsonDumps,          .escape .e_jsonDumps),
    (a.format == .yaml && raised o.raises .e_toDictYaml,         .escape .e_toDictYaml),
    (a.format == .yaml && o.raises .e_yamlDump == .other,        .escape .e_yamlDump),   -- narrow: RecursionError is answered with an envelope (repo commit 0d3068d)
    (a.format == .markdown && raised o.raises .e_markdown,       .escape .e_markdown),
    (a.format == .gbnf && o.hasContract && raised o.raises .e_gbnfMeta,   .escape .e_gbnfMeta),
    (a.format == .gbnf && !o.hasContract && raised o.raises .e_extract,   .escape .e_extract),
    (a.format == .gbnf && !o.hasContract && raised o.raises .e_compile,   .escape .e_compile),
    (true,                                                       .ret eEnvelope) ]

def EjectExec (a : EArgs) (o : EOut) : Except Exc Envelope :=
  match firstFiring (eTable a o) with
  | some step => step.run
  | none => .ok eEnvelope

/-! ## compile_grammar.py -/

inductive GFormat where
  | gbnf | jsonSchema | invalid
  deriving DecidableEq, Repr

structure GArgs where
  format : GFormat := .gbnf
  schemaName : Option Str := none       -- none = parameter absent (None)
  hasContent : Bool := false
  deriving Repr

structure GOut where
  search : Lookup := .notFound
  parse : ParseOut := .ok
  hasContract : Bool := false
  raises : Stage → Raise := fun _ => .no

def gError (code : ECode) : Envelope := { status := some .error, vstatus := some .unvalidated, errCodes := [code] }
def gSuccess : Envelope := { status := some .success, vstatus := some .unvalidated }

def Lookup.isFound : Lookup → Bool
  | .found _ _ _ => true
  | _ => false

def gTable (a : GArgs) (o : GOut) : List (Bool × Step) :=
  let byName := a.schemaName.isSome
  let byContent := a.schemaName.isNone && a.hasContent
  let found := match a.schemaName with | some n => (loadByName n o.search).isFound | none => false
  [ (a.format == .invalid,                                                  .ret (gError .E_FORMAT)),
    (a.schemaName.isSome && a.hasContent,                                   .ret (gError .E_INPUT)),
    (a.schemaName.isNone && !a.hasContent,                                  .ret (gError .E_INPUT)),
    (byName && raised o.raises .g_load,                                     .ret (gError .E_SCHEMA)),     -- guarded
    (byName && !found,                                                      .ret (gError .E_SCHEMA)),
    (byContent && (o.parse != .ok || raised o.raises .g_parse),             .ret (gError .E_PARSE)),      -- guarded
    (byContent && o.hasContract && a.format == .gbnf && raised o.raises .g_gbnfMeta,        .escape .g_gbnfMeta),
    (byContent && o.hasContract && a.format == .gbnf,                       .ret gSuccess),
    (byContent && o.hasContract && raised o.raises .g_contractSpecs,        .escape .g_contractSpecs),
    (byContent && o.hasContract && o.raises .g_contractField == .other,     .escape .g_contractField),     -- narrow: ValueError
    (byContent && !o.hasContract && raised o.raises .g_extract,             .escape .g_extract),
    (raised o.raises .g_compile,                                            .ret (gError .E_COMPILE)),    -- guarded
    (true,                                                                  .ret gSuccess) ]

def GrammarExec (a : GArgs) (o : GOut) : Except Exc Envelope :=
  match firstFiring (gTable a o) with
  | some step => step.run
  | none => .ok gSuccess

/-! ## cli/main.py: `octave validate`, `octave write` (without --verify-seal) -/

structure CliOut where
  exit : Nat
  line : Option VStatus          -- the `validation_status: X` line, if printed
  deriving DecidableEq, Repr

structure CVArgs where
  schema : Option Str := none    -- none = absent or empty
  fix : Bool := false

structure CVOut where
  parse : ParseOut := .ok
  loadRaises : Bool := false     -- `load_schema_by_name(schema)` is *not* guarded by its own try: the outer handler prints Error, exit 1
  errs : List VErr := []         -- Validator(builtin).validate(doc, strict=False)
  errsNone : List VErr := []     -- Validator(None).validate(doc, strict=False)
  errsAfterFix : List VErr := []
  laterRaises : Bool := false    -- repair / emit raising (outer handler)

def CliValidate (B : Builtins) (a : CVArgs) (o : CVOut) : CliOut :=
  if o.parse != .ok then ⟨1, none⟩ else
  if a.schema.isSome && o.loadRaises then ⟨1, none⟩ else
  let builtin := a.schema.bind (getBuiltin B)
  let (st, errs) : VStatus × List VErr :=
    match a.schema, builtin with
    | some _, some _ => (if o.errs.isEmpty then .validated else .invalid, o.errs)
    | _, _ => (.unvalidated, o.errsNone)
  let st := if a.fix && !errs.isEmpty then
      (if a.schema.isSome then (if o.errsAfterFix.isEmpty then .validated else st) else st)
    else st
  if o.laterRaises then ⟨1, none⟩ else
  ⟨if st == .invalid then 1 else 0, some st⟩

structure CWArgs where
  schema : Option Str := none

structure CWOut where
  pathValid : Bool := true
  parse : ParseOut := .ok
  errs : List VErr := []
  stageRaises : Bool := false
  writeOk : Bool := true

def CliWrite (B : Builtins) (a : CWArgs) (o : CWOut) : CliOut :=
  if !o.pathValid then ⟨1, none⟩ else
  if o.parse != .ok || o.stageRaises then ⟨1, none⟩ else
  let st : VStatus :=
    match a.schema.bind (getBuiltin B) with
    | some _ => if o.errs.isEmpty then .validated else .invalid
    | none => .unvalidated
  if !o.writeOk then ⟨1, none⟩ else ⟨0, some st⟩

/-! ## The four tools under one name -/

inductive Call where
  | validate (a : VArgs) (o : VOut)
  | write (a : WArgs) (o : WOut)
  | eject (a : EArgs) (o : EOut)
  | grammar (a : GArgs) (o : GOut)

def Call.raises : Call → Stage → Raise
  | .validate _ o => o.raises
  | .write _ o => o.raises
  | .eject _ o => o.raises
  | .grammar _ o => o.raises

def toolExec (B : Builtins) : Call → Except Exc Envelope
  | .validate a o => ValidateExec B a o
  | .write a o => WriteExec B a o
  | .eject a o => EjectExec a o
  | .grammar a o => GrammarExec a o

/-! ## Stage table: call site in the source and the guard the model transcribes -/

/-- (tool tag, call expression as printed by `ast.unparse`, occurrence index among the tool's call sites
with that expression, in source order). -/
def Stage.site : Stage → String × String × Nat
  | .v_read => ("validate", "path.read_text", 0)
  | .v_parse => ("validate", "parse_with_warnings", 0)
  | .v_zones => ("validate", "_count_literal_zones", 0)
  | .v_builtin => ("validate", "get_builtin_schema", 0)
  | .v_load => ("validate", "load_schema_by_name", 0)
  | .v_debug => ("validate", "chain.compile", 0)
  | .v_validate => ("validate", "validator.validate", 0)
  | .v_validateNone => ("validate", "validator.validate", 1)
  | .v_hint => ("validate", "GBNFCompiler().compile_schema", 0)
  | .v_routing => ("validate", "validator.routing_log.to_dict", 0)
  | .v_repair => ("validate", "repair", 0)
  | .v_revalidate => ("validate", "validator_for_repair.validate", 0)
  | .v_emit => ("validate", "emit", 0)
  | .v_diff => ("validate", "self._build_unified_diff", 0)
  | .w_validatePath => ("write", "self._validate_path", 0)
  | .w_exists => ("write", "path_obj.exists", 0)
  | .w_readN => ("write", "open", 0)
  | .w_readC => ("write", "open", 1)
  | .w_parseChanges => ("write", "parse", 0)
  | .w_applyChanges => ("write", "self._apply_changes", 0)
  | .w_mutationsC => ("write", "self._apply_mutations", 0)
  | .w_readB => ("write", "open", 2)
  | .w_baselineMetrics => ("write", "parse", 1)
  | .w_unwrap => ("write", "self._unwrap_markdown_code_fence", 0)
  | .w_detect => ("write", "re.search", 0)
  | .w_curly => ("write", "self._repair_curly_brace_annotations", 0)
  | .w_wrapPlain => ("write", "self._wrap_plain_text_as_doc", 0)
  | .w_parseLenient => ("write", "parse_with_warnings", 1)
  | .w_salvage => ("write", "self._localized_salvage", 0)
  | .w_tokenize => ("write", "tokenize", 0)
  | .w_parseStrict => ("write", "parse", 2)
  | .w_trackFail => ("write", "self._track_corrections", 0)
  | .w_track => ("write", "self._track_corrections", 1)
  | .w_mutations => ("write", "self._apply_mutations", 1)
  | .w_parseInherit => ("write", "parse", 3)
  | .w_emit => ("write", "emit", 0)
  | .w_zones => ("write", "_count_literal_zones", 0)
  | .w_builtin => ("write", "get_builtin_schema", 0)
  | .w_hermetic => ("write", "resolve_hermetic_standard", 0)
  | .w_load => ("write", "load_schema_by_name", 0)
  | .w_debug => ("write", "chain.compile", 0)
  | .w_validate => ("write", "validator.validate", 0)
  | .w_reemit1 => ("write", "emit", 1)
  | .w_revalidate1 => ("write", "validator.validate", 1)
  | .w_repair => ("write", "repair", 0)
  | .w_hint => ("write", "GBNFCompiler().compile_schema", 0)
  | .w_diff => ("write", "self._build_unified_diff", 0)
  | .w_write => ("write", "os.replace", 0)
  | .e_parse => ("eject", "parse", 0)
  | .e_project => ("eject", "project", 0)
  | .e_zones => ("eject", "_count_literal_zones", 0)
  | .e_toDictJson => ("eject", "_ast_to_dict", 0)
  | .e_jsonDumps => ("eject", "json.dumps", 0)
  | .e_toDictYaml => ("eject", "_ast_to_dict", 1)
  | .e_yamlDump => ("eject", "yaml.dump", 0)
  | .e_markdown => ("eject", "_ast_to_markdown", 0)
  | .e_gbnfMeta => ("eject", "compile_gbnf_from_meta", 0)
  | .e_extract => ("eject", "extract_schema_from_document", 0)
  | .e_compile => ("eject", "compiler.compile_schema", 0)
  | .g_load => ("grammar", "load_schema_by_name", 0)
  | .g_parse => ("grammar", "parse", 0)
  | .g_gbnfMeta => ("grammar", "compile_gbnf_from_meta", 0)
  | .g_contractSpecs => ("grammar", "_extract_contract_field_specs", 0)
  | .g_contractField => ("grammar", "parse_contract_field", 0)
  | .g_extract => ("grammar", "extract_schema_from_document", 0)
  | .g_compile => ("grammar", "compiler.compile_schema", 0)

/-- The guard the model's control flow gives each stage (what `ValidateExec` … hard-wire). -/
def Stage.guard : Stage → Guard
  | .v_read | .v_parse | .v_zones | .v_load | .v_hint | .v_emit | .v_diff => .exc
  | .v_builtin | .v_debug | .v_validate | .v_validateNone | .v_routing | .v_repair | .v_revalidate => .none
  | .w_readN | .w_readC | .w_parseChanges | .w_applyChanges | .w_readB | .w_parseLenient | .w_tokenize | .w_parseStrict
  | .w_emit | .w_hermetic | .w_load | .w_repair | .w_hint | .w_write => .exc
  | .w_baselineMetrics | .w_parseInherit => .narrow
  | .w_validatePath | .w_exists | .w_mutationsC | .w_unwrap | .w_detect | .w_curly | .w_wrapPlain | .w_salvage | .w_trackFail
  | .w_track | .w_mutations | .w_zones | .w_builtin | .w_debug | .w_validate | .w_reemit1 | .w_revalidate1 | .w_diff => .none
  | .e_parse => .exc
  | .e_yamlDump => .narrow
  | .e_project | .e_zones | .e_toDictJson | .e_jsonDumps | .e_toDictYaml | .e_markdown | .e_gbnfMeta
  | .e_extract | .e_compile => .none
  | .g_load | .g_parse | .g_compile => .exc
  | .g_contractField => .narrow
  | .g_gbnfMeta | .g_contractSpecs | .g_extract => .none

def Stage.all : List Stage :=
  [.v_read, .v_parse, .v_zones, .v_builtin, .v_load, .v_debug, .v_validate, .v_validateNone, .v_hint, .v_routing, .v_repair,
   .v_revalidate, .v_emit, .v_diff,
   .w_validatePath, .w_exists, .w_readN, .w_readC, .w_parseChanges, .w_applyChanges, .w_mutationsC, .w_readB, .w_baselineMetrics,
   .w_unwrap, .w_detect, .w_curly, .w_wrapPlain, .w_parseLenient, .w_salvage, .w_tokenize, .w_parseStrict, .w_trackFail, .w_track,
   .w_mutations, .w_parseInherit, .w_emit, .w_zones, .w_builtin, .w_hermetic, .w_load, .w_debug, .w_validate, .w_reemit1,
   .w_revalidate1, .w_repair, .w_hint, .w_diff, .w_write,
   .e_parse, .e_project, .e_zones, .e_toDictJson, .e_jsonDumps, .e_toDictYaml, .e_yamlDump, .e_markdown, .e_gbnfMeta, .e_extract,
   .e_compile,
   .g_load, .g_parse, .g_gbnfMeta, .g_contractSpecs, .g_contractField, .g_extract, .g_compile]

/-- Does a guard absorb a raise of this kind? -/
def Guard.absorbs : Guard → Raise → Bool
  | _, .no => true
  | .exc, _ => true
  | .narrow, .narrow => true
  | _, _ => false

end Octave.Tools
