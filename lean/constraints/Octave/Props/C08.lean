/-
C08 — Validator verdicts follow the documented constraint semantics.
Property theorems only (helper lemmas live in Octave/Lemmas).  Statements are over the executable
model `Octave.Model.Constraints`, which the correspondence check ties to constraints.py.
-/
import Octave.Model.Constraints
namespace Octave.C08
open Octave Octave.PyVal

theorem firstFailure_none_iff (cs : List Constraint) (v : PyVal) :
    firstFailure cs v = none ↔ ∀ c ∈ cs, c.eval v = none := by
  induction cs with
  | nil => simp [firstFailure]
  | cons c cs ih =>
    simp only [firstFailure, List.mem_cons, forall_eq_or_imp]
    cases h : c.eval v with
    | none => simp [ih]
    | some e => simp

/-- A chain accepts a value exactly when it declares no conflict and every member accepts the value
on its own (any length, any member kinds). -/
theorem C08_chain_iff (cs : List Constraint) (v : PyVal) :
    chainValid cs v = true ↔ (detectConflicts cs = [] ∧ ∀ c ∈ cs, c.eval v = none) := by
  unfold chainValid evalChain
  by_cases hc : detectConflicts cs = []
  · simp only [hc, List.isEmpty_nil, Bool.not_true, Bool.false_eq_true, ↓reduceIte, true_and]
    rw [← firstFailure_none_iff]
    cases firstFailure cs v <;> simp
  · have : (detectConflicts cs).isEmpty = false := by
      cases h : detectConflicts cs with
      | nil => exact absurd h hc
      | cons _ _ => rfl
    simp only [this, Bool.not_false, ↓reduceIte, hc, false_and, iff_false]
    cases h : detectConflicts cs with
    | nil => exact absurd h hc
    | cons _ _ => simp

/-- non-vacuity: a chain of three members that accepts a value, and one that is in conflict. -/
example : chainValid [.req, .enum ["ACTIVE".toList, "DONE".toList], .const (.str "ACTIVE".toList)] (.str "ACTIVE".toList) = true := by decide
example : detectConflicts [.req, .opt] ≠ [] := by decide

end Octave.C08
