/-
C08 — Validator verdicts follow the documented constraint semantics.

Property theorems and non-vacuity examples only (helper lemmas live in Octave/Lemmas).  Statements are
over the executable model (`Octave.Model.*`, tied to constraints.py / validator.py by the translator
and by the correspondence check) and the independent `Octave.Spec.Meaning`.
`env` (regex engine, `repr(float)`) is universally quantified everywhere.
-/
import Octave.Model.Constraints
import Octave.Model.Validator
import Octave.Spec.Meaning
import Octave.Lemmas.PyEq
import Octave.Lemmas.Conflicts
import Octave.Lemmas.Kinds
import Octave.Lemmas.Validator
import Octave.Lemmas.Date
import Octave.Gen.Constraints
import Octave.Gen.Validator
import Octave.Gen.Unicode
namespace Octave.C08
open Octave Octave.PyVal Octave.Constraint

/-- a concrete environment for the examples -/
def env0 : Env := ⟨fun _ _ => false, fun _ => true, fun s => s⟩

/-! ## Facts about the tables regenerated from the source (re-proved on every build) -/

theorem gen_evaluateCodes : Gen.evaluateCodes =
    [("AppendOnlyConstraint", ["E010"]), ("ConstConstraint", ["E004"]), ("Constraint", []), ("ConstraintChain", ["E999"]),
     ("DateConstraint", ["E014"]), ("DirConstraint", ["E009"]), ("EnumConstraint", ["E005", "E006"]),
     ("Iso8601Constraint", ["E015"]), ("LangConstraint", ["E007"]), ("LiteralConstraint", ["E007"]),
     ("MaxLengthConstraint", ["E012"]), ("MinLengthConstraint", ["E013"]), ("OptionalConstraint", []),
     ("RangeConstraint", ["E011"]), ("RegexConstraint", ["E008"]), ("RequiredConstraint", ["E003"]),
     ("TypeConstraint", ["E007", "E999"])] := by decide

theorem gen_parseDispatch : Gen.parseDispatch =
    [("eq", "REQ", "", "RequiredConstraint", 0), ("eq", "OPT", "", "OptionalConstraint", 0), ("eq", "DIR", "", "DirConstraint", 0),
     ("eq", "APPEND_ONLY", "", "AppendOnlyConstraint", 0), ("eq", "DATE", "", "DateConstraint", 0),
     ("eq", "ISO8601", "", "Iso8601Constraint", 0), ("eq", "TYPE[LITERAL]", "", "LiteralConstraint", 0),
     ("wrap", "LANG[", "]", "LangConstraint", 5), ("wrap", "CONST[", "]", "ConstConstraint", 6),
     ("wrap", "ENUM[", "]", "EnumConstraint", 5), ("wrap", "TYPE[", "]", "TypeConstraint", 5),
     ("wrap", "TYPE(", ")", "TypeConstraint", 5), ("wrap", "REGEX[", "]", "RegexConstraint", 6),
     ("wrap", "RANGE[", "]", "RangeConstraint", 6), ("wrap", "MAX_LENGTH[", "]", "MaxLengthConstraint", 11),
     ("wrap", "MIN_LENGTH[", "]", "MinLengthConstraint", 11)] ∧ Gen.parseElseRaises = true := by decide

/-- every keyword's argument slice starts right after the keyword: `part[len(kw):-1]` -/
theorem gen_parseDispatch_slices : ∀ r ∈ Gen.parseDispatch, r.1 = "wrap" → r.2.2.2.2 = r.2.1.length := by decide

/-- `TYPE[LITERAL]` is tested before the generic `TYPE[` branch (otherwise it would build a TypeConstraint) -/
theorem gen_literal_before_type :
    (Gen.parseDispatch.map (·.2.1)).idxOf "TYPE[LITERAL]" < (Gen.parseDispatch.map (·.2.1)).idxOf "TYPE[" := by decide

theorem gen_splitPartsChars : Gen.splitPartsChars = [" ", "(", ")", "[", "]", "∧"] := by decide

theorem gen_typeMap : Gen.typeMap = [("BOOLEAN", "bool"), ("LIST", "list"), ("NUMBER", "int|float"), ("STRING", "str")]
    ∧ Gen.typeBoolRejected = ["NUMBER"] := by decide

theorem gen_atomLiterals : Gen.atomLiterals = [("false", "False"), ("null", "None"), ("true", "True")] := by decide

theorem gen_conflict : Gen.conflictClasses = ["ConstConstraint", "EnumConstraint", "OptionalConstraint", "RequiredConstraint"]
    ∧ Gen.conflictCodes = ["E999"] := by decide

theorem gen_policy : Gen.policyMembers = [("IGNORE", "IGNORE"), ("REJECT", "REJECT"), ("WARN", "WARN")]
    ∧ Gen.unknownFieldBranches = [("REJECT", ["E007"], ["error"]), ("WARN", ["W001"], ["warning"])]
    ∧ Gen.policyDefaults = ["REJECT", "except:REJECT"]
    ∧ Gen.missingRequiredCodes = ["E003"] ∧ Gen.severityDefault = "error" := by decide

/-- `RangeConstraint.evaluate` catches at least ValueError and TypeError around `float(value)` (what the model's
`valueOrTypeError` outcome relies on) -/
theorem gen_rangeCaught : "ValueError" ∈ Gen.rangeCaught ∧ "TypeError" ∈ Gen.rangeCaught := by decide

/-- running interpreter: only 'e'/'E' lower-case to a text containing 'e' (`_parse_atom`'s float test),
ASCII '0' heads the digit table and no other digit run starts below U+0080 -/
theorem gen_unicode : Gen.lowerToE = [] ∧ Gen.digitZeros.head? = some 48
    ∧ (∀ z ∈ Gen.digitZeros, z = 48 ∨ 128 ≤ z) ∧ (∀ c ∈ Gen.spaceCodes, c ≠ 45 ∧ ¬ (48 ≤ c ∧ c ≤ 57)) := by decide

/-! ## Chains -/

/-- **C08_chain_iff.** A chain accepts a value exactly when it declares no conflict and every member
accepts the value on its own (any length, any member kinds). -/
theorem C08_chain_iff (env : Env) (cs : List Constraint) (v : PyVal) :
    chainValid env cs v = true ↔ (detectConflicts cs = [] ∧ ∀ c ∈ cs, c.eval env v = .ok) := by
  unfold chainValid evalChain
  rw [← firstFailure_ok_iff]
  cases hc : detectConflicts cs with
  | nil => cases firstFailure env cs v <;> simp
  | cons x xs => simp

example : chainValid env0 [.req, .enum ["ACTIVE".toList, "DONE".toList], .const (.str "ACTIVE".toList), .maxLength 6]
    (.str "ACTIVE".toList) = true := by decide
example : chainValid env0 [.req, .opt] (.str "x".toList) = false := by decide

/-- **C08_conflicts.** `detect_conflicts` reports something exactly when the chain contains REQ with OPT,
two CONSTs that are not equal, or a CONST whose `str()` is not among the values of some ENUM. -/
theorem C08_conflicts (cs : List Constraint) : detectConflicts cs ≠ [] ↔ Spec.Conflict cs := by
  rw [Ne, detectConflicts_eq_nil_iff]; exact Classical.not_not

example : Spec.Conflict [.req, .opt] := by decide
example : Spec.Conflict [.const (.int 1), .req, .const (.int 2)] := by decide
example : Spec.Conflict [.enum ["A".toList], .const (.str "B".toList)] := by decide
example : ¬ Spec.Conflict [.const (.int 1), .req, .const (.float "1.0".toList (.fin 1)), .enum ["1".toList, "1.0".toList]] := by decide

/-- the adjacent-pair check of the code finds a difference exactly when *some* two CONSTs differ -/
theorem C08_const_all_pairs (cs : List Constraint) :
    adjacentDiffs (cs.filterMap constVal?) = [] ↔ (Spec.constsOf cs).Pairwise (fun a b => pyEq a b = true) := by
  rw [adjacentDiffs_eq_nil_iff, constsOf_eq]

/-- **C08_perm.** Permuting a chain does not change whether it accepts a value. -/
theorem C08_perm (env : Env) {cs₁ cs₂ : List Constraint} (h : cs₁.Perm cs₂) (v : PyVal) :
    chainValid env cs₁ v = chainValid env cs₂ v := by
  have key : ∀ a b : List Constraint, a.Perm b → chainValid env a v = true → chainValid env b v = true := by
    intro a b hab ha
    rw [C08_chain_iff] at ha ⊢
    refine ⟨?_, fun c hc => ha.2 c (hab.mem_iff.2 hc)⟩
    rw [detectConflicts_eq_nil_iff] at ha ⊢
    exact fun hb => ha.1 ((conflict_perm hab).2 hb)
  cases h1 : chainValid env cs₁ v <;> cases h2 : chainValid env cs₂ v <;> try rfl
  · exact absurd (key _ _ h.symm h2) (by simp [h1])
  · exact absurd (key _ _ h h1) (by simp [h2])

example : chainValid env0 [.const (.int 1), .type "NUMBER".toList, .req] (.int 1)
    = chainValid env0 [.req, .const (.int 1), .type "NUMBER".toList] (.int 1) :=
  C08_perm env0 (List.perm_append_comm (l₁ := [_, _]) (l₂ := [_])) _

/-- **C08_chain_spec_partial.** The chain verdict is the documented one — "no conflict and every member's
documented meaning holds" — for every chain and value outside the guards of the `_partial` member theorems
below (`hm` asks for the member equivalence, which those theorems supply kind by kind). -/
theorem C08_chain_spec_partial (env : Env) (cs : List Constraint) (v : PyVal)
    (hm : ∀ c ∈ cs, (c.eval env v = .ok ↔ Spec.means env c v)) :
    chainValid env cs v = true ↔ Spec.chainAccepts env cs v := by
  rw [C08_chain_iff, detectConflicts_eq_nil_iff]
  unfold Spec.chainAccepts
  constructor
  · rintro ⟨h1, h2⟩; exact ⟨h1, fun c hc => (hm c hc).1 (h2 c hc)⟩
  · rintro ⟨h1, h2⟩; exact ⟨h1, fun c hc => (hm c hc).2 (h2 c hc)⟩

/-! ## Members: `evaluate` accepts exactly what the documentation says -/

/-- REQ: non-empty (not None, not the empty string). -/
theorem C08_req (env : Env) (v : PyVal) : eval env .req v = .ok ↔ Spec.means env .req v := by
  cases v with
  | str s => cases s <;> simp [eval, evalReq, Spec.means, Spec.NonEmpty, pyEq]
  | _ => simp [eval, evalReq, Spec.means, Spec.NonEmpty, pyEq, num?]

example : eval env0 .req (.str []) = .fail "E003" ∧ eval env0 .req .null = .fail "E003" ∧ eval env0 .req (.int 0) = .ok := by decide

/-- OPT always passes. -/
theorem C08_opt (env : Env) (v : PyVal) : eval env .opt v = .ok ↔ Spec.means env .opt v := by
  simp [eval, Spec.means]

/-- CONST: Python equality with the constant. -/
theorem C08_const (env : Env) (c v : PyVal) : eval env (.const c) v = .ok ↔ Spec.means env (.const c) v := by
  simp only [eval, evalConst, Spec.means]
  cases pyEq v c <;> simp

example : eval env0 (.const (.int 1)) (.float "1.0".toList (.fin 1)) = .ok ∧ eval env0 (.const (.int 1)) (.bool true) = .ok
    ∧ eval env0 (.const (.int 1)) (.str "1".toList) = .fail "E004" := by decide

/-- ENUM: `str(value)` is an allowed value, or a prefix of exactly one allowed value. -/
theorem C08_enum (env : Env) (a : List Str) (v : PyVal) : eval env (.enum a) v = .ok ↔ Spec.means env (.enum a) v := by
  simp only [eval, evalEnum, Spec.means, Spec.EnumAccepts, filter_length_eq_countP]
  by_cases hm : a.contains v.pyStr = true
  · simp [List.contains_iff_mem.1 hm]
  · have hn : v.pyStr ∉ a := fun h => hm (List.contains_iff_mem.2 h)
    simp only [hm, Bool.false_eq_true, ↓reduceIte, hn, false_or]
    generalize Spec.prefixMatches a v.pyStr = n
    rcases n with _ | _ | n <;> simp

/-- ENUM ambiguity: E006 exactly when there is no exact match and at least two allowed values start with the text. -/
theorem C08_enum_ambiguous (env : Env) (a : List Str) (v : PyVal) :
    eval env (.enum a) v = .fail "E006" ↔ Spec.EnumAmbiguous a (pyStr v) := by
  simp only [eval, evalEnum, Spec.EnumAmbiguous, filter_length_eq_countP]
  by_cases hm : a.contains v.pyStr = true
  · simp [List.contains_iff_mem.1 hm]
  · have hn : v.pyStr ∉ a := fun h => hm (List.contains_iff_mem.2 h)
    simp only [hm, Bool.false_eq_true, ↓reduceIte, hn, not_false_eq_true, true_and]
    generalize Spec.prefixMatches a v.pyStr = n
    rcases n with _ | _ | n <;> simp

/-- ENUM without duplicated allowed values: exact match or *the* unique allowed value it is a prefix of. -/
theorem C08_enum_unique (env : Env) (a : List Str) (hnd : a.Nodup) (v : PyVal) :
    eval env (.enum a) v = .ok ↔
      (pyStr v ∈ a ∨ ∃ x ∈ a, pyStr v <+: x ∧ ∀ y ∈ a, pyStr v <+: y → y = x) := by
  rw [C08_enum]; simp only [Spec.means, Spec.EnumAccepts, prefixMatches_eq_one_iff hnd]

def enum3 : List Str := ["ACTIVE".toList, "ACTIVATING".toList, "DONE".toList]
example : enum3.Nodup := by decide
example : eval env0 (.enum enum3) (.str "ACTIVE".toList) = .ok ∧ eval env0 (.enum enum3) (.str "D".toList) = .ok
    ∧ eval env0 (.enum enum3) (.str "ACTIV".toList) = .fail "E006" ∧ eval env0 (.enum enum3) (.str "TIV".toList) = .fail "E005"
    ∧ eval env0 (.enum ["ACT".toList, "ACTIVE".toList]) (.str "ACT".toList) = .ok := by decide
example : Spec.EnumAmbiguous enum3 "ACT".toList := by decide

/-- TYPE: by value kind; a boolean is never a NUMBER; an unknown type keyword accepts nothing. -/
theorem C08_type (env : Env) (t : Str) (v : PyVal) : eval env (.type t) v = .ok ↔ Spec.means env (.type t) v := by
  have d1 : "STRING".toList ≠ "NUMBER".toList := by decide
  have d2 : "STRING".toList ≠ "BOOLEAN".toList := by decide
  have d3 : "STRING".toList ≠ "LIST".toList := by decide
  have d4 : "NUMBER".toList ≠ "BOOLEAN".toList := by decide
  have d5 : "NUMBER".toList ≠ "LIST".toList := by decide
  have d6 : "BOOLEAN".toList ≠ "LIST".toList := by decide
  simp only [eval, evalType, typeTest, Spec.means, Spec.TypeAccepts, beq_iff_eq]
  generalize "STRING".toList = S at *
  generalize "NUMBER".toList = N at *
  generalize "BOOLEAN".toList = B at *
  generalize "LIST".toList = L at *
  by_cases h1 : t = S
  · subst h1; cases v <;> simp [Spec.kindOf, isStr, isBool, d1, d2, d3]
  by_cases h2 : t = N
  · subst h2; cases v <;> simp [Spec.kindOf, isIntInst, isFloatInst, isBool, d1.symm, d4, d5]
  by_cases h3 : t = B
  · subst h3; cases v <;> simp [Spec.kindOf, isBool, d2.symm, d4.symm, d6]
  by_cases h4 : t = L
  · subst h4; cases v <;> simp [Spec.kindOf, isList, isBool, d3.symm, d5.symm, d6.symm]
  simp [h1, h2, h3, h4]

/-- booleans are never numbers -/
theorem C08_type_bool_not_number (env : Env) (b : Bool) : eval env (.type "NUMBER".toList) (.bool b) = .fail "E007" := by
  simp [eval, evalType, typeTest, isBool, isIntInst, isFloatInst]

example : eval env0 (.type "NUMBER".toList) (.int 3) = .ok ∧ eval env0 (.type "NUMBER".toList) (.float "0.5".toList (.fin (mkRat 1 2))) = .ok
    ∧ eval env0 (.type "BOOLEAN".toList) (.bool true) = .ok ∧ eval env0 (.type "LITERAL".toList) (.str []) = .fail "E999" := by decide

/-- REGEX: the external `re.match` verdict on `str(value)`. -/
theorem C08_regex (env : Env) (p : Str) (v : PyVal) : eval env (.regex p) v = .ok ↔ Spec.means env (.regex p) v := by
  simp only [eval, evalRegex, Spec.means]; cases env.reMatch p v.pyStr <;> simp

/-- DIR: no NUL character. -/
theorem C08_dir (env : Env) (v : PyVal) : eval env .dir v = .ok ↔ Spec.means env .dir v := by
  simp only [eval, evalDir, Spec.means]
  by_cases h : v.pyStr.contains '\x00' = true
  · simp [List.contains_iff_mem.1 h]
  · have : '\x00' ∉ v.pyStr := fun hm => h (List.contains_iff_mem.2 hm)
    simp [this]

/-- APPEND_ONLY: lists only. -/
theorem C08_appendOnly (env : Env) (v : PyVal) : eval env .appendOnly v = .ok ↔ Spec.means env .appendOnly v := by
  cases v <;> simp [eval, evalAppendOnly, Spec.means, Spec.kindOf, isList]

/-- the source tests the converted value for NaN (F19 is fixed; regenerated from the source on every run) -/
theorem gen_rangeNanRejected : Gen.rangeNanRejected = true := by decide

/-- guard of the RANGE theorem: the bounds are numbers (a NaN bound cannot be written in a chain text: `parse` refuses
it; it can only be passed to the constructor directly), and an int value is exactly representable as a binary64 (the code
compares `float(value)`; beyond 2^53 rounding may move the value across a bound, and beyond 2^1024 the value has no
binary64 at all and is reported as out of range whatever the bounds). -/
def RangeGuard (lo hi : FVal) (v : PyVal) : Prop :=
  lo ≠ .nan ∧ hi ≠ .nan ∧ ∀ i, v = .int i → floatOfInt i = some (FVal.ofInt i)

/-- **C08_range_partial.** RANGE: a number (int, float, numeral text — never a bool) within the inclusive bounds. -/
theorem C08_range_partial (env : Env) (lo hi : FVal) (v : PyVal) (hg : RangeGuard lo hi v) :
    eval env (.range lo hi) v = .ok ↔ Spec.means env (.range lo hi) v := by
  obtain ⟨hlo, hhi, hint⟩ := hg
  have hflag : ∀ x : FVal, Gen.rangeNanRejected = false → x ≠ .nan := by
    intro x hf; rw [gen_rangeNanRejected] at hf; cases hf
  simp only [eval, evalRange, Spec.means, Spec.RangeAccepts]
  cases v with
  | null => simp [isBool, toFloat, Spec.numberOf]
  | bool b => simp [isBool, Spec.numberOf]
  | list xs => simp [isBool, toFloat, Spec.numberOf]
  | zone c t f => simp [isBool, toFloat, Spec.numberOf]
  | int i =>
    simp only [isBool, toFloat, hint i rfl, Spec.numberOf, Bool.false_eq_true, ↓reduceIte]
    rw [← range_cond_iff Gen.rangeNanRejected hlo hhi (hflag _)]
    cases (Gen.rangeNanRejected && (FVal.ofInt i).isNan) || (FVal.ofInt i).lt lo || (FVal.ofInt i).gt hi <;> simp
  | float r x =>
    simp only [isBool, toFloat, Spec.numberOf, Bool.false_eq_true, ↓reduceIte]
    rw [← range_cond_iff Gen.rangeNanRejected hlo hhi (hflag _)]
    cases (Gen.rangeNanRejected && x.isNan) || x.lt lo || x.gt hi <;> simp
  | str s =>
    simp only [isBool, toFloat, Spec.numberOf, Bool.false_eq_true, ↓reduceIte]
    cases hs : pyFloatOfStr s with
    | none => simp
    | some x =>
      simp only
      rw [← range_cond_iff Gen.rangeNanRejected hlo hhi (hflag _)]
      cases (Gen.rangeNanRejected && x.isNan) || x.lt lo || x.gt hi <;> simp

/-- RANGE rejects every value that denotes NaN — a float nan, or a text such as "nan" — whatever the bounds (F19, fixed) -/
theorem C08_range_rejects_nan (env : Env) (lo hi : FVal) (v : PyVal) (hv : Spec.numberOf v = some .nan) :
    eval env (.range lo hi) v = .fail "E011" := by
  simp only [eval, evalRange]
  cases v with
  | null => simp [Spec.numberOf] at hv
  | bool b => simp [Spec.numberOf] at hv
  | list xs => simp [Spec.numberOf] at hv
  | zone c t f => simp [Spec.numberOf] at hv
  | int i => simp [Spec.numberOf, FVal.ofInt] at hv
  | float r x =>
    simp only [Spec.numberOf, Option.some.injEq] at hv
    subst hv
    simp [isBool, toFloat, gen_rangeNanRejected, FVal.isNan]
  | str s =>
    simp only [Spec.numberOf] at hv
    simp [isBool, toFloat, hv, gen_rangeNanRejected, FVal.isNan]

example : Spec.numberOf (.str "-NaN".toList) = some .nan := by decide

/-- RANGE rejects booleans -/
theorem C08_range_bool (env : Env) (lo hi : FVal) (b : Bool) : eval env (.range lo hi) (.bool b) = .fail "E011" := by
  simp [eval, evalRange, isBool]

def r15 : Constraint := .range (FVal.ofInt 1) (FVal.ofInt 5)
example : RangeGuard (FVal.ofInt 1) (FVal.ofInt 5) (.int 5) := by
  refine ⟨by decide, by decide, ?_⟩; intro i h; cases h; decide
example : eval env0 r15 (.int 1) = .ok ∧ eval env0 r15 (.int 5) = .ok ∧ eval env0 r15 (.int 0) = .fail "E011"
    ∧ eval env0 r15 (.int 6) = .fail "E011" ∧ eval env0 r15 (.str "5".toList) = .ok ∧ eval env0 r15 (.str "5.5".toList) = .fail "E011"
    ∧ eval env0 r15 (.bool true) = .fail "E011" := by decide
example : eval env0 r15 (.str "nan".toList) = .fail "E011" ∧ eval env0 r15 (.float "nan".toList .nan) = .fail "E011" := by decide
/-- an int just above the largest binary64 (≈ 1.797·10^308) -/
def hugeInt : Int := 179769313486231590772930519078902473361797697894230657273430081157732675805500963132708477322407536021120113879871393357658789768814416622492847430639474124377767893657175190231543223505632124129903584712028869632318800665427140160825523506532149958333981173696152128117405589926445134109200300003000030000300003000030000

/-- `RangeConstraint.evaluate` catches OverflowError around `float(value)` (C08N1 is fixed; regenerated from the source on every run) -/
theorem gen_rangeCatchesOverflow : Gen.rangeCaught.contains "OverflowError" = true := by decide

/-- an int beyond the binary64 range is reported as out of range (C08N1, fixed: it used to raise OverflowError) -/
example : floatOfInt hugeInt = none ∧ eval env0 r15 (.int hugeInt) = .fail "E011" := by decide +kernel

/-- **C08_no_raise.** No member's `evaluate` raises, for any constraint, any value and any environment: it always
returns a verdict. -/
theorem C08_no_raise (env : Env) (c : Constraint) (v : PyVal) (x : String) : eval env c v ≠ .raise x := by
  cases c <;> simp only [eval, evalReq, evalConst, evalEnum, evalType, evalRegex, evalDir, evalAppendOnly, evalMaxLength,
    evalMinLength, evalDate, evalIso8601, evalLiteral, evalLang] <;> try (repeat' split) <;> simp
  case range lo hi =>
    simp only [evalRange, gen_rangeCatchesOverflow, ↓reduceIte]
    cases v with
    | int i =>
      simp only [isBool, toFloat]
      cases h : floatOfInt i with
      | none => simp
      | some y => simp only [Bool.false_eq_true, ↓reduceIte]; split <;> simp
    | bool b => simp [isBool]
    | null => simp [isBool, toFloat]
    | float r y => simp only [isBool, toFloat, Bool.false_eq_true, ↓reduceIte]; split <;> simp
    | str s => simp only [isBool, toFloat, Bool.false_eq_true, ↓reduceIte]; cases pyFloatOfStr s <;> simp <;> split <;> simp
    | list xs => simp [isBool, toFloat]
    | zone a b d => simp [isBool, toFloat]

/-- hence `ConstraintChain.evaluate` never raises either: it always returns a list of error codes -/
theorem C08_chain_no_raise (env : Env) (cs : List Constraint) (v : PyVal) (x : String) : evalChain env cs v ≠ .raised x := by
  have hff : ∀ cs : List Constraint, firstFailure env cs v ≠ .raise x := by
    intro cs
    induction cs with
    | nil => simp [firstFailure]
    | cons c cs ih =>
      simp only [firstFailure]
      cases hc : c.eval env v with
      | ok => exact ih
      | fail e => simp
      | raise y => exact absurd hc (C08_no_raise env c v y)
  unfold evalChain
  simp only
  split
  · simp
  · cases hf : firstFailure env cs v with
    | ok => simp
    | fail e => simp
    | raise y =>
      have := C08_no_raise
      intro h
      simp only [ChainResult.raised.injEq] at h
      subst h
      exact hff cs hf


/-- MAX_LENGTH: strings and lists only, length ≤ N. -/
theorem C08_maxLength (env : Env) (n : Int) (v : PyVal) : eval env (.maxLength n) v = .ok ↔ Spec.means env (.maxLength n) v := by
  cases v <;> simp [eval, evalMaxLength, len?, Spec.means, Spec.MaxLenAccepts, Spec.lengthOf, Int.not_lt]

/-- MIN_LENGTH: strings and lists only, length ≥ N. -/
theorem C08_minLength (env : Env) (n : Int) (v : PyVal) : eval env (.minLength n) v = .ok ↔ Spec.means env (.minLength n) v := by
  cases v <;> simp [eval, evalMinLength, len?, Spec.means, Spec.MinLenAccepts, Spec.lengthOf, Int.not_lt]

example : eval env0 (.maxLength 3) (.str "abc".toList) = .ok ∧ eval env0 (.maxLength 3) (.str "abcd".toList) = .fail "E012"
    ∧ eval env0 (.maxLength 3) (.int 1) = .fail "E012" ∧ eval env0 (.minLength 1) (.list []) = .fail "E013"
    ∧ eval env0 (.minLength 1) (.list [.null]) = .ok := by decide

/-- the generated digit table has the two properties the DATE theorem rests on -/
theorem gen_digitTable : DigitTableOk := by unfold DigitTableOk; decide

/-- **C08_date.** DATE accepts exactly the ten-character texts `YYYY-MM-DD` of ASCII digits that name a real calendar
date (years 0001–9999, month lengths and leap years by the Gregorian rule).  The regex of the code admits every Unicode
decimal digit and a trailing newline; `fromisoformat` (on the UTF-8 bytes) refuses both, and the theorem shows it. -/
theorem C08_date (env : Env) (v : PyVal) : eval env .date v = .ok ↔ Spec.means env .date v := by
  simp only [eval, evalDate, Spec.means]
  constructor
  · intro h
    by_cases h1 : reDateMatch v.pyStr = true
    · by_cases h2 : Iso.fromIso v.pyStr = true
      · exact spec_of_date_accept gen_digitTable _ h1 h2
      · simp [h1, h2] at h
    · simp [h1] at h
  · intro h
    obtain ⟨h1, h2⟩ := date_accept_of_spec gen_digitTable _ h
    simp [h1, h2]

example : eval env0 .date (.str "2024-02-29".toList) = .ok ∧ eval env0 .date (.str "2023-02-29".toList) = .fail "E014"
    ∧ eval env0 .date (.str "2024-02-29\n".toList) = .fail "E014" ∧ eval env0 .date (.str "٢٠٢٤-٠١-١٥".toList) = .fail "E014"
    ∧ eval env0 .date (.str "0000-01-01".toList) = .fail "E014" ∧ eval env0 .date (.int 5) = .fail "E014" := by decide
example : Spec.IsDateText "1900-02-28".toList ∧ ¬ Spec.IsDateText "1900-02-29".toList ∧ Spec.IsDateText "2000-02-29".toList := by decide

/-- ISO8601: by the reading fixed in DESIGN C08, what `datetime.fromisoformat` accepts after `Z → +00:00`. -/
theorem C08_iso8601 (env : Env) (v : PyVal) : eval env .iso8601 v = .ok ↔ Spec.means env .iso8601 v := by
  simp only [eval, evalIso8601, Spec.means]; cases Iso.fromIso (replaceZ v.pyStr) <;> simp

/-- **C08_iso8601_dates.** "date or datetime", the date half: every text DATE accepts, ISO8601 accepts. -/
theorem C08_iso8601_dates (env : Env) (v : PyVal) (h : Spec.means env .date v) : eval env .iso8601 v = .ok := by
  have hacc := date_accept_of_spec gen_digitTable _ h
  have hz : replaceZ v.pyStr = v.pyStr := replaceZ_of_isDateText _ h
  simp [eval, evalIso8601, hz, hacc.2]

/-- **C08_iso8601_documented.** The datetime forms the docstring documents — `YYYY-MM-DDTHH:MM:SS`, the same with `Z`,
the same with `±HH:MM` — are accepted whenever their fields name a real date, a time of day and an offset below 24 h. -/
theorem C08_iso8601_documented (env : Env) (t : DT) (hd : t.digits) (hv : t.valid) :
    eval env .iso8601 (.str t.text) = .ok ∧ eval env .iso8601 (.str (t.text ++ ['Z'])) = .ok ∧
    ∀ sg o p q r : Char, (sg = '+' ∨ sg = '-') → dig o.toNat → dig p.toNat → dig q.toNat → dig r.toNat →
      two o.toNat p.toNat ≤ 23 → two q.toNat r.toNat ≤ 59 →
      eval env .iso8601 (.str (t.text ++ [sg, o, p, ':', q, r])) = .ok :=
  ⟨evalIso_str env _ (iso_plain t hd hv), evalIso_str env _ (iso_Z t hd hv),
   fun sg o p q r hsg ho hp hq hr hoff hmin => evalIso_str env _ (iso_offset t hd hv sg o p q r hsg ho hp hq hr hoff hmin)⟩

def dtEx : DT := ⟨'2', '0', '2', '4', '0', '2', '2', '9', '2', '3', '5', '9', '5', '9'⟩
example : dtEx.digits ∧ dtEx.valid ∧ dtEx.text = "2024-02-29T23:59:59".toList := by
  refine ⟨by unfold DT.digits dig; decide, by unfold DT.valid; decide, by decide⟩
example : eval env0 .iso8601 (.str "2024-02-30T10:00:00".toList) = .fail "E015"
    ∧ eval env0 .iso8601 (.str "2024-01-15T25:00:00".toList) = .fail "E015" ∧ eval env0 .iso8601 (.str "2024-01-15T10:00:00Z".toList) = .ok
    ∧ eval env0 .iso8601 (.str "2024-W03-1".toList) = .ok ∧ eval env0 .iso8601 (.int 20240115) = .ok := by decide

/-- LITERAL: literal zones only. -/
theorem C08_literal (env : Env) (v : PyVal) : eval env .literal v = .ok ↔ Spec.means env .literal v := by
  cases v <;> simp [eval, evalLiteral, Spec.means, Spec.kindOf, isZone]

/-- LANG: a literal zone with a non-empty tag equal to the expected one up to (ASCII) case. -/
theorem C08_lang (env : Env) (tag : Str) (v : PyVal) : eval env (.lang tag) v = .ok ↔ Spec.means env (.lang tag) v := by
  cases v with
  | zone c t f =>
    cases t with
    | none => simp [eval, evalLang, Spec.means, Spec.LangAccepts]
    | some t =>
      simp only [eval, evalLang, Spec.means, Spec.LangAccepts]
      by_cases h1 : t = []
      · simp [h1]
      · by_cases h2 : asciiLower t = tag <;> simp [h1, h2]
  | _ => simp [eval, evalLang, Spec.means, Spec.LangAccepts]

example : eval env0 (.lang "python".toList) (.zone [] (some "Python".toList) []) = .ok
    ∧ eval env0 (.lang "python".toList) (.zone [] none []) = .fail "E007" := by decide

/-! ## Members and chains against the spec, all kinds at once -/

/-- the only member kind whose theorem carries a guard is RANGE -/
def MemberGuard (c : Constraint) (v : PyVal) : Prop :=
  match c with
  | .range lo hi => RangeGuard lo hi v
  | _ => True

/-- **C08_member_spec_partial.** Every kind: `evaluate` accepts exactly when the documented meaning holds
(RANGE under `RangeGuard`: numeric bounds, int value exactly representable as binary64). -/
theorem C08_member_spec_partial (env : Env) (c : Constraint) (v : PyVal) (hg : MemberGuard c v) :
    c.eval env v = .ok ↔ Spec.means env c v := by
  cases c with
  | req => exact C08_req env v
  | opt => exact C08_opt env v
  | const x => exact C08_const env x v
  | enum a => exact C08_enum env a v
  | type t => exact C08_type env t v
  | regex p => exact C08_regex env p v
  | dir => exact C08_dir env v
  | appendOnly => exact C08_appendOnly env v
  | range lo hi => exact C08_range_partial env lo hi v hg
  | maxLength n => exact C08_maxLength env n v
  | minLength n => exact C08_minLength env n v
  | date => exact C08_date env v
  | iso8601 => exact C08_iso8601 env v
  | literal => exact C08_literal env v
  | lang t => exact C08_lang env t v

/-- **C08_chain_spec.** For every chain of every length and kind mix: the implementation's verdict is the documented
one — no declared conflict and every member's documented meaning holds — under the RANGE guard of its RANGE members. -/
theorem C08_chain_spec (env : Env) (cs : List Constraint) (v : PyVal) (hg : ∀ c ∈ cs, MemberGuard c v) :
    chainValid env cs v = true ↔ Spec.chainAccepts env cs v :=
  C08_chain_spec_partial env cs v (fun c hc => C08_member_spec_partial env c v (hg c hc))

example : chainValid env0 [.req, .enum enum3, r15, .maxLength 6] (.str "D".toList) = true
    ↔ Spec.chainAccepts env0 [.req, .enum enum3, r15, .maxLength 6] (.str "D".toList) := by
  apply C08_chain_spec
  intro c hc
  simp only [List.mem_cons, List.not_mem_nil, or_false] at hc
  rcases hc with rfl | rfl | rfl | rfl
  · trivial
  · trivial
  · exact ⟨by decide, by decide, by intro i h; cases h⟩
  · trivial

/-! ## Document level (`Validator._validate_section`, `_validate_unknown_fields`)

A section is the list of its `Assignment` children `(key, value)`; a schema is a list of fields with their
chains and an `UNKNOWN_FIELDS` policy text.  `es` is everything the validator reports for the section. -/

/-- **C08_missing_required.** A field whose chain has REQ and that is missing from the instance block (or is
null there) always produces an error (E003, severity error) naming that field. -/
theorem C08_missing_required (env : Env) (sec : Str) (children : List (Str × PyVal)) (policy : Str) (fields : List SField)
    (es : List VErr) (h : validateSection env sec children policy fields = .errors es)
    (name : Str) (cs : List Constraint) (hf : (name, some cs) ∈ fields) (hreq : ∃ c ∈ cs, Spec.IsReq c)
    (hmiss : lookupLast name children = none ∨ lookupLast name children = some .null) :
    (⟨"E003", fieldPath sec name, "error"⟩ : VErr) ∈ es := by
  obtain ⟨ef, hef, rfl⟩ := validateSection_errors env sec children policy fields es h
  apply List.mem_append_right
  have hnone : isNone ((lookupLast name children).getD .null) = true := by
    rcases hmiss with h | h <;> simp [h, isNone]
  have hany : cs.any Constraint.isReq = true := (any_isReq_iff cs).2 hreq
  have hfield : validateField env sec children (name, some cs) = .errors [⟨"E003", fieldPath sec name, "error"⟩] := by
    simp [validateField, hany, hnone]
  exact validateFields_contains env sec children fields ef hef _ hf _ hfield _ (List.mem_singleton.2 rfl)

/-- **C08_unknown_reject.** Under REJECT (also the fail-safe for an unrecognised policy text) every field of the
instance block that the schema does not define produces an error (E007, severity error) naming it. -/
theorem C08_unknown_reject (env : Env) (sec : Str) (children : List (Str × PyVal)) (policy : Str) (fields : List SField)
    (es : List VErr) (h : validateSection env sec children policy fields = .errors es)
    (hp : policyOf policy = .reject) (k : Str) (hk : k ∈ children.map (·.1)) (hu : k ∉ fields.map (·.1)) :
    (⟨"E007", fieldPath sec k, "error"⟩ : VErr) ∈ es := by
  obtain ⟨ef, _, rfl⟩ := validateSection_errors env sec children policy fields es h
  apply List.mem_append_left
  simp only [validateUnknownFields, hp]
  exact List.mem_map.2 ⟨k, (mem_unknown _ _ k).2 ⟨hk, hu⟩, rfl⟩

/-- **C08_unknown_warn.** Under WARN an unknown field produces a warning naming it (W001, severity warning), and
*only* a warning: every entry that names the field has severity "warning". -/
theorem C08_unknown_warn (env : Env) (sec : Str) (children : List (Str × PyVal)) (policy : Str) (fields : List SField)
    (es : List VErr) (h : validateSection env sec children policy fields = .errors es)
    (hp : policyOf policy = .warn) (k : Str) (hk : k ∈ children.map (·.1)) (hu : k ∉ fields.map (·.1)) :
    (⟨"W001", fieldPath sec k, "warning"⟩ : VErr) ∈ es ∧
      ∀ e ∈ es, e.path = fieldPath sec k → (e.severity = "warning" ∧ e.code = "W001") := by
  obtain ⟨ef, hef, rfl⟩ := validateSection_errors env sec children policy fields es h
  constructor
  · apply List.mem_append_left
    simp only [validateUnknownFields, hp]
    exact List.mem_map.2 ⟨k, (mem_unknown _ _ k).2 ⟨hk, hu⟩, rfl⟩
  · intro e he hpath
    rcases List.mem_append.1 he with he | he
    · simp only [validateUnknownFields, hp] at he
      obtain ⟨f, _, rfl⟩ := List.mem_map.1 he
      exact ⟨rfl, rfl⟩
    · obtain ⟨f, hf, hfp, _⟩ := validateFields_entries env sec children fields ef hef e he
      have : f.1 = k := fieldPath_inj sec _ _ (hfp.symm.trans hpath)
      exact absurd (List.mem_map.2 ⟨f, hf, this⟩) hu

/-- **C08_unknown_ignore.** Under IGNORE an unknown field produces nothing: no entry names it. -/
theorem C08_unknown_ignore (env : Env) (sec : Str) (children : List (Str × PyVal)) (policy : Str) (fields : List SField)
    (es : List VErr) (h : validateSection env sec children policy fields = .errors es)
    (hp : policyOf policy = .ignore) (k : Str) (hu : k ∉ fields.map (·.1)) :
    ∀ e ∈ es, e.path ≠ fieldPath sec k := by
  obtain ⟨ef, hef, rfl⟩ := validateSection_errors env sec children policy fields es h
  intro e he hpath
  rcases List.mem_append.1 he with he | he
  · simp [validateUnknownFields, hp] at he
  · obtain ⟨f, hf, hfp, _⟩ := validateFields_entries env sec children fields ef hef e he
    have : f.1 = k := fieldPath_inj sec _ _ (hfp.symm.trans hpath)
    exact absurd (List.mem_map.2 ⟨f, hf, this⟩) hu

/-- **C08_field_errors.** A present (non-null) field is reported on exactly through its chain: the entries naming
it are the chain's error codes, so there is one iff the chain does not accept the value. -/
theorem C08_field_verdict (env : Env) (sec : Str) (children : List (Str × PyVal)) (name : Str) (cs : List Constraint)
    (v : PyVal) (hv : lookupLast name children = some v) (hnn : isNone v = false) (codes : List String)
    (hc : evalChain env cs v = .errors codes) :
    validateField env sec children (name, some cs) = .errors (codes.map fun c => ⟨c, fieldPath sec name, "error"⟩) := by
  simp [validateField, hv, hnn, hc]

/-- non-vacuity: a schema with two fields, an instance that omits the required one and adds an unknown one -/
def exFields : List SField := [("NAME".toList, some [.req, .enum enum3]), ("AGE".toList, some [.opt, r15])]
def exChildren : List (Str × PyVal) := [("EXTRA".toList, .int 1), ("AGE".toList, .int 9)]
example : validateSection env0 "S".toList exChildren "REJECT".toList exFields = .errors
    [⟨"E007", "S.EXTRA".toList, "error"⟩, ⟨"E003", "S.NAME".toList, "error"⟩, ⟨"E011", "S.AGE".toList, "error"⟩] := by decide
example : validateSection env0 "S".toList exChildren "WARN".toList exFields = .errors
    [⟨"W001", "S.EXTRA".toList, "warning"⟩, ⟨"E003", "S.NAME".toList, "error"⟩, ⟨"E011", "S.AGE".toList, "error"⟩] := by decide
example : validateSection env0 "S".toList exChildren "IGNORE".toList exFields = .errors
    [⟨"E003", "S.NAME".toList, "error"⟩, ⟨"E011", "S.AGE".toList, "error"⟩] := by decide
/-- the document-level theorems applied to that instance (hypotheses discharged by evaluation) -/
def exRejectOut : List VErr := [⟨"E007", "S.EXTRA".toList, "error"⟩, ⟨"E003", "S.NAME".toList, "error"⟩, ⟨"E011", "S.AGE".toList, "error"⟩]
def exWarnOut : List VErr := [⟨"W001", "S.EXTRA".toList, "warning"⟩, ⟨"E003", "S.NAME".toList, "error"⟩, ⟨"E011", "S.AGE".toList, "error"⟩]
def exIgnoreOut : List VErr := [⟨"E003", "S.NAME".toList, "error"⟩, ⟨"E011", "S.AGE".toList, "error"⟩]
example : (⟨"E003", fieldPath "S".toList "NAME".toList, "error"⟩ : VErr) ∈ exRejectOut :=
  C08_missing_required env0 "S".toList exChildren "REJECT".toList exFields exRejectOut (by decide) "NAME".toList [.req, .enum enum3]
    (by unfold exFields; exact List.mem_cons_self) ⟨.req, List.mem_cons_self, trivial⟩ (Or.inl rfl)
example : (⟨"E007", fieldPath "S".toList "EXTRA".toList, "error"⟩ : VErr) ∈ exRejectOut :=
  C08_unknown_reject env0 "S".toList exChildren "REJECT".toList exFields exRejectOut (by decide) (by decide) "EXTRA".toList (by decide) (by decide)
example := C08_unknown_warn env0 "S".toList exChildren "WARN".toList exFields exWarnOut (by decide) (by decide) "EXTRA".toList (by decide) (by decide)
example := C08_unknown_ignore env0 "S".toList exChildren "IGNORE".toList exFields exIgnoreOut (by decide) (by decide) "EXTRA".toList (by decide)
example := C08_field_verdict env0 "S".toList exChildren "AGE".toList [.opt, r15] (.int 9) rfl rfl ["E011"] (by decide)

example : policyOf "BOGUS".toList = .reject ∧ policyOf "WARN".toList = .warn ∧ policyOf "IGNORE".toList = .ignore := by decide

end Octave.C08
