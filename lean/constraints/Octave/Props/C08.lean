import Octave.Model.Constraints
import Octave.Model.Validator
import Octave.Spec.Meaning
namespace Octave.C08
end Octave.C08
