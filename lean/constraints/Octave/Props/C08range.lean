/-
C08 — RANGE at full strength: the verdict of `RangeConstraint.evaluate` for EVERY value (no guard on ints), characterised by
an independent spec of `float(int)` (`Spec.intToDouble`: nearest binary64, ties to even, none from 2^1024 − 2^970 on;
`Lemmas/RangeRound.lean`), and the exact place where this differs from the documented "inclusive bounds" reading
(`Spec.RangeAccepts`, `C08_range_partial`): only for an int that has no binary64, or whose rounding crosses a bound
(the bound then lies between the int and its binary64, i.e. within half an ulp of the int).
-/
import Octave.Props.C08
import Octave.Lemmas.RangeRound
namespace Octave.C08
open Octave Octave.PyVal Octave.Constraint Octave.Spec Octave.RangeRound

/-! ## `rangeRound_floatOfInt_spec`: what the model's `float(int)` is -/

/-- the rounded integer with its sign -/
def rangeRoundInt (i : Int) : Int := if i < 0 then -((roundNat i.natAbs : Nat) : Int) else ((roundNat i.natAbs : Nat) : Int)

theorem rangeRound_intToDouble_some (i : Int) (h : ¬ rangeRoundThreshold ≤ i.natAbs) :
    Spec.intToDouble i = some (.fin ((rangeRoundInt i : Int) : Rat)) := by
  unfold Spec.intToDouble rangeRoundInt
  rw [if_neg (fun hh => h ((rangeRound_overflow_iff _).1 hh))]
  by_cases hneg : i < 0
  · rw [if_pos hneg, if_pos hneg, Rat.intCast_neg, Rat.intCast_natCast]
  · rw [if_neg hneg, if_neg hneg, Rat.intCast_natCast]

/-- (a) exact below 2^53 -/
theorem rangeRound_floatOfInt_exact (i : Int) (h : i.natAbs < 2 ^ 53) : floatOfInt i = some (FVal.ofInt i) := by
  rw [rangeRound_floatOfInt_spec]
  have hthr : ¬ rangeRoundThreshold ≤ i.natAbs := by
    have : (2:Nat) ^ 53 < rangeRoundThreshold := by decide +kernel
    omega
  rw [rangeRound_intToDouble_some i hthr]
  have : rangeRoundInt i = i := by
    unfold rangeRoundInt; rw [rangeRound_exact _ h]; split <;> omega
  rw [this]; rfl

/-- (d) `float(int)` raises OverflowError exactly from 2^1024 − 2^970 on (both signs) -/
theorem rangeRound_floatOfInt_none_iff (i : Int) : floatOfInt i = none ↔ 2 ^ 1024 - 2 ^ 970 ≤ i.natAbs := by
  rw [rangeRound_floatOfInt_spec]
  show _ ↔ rangeRoundThreshold ≤ i.natAbs
  by_cases h : rangeRoundThreshold ≤ i.natAbs
  · unfold Spec.intToDouble; rw [if_pos ((rangeRound_overflow_iff _).2 h)]; simp [h]
  · rw [rangeRound_intToDouble_some i h]; simp [h]

/-- (b) rounding is monotone on ints -/
theorem rangeRound_int_mono (i j : Int) (h : i ≤ j) : rangeRoundInt i ≤ rangeRoundInt j := by
  unfold rangeRoundInt
  by_cases hi : i < 0
  · rw [if_pos hi]
    by_cases hj : j < 0
    · rw [if_pos hj]
      have := rangeRound_mono_nat j.natAbs i.natAbs (by omega)
      omega
    · rw [if_neg hj]; omega
  · rw [if_neg hi, if_neg (by omega)]
    have := rangeRound_mono_nat i.natAbs j.natAbs (by omega)
    omega

/-- (b) as the model sees it: `i ≤ j`, both convertible → `float(i) ≤ float(j)` -/
theorem rangeRound_floatOfInt_mono (i j : Int) (h : i ≤ j) (x y : FVal)
    (hx : floatOfInt i = some x) (hy : floatOfInt j = some y) : Spec.FLe x y := by
  rw [rangeRound_floatOfInt_spec] at hx hy
  have hi : ¬ rangeRoundThreshold ≤ i.natAbs := fun hh => by
    unfold Spec.intToDouble at hx; rw [if_pos ((rangeRound_overflow_iff _).2 hh)] at hx; cases hx
  have hj : ¬ rangeRoundThreshold ≤ j.natAbs := fun hh => by
    unfold Spec.intToDouble at hy; rw [if_pos ((rangeRound_overflow_iff _).2 hh)] at hy; cases hy
  rw [rangeRound_intToDouble_some i hi] at hx
  rw [rangeRound_intToDouble_some j hj] at hy
  cases hx; cases hy
  exact Rat.intCast_le_intCast.2 (rangeRound_int_mono i j h)

/-- (c) at most half an ulp from the int -/
theorem rangeRound_int_half_ulp (i : Int) :
    2 * (rangeRoundInt i - i) ≤ (ulpOf i.natAbs : Int) ∧ 2 * (i - rangeRoundInt i) ≤ (ulpOf i.natAbs : Int) := by
  have := rangeRound_half_ulp i.natAbs
  unfold rangeRoundInt
  split <;> omega

/-! ## C08_range_rounded -/

theorem rangeRound_fle_notnan (lo x hi : FVal) : (x ≠ .nan ∧ Spec.FLe lo x ∧ Spec.FLe x hi) ↔ (Spec.FLe lo x ∧ Spec.FLe x hi) := by
  constructor
  · exact fun h => h.2
  · intro h; refine ⟨?_, h⟩; intro hx; subst hx; cases lo <;> simp [Spec.FLe] at h

/-- **C08_range_rounded.** RANGE for every value, no guard on ints: accepted ⇔ the value is not a bool, denotes a binary64
number (int → nearest binary64, ties to even, none beyond the binary64 range; float → itself; numeral text → `float(text)`),
that number is not NaN and lies within the inclusive bounds.  Only hypothesis: the bounds are not NaN. -/
theorem C08_range_rounded (env : Env) (lo hi : FVal) (v : PyVal) (hlo : lo ≠ .nan) (hhi : hi ≠ .nan) :
    eval env (.range lo hi) v = .ok ↔ Spec.RangeAcceptsRounded lo hi v := by
  have hflag : ∀ x : FVal, Gen.rangeNanRejected = false → x ≠ .nan := by
    intro x hf; rw [gen_rangeNanRejected] at hf; cases hf
  simp only [eval, evalRange, gen_rangeCatchesOverflow, ↓reduceIte, Spec.RangeAcceptsRounded]
  cases v with
  | null => simp [isBool, toFloat, Spec.numberOfRounded]
  | bool b => simp [isBool, Spec.numberOfRounded]
  | list xs => simp [isBool, toFloat, Spec.numberOfRounded]
  | zone c t f => simp [isBool, toFloat, Spec.numberOfRounded]
  | int i =>
    simp only [isBool, toFloat, Spec.numberOfRounded, Bool.false_eq_true, ↓reduceIte, rangeRound_floatOfInt_spec]
    cases hi' : Spec.intToDouble i with
    | none => simp
    | some x =>
      simp only
      rw [rangeRound_fle_notnan, ← range_cond_iff Gen.rangeNanRejected hlo hhi (hflag _)]
      cases (Gen.rangeNanRejected && x.isNan) || x.lt lo || x.gt hi <;> simp
  | float r x =>
    simp only [isBool, toFloat, Spec.numberOfRounded, Bool.false_eq_true, ↓reduceIte]
    rw [rangeRound_fle_notnan, ← range_cond_iff Gen.rangeNanRejected hlo hhi (hflag _)]
    cases (Gen.rangeNanRejected && x.isNan) || x.lt lo || x.gt hi <;> simp
  | str s =>
    simp only [isBool, toFloat, Spec.numberOfRounded, Bool.false_eq_true, ↓reduceIte]
    cases hs : pyFloatOfStr s with
    | none => simp
    | some x =>
      simp only
      rw [rangeRound_fle_notnan, ← range_cond_iff Gen.rangeNanRejected hlo hhi (hflag _)]
      cases (Gen.rangeNanRejected && x.isNan) || x.lt lo || x.gt hi <;> simp

/-- non-vacuity: ints below and above 2^53, a float, numeral texts, a bool, an int without binary64 -/
example : (eval env0 (.range (FVal.ofInt 0) (FVal.ofInt 9007199254740992)) (.int 9007199254740993) = .ok
      ∧ Spec.RangeAcceptsRounded (FVal.ofInt 0) (FVal.ofInt 9007199254740992) (.int 9007199254740993))
    ∧ (eval env0 (.range (FVal.ofInt 0) (FVal.ofInt 9007199254740992)) (.int 9007199254740995) = .fail "E011"
      ∧ ¬ Spec.RangeAcceptsRounded (FVal.ofInt 0) (FVal.ofInt 9007199254740992) (.int 9007199254740995))
    ∧ Spec.RangeAcceptsRounded (FVal.ofInt 1) (FVal.ofInt 5) (.str "5".toList)
    ∧ ¬ Spec.RangeAcceptsRounded (FVal.ofInt 1) (FVal.ofInt 5) (.bool true)
    ∧ ¬ Spec.RangeAcceptsRounded (FVal.ofInt 1) (FVal.ofInt 5) (.str "nan".toList)
    ∧ ¬ Spec.RangeAcceptsRounded (FVal.ofInt 1) .pinf (.int hugeInt) := by decide +kernel

/-- non-vacuity of the rounding spec: a tie to even downwards, a tie to even upwards, above half, the overflow boundary -/
example : Spec.roundNat (2 ^ 53 + 1) = 2 ^ 53 ∧ Spec.roundNat (2 ^ 53 + 3) = 2 ^ 53 + 4 ∧ Spec.roundNat (2 ^ 54 + 3) = 2 ^ 54 + 4
    ∧ Spec.intToDouble (-(2 ^ 1024 - 2 ^ 970)) = none
    ∧ Spec.intToDouble (-(2 ^ 1024 - 2 ^ 970 - 1)) = some (.fin (-(2 ^ 1024 - 2 ^ 971 : Int) : Int)) := by decide +kernel

/-! ## C08_range_guard_exact: where the binary64 reading and the documented reading differ -/

/-- **C08_range_guard_exact (witnesses).** `RangeGuard` cannot be dropped from `C08_range_partial`:
RANGE[0, 2^53] accepts the int 2^53+1, which is outside the inclusive bounds; and RANGE[2^53+1, 2^53+1] rejects the int
2^53+1, which is inside them.  (Both run on the real code: same answers.) -/
theorem C08_range_guard_exact :
    (eval env0 (.range (FVal.ofInt 0) (FVal.ofInt 9007199254740992)) (.int 9007199254740993) = .ok
      ∧ ¬ Spec.RangeAccepts (FVal.ofInt 0) (FVal.ofInt 9007199254740992) (.int 9007199254740993))
    ∧ (eval env0 (.range (FVal.ofInt 9007199254740993) (FVal.ofInt 9007199254740993)) (.int 9007199254740993) = .fail "E011"
      ∧ Spec.RangeAccepts (FVal.ofInt 9007199254740993) (FVal.ofInt 9007199254740993) (.int 9007199254740993)) := by
  decide +kernel

/-- **C08_range_rounded_vs_exact.** For an int value and bounds that are not NaN, the verdict can differ from the documented
"within the inclusive bounds" only if the int has no binary64 (|i| ≥ 2^1024 − 2^970: always E011), or one of the bounds is a
finite number `q` lying between the int and its binary64 (which differ) — hence, by `rangeRound_int_half_ulp`, within half an
ulp of the int. -/
theorem C08_range_rounded_vs_exact (env : Env) (lo hi : FVal) (i : Int) (hlo : lo ≠ .nan) (hhi : hi ≠ .nan)
    (hd : ¬ (eval env (.range lo hi) (.int i) = .ok ↔ Spec.RangeAccepts lo hi (.int i))) :
    2 ^ 1024 - 2 ^ 970 ≤ i.natAbs ∨
    ∃ q : Rat, (lo = .fin q ∨ hi = .fin q) ∧ rangeRoundInt i ≠ i ∧
      (((i : Rat) ≤ q ∧ q ≤ ((rangeRoundInt i : Int) : Rat)) ∨ (((rangeRoundInt i : Int) : Rat) ≤ q ∧ q ≤ (i : Rat))) := by
  by_cases hthr : rangeRoundThreshold ≤ i.natAbs
  · exact Or.inl (by unfold rangeRoundThreshold at hthr; exact hthr)
  refine Or.inr ?_
  rw [C08_range_rounded env lo hi _ hlo hhi] at hd
  simp only [Spec.RangeAcceptsRounded, Spec.RangeAccepts, Spec.numberOfRounded, Spec.numberOf,
    rangeRound_intToDouble_some i hthr, rangeRound_fle_notnan, FVal.ofInt] at hd
  have hne : ∀ q : Rat, (((rangeRoundInt i : Int) : Rat) ≤ q ∧ ¬ (i : Rat) ≤ q) ∨ (¬ ((rangeRoundInt i : Int) : Rat) ≤ q ∧ (i : Rat) ≤ q)
      ∨ (q ≤ ((rangeRoundInt i : Int) : Rat) ∧ ¬ q ≤ (i : Rat)) ∨ (¬ q ≤ ((rangeRoundInt i : Int) : Rat) ∧ q ≤ (i : Rat)) →
      rangeRoundInt i ≠ i := by
    intro q h he; rw [he] at h; rcases h with h | h | h | h <;> first | exact absurd h.1 h.2 | exact absurd h.2 h.1
  generalize hy : ((rangeRoundInt i : Int) : Rat) = y at *
  generalize hx : (i : Rat) = x at *
  cases lo with
  | nan => exact absurd rfl hlo
  | pinf => simp [Spec.FLe] at hd
  | fin a =>
    cases hi with
    | nan => exact absurd rfl hhi
    | ninf => simp [Spec.FLe] at hd
    | pinf =>
      simp only [Spec.FLe, and_true] at hd
      exact ⟨a, Or.inl rfl, hne a (by grind), by grind⟩
    | fin b =>
      simp only [Spec.FLe] at hd
      by_cases hab : (a ≤ y ↔ a ≤ x)
      · exact ⟨b, Or.inr rfl, hne b (by grind), by grind⟩
      · exact ⟨a, Or.inl rfl, hne a (by grind), by grind⟩
  | ninf =>
    cases hi with
    | nan => exact absurd rfl hhi
    | ninf => simp [Spec.FLe] at hd
    | pinf => simp [Spec.FLe] at hd
    | fin b =>
      simp only [Spec.FLe, true_and] at hd
      exact ⟨b, Or.inr rfl, hne b (by grind), by grind⟩

/-- non-vacuity of `C08_range_rounded_vs_exact`: the hypothesis holds for the witness, and the bound 2^53 is the `q`. -/
example : ¬ (eval env0 (.range (FVal.ofInt 0) (FVal.ofInt 9007199254740992)) (.int 9007199254740993) = .ok
      ↔ Spec.RangeAccepts (FVal.ofInt 0) (FVal.ofInt 9007199254740992) (.int 9007199254740993))
    ∧ rangeRoundInt 9007199254740993 = 9007199254740992 := by decide +kernel
/-- the overflow disjunct is real: RANGE[1, +inf] rejects an int beyond the binary64 range, which is within the bounds -/
example : eval env0 (.range (FVal.ofInt 1) .pinf) (.int hugeInt) = .fail "E011" ∧ Spec.RangeAccepts (FVal.ofInt 1) .pinf (.int hugeInt) := by
  decide +kernel

end Octave.C08
