/-
The *documented meaning* of each constraint kind and of a chain, written from the class docstrings
of constraints.py, the module docstring, `detect_conflicts`' docstring and the text of property C08 —
NOT from the `evaluate` bodies.  It shares with the model only the vocabulary of Python primitives
(`pyEq` for `==`, `pyStr` for `str()`, `pyFloatOfStr` for the number a numeral denotes) and the
external `Env` (regex engine).

Everything here is a `Prop` with a `Decidable` instance, so that the driver can run the spec next
to the model on every correspondence case.
-/
import Octave.Model.Constraints
namespace Octave.Spec
open Octave PyVal

/-- the kind of a value, as the documentation speaks about it -/
inductive Kind where
  | none | boolean | integer | real | text | list | literalZone
  deriving DecidableEq, Repr

def kindOf : PyVal → Kind
  | .null => .none
  | .bool _ => .boolean
  | .int _ => .integer
  | .float .. => .real
  | .str _ => .text
  | .list _ => .list
  | .zone .. => .literalZone

/-! ### REQ — "value must be present and non-empty" -/
def NonEmpty : PyVal → Prop
  | .null => False
  | .str [] => False
  | _ => True

instance : DecidablePred NonEmpty := fun v => by
  cases v with
  | str s => cases s <;> simp only [NonEmpty] <;> infer_instance
  | _ => simp only [NonEmpty] <;> infer_instance

/-! ### ENUM — "value must match one of the allowed values; prefix matching if unambiguous" -/

/-- number of allowed values that `s` is a prefix of -/
def prefixMatches (allowed : List Str) (s : Str) : Nat := allowed.countP (fun a => s.isPrefixOf a)

/-- exact match, or a prefix of exactly one allowed value -/
def EnumAccepts (allowed : List Str) (s : Str) : Prop := s ∈ allowed ∨ prefixMatches allowed s = 1

/-- the ambiguity error (E006): no exact match and at least two allowed values start with `s` -/
def EnumAmbiguous (allowed : List Str) (s : Str) : Prop := s ∉ allowed ∧ 2 ≤ prefixMatches allowed s

instance (a : List Str) (s : Str) : Decidable (EnumAccepts a s) := by unfold EnumAccepts; infer_instance
instance (a : List Str) (s : Str) : Decidable (EnumAmbiguous a s) := by unfold EnumAmbiguous; infer_instance

/-! ### TYPE — "STRING | NUMBER | LIST | BOOLEAN; NUMBER accepts both int and float", booleans never numbers -/
def TypeAccepts (t : Str) (v : PyVal) : Prop :=
  (t = "STRING".toList ∧ kindOf v = .text) ∨
  (t = "NUMBER".toList ∧ (kindOf v = .integer ∨ kindOf v = .real)) ∨
  (t = "BOOLEAN".toList ∧ kindOf v = .boolean) ∨
  (t = "LIST".toList ∧ kindOf v = .list)

/-! ### RANGE — "value must be within numeric bounds (inclusive)" -/

/-- `a ≤ b` on exact numbers; nothing is comparable with nan -/
def FLe : FVal → FVal → Prop
  | .nan, _ => False
  | _, .nan => False
  | .ninf, _ => True
  | _, .pinf => True
  | .fin a, .fin b => a ≤ b
  | _, _ => False

instance : (a b : FVal) → Decidable (FLe a b) := fun a b => by
  cases a <;> cases b <;> simp only [FLe] <;> infer_instance

/-- the number a value denotes: an int or a float denotes itself (exactly), a text denotes the
float its numeral spells; booleans, None, lists, zones and other texts denote no number -/
def numberOf : PyVal → Option FVal
  | .int i => some (FVal.ofInt i)
  | .float _ x => some x
  | .str s => pyFloatOfStr s
  | _ => Option.none

def RangeAccepts (lo hi : FVal) (v : PyVal) : Prop :=
  match numberOf v with
  | some x => FLe lo x ∧ FLe x hi
  | Option.none => False

instance (lo hi : FVal) (v : PyVal) : Decidable (RangeAccepts lo hi v) := by
  unfold RangeAccepts; split <;> infer_instance

/-! ### MIN/MAX_LENGTH — "string/list length must (not exceed | be at least) N", strings and lists only -/
def lengthOf : PyVal → Option Nat
  | .str s => some s.length
  | .list xs => some xs.length
  | _ => Option.none

def MaxLenAccepts (n : Int) (v : PyVal) : Prop :=
  match lengthOf v with
  | some l => (l : Int) ≤ n
  | Option.none => False
def MinLenAccepts (n : Int) (v : PyVal) : Prop :=
  match lengthOf v with
  | some l => n ≤ (l : Int)
  | Option.none => False

instance (n : Int) (v : PyVal) : Decidable (MaxLenAccepts n v) := by unfold MaxLenAccepts; split <;> infer_instance
instance (n : Int) (v : PyVal) : Decidable (MinLenAccepts n v) := by unfold MinLenAccepts; split <;> infer_instance

/-! ### DATE — "a valid date in YYYY-MM-DD format only": a real (proleptic Gregorian) calendar date,
years 0001–9999, written with ASCII digits -/

def LeapYear (y : Nat) : Prop := (y % 4 = 0 ∧ y % 100 ≠ 0) ∨ y % 400 = 0
instance : DecidablePred LeapYear := fun _ => by unfold LeapYear; infer_instance

def monthLength (y m : Nat) : Nat :=
  if m = 2 then (if LeapYear y then 29 else 28)
  else if m = 4 ∨ m = 6 ∨ m = 9 ∨ m = 11 then 30
  else 31

def RealDate (y m d : Nat) : Prop := 1 ≤ y ∧ y ≤ 9999 ∧ 1 ≤ m ∧ m ≤ 12 ∧ 1 ≤ d ∧ d ≤ monthLength y m
instance (y m d : Nat) : Decidable (RealDate y m d) := by unfold RealDate; infer_instance

/-- value of an ASCII digit (code points 48–57) -/
def digit? (c : Char) : Option Nat := if 48 ≤ c.toNat ∧ c.toNat ≤ 57 then some (c.toNat - 48) else Option.none

/-- `YYYY-MM-DD` with ASCII digits: the three numbers, if the text has that shape -/
def dateFields : Str → Option (Nat × Nat × Nat)
  | [y1, y2, y3, y4, '-', m1, m2, '-', d1, d2] =>
    match digit? y1, digit? y2, digit? y3, digit? y4, digit? m1, digit? m2, digit? d1, digit? d2 with
    | some a, some b, some c, some d, some e, some f, some g, some h =>
      some (a * 1000 + b * 100 + c * 10 + d, e * 10 + f, g * 10 + h)
    | _, _, _, _, _, _, _, _ => Option.none
  | _ => Option.none

def IsDateText (s : Str) : Prop :=
  match dateFields s with
  | some (y, m, d) => RealDate y m d
  | Option.none => False
instance (s : Str) : Decidable (IsDateText s) := by unfold IsDateText; split <;> infer_instance

/-! ### LANG — "literal zone must have matching info_tag; comparison is case-insensitive" -/
def LangAccepts (tag : Str) : PyVal → Prop
  | .zone _ (some t) _ => t ≠ [] ∧ asciiLower t = tag
  | _ => False
instance (tag : Str) : DecidablePred (LangAccepts tag) := fun v => by
  cases v with
  | zone c t f => cases t <;> simp only [LangAccepts] <;> infer_instance
  | _ => simp only [LangAccepts] <;> infer_instance

/-! ### the meaning of every kind -/

/-- `means env c v`: by the documentation, constraint `c` is satisfied by value `v`. -/
def means (env : Env) : Constraint → PyVal → Prop
  | .req, v => NonEmpty v
  | .opt, _ => True                                           -- "can be None or missing": always passes
  | .const c, v => pyEq v c = true                            -- "must equal X exactly"
  | .enum a, v => EnumAccepts a (pyStr v)
  | .type t, v => TypeAccepts t v
  | .regex p, v => env.reMatch p (pyStr v) = true             -- "value must match regex pattern"
  | .dir, v => '\x00' ∉ pyStr v                               -- "valid directory path": no NUL
  | .appendOnly, v => kindOf v = .list                        -- "value must be a list"
  | .range lo hi, v => RangeAccepts lo hi v
  | .maxLength n, v => MaxLenAccepts n v
  | .minLength n, v => MinLenAccepts n v
  | .date, v => IsDateText (pyStr v)
  | .iso8601, v => Iso.fromIso (replaceZ (pyStr v)) = true    -- "what datetime.fromisoformat accepts after Z → +00:00" (DESIGN C08 reading)
  | .literal, v => kindOf v = .literalZone                    -- "value must be a LiteralZoneValue"
  | .lang t, v => LangAccepts t v

instance (env : Env) (c : Constraint) (v : PyVal) : Decidable (means env c v) := by
  cases c <;> simp only [means, EnumAccepts, TypeAccepts] <;> infer_instance

/-! ### chains: "no conflict and every member accepts" -/

def IsReq : Constraint → Prop | .req => True | _ => False
def IsOpt : Constraint → Prop | .opt => True | _ => False
instance : DecidablePred IsReq := fun c => by cases c <;> simp only [IsReq] <;> infer_instance
instance : DecidablePred IsOpt := fun c => by cases c <;> simp only [IsOpt] <;> infer_instance

/-- the CONST values of a chain, in order -/
def constsOf : List Constraint → List PyVal
  | [] => []
  | .const v :: cs => v :: constsOf cs
  | _ :: cs => constsOf cs

/-- the ENUM value lists of a chain, in order -/
def enumsOf : List Constraint → List (List Str)
  | [] => []
  | .enum a :: cs => a :: enumsOf cs
  | _ :: cs => enumsOf cs

/-- "REQ with OPT" -/
def ReqOptConflict (cs : List Constraint) : Prop := (∃ c ∈ cs, IsReq c) ∧ (∃ c ∈ cs, IsOpt c)
/-- "two different CONSTs": some two CONST members (at different positions) are not equal -/
def ConstConflict (cs : List Constraint) : Prop := ¬ (constsOf cs).Pairwise (fun a b => pyEq a b = true)
/-- "a CONST outside an ENUM" -/
def EnumConstConflict (cs : List Constraint) : Prop := ∃ e ∈ enumsOf cs, ∃ c ∈ constsOf cs, pyStr c ∉ e

def Conflict (cs : List Constraint) : Prop := ReqOptConflict cs ∨ ConstConflict cs ∨ EnumConstConflict cs

instance (cs : List Constraint) : Decidable (Conflict cs) := by
  unfold Conflict ReqOptConflict ConstConflict EnumConstConflict; infer_instance

/-- A chain accepts a value exactly when it declares no conflict and every member accepts the value. -/
def chainAccepts (env : Env) (cs : List Constraint) (v : PyVal) : Prop :=
  ¬ Conflict cs ∧ ∀ c ∈ cs, means env c v

instance (env : Env) (cs : List Constraint) (v : PyVal) : Decidable (chainAccepts env cs v) := by
  unfold chainAccepts; infer_instance

end Octave.Spec
