/-
The ISO8601 forms that `Iso8601Constraint`'s docstring documents:
  YYYY-MM-DD, YYYY-MM-DDTHH:MM:SS, YYYY-MM-DDTHH:MM:SSZ, YYYY-MM-DDTHH:MM:SS±HH:MM
written as texts over ASCII digit characters, with the condition that their fields name a real date
and a time of day.  (Independent of the model: plain character lists and arithmetic.)
-/
import Octave.Spec.Meaning
namespace Octave

/-- an ASCII digit byte / code point -/
def dig (b : Nat) : Prop := 48 ≤ b ∧ b ≤ 57

/-- the number two / four ASCII digits spell -/
def two (x y : Nat) : Nat := (0 * 10 + (x - 48)) * 10 + (y - 48)
def four (a b c d : Nat) : Nat := (((0 * 10 + (a - 48)) * 10 + (b - 48)) * 10 + (c - 48)) * 10 + (d - 48)

/-- the digit characters of a documented datetime text -/
structure DT where
  (a b c d e f g h i j k l m n : Char)

def DT.digits (t : DT) : Prop :=
  dig t.a.toNat ∧ dig t.b.toNat ∧ dig t.c.toNat ∧ dig t.d.toNat ∧ dig t.e.toNat ∧ dig t.f.toNat ∧ dig t.g.toNat ∧ dig t.h.toNat ∧
  dig t.i.toNat ∧ dig t.j.toNat ∧ dig t.k.toNat ∧ dig t.l.toNat ∧ dig t.m.toNat ∧ dig t.n.toNat

/-- `YYYY-MM-DDTHH:MM:SS` -/
def DT.text (t : DT) : Str := [t.a, t.b, t.c, t.d, '-', t.e, t.f, '-', t.g, t.h, 'T', t.i, t.j, ':', t.k, t.l, ':', t.m, t.n]

/-- the fields name a real date and a time of day -/
def DT.valid (t : DT) : Prop :=
  Spec.RealDate (four t.a.toNat t.b.toNat t.c.toNat t.d.toNat) (two t.e.toNat t.f.toNat) (two t.g.toNat t.h.toNat) ∧
  two t.i.toNat t.j.toNat ≤ 23 ∧ two t.k.toNat t.l.toNat ≤ 59 ∧ two t.m.toNat t.n.toNat ≤ 59

end Octave
