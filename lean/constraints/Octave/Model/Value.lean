/-
Python values as the constraint evaluator sees them (`Validator._to_python_value` output and
`_parse_atom` output).  Import-free (core Lean only) so that the driver links without Mathlib.
-/
namespace Octave

/-- Strings are lists of code points inside the model (kernel-reducible, induction-friendly). -/
abbrev Str := List Char

/-- Python `str(int)`. -/
def intStr (i : Int) : Str :=
  if i < 0 then '-' :: Nat.toDigits 10 i.natAbs else Nat.toDigits 10 i.natAbs

/-- `", ".join(parts)` and friends. -/
def joinWith (sep : Str) : List Str → Str
  | [] => []
  | [x] => x
  | x :: xs => x ++ sep ++ joinWith sep xs

/-- A Python value.  `float` is not yet modelled in this engine (see DESIGN.md §5): the driver
answers `unsupported` for cases that contain one. -/
inductive PyVal where
  | null
  | bool (b : Bool)
  | int (i : Int)
  | str (s : Str)
  | list (xs : List PyVal)
  deriving Repr, Inhabited

namespace PyVal

/-- Numeric view used by Python's cross-type `==` (`True == 1`). -/
def num? : PyVal → Option Int
  | bool b => some (if b then 1 else 0)
  | int i => some i
  | _ => Option.none

mutual
/-- Python `==` restricted to the modelled value kinds. -/
def pyEq : PyVal → PyVal → Bool
  | null, null => true
  | str a, str b => a == b
  | list a, list b => pyEqList a b
  | a, b =>
    match a.num?, b.num? with
    | some x, some y => x == y
    | _, _ => false
def pyEqList : List PyVal → List PyVal → Bool
  | [], [] => true
  | a :: as, b :: bs => pyEq a b && pyEqList as bs
  | _, _ => false
end

/-- Python `repr` of a `str` for the characters the generators use (no quotes/backslashes/controls:
the driver refuses others), i.e. `'…'`. -/
def reprStr (s : Str) : Str := '\'' :: s ++ ['\'']

mutual
/-- Python `str(value)` (`q = false`) and `repr(value)` (`q = true`); they differ on `str` only. -/
def render (q : Bool) : PyVal → Str
  | null => "None".toList
  | bool true => "True".toList
  | bool false => "False".toList
  | int i => intStr i
  | str s => if q then reprStr s else s
  | list xs => '[' :: joinWith [',', ' '] (renderList xs) ++ [']']
def renderList : List PyVal → List Str
  | [] => []
  | x :: xs => render true x :: renderList xs
end

/-- Python `str(value)`. -/
def pyStr (v : PyVal) : Str := render false v
/-- Python `repr(value)`. -/
def pyRepr (v : PyVal) : Str := render true v

end PyVal
end Octave
