/-
Python values as the constraint evaluator sees them (`Validator._to_python_value` output,
`_parse_atom` output, directly constructed arguments) and the Python primitives the evaluator
applies to them: `==`, `str()`, `repr()`, `len()`, `isinstance`, `float()`, `int()`, `str.strip()`.

Core Lean only (no Mathlib) so that the driver links.

Floats are never Lean `Float`s: a Python float is carried as its `repr` text (external: CPython's
shortest round-trip algorithm; supplied by the harness / `Env.floatRepr`) together with its *exact*
value (`FVal`: a rational, ±inf, or nan).  Everything the evaluator decides about a float (`==`,
`<`, `>`, isinstance) depends on the exact value only; `str()` is the carried text.
-/
import Octave.Gen.Unicode
namespace Octave

/-- Strings are lists of code points inside the model (kernel-reducible, induction-friendly). -/
abbrev Str := List Char

/-- Python `str(int)`. -/
def intStr (i : Int) : Str :=
  if i < 0 then '-' :: Nat.toDigits 10 i.natAbs else Nat.toDigits 10 i.natAbs

/-- `", ".join(parts)` and friends. -/
def joinWith (sep : Str) : List Str → Str
  | [] => []
  | [x] => x
  | x :: xs => x ++ sep ++ joinWith sep xs

/-! ### Exact float values -/

/-- The exact value of a Python float (IEEE-754 binary64), or of an int seen as a number. -/
inductive FVal where
  | fin (q : Rat)
  | pinf
  | ninf
  | nan
  deriving Repr, Inhabited, DecidableEq

namespace FVal
/-- Python `==` on numbers (int/float mixed comparison is exact in CPython). `nan` equals nothing. -/
def eq : FVal → FVal → Bool
  | fin a, fin b => a == b
  | pinf, pinf => true
  | ninf, ninf => true
  | _, _ => false

/-- Python `<` on numbers; every comparison with `nan` is `False`. -/
def lt : FVal → FVal → Bool
  | nan, _ => false
  | _, nan => false
  | fin a, fin b => decide (a < b)
  | ninf, ninf => false
  | ninf, _ => true
  | _, ninf => false
  | pinf, _ => false
  | _, pinf => true

/-- Python `>`. -/
def gt (a b : FVal) : Bool := lt b a

def isNan : FVal → Bool | nan => true | _ => false
def ofInt (i : Int) : FVal := fin (i : Rat)
end FVal

/-! ### Rounding to binary64 (round-half-even), used by `float(int)` and `float(str)` -/

/-- `n / d` rounded to the nearest integer, ties to even (`d > 0`). -/
def roundHalfEven (n d : Nat) : Nat :=
  let q := n / d
  let r := n % d
  if 2 * r < d then q else if d < 2 * r then q + 1 else if q % 2 == 0 then q else q + 1

/-- ⌊log₂ (n/d)⌋ for `n, d > 0`. -/
def floorLog2Ratio (n d : Nat) : Int :=
  let k : Int := (Nat.log2 n : Int) - (Nat.log2 d : Int)
  -- 2^(k-1) < n/d < 2^(k+1)
  let ge : Bool := if k ≥ 0 then d * 2 ^ k.toNat ≤ n else d ≤ n * 2 ^ (-k).toNat
  if ge then k else k - 1

/-- The binary64 nearest to the positive rational `n/d`; `none` = the rounded value is ≥ 2^1024
(overflow: `inf` for `float(str)`, `OverflowError` for `float(int)`). -/
def roundPosToDouble (n d : Nat) : Option Rat :=
  if n = 0 then some 0 else
  let e : Int := max (floorLog2Ratio n d - 52) (-1074)
  if e ≥ 0 then
    let m := roundHalfEven n (d * 2 ^ e.toNat)
    let v := m * 2 ^ e.toNat
    if 2 ^ 1024 ≤ v then none else some (mkRat v 1)
  else
    let m := roundHalfEven (n * 2 ^ (-e).toNat) d
    some (mkRat m (2 ^ (-e).toNat))

/-- The binary64 nearest to `sign · n/d` as an `FVal` (overflow gives ±inf). -/
def roundToDouble (neg : Bool) (n d : Nat) : FVal :=
  match roundPosToDouble n d with
  | some q => .fin (if neg then -q else q)
  | none => if neg then .ninf else .pinf

/-- Python `float(i)` for an `int`: `none` = `OverflowError`. -/
def floatOfInt (i : Int) : Option FVal :=
  match roundPosToDouble i.natAbs 1 with
  | some q => some (.fin (if i < 0 then -q else q))
  | none => none

/-! ### Unicode tables of the running interpreter (generated) -/

def isSpaceChar (c : Char) : Bool := Gen.spaceCodes.contains c.toNat

/-- `unicodedata.decimal(c)`: value of a Unicode decimal digit. -/
def decimalValue? (c : Char) : Option Nat :=
  match Gen.digitZeros.find? (fun z => z ≤ c.toNat && c.toNat < z + 10) with
  | some z => some (c.toNat - z)
  | none => none

def isUniDigit (c : Char) : Bool := (decimalValue? c).isSome
def isAsciiDigit (c : Char) : Bool := '0' ≤ c && c ≤ '9'

/-- Python `str.strip()` (no argument): remove `str.isspace()` characters at both ends. -/
def pyStrip (s : Str) : Str :=
  ((s.dropWhile isSpaceChar).reverse.dropWhile isSpaceChar).reverse

def asciiLowerChar (c : Char) : Char := if 'A' ≤ c && c ≤ 'Z' then Char.ofNat (c.toNat + 32) else c
/-- `str.lower()` restricted to ASCII letters (the driver refuses non-ASCII input to it). -/
def asciiLower (s : Str) : Str := s.map asciiLowerChar

/-! ### `int(str)` and `float(str)`: CPython's numeral grammar -/

/-- `_PyUnicode_TransformDecimalAndSpaceToASCII`: non-ASCII spaces become ' ', non-ASCII decimal digits
their ASCII digit, any other non-ASCII character '?' (which no numeral contains); ASCII is unchanged. -/
def toAsciiNumeral (s : Str) : Str :=
  s.map fun c =>
    if c.toNat ≤ 127 then c
    else if isSpaceChar c then ' '
    else match decimalValue? c with
      | some d => Char.ofNat (48 + d)
      | none => '?'

/-- C `Py_ISSPACE`. -/
def isCSpace (c : Char) : Bool := c == ' ' || c == '\t' || c == '\n' || c == '\r' || c.toNat == 11 || c.toNat == 12

def cStrip (s : Str) : Str := ((s.dropWhile isCSpace).reverse.dropWhile isCSpace).reverse

/-- value of a list of ASCII digits -/
def digitsVal : Str → Nat → Nat
  | [], acc => acc
  | c :: cs, acc => digitsVal cs (acc * 10 + (c.toNat - 48))

/-- Digits with single underscores between digits (`1_000`): the digits without the underscores,
`none` if the shape is wrong (leading/trailing/double underscore, empty, other characters).
`prevDigit`: the previous character was a digit. -/
def digitsUnderscoreAux : Str → Bool → Option Str
  | [], prevDigit => if prevDigit then some [] else none
  | c :: cs, prevDigit =>
    if isAsciiDigit c then (digitsUnderscoreAux cs true).map (c :: ·)
    else if c == '_' && prevDigit then digitsUnderscoreAux cs false
    else none

def digitsUnderscore (s : Str) : Option Str := digitsUnderscoreAux s false

/-- Python `int(s)` for `str` (base 10): `none` = `ValueError` (including the 4300-digit limit). -/
def pyIntOfStr (s : Str) : Option Int :=
  let t := cStrip (toAsciiNumeral s)
  let (neg, body) := match t with
    | '-' :: r => (true, r)
    | '+' :: r => (false, r)
    | r => (false, r)
  match digitsUnderscore body with
  | none => none
  | some ds =>
    if ds.length > 4300 then none
    else let n : Int := (digitsVal ds 0 : Nat); some (if neg then -n else n)

/-- `_Py_string_to_number_with_underscores`: every '_' must sit between two ASCII digits;
returns the text without underscores. -/
def stripUnderscores : Str → Char → Option Str
  | [], prev => if prev == '_' then none else some []
  | c :: cs, prev =>
    if c == '_' then
      if isAsciiDigit prev then stripUnderscores cs c else none
    else if prev == '_' && !isAsciiDigit c then none
    else (stripUnderscores cs c).map (c :: ·)

/-- A parsed float numeral. -/
inductive FloatLit where
  | inf (neg : Bool)
  | nan
  | dec (neg : Bool) (mant : Nat) (exp10 : Int) (ndigits : Nat)   -- mant · 10^exp10, mant has ndigits significant digits
  deriving Repr

def splitDigits (s : Str) : Str × Str := (s.takeWhile isAsciiDigit, s.dropWhile isAsciiDigit)

/-- `_Py_dg_strtod` / `_Py_parse_inf_or_nan` on an ASCII text without sign handling done yet;
the whole text must be consumed. -/
def parseFloatLit (t : Str) : Option FloatLit :=
  let (neg, body) := match t with
    | '-' :: r => (true, r)
    | '+' :: r => (false, r)
    | r => (false, r)
  let low := asciiLower body
  if low == "inf".toList || low == "infinity".toList then some (.inf neg)
  else if low == "nan".toList then some .nan
  else
    let (ip, r1) := splitDigits body
    let (fp, r2) := match r1 with
      | '.' :: r => splitDigits r
      | r => ([], r)
    if ip.isEmpty && fp.isEmpty then none
    else
      let mantDigits := ip ++ fp
      let mant := digitsVal mantDigits 0
      let nd := (mantDigits.dropWhile (· == '0')).length
      match r2 with
      | [] => some (.dec neg mant (-(fp.length : Int)) nd)
      | e :: r3 =>
        if e == 'e' || e == 'E' then
          let (eneg, r4) := match r3 with
            | '-' :: r => (true, r)
            | '+' :: r => (false, r)
            | r => (false, r)
          let (ed, r5) := splitDigits r4
          if ed.isEmpty || !r5.isEmpty then none
          else
            let ev : Int := (digitsVal ed 0 : Nat)
            some (.dec neg mant ((if eneg then -ev else ev) - (fp.length : Int)) nd)
        else none

/-- value of a float numeral as a binary64 -/
def FloatLit.toFVal : FloatLit → FVal
  | .inf neg => if neg then .ninf else .pinf
  | .nan => .nan
  | .dec neg mant e nd =>
    if mant = 0 then .fin 0
    -- magnitude guards: mant·10^e ≥ 10^(nd-1+e); > 1.8e308 overflows, < 2.4e-324 rounds to zero
    else if (nd : Int) + e > 310 then (if neg then .ninf else .pinf)
    else if (nd : Int) + e < -330 then .fin 0
    else if e ≥ 0 then roundToDouble neg (mant * 10 ^ e.toNat) 1
    else roundToDouble neg mant (10 ^ (-e).toNat)

/-- Python `float(s)` for `str`: `none` = `ValueError`. -/
def pyFloatOfStr (s : Str) : Option FVal :=
  let t := cStrip (toAsciiNumeral s)
  let t' := if t.contains '_' then stripUnderscores t '\x00' else some t
  match t' with
  | none => none
  | some u => (parseFloatLit u).map FloatLit.toFVal

/-! ### Values -/

/-- A Python value.  `float` carries its `repr` text and its exact value; `zone` is a
`LiteralZoneValue(content, info_tag, fence_marker)`. -/
inductive PyVal where
  | null
  | bool (b : Bool)
  | int (i : Int)
  | float (repr : Str) (v : FVal)
  | str (s : Str)
  | list (xs : List PyVal)
  | zone (content : Str) (tag : Option Str) (fence : Str)
  deriving Repr, Inhabited

namespace PyVal

/-- Numeric view used by Python's cross-type `==` and comparisons (`True == 1`, `1 == 1.0`). -/
def num? : PyVal → Option FVal
  | bool b => some (.fin (if b then 1 else 0))
  | int i => some (FVal.ofInt i)
  | float _ v => some v
  | _ => Option.none

mutual
/-- Python `==` on the modelled value kinds.  (Lists compare element-wise; CPython's identity
shortcut for a shared `nan` object inside a list is outside the model: the driver refuses lists
that contain a nan.) -/
def pyEq : PyVal → PyVal → Bool
  | null, null => true
  | str a, str b => a == b
  | list a, list b => pyEqList a b
  | zone c t f, zone c' t' f' => c == c' && t == t' && f == f'
  | a, b =>
    match a.num?, b.num? with
    | some x, some y => x.eq y
    | _, _ => false
def pyEqList : List PyVal → List PyVal → Bool
  | [], [] => true
  | a :: as, b :: bs => pyEq a b && pyEqList as bs
  | _, _ => false
end

def hexDigit (n : Nat) : Char := if n < 10 then Char.ofNat (48 + n) else Char.ofNat (87 + n)

/-- body of Python's `repr(str)` for quote character `q` (ASCII rules; printable non-ASCII is kept,
non-printable non-ASCII is refused by the driver). -/
def reprBody (q : Char) : Str → Str
  | [] => []
  | c :: cs =>
    (if c == '\\' then ['\\', '\\']
     else if c == q then ['\\', q]
     else if c == '\n' then ['\\', 'n']
     else if c == '\r' then ['\\', 'r']
     else if c == '\t' then ['\\', 't']
     else if c.toNat < 32 || c.toNat == 127 then ['\\', 'x', hexDigit (c.toNat / 16), hexDigit (c.toNat % 16)]
     else [c]) ++ reprBody q cs

/-- Python `repr` of a `str`: single quotes unless the text contains `'` and no `"`. -/
def reprStr (s : Str) : Str :=
  let q := if s.contains '\'' && !s.contains '"' then '"' else '\''
  q :: reprBody q s ++ [q]

mutual
/-- Python `str(value)` (`q = false`) and `repr(value)` (`q = true`); they differ on `str` only. -/
def render (q : Bool) : PyVal → Str
  | null => "None".toList
  | bool true => "True".toList
  | bool false => "False".toList
  | int i => intStr i
  | float r _ => r
  | str s => if q then reprStr s else s
  | list xs => '[' :: joinWith [',', ' '] (renderList xs) ++ [']']
  | zone c t f =>
    "LiteralZoneValue(content=".toList ++ reprStr c ++ ", info_tag=".toList
      ++ (match t with | some t => reprStr t | Option.none => "None".toList)
      ++ ", fence_marker=".toList ++ reprStr f ++ [')']
def renderList : List PyVal → List Str
  | [] => []
  | x :: xs => render true x :: renderList xs
end

/-- Python `str(value)`. -/
def pyStr (v : PyVal) : Str := render false v
/-- Python `repr(value)`. -/
def pyRepr (v : PyVal) : Str := render true v

def isBool : PyVal → Bool | bool _ => true | _ => false
def isStr : PyVal → Bool | str _ => true | _ => false
def isList : PyVal → Bool | list _ => true | _ => false
def isZone : PyVal → Bool | zone .. => true | _ => false
/-- `isinstance(v, int)` — includes `bool`. -/
def isIntInst : PyVal → Bool | bool _ => true | int _ => true | _ => false
def isFloatInst : PyVal → Bool | float .. => true | _ => false

/-- `len(v)` for `str | list`. -/
def len? : PyVal → Option Nat
  | str s => some s.length
  | list xs => some xs.length
  | _ => Option.none

/-- Outcome of Python `float(value)` as `RangeConstraint.evaluate` calls it. -/
inductive FloatConv where
  | ok (x : FVal)
  | valueOrTypeError      -- caught by `except (ValueError, TypeError)`
  | overflowError         -- `float(int)` for |int| ≥ 2^1024: not caught
  deriving Repr, DecidableEq

/-- Python `float(value)`. -/
def toFloat : PyVal → FloatConv
  | bool b => .ok (.fin (if b then 1 else 0))
  | int i => match floatOfInt i with
    | some x => .ok x
    | Option.none => .overflowError
  | float _ x => .ok x
  | str s => match pyFloatOfStr s with
    | some x => .ok x
    | Option.none => .valueOrTypeError
  | _ => .valueOrTypeError

end PyVal
end Octave
