/-
Executable model of `octave_mcp/core/constraints.py` (transcription of the code that exists).
Kinds modelled so far: REQ, OPT, CONST, ENUM.  Every other kind is `other` and makes the driver
answer `unsupported` (never a guessed verdict).
-/
import Octave.Model.Value
namespace Octave
open PyVal (pyEq pyStr)

inductive Constraint where
  | req
  | opt
  | const (v : PyVal)
  | enum (allowed : List Str)     -- after `__post_init__`: every allowed value is a `str`
  deriving Repr, Inhabited

/-- Outcome of one `evaluate`: `none` = valid, `some code` = the single error's code. -/
abbrev Verdict := Option String

namespace Constraint

/-- `EnumConstraint.evaluate`. -/
def evalEnum (allowed : List Str) (v : PyVal) : Verdict :=
  let s := v.pyStr
  if allowed.contains s then none
  else
    let matches_ := allowed.filter (fun a => s.isPrefixOf a)
    if matches_.length == 0 then some "E005"
    else if matches_.length > 1 then some "E006"
    else none

/-- `*.evaluate(value)`. -/
def eval : Constraint → PyVal → Verdict
  | req, v => if pyEq v PyVal.null || pyEq v (PyVal.str []) then some "E003" else none
  | opt, _ => none
  | const c, v => if !(pyEq v c) then some "E004" else none
  | enum a, v => evalEnum a v

def isReq : Constraint → Bool | req => true | _ => false
def isOpt : Constraint → Bool | opt => true | _ => false
def constVal? : Constraint → Option PyVal | const v => some v | _ => none
def enumVals? : Constraint → Option (List Str) | enum a => some a | _ => none

end Constraint

/-- Conflict kinds reported by `ConstraintChain.detect_conflicts`, in the order the code appends them. -/
inductive Conflict where
  | reqOpt
  | constConst (i : Nat)            -- i-th adjacent pair of CONSTs differs
  | enumConst (e c : Nat)           -- e-th ENUM does not contain str of c-th CONST
  deriving Repr, DecidableEq

/-- adjacent pairs `(xs[i], xs[i+1])` that differ under Python `!=`, with their index. -/
def adjacentDiffs : List PyVal → Nat → List Conflict
  | a :: b :: rest, i => (if !(pyEq a b) then [Conflict.constConst i] else []) ++ adjacentDiffs (b :: rest) (i + 1)
  | _, _ => []

def enumConstConflicts (enums : List (List Str)) (consts : List PyVal) : List Conflict :=
  (enums.zipIdx.map fun (e, ei) =>
    (consts.zipIdx.filterMap fun (c, ci) =>
      if !(e.contains c.pyStr) then some (Conflict.enumConst ei ci) else none)).flatten

/-- `ConstraintChain.detect_conflicts`. -/
def detectConflicts (cs : List Constraint) : List Conflict :=
  let consts := cs.filterMap Constraint.constVal?
  let enums := cs.filterMap Constraint.enumVals?
  (if cs.any Constraint.isReq && cs.any Constraint.isOpt then [Conflict.reqOpt] else [])
  ++ adjacentDiffs consts 0
  ++ enumConstConflicts enums consts

/-- first failing member, left to right (`for constraint in self.constraints: … return result`). -/
def firstFailure : List Constraint → PyVal → Verdict
  | [], _ => none
  | c :: cs, v => match c.eval v with
    | some e => some e
    | none => firstFailure cs v

/-- `ConstraintChain.evaluate`: list of error codes (empty = valid). -/
def evalChain (cs : List Constraint) (v : PyVal) : List String :=
  let conflicts := detectConflicts cs
  if !conflicts.isEmpty then conflicts.map (fun _ => "E999")
  else match firstFailure cs v with
    | some e => [e]
    | none => []

def chainValid (cs : List Constraint) (v : PyVal) : Bool := (evalChain cs v).isEmpty

end Octave
