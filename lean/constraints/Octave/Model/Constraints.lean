/-
Executable model of `octave_mcp/core/constraints.py` (transcription of the code that exists):
the fifteen constraint classes' `evaluate`, `_parse_atom`, `ConstraintChain._split_parts`, `.parse`,
`.evaluate`, `.detect_conflicts`.

External behaviour is a parameter (`Env`), supplied per case by the harness from the real runtime:
  * `reMatch p s`   — `re.compile(p).match(s) is not None`
  * `reOk p`        — `re.compile(p)` does not raise
  * `floatRepr s`   — `repr(float(s))` for a numeral `s` that `_parse_atom` turns into a float
-/
import Octave.Model.Value
import Octave.Model.Date
import Octave.Gen.Constraints
namespace Octave
open PyVal (pyEq pyStr)

structure Env where
  reMatch : Str → Str → Bool
  reOk : Str → Bool
  floatRepr : Str → Str

/-- A constraint object after construction (`__post_init__` applied). -/
inductive Constraint where
  | req
  | opt
  | const (v : PyVal)
  | enum (allowed : List Str)        -- after `__post_init__`: every allowed value is a `str`
  | type (t : Str)
  | regex (pat : Str)
  | dir
  | appendOnly
  | range (lo hi : FVal)             -- `min_value`, `max_value` (int | float) by exact value
  | maxLength (n : Int)
  | minLength (n : Int)
  | date
  | iso8601
  | literal
  | lang (tag : Str)                 -- after `__post_init__`: lower-cased
  deriving Repr, Inhabited

/-- Outcome of one `evaluate`: accepted, one error with a code, or an exception escaping. -/
inductive Verdict where
  | ok
  | fail (code : String)
  | raise (exc : String)
  deriving Repr, DecidableEq, Inhabited

namespace Constraint

/-- `RequiredConstraint.evaluate`: `value is None or value == ""`. -/
def evalReq (v : PyVal) : Verdict :=
  if (match v with | .null => true | _ => false) || pyEq v (.str []) then .fail "E003" else .ok

/-- `ConstConstraint.evaluate`: `value != self.const_value`. -/
def evalConst (c v : PyVal) : Verdict := if !(pyEq v c) then .fail "E004" else .ok

/-- `EnumConstraint.evaluate`. -/
def evalEnum (allowed : List Str) (v : PyVal) : Verdict :=
  let s := v.pyStr
  if allowed.contains s then .ok
  else
    let matches_ := allowed.filter (fun a => s.isPrefixOf a)
    if matches_.length == 0 then .fail "E005"
    else if matches_.length > 1 then .fail "E006"
    else .ok

/-- `isinstance(value, type_map[t])`; `none` = `t` is not a key of `type_map`. -/
def typeTest (t : Str) (v : PyVal) : Option Bool :=
  if t == "STRING".toList then some v.isStr
  else if t == "NUMBER".toList then some (v.isIntInst || v.isFloatInst)
  else if t == "BOOLEAN".toList then some v.isBool
  else if t == "LIST".toList then some v.isList
  else none

/-- `TypeConstraint.evaluate`. -/
def evalType (t : Str) (v : PyVal) : Verdict :=
  match typeTest t v with
  | none => .fail "E999"
  | some inst =>
    if t == "NUMBER".toList && v.isBool then .fail "E007"
    else if !inst then .fail "E007"
    else .ok

/-- `RegexConstraint.evaluate` (`self._compiled` is always a compiled pattern: construction raises otherwise). -/
def evalRegex (env : Env) (p : Str) (v : PyVal) : Verdict :=
  if !(env.reMatch p v.pyStr) then .fail "E008" else .ok

/-- `DirConstraint.evaluate`. -/
def evalDir (v : PyVal) : Verdict := if v.pyStr.contains '\x00' then .fail "E009" else .ok

/-- `AppendOnlyConstraint.evaluate`. -/
def evalAppendOnly (v : PyVal) : Verdict := if !v.isList then .fail "E010" else .ok

/-- `RangeConstraint.evaluate`.  Two details are read from the source on every run (`Gen`): which exceptions of
`float(value)` the `except` clause catches, and whether the converted value is tested for NaN — so that the model
follows the code when the proposed fixes for F19 / F36 are applied. -/
def evalRange (lo hi : FVal) (v : PyVal) : Verdict :=
  if v.isBool then .fail "E011"
  else match v.toFloat with
    | .valueOrTypeError => .fail "E011"
    | .overflowError => if Gen.rangeCaught.contains "OverflowError" then .fail "E011" else .raise "OverflowError"
    | .ok x => if (Gen.rangeNanRejected && x.isNan) || x.lt lo || x.gt hi then .fail "E011" else .ok

/-- `MaxLengthConstraint.evaluate`. -/
def evalMaxLength (n : Int) (v : PyVal) : Verdict :=
  match v.len? with
  | none => .fail "E012"
  | some l => if (l : Int) > n then .fail "E012" else .ok

/-- `MinLengthConstraint.evaluate`. -/
def evalMinLength (n : Int) (v : PyVal) : Verdict :=
  match v.len? with
  | none => .fail "E013"
  | some l => if (l : Int) < n then .fail "E013" else .ok

/-- `DateConstraint.evaluate`. -/
def evalDate (v : PyVal) : Verdict :=
  let s := v.pyStr
  if !reDateMatch s then .fail "E014"
  else if Iso.fromIso s then .ok else .fail "E014"

/-- `Iso8601Constraint.evaluate`. -/
def evalIso8601 (v : PyVal) : Verdict :=
  if Iso.fromIso (replaceZ v.pyStr) then .ok else .fail "E015"

/-- `LiteralConstraint.evaluate`. -/
def evalLiteral (v : PyVal) : Verdict := if !v.isZone then .fail "E007" else .ok

/-- `LangConstraint.evaluate` (`.lower()` on ASCII). -/
def evalLang (tag : Str) (v : PyVal) : Verdict :=
  match v with
  | .zone _ t _ =>
    match t with
    | none => .fail "E007"
    | some t =>
      if t == [] then .fail "E007"
      else if asciiLower t != tag then .fail "E007"
      else .ok
  | _ => .fail "E007"

/-- `*.evaluate(value)`. -/
def eval (env : Env) : Constraint → PyVal → Verdict
  | req, v => evalReq v
  | opt, _ => .ok
  | const c, v => evalConst c v
  | enum a, v => evalEnum a v
  | type t, v => evalType t v
  | regex p, v => evalRegex env p v
  | dir, v => evalDir v
  | appendOnly, v => evalAppendOnly v
  | range lo hi, v => evalRange lo hi v
  | maxLength n, v => evalMaxLength n v
  | minLength n, v => evalMinLength n v
  | date, v => evalDate v
  | iso8601, v => evalIso8601 v
  | literal, v => evalLiteral v
  | lang t, v => evalLang t v

def isReq : Constraint → Bool | req => true | _ => false
def isOpt : Constraint → Bool | opt => true | _ => false
def constVal? : Constraint → Option PyVal | const v => some v | _ => none
def enumVals? : Constraint → Option (List Str) | enum a => some a | _ => none

end Constraint

/-- Conflict kinds reported by `ConstraintChain.detect_conflicts`, in the order the code appends them
(only their number is observable: one E999 error per conflict). -/
inductive Conflict where
  | reqOpt
  | constConst            -- an adjacent pair of CONSTs differs
  | enumConst             -- an ENUM does not contain str of a CONST
  deriving Repr, DecidableEq

/-- one conflict per adjacent pair `(xs[i], xs[i+1])` that differs under Python `!=`. -/
def adjacentDiffs : List PyVal → List Conflict
  | a :: b :: rest => (if !(pyEq a b) then [Conflict.constConst] else []) ++ adjacentDiffs (b :: rest)
  | _ => []

/-- `for enum_c in enums: for const_c in consts: if str(const) not in enum.allowed_values: append`. -/
def enumConstConflicts (enums : List (List Str)) (consts : List PyVal) : List Conflict :=
  enums.flatMap fun e =>
    consts.filterMap fun c => if !(e.contains c.pyStr) then some Conflict.enumConst else none

/-- `ConstraintChain.detect_conflicts`. -/
def detectConflicts (cs : List Constraint) : List Conflict :=
  let consts := cs.filterMap Constraint.constVal?
  let enums := cs.filterMap Constraint.enumVals?
  (if cs.any Constraint.isReq && cs.any Constraint.isOpt then [Conflict.reqOpt] else [])
  ++ adjacentDiffs consts
  ++ enumConstConflicts enums consts

/-- first member that does not accept, left to right (`for constraint in self.constraints: … return result`;
an exception propagates from the member that raises it). -/
def firstFailure (env : Env) : List Constraint → PyVal → Verdict
  | [], _ => .ok
  | c :: cs, v => match c.eval env v with
    | .ok => firstFailure env cs v
    | r => r

/-- Result of `ConstraintChain.evaluate`: the error codes (empty = valid) or an escaping exception. -/
inductive ChainResult where
  | errors (codes : List String)
  | raised (exc : String)
  deriving Repr, DecidableEq

/-- `ConstraintChain.evaluate`. -/
def evalChain (env : Env) (cs : List Constraint) (v : PyVal) : ChainResult :=
  let conflicts := detectConflicts cs
  if !conflicts.isEmpty then .errors (conflicts.map (fun _ => "E999"))
  else match firstFailure env cs v with
    | .ok => .errors []
    | .fail e => .errors [e]
    | .raise x => .raised x

/-- `ConstraintChain.evaluate(v).valid`. -/
def chainValid (env : Env) (cs : List Constraint) (v : PyVal) : Bool :=
  match evalChain env cs v with
  | .errors [] => true
  | _ => false

/-! ### `_parse_atom`, `_split_parts`, `ConstraintChain.parse` -/

/-- `s.replace(old, new)` for a two-character `old` = `[a, b]`. -/
def replace2 (a b : Char) (new : Str) : Str → Str
  | [] => []
  | [c] => [c]
  | c :: d :: rest => if c == a && d == b then new ++ replace2 a b new rest else c :: replace2 a b new (d :: rest)

/-- Python `s[a:-1]` for `a ≤ len`. -/
def sliceInner (a : Nat) (s : Str) : Str := s.dropLast.drop a

def startsWith (p s : Str) : Bool := p.isPrefixOf s
def endsWith (p s : Str) : Bool := p.reverse.isPrefixOf s.reverse

/-- `_parse_atom`. -/
def parseAtom (env : Env) (s0 : Str) : PyVal :=
  let s := pyStrip s0
  if (startsWith ['"'] s && endsWith ['"'] s) || (startsWith ['\''] s && endsWith ['\''] s) then
    .str (replace2 '\\' '\\' ['\\'] (replace2 '\\' '\'' ['\''] (replace2 '\\' '"' ['"'] (sliceInner 1 s))))
  else if s == "true".toList then .bool true
  else if s == "false".toList then .bool false
  else if s == "null".toList then .null
  else if !s.contains '.' && !s.contains 'e' && !s.contains 'E' then
    match pyIntOfStr s with
    | some i => .int i
    | none => .str s
  else
    match pyFloatOfStr s with
    | some x => .float (env.floatRepr s) x
    | none => .str s

/-- `str.split(sep)` on a single character. -/
def splitOn (sep : Char) : Str → List Str
  | [] => [[]]
  | c :: cs =>
    if c == sep then [] :: splitOn sep cs
    else match splitOn sep cs with
      | [] => [[c]]          -- unreachable
      | x :: xs => (c :: x) :: xs

/-- the space-separated scan of `_split_parts`: `(tokens so far reversed, current reversed, depth)`. -/
def scanParts : Str → List Str → Str → Int → List Str
  | [], toks, cur, _ =>
    let t := pyStrip cur.reverse
    (if t.isEmpty then toks else t :: toks).reverse
  | ch :: rest, toks, cur, depth =>
    if ch == '[' || ch == '(' then scanParts rest toks (ch :: cur) (depth + 1)
    else if ch == ']' || ch == ')' then scanParts rest toks (ch :: cur) (depth - 1)
    else if ch == ' ' && depth == 0 then
      let t := pyStrip cur.reverse
      scanParts rest (if t.isEmpty then toks else t :: toks) [] depth
    else scanParts rest toks (ch :: cur) depth

/-- `ConstraintChain._split_parts`. -/
def splitParts (s : Str) : List Str :=
  if s.contains '∧' then ((splitOn '∧' s).map pyStrip).filter (fun p => !p.isEmpty)
  else scanParts s [] [] 0

/-- `str.split(",", 1)`: `none` when there is no comma (the tuple unpacking raises). -/
def splitFirstComma : Str → Option (Str × Str)
  | [] => none
  | c :: cs =>
    if c == ',' then some ([], cs)
    else (splitFirstComma cs).map fun (a, b) => (c :: a, b)

/-- `isinstance(x, int | float)` numeric view for RANGE bounds. -/
def rangeBound? (v : PyVal) : Option FVal :=
  if v.isIntInst || v.isFloatInst then v.num? else none

/-- construct the object of class `cls` from the argument text (`part[k:-1]`); `none` = `ValueError`. -/
def construct (env : Env) (cls : String) (arg : Str) : Option Constraint :=
  match cls with
  | "RequiredConstraint" => some .req
  | "OptionalConstraint" => some .opt
  | "DirConstraint" => some .dir
  | "AppendOnlyConstraint" => some .appendOnly
  | "DateConstraint" => some .date
  | "Iso8601Constraint" => some .iso8601
  | "LiteralConstraint" => some .literal
  | "LangConstraint" => if (pyStrip arg).isEmpty then none else some (.lang (asciiLower arg))
  | "ConstConstraint" => some (.const (parseAtom env arg))
  | "EnumConstraint" => some (.enum ((splitOn ',' arg).map fun v => (parseAtom env (pyStrip v)).pyStr))
  | "TypeConstraint" => some (.type arg)
  | "RegexConstraint" =>
    let p := if startsWith ['"'] arg && endsWith ['"'] arg then sliceInner 1 arg else arg
    if env.reOk p then some (.regex p) else none
  | "RangeConstraint" =>
    match splitFirstComma arg with
    | none => none
    | some (a, b) =>
      match rangeBound? (parseAtom env (pyStrip a)), rangeBound? (parseAtom env (pyStrip b)) with
      | some lo, some hi => if lo.gt hi then none else some (.range lo hi)
      | _, _ => none
  | "MaxLengthConstraint" =>
    match parseAtom env (pyStrip arg) with
    | .int i => if i < 0 then none else some (.maxLength i)
    | .bool b => some (.maxLength (if b then 1 else 0))
    | _ => none
  | "MinLengthConstraint" =>
    match parseAtom env (pyStrip arg) with
    | .int i => if i < 0 then none else some (.minLength i)
    | .bool b => some (.minLength (if b then 1 else 0))
    | _ => none
  | _ => none

/-- one `part` through the if/elif dispatch (`Gen.parseDispatch`, source order). -/
def parsePart (env : Env) (part : Str) : List (String × String × String × String × Nat) → Option Constraint
  | [] => none                       -- final `else`: raise ValueError
  | (kind, kw, close, cls, lo) :: rest =>
    let hit := if kind == "eq" then part == kw.toList
               else startsWith kw.toList part && endsWith close.toList part
    if hit then construct env cls (if kind == "eq" then [] else sliceInner lo part)
    else parsePart env part rest

def parseParts (env : Env) : List Str → Option (List Constraint)
  | [] => some []
  | p :: ps =>
    match parsePart env (pyStrip p) Gen.parseDispatch with
    | none => none
    | some c => (parseParts env ps).map (c :: ·)

/-- `ConstraintChain.parse`: `none` = `ValueError`. -/
def parseChain (env : Env) (s : Str) : Option (List Constraint) := parseParts env (splitParts s)

end Octave
