/-
`datetime.fromisoformat` of CPython 3.12 (`Modules/_datetimemodule.c`), as far as *acceptance* is
concerned (the constraint evaluator only asks whether it raises `ValueError`), and the fixed regex
`^\d{4}-\d{2}-\d{2}$` of `DateConstraint.evaluate`.

The C code works on the UTF-8 encoding of the string, so does the model (`utf8`).  Reads past the
end of the buffer see the terminating NUL, which is never a digit or a separator: the model reads
`0` there (`List.headD · 0`).  A string with an embedded NUL is outside the model (the C code takes
an embedded NUL for the end of the string in some places): `fromIso` is only meaningful on
NUL-free strings and the driver answers `unsupported` otherwise.

ISO week dates with year 0000 are outside the model (C integer arithmetic on negative ordinals):
`fromIso?` answers `none` for them.
-/
import Octave.Model.Value
namespace Octave
namespace Iso

/-- UTF-8 encoding of one code point. -/
def utf8Char (c : Char) : List Nat :=
  let n := c.toNat
  if n < 0x80 then [n]
  else if n < 0x800 then [0xC0 + n / 64, 0x80 + n % 64]
  else if n < 0x10000 then [0xE0 + n / 4096, 0x80 + (n / 64) % 64, 0x80 + n % 64]
  else [0xF0 + n / 262144, 0x80 + (n / 4096) % 64, 0x80 + (n / 64) % 64, 0x80 + n % 64]

def utf8 : Str → List Nat
  | [] => []
  | c :: cs => utf8Char c ++ utf8 cs

def isDigitB (b : Nat) : Bool := 48 ≤ b && b ≤ 57

/-- C `parse_digits(ptr, &var, n)`: exactly `n` ASCII digits. -/
def parseDigits : Nat → List Nat → Nat → Option (Nat × List Nat)
  | 0, bs, acc => some (acc, bs)
  | _ + 1, [], _ => none
  | n + 1, b :: bs, acc => if isDigitB b then parseDigits n bs (acc * 10 + (b - 48)) else none

/-! #### calendar (transcribed from the C helpers) -/

def isLeap (y : Nat) : Bool := y % 4 == 0 && (y % 100 != 0 || y % 400 == 0)

def daysInMonthTable : List Nat := [0, 31, 28, 31, 30, 31, 30, 31, 31, 30, 31, 30, 31]
def daysBeforeMonthTable : List Nat := [0, 0, 31, 59, 90, 120, 151, 181, 212, 243, 273, 304, 334]

def daysInMonth (y m : Nat) : Nat := if m == 2 && isLeap y then 29 else daysInMonthTable.getD m 0
def daysBeforeMonth (y m : Nat) : Nat := daysBeforeMonthTable.getD m 0 + (if m > 2 && isLeap y then 1 else 0)
/-- `days_before_year` (year ≥ 1). -/
def daysBeforeYear (y : Nat) : Nat := let p := y - 1; p * 365 + p / 4 - p / 100 + p / 400
def ymdToOrd (y m d : Nat) : Nat := daysBeforeYear y + daysBeforeMonth y m + d
/-- `weekday`: 0 = Monday. -/
def weekday (y m d : Nat) : Nat := (ymdToOrd y m d + 6) % 7

/-- `iso_week1_monday` (year ≥ 1). -/
def isoWeek1Monday (y : Nat) : Nat :=
  let firstDay := ymdToOrd y 1 1
  let firstWeekday := (firstDay + 6) % 7
  let w := firstDay - firstWeekday
  if firstWeekday > 3 then w + 7 else w

/-- ordinal of 9999-12-31, the last date `new_datetime_ex` accepts. -/
def maxOrdinal : Nat := 3652059

/-- `check_date_args`. -/
def validYMD (y m d : Nat) : Bool := 1 ≤ y && y ≤ 9999 && 1 ≤ m && m ≤ 12 && 1 ≤ d && d ≤ daysInMonth y m

/-- `iso_to_ymd` followed by the year range check of `new_datetime_ex`: is the ISO week date a date
the constructor accepts?  (`ord_to_ymd` inverts `ymd_to_ord`, so the year is ≤ 9999 exactly when the
ordinal is ≤ `maxOrdinal`.)  `none`: outside the model (year 0). -/
def validIsoWeekDate (y w d : Nat) : Option Bool :=
  if y == 0 then none else
  let weekOk : Bool :=
    if w == 0 || w ≥ 53 then
      w == 53 && (let fw := weekday y 1 1; fw == 3 || (fw == 2 && isLeap y))
    else true
  if !weekOk then some false
  else if d == 0 || d ≥ 8 then some false
  else
    let ord := isoWeek1Monday y + ((w - 1) * 7 + d - 1)
    some (1 ≤ ord && ord ≤ maxOrdinal)

/-! #### `_find_isoformat_datetime_separator` -/

/-- index just after the run of digits starting at index 7 (`idx` loop). -/
def digitRunEnd : List Nat → Nat → Nat
  | [], i => i
  | b :: bs, i => if isDigitB b then digitRunEnd bs (i + 1) else i

/-- `none` = the C function returns -1. -/
def findSeparator (bs : List Nat) : Option Nat :=
  let len := bs.length
  let byteAt (i : Nat) : Nat := bs.getD i 0
  if len == 7 then some 7
  else if byteAt 4 == 45 then            -- '-'
    if byteAt 5 == 87 then               -- 'W'
      if len < 8 then none
      else if len > 8 && byteAt 8 == 45 then
        if len == 9 then none
        else if len > 10 && isDigitB (byteAt 10) then some 8
        else some 10
      else some 8
    else some 10
  else if byteAt 4 == 87 then
    let idx := digitRunEnd (bs.drop 7) 7
    if idx < 9 then some idx
    else if idx % 2 == 0 then some 7 else some 8
  else some 8

/-! #### `parse_isoformat_date` -/

/-- date part: `bs` is the whole buffer, `len` the separator location.  `some (some true)`: parsed and
the date is valid; `some (some false)`: parsed, but the constructor rejects the date; `some none`:
outside the model; `none`: parse failure (negative return code). -/
def parseDate (bs : List Nat) (len : Nat) : Option (Option Bool) :=
  match parseDigits 4 bs 0 with
  | none => none
  | some (year, r0) =>
    let usesSep := r0.headD 0 == 45
    let r1 := if usesSep then r0.drop 1 else r0
    if r1.headD 0 == 87 then
      let r2 := r1.drop 1
      match parseDigits 2 r2 0 with
      | none => none
      | some (week, r3) =>
        let consumed := bs.length - r3.length
        if consumed < len then
          if usesSep && r3.headD 0 != 45 then none
          else
            let r4 := if usesSep then r3.drop 1 else r3
            match parseDigits 1 r4 0 with
            | none => none
            | some (day, _) => (validIsoWeekDate year week day).elim (some none) (fun b => some (some b))
        else (validIsoWeekDate year week 1).elim (some none) (fun b => some (some b))
    else
      match parseDigits 2 r1 0 with
      | none => none
      | some (month, r2) =>
        if usesSep && r2.headD 0 != 45 then none
        else
          let r3 := if usesSep then r2.drop 1 else r2
          match parseDigits 2 r3 0 with
          | none => none
          | some (day, _) => some (some (validYMD year month day))

/-! #### `parse_hh_mm_ss_ff` -/

/-- result of `parse_hh_mm_ss_ff`: fields and whether text remains (`rv == 1`). -/
structure HMSF where
  h : Nat
  m : Nat
  s : Nat
  us : Nat
  trailing : Bool
  deriving Repr

def fractionCorrection (toParse : Nat) : Nat := [100000, 10000, 1000, 100, 10].getD (toParse - 1) 1

def skipDigits : List Nat → List Nat
  | [] => []
  | b :: bs => if isDigitB b then skipDigits bs else b :: bs

/-- the part after the `HH[:MM[:SS]]` loop: fractional component.  `n` = bytes before `p_end`. -/
def parseFraction (bs : List Nat) (n : Nat) (h m s : Nat) : Option HMSF :=
  let toParse := if n ≥ 6 then 6 else n
  match parseDigits toParse bs 0 with
  | none => none
  | some (us, r) =>
    let us := if toParse < 6 then us * fractionCorrection toParse else us
    let r := skipDigits r
    some ⟨h, m, s, us, r.headD 0 != 0⟩

/-- `bs` = bytes from `p` to the end of the buffer, `n` = `p_end - p`.  `none` = negative return. -/
def parseHMSF (bs : List Nat) (n : Nat) : Option HMSF :=
  -- i = 0
  match parseDigits 2 bs 0 with
  | none => none
  | some (h, r0) =>
    let c0 := r0.headD 0
    let hasSep := c0 == 58
    if 3 ≥ n then some ⟨h, 0, 0, 0, c0 != 0⟩
    else if c0 == 46 || c0 == 44 then parseFraction (r0.drop 1) (n - 3) h 0 0
    else
      -- hasSep: p is after ':'; otherwise `--p`
      let (r0', n1) := if hasSep then (r0.drop 1, n - 3) else (r0, n - 2)
      -- i = 1
      match parseDigits 2 r0' 0 with
      | none => none
      | some (m, r1) =>
        let c1 := r1.headD 0
        if 3 ≥ n1 then some ⟨h, m, 0, 0, c1 != 0⟩
        else if hasSep && c1 == 58 then
          -- i = 2
          match parseDigits 2 (r1.drop 1) 0 with
          | none => none
          | some (s, r2) =>
            let n2 := n1 - 3
            let c2 := r2.headD 0
            if 3 ≥ n2 then some ⟨h, m, s, 0, c2 != 0⟩
            else if c2 == 58 then parseFraction (r2.drop 1) (n2 - 3) h m s      -- `continue` leaves the loop
            else if c2 == 46 || c2 == 44 then parseFraction (r2.drop 1) (n2 - 3) h m s
            else none                                                          -- has_separator: -4
        else if c1 == 46 || c1 == 44 then parseFraction (r1.drop 1) (n1 - 3) h m 0
        else if !hasSep then
          -- `--p`, i = 2
          match parseDigits 2 r1 0 with
          | none => none
          | some (s, r2) =>
            let n2 := n1 - 2
            let c2 := r2.headD 0
            if 3 ≥ n2 then some ⟨h, m, s, 0, c2 != 0⟩
            else if c2 == 46 || c2 == 44 then parseFraction (r2.drop 1) (n2 - 3) h m s
            else parseFraction r2 (n2 - 2) h m s                                -- `--p`, loop ends
        else none

/-! #### `parse_isoformat_time`, tz and constructor checks -/

def isTzChar (b : Nat) : Bool := b == 90 || b == 43 || b == 45   -- 'Z' '+' '-'

/-- index of the first of `Z + -` (do-while: position 0 is looked at even when `len = 0`). -/
def findTz : List Nat → Nat → Option Nat
  | [], _ => none
  | b :: bs, i => if isTzChar b then some i else findTz bs (i + 1)

/-- `check_time_args`. -/
def validTime (t : HMSF) : Bool := t.h ≤ 23 && t.m ≤ 59 && t.s ≤ 59 && t.us ≤ 999999

/-- time part (`bs` = bytes after the separator character): does `fromisoformat` accept it? -/
def timeOk (bs : List Nat) : Bool :=
  let len := bs.length
  match findTz bs 0 with
  | none =>
    match parseHMSF bs (if len == 0 then 1 else len) with
    | none => false
    | some t => !t.trailing && validTime t
  | some tz =>
    match parseHMSF bs tz with
    | none => false
    | some t =>
      if bs.getD tz 0 == 90 then
        (bs.getD (tz + 1) 0 == 0) && validTime t
      else
        let rest := bs.drop (tz + 1)
        match parseHMSF rest rest.length with
        | none => false
        | some o =>
          if o.trailing then false
          else
            let secs := o.h * 3600 + o.m * 60 + o.s
            -- tzoffset == 0 -> UTC regardless of the microseconds; else |offset| < 24 h
            (secs == 0 || secs * 1000000 + o.us < 86400 * 1000000) && validTime t

/-- number of bytes of the UTF-8 sequence whose lead byte is `b` (the C `switch`). -/
def seqLen (b : Nat) : Nat :=
  if b < 0x80 then 1 else if b / 16 == 0xE then 3 else if b / 16 == 0xF then 4 else 2

/-- `datetime.fromisoformat(s)` does not raise: `some true`; raises `ValueError`: `some false`;
outside the model: `none`. -/
def fromIsoBytes? (bs : List Nat) : Option Bool :=
  let len := bs.length
  if len < 7 then some false else
  match findSeparator bs with
  | none =>
    -- the C code goes on with `len = (size_t)-1`; every such input is `YYYY-Www-` (9 bytes) whose day digit is the NUL
    some false
  | some sep =>
    match parseDate bs sep with
    | none => some false
    | some none => none
    | some (some dateOk) =>
      if len > sep then
        let r := bs.drop sep
        let r := r.drop (seqLen (r.headD 0))
        some (timeOk r && dateOk)
      else some dateOk

def fromIso? (s : Str) : Option Bool := fromIsoBytes? (utf8 s)
/-- total version used by the evaluator model (outside the model counts as rejected; the driver
reports `unsupported` for those inputs instead of using this verdict). -/
def fromIso (s : Str) : Bool := (fromIso? s).getD false

end Iso

/-- `re.match(r"^\d{4}-\d{2}-\d{2}$", s)`: `\d` is any Unicode decimal digit, `$` also matches before a
final newline. -/
def reDateMatch (s : Str) : Bool :=
  match s with
  | [a, b, c, d, m1, e, f, m2, g, h] =>
    isUniDigit a && isUniDigit b && isUniDigit c && isUniDigit d && m1 == '-' && isUniDigit e && isUniDigit f
      && m2 == '-' && isUniDigit g && isUniDigit h
  | [a, b, c, d, m1, e, f, m2, g, h, nl] =>
    isUniDigit a && isUniDigit b && isUniDigit c && isUniDigit d && m1 == '-' && isUniDigit e && isUniDigit f
      && m2 == '-' && isUniDigit g && isUniDigit h && nl == '\n'
  | _ => false

/-- `str.replace("Z", "+00:00")`. -/
def replaceZ : Str → Str
  | [] => []
  | c :: cs => if c == 'Z' then "+00:00".toList ++ replaceZ cs else c :: replaceZ cs

end Octave
