/-
Executable model of the document-level part of `octave_mcp/core/validator.py` that C08 speaks about:
`Validator._validate_unknown_fields` and `Validator._validate_section` for a schema whose fields
carry constraint chains and no routing target (target routing, E009, is not modelled: the harness
builds schemas without targets and the driver refuses others).

A section is seen as the list of its `Assignment` children `(key, value)` in document order (other
children are ignored by the code); `value` is already `_to_python_value`'d.
-/
import Octave.Model.Constraints
namespace Octave

/-- One `validator.ValidationError` through the view C08 observes. -/
structure VErr where
  code : String
  path : Str
  severity : String
  deriving Repr, DecidableEq

inductive Policy where
  | reject | ignore | warn
  deriving Repr, DecidableEq

/-- `UnknownFieldPolicy(policy_str)` with the `except ValueError` fallback to REJECT. -/
def policyOf (s : Str) : Policy :=
  if s == "IGNORE".toList then .ignore
  else if s == "WARN".toList then .warn
  else .reject

/-- Python's `<` on `str` (code-point lexicographic). -/
def strLt : Str → Str → Bool
  | [], [] => false
  | [], _ :: _ => true
  | _ :: _, [] => false
  | a :: as, b :: bs => if a.toNat < b.toNat then true else if b.toNat < a.toNat then false else strLt as bs

def insertSorted (x : Str) : List Str → List Str
  | [] => [x]
  | y :: ys => if strLt y x then y :: insertSorted x ys else x :: y :: ys

/-- `sorted(set)` of strings. -/
def sortStrs : List Str → List Str
  | [] => []
  | x :: xs => insertSorted x (sortStrs xs)

def dedup : List Str → List Str
  | [] => []
  | x :: xs => if xs.contains x then dedup xs else x :: dedup xs

/-- field path `f"{section.key}.{field_name}"`. -/
def fieldPath (sec name : Str) : Str := sec ++ ['.'] ++ name

/-- `_validate_unknown_fields`. -/
def validateUnknownFields (docFields schemaFields : List Str) (policy : Policy) (sec : Str) : List VErr :=
  let unknown := sortStrs (dedup (docFields.filter (fun f => !schemaFields.contains f)))
  match policy with
  | .reject => unknown.map fun f => ⟨"E007", fieldPath sec f, "error"⟩
  | .warn => unknown.map fun f => ⟨"W001", fieldPath sec f, "warning"⟩
  | .ignore => []

/-- `present_fields.get(name)`: the *last* assignment with that key wins (dict update). -/
def lookupLast (name : Str) : List (Str × PyVal) → Option PyVal
  | [] => none
  | (k, v) :: rest =>
    match lookupLast name rest with
    | some w => some w
    | none => if k == name then some v else none

/-- A schema field: name and its constraint chain (`none`: no pattern / no constraints). -/
abbrev SField := Str × Option (List Constraint)

/-- result of the per-field loop: errors, or an exception escaping from a member's `evaluate`. -/
inductive SecResult where
  | errors (es : List VErr)
  | raised (exc : String)
  deriving Repr, DecidableEq

/-- `value is None` -/
def isNone : PyVal → Bool | .null => true | _ => false

/-- the body of `for field_name, field_def in section_schema.fields.items()` for one field. -/
def validateField (env : Env) (sec : Str) (children : List (Str × PyVal)) (f : SField) : SecResult :=
  match f.2 with
  | none => .errors []
  | some cs =>
    if cs.any Constraint.isReq && isNone ((lookupLast f.1 children).getD .null) then   -- `.get()` gives None for an absent key
      .errors [⟨"E003", fieldPath sec f.1, "error"⟩]
    else if isNone ((lookupLast f.1 children).getD .null) then .errors []
    else match evalChain env cs ((lookupLast f.1 children).getD .null) with
      | .errors codes => .errors (codes.map fun c => ⟨c, fieldPath sec f.1, "error"⟩)
      | .raised x => .raised x

def validateFields (env : Env) (sec : Str) (children : List (Str × PyVal)) : List SField → SecResult
  | [] => .errors []
  | f :: fs =>
    match validateField env sec children f with
    | .raised x => .raised x
    | .errors es =>
      match validateFields env sec children fs with
      | .raised x => .raised x
      | .errors es' => .errors (es ++ es')

/-- `_validate_section` for a Block section with a schema: unknown-field entries first, then the
per-field entries in schema order. -/
def validateSection (env : Env) (sec : Str) (children : List (Str × PyVal)) (policy : Str) (fields : List SField) : SecResult :=
  let unknown := validateUnknownFields (children.map (·.1)) (fields.map (·.1)) (policyOf policy) sec
  match validateFields env sec children fields with
  | .raised x => .raised x
  | .errors es => .errors (unknown ++ es)

end Octave
