/-
`detect_conflicts`: the adjacent-pair CONST check equals the all-pairs check (because Python `==`
is symmetric and transitive on the modelled domain), emptiness of the conflict list is characterised
by three membership conditions, and it is invariant under permutation of the chain.
-/
import Octave.Model.Constraints
import Octave.Spec.Meaning
import Octave.Lemmas.PyEq
namespace Octave
open PyVal

/-- the relation "Python `==` holds" -/
abbrev PEq (a b : PyVal) : Prop := pyEq a b = true

theorem PEq.symm {a b : PyVal} (h : PEq a b) : PEq b a := by
  unfold PEq at *; rw [pyEq_symm]; exact h

theorem adjacentDiffs_eq_nil_iff : ∀ (l : List PyVal), adjacentDiffs l = [] ↔ l.Pairwise PEq
  | [] => by simp [adjacentDiffs]
  | [a] => by simp [adjacentDiffs]
  | a :: b :: rest => by
    have ih := adjacentDiffs_eq_nil_iff (b :: rest)
    simp only [adjacentDiffs, List.append_eq_nil_iff, ih]
    constructor
    · rintro ⟨hab, hp⟩
      have hab' : PEq a b := by
        unfold PEq; cases h : pyEq a b with
        | true => rfl
        | false => simp [h] at hab
      refine List.pairwise_cons.2 ⟨?_, hp⟩
      intro x hx
      rcases List.mem_cons.1 hx with rfl | hx
      · exact hab'
      · exact pyEq_trans a b x hab' ((List.pairwise_cons.1 hp).1 x hx)
    · intro hp
      have h1 := List.pairwise_cons.1 hp
      have hab : PEq a b := h1.1 b (List.mem_cons_self)
      refine ⟨?_, h1.2⟩
      unfold PEq at hab; simp [hab]

theorem enumConstConflicts_eq_nil_iff (enums : List (List Str)) (consts : List PyVal) :
    enumConstConflicts enums consts = [] ↔ ∀ e ∈ enums, ∀ c ∈ consts, c.pyStr ∈ e := by
  unfold enumConstConflicts
  simp only [List.flatMap_eq_nil_iff, List.filterMap_eq_nil_iff]
  constructor
  · intro h e he c hc
    have := h e he c hc
    by_cases hm : e.contains c.pyStr = true
    · exact List.contains_iff_mem.1 hm
    · simp at this; exact this
  · intro h e he c hc
    have := h e he c hc
    simp [this]

theorem constsOf_eq (cs : List Constraint) : Spec.constsOf cs = cs.filterMap Constraint.constVal? := by
  induction cs with
  | nil => rfl
  | cons c cs ih => cases c <;> simp [Spec.constsOf, Constraint.constVal?, List.filterMap_cons, ih]

theorem enumsOf_eq (cs : List Constraint) : Spec.enumsOf cs = cs.filterMap Constraint.enumVals? := by
  induction cs with
  | nil => rfl
  | cons c cs ih => cases c <;> simp [Spec.enumsOf, Constraint.enumVals?, List.filterMap_cons, ih]

theorem any_isReq_iff (cs : List Constraint) : cs.any Constraint.isReq = true ↔ ∃ c ∈ cs, Spec.IsReq c := by
  simp only [List.any_eq_true]
  constructor
  · rintro ⟨c, hc, h⟩; exact ⟨c, hc, by cases c <;> simp_all [Constraint.isReq, Spec.IsReq]⟩
  · rintro ⟨c, hc, h⟩; exact ⟨c, hc, by cases c <;> simp_all [Constraint.isReq, Spec.IsReq]⟩

theorem any_isOpt_iff (cs : List Constraint) : cs.any Constraint.isOpt = true ↔ ∃ c ∈ cs, Spec.IsOpt c := by
  simp only [List.any_eq_true]
  constructor
  · rintro ⟨c, hc, h⟩; exact ⟨c, hc, by cases c <;> simp_all [Constraint.isOpt, Spec.IsOpt]⟩
  · rintro ⟨c, hc, h⟩; exact ⟨c, hc, by cases c <;> simp_all [Constraint.isOpt, Spec.IsOpt]⟩

/-- `detect_conflicts` returns the empty list exactly when none of the three documented conflicts is present. -/
theorem detectConflicts_eq_nil_iff (cs : List Constraint) : detectConflicts cs = [] ↔ ¬ Spec.Conflict cs := by
  unfold detectConflicts Spec.Conflict Spec.ReqOptConflict Spec.ConstConflict Spec.EnumConstConflict
  simp only [List.append_eq_nil_iff, adjacentDiffs_eq_nil_iff, enumConstConflicts_eq_nil_iff,
    ← constsOf_eq, ← enumsOf_eq, ← any_isReq_iff, ← any_isOpt_iff]
  constructor
  · rintro ⟨⟨h1, h2⟩, h3⟩
    rintro (⟨hr, ho⟩ | hc | ⟨e, he, c, hc, hn⟩)
    · simp [hr, ho] at h1
    · exact hc h2
    · exact hn (h3 e he c hc)
  · intro h
    refine ⟨⟨?_, ?_⟩, ?_⟩
    · by_cases hr : cs.any Constraint.isReq = true
      · by_cases ho : cs.any Constraint.isOpt = true
        · exact absurd (Or.inl ⟨hr, ho⟩) h
        · simp [ho]
      · simp [hr]
    · exact Classical.byContradiction fun hc => h (Or.inr (Or.inl hc))
    · intro e he c hc
      exact Classical.byContradiction fun hn => h (Or.inr (Or.inr ⟨e, he, c, hc, hn⟩))

/-- emptiness of the conflict list does not depend on the order of the chain -/
theorem conflict_perm {cs₁ cs₂ : List Constraint} (h : cs₁.Perm cs₂) : Spec.Conflict cs₁ ↔ Spec.Conflict cs₂ := by
  have hc : (Spec.constsOf cs₁).Perm (Spec.constsOf cs₂) := by
    rw [constsOf_eq, constsOf_eq]; exact h.filterMap _
  have he : (Spec.enumsOf cs₁).Perm (Spec.enumsOf cs₂) := by
    rw [enumsOf_eq, enumsOf_eq]; exact h.filterMap _
  have hp : (Spec.constsOf cs₁).Pairwise PEq ↔ (Spec.constsOf cs₂).Pairwise PEq :=
    hc.pairwise_iff (fun hxy => PEq.symm hxy)
  unfold Spec.Conflict Spec.ReqOptConflict Spec.ConstConflict Spec.EnumConstConflict
  constructor
  · rintro (⟨⟨r, hr, hr'⟩, ⟨o, ho, ho'⟩⟩ | hcc | ⟨e, hee, c, hcc, hn⟩)
    · exact Or.inl ⟨⟨r, h.mem_iff.1 hr, hr'⟩, ⟨o, h.mem_iff.1 ho, ho'⟩⟩
    · exact Or.inr (Or.inl (fun hp2 => hcc (hp.2 hp2)))
    · exact Or.inr (Or.inr ⟨e, he.mem_iff.1 hee, c, hc.mem_iff.1 hcc, hn⟩)
  · rintro (⟨⟨r, hr, hr'⟩, ⟨o, ho, ho'⟩⟩ | hcc | ⟨e, hee, c, hcc, hn⟩)
    · exact Or.inl ⟨⟨r, h.mem_iff.2 hr, hr'⟩, ⟨o, h.mem_iff.2 ho, ho'⟩⟩
    · exact Or.inr (Or.inl (fun hp1 => hcc (hp.1 hp1)))
    · exact Or.inr (Or.inr ⟨e, he.mem_iff.2 hee, c, hc.mem_iff.2 hcc, hn⟩)

end Octave
