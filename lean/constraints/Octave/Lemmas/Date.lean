/-
DATE: the code's two-step test (`re.match(r"^\d{4}-\d{2}-\d{2}$")`, whose `\d` admits every Unicode
decimal digit and whose `$` admits a trailing newline, followed by `datetime.fromisoformat`, which works
on the UTF-8 bytes) accepts exactly the ten-character texts `YYYY-MM-DD` of ASCII digits that name a real
calendar date of the years 0001–9999.
-/
import Octave.Model.Date
import Octave.Spec.Meaning
import Octave.Spec.IsoForms
namespace Octave
open Iso

/-! ### calendar: the transcribed C helpers agree with the independent calendar of the spec -/

theorem isLeap_iff (y : Nat) : isLeap y = true ↔ Spec.LeapYear y := by
  unfold isLeap Spec.LeapYear
  simp only [Bool.and_eq_true, Bool.or_eq_true, beq_iff_eq, bne_iff_ne, ne_eq]
  omega

theorem daysInMonth_eq (y m : Nat) (h1 : 1 ≤ m) (h12 : m ≤ 12) : daysInMonth y m = Spec.monthLength y m := by
  unfold daysInMonth Spec.monthLength
  by_cases hl : Spec.LeapYear y
  · have := (isLeap_iff y).2 hl
    have hm : m = 1 ∨ m = 2 ∨ m = 3 ∨ m = 4 ∨ m = 5 ∨ m = 6 ∨ m = 7 ∨ m = 8 ∨ m = 9 ∨ m = 10 ∨ m = 11 ∨ m = 12 := by omega
    rcases hm with h | h | h | h | h | h | h | h | h | h | h | h <;> subst h <;> simp [this, hl, daysInMonthTable]
  · have : isLeap y = false := by
      cases h : isLeap y with
      | false => rfl
      | true => exact absurd ((isLeap_iff y).1 h) hl
    have hm : m = 1 ∨ m = 2 ∨ m = 3 ∨ m = 4 ∨ m = 5 ∨ m = 6 ∨ m = 7 ∨ m = 8 ∨ m = 9 ∨ m = 10 ∨ m = 11 ∨ m = 12 := by omega
    rcases hm with h | h | h | h | h | h | h | h | h | h | h | h <;> subst h <;> simp [this, hl, daysInMonthTable]

theorem validYMD_iff (y m d : Nat) : validYMD y m d = true ↔ Spec.RealDate y m d := by
  unfold validYMD Spec.RealDate
  simp only [Bool.and_eq_true, decide_eq_true_eq]
  constructor
  · rintro ⟨⟨⟨⟨⟨h1, h2⟩, h3⟩, h4⟩, h5⟩, h6⟩
    rw [daysInMonth_eq y m h3 h4] at h6
    exact ⟨h1, h2, h3, h4, h5, h6⟩
  · rintro ⟨h1, h2, h3, h4, h5, h6⟩
    rw [← daysInMonth_eq y m h3 h4] at h6
    exact ⟨⟨⟨⟨⟨h1, h2⟩, h3⟩, h4⟩, h5⟩, h6⟩

end Octave

namespace Octave
open Iso

theorem isDigitB_of_dig {b : Nat} (h : dig b) : isDigitB b = true := by
  unfold isDigitB dig at *; simp [h.1, h.2]

/-! ### `fromisoformat` on the two shapes the regex lets through (all-ASCII case) -/

theorem fromIsoBytes_date10 (a b c d e f g h : Nat) (ha : dig a) (hb : dig b) (hc : dig c) (hd : dig d)
    (he : dig e) (hf : dig f) (hg : dig g) (hh : dig h) :
    fromIsoBytes? [a, b, c, d, 45, e, f, 45, g, h]
      = some (validYMD ((((0 * 10 + (a - 48)) * 10 + (b - 48)) * 10 + (c - 48)) * 10 + (d - 48))
                       ((0 * 10 + (e - 48)) * 10 + (f - 48)) ((0 * 10 + (g - 48)) * 10 + (h - 48))) := by
  have he87 : (e == 87) = false := by unfold dig at he; simp; omega
  simp [fromIsoBytes?, findSeparator, parseDate, parseDigits, isDigitB_of_dig, ha, hb, hc, hd, he, hf, hg, hh, he87]

/-- the trailing newline that `$` lets through is refused by `fromisoformat` (empty time part) -/
theorem fromIsoBytes_date11 (a b c d e f g h : Nat) (ha : dig a) (hb : dig b) (hc : dig c) (hd : dig d)
    (he : dig e) (hf : dig f) (hg : dig g) (hh : dig h) :
    fromIsoBytes? [a, b, c, d, 45, e, f, 45, g, h, 10] = some false := by
  have he87 : (e == 87) = false := by unfold dig at he; simp; omega
  simp [fromIsoBytes?, findSeparator, parseDate, parseDigits, isDigitB_of_dig, ha, hb, hc, hd, he, hf, hg, hh, he87,
    seqLen, timeOk, findTz, parseHMSF]

/-! ### UTF-8: a non-ASCII character never yields a digit byte -/

theorem utf8Char_ascii {c : Char} (h : c.toNat < 128) : utf8Char c = [c.toNat] := by
  unfold utf8Char; simp [h]

theorem utf8Char_nonascii {c : Char} (h : 128 ≤ c.toNat) : ∃ b rest, utf8Char c = b :: rest ∧ 192 ≤ b := by
  unfold utf8Char
  simp only
  split
  · omega
  · split
    · exact ⟨_, _, rfl, by omega⟩
    · split
      · exact ⟨_, _, rfl, by omega⟩
      · exact ⟨_, _, rfl, by omega⟩

/-- `parse_digits` on the UTF-8 bytes of a text that starts with the character `c`: `c` must be an ASCII digit -/
theorem parseDigits_utf8_cons {n : Nat} {c : Char} {rest : List Nat} {acc : Nat} {r : Nat × List Nat}
    (h : parseDigits (n + 1) (utf8Char c ++ rest) acc = some r) :
    dig c.toNat ∧ utf8Char c = [c.toNat] ∧ parseDigits n rest (acc * 10 + (c.toNat - 48)) = some r := by
  by_cases hc : c.toNat < 128
  · rw [utf8Char_ascii hc] at h ⊢
    simp only [List.singleton_append, parseDigits] at h
    by_cases hd : isDigitB c.toNat = true
    · simp only [hd, ↓reduceIte] at h
      refine ⟨?_, rfl, h⟩
      unfold isDigitB at hd; unfold dig; simpa using hd
    · simp [hd] at h
  · obtain ⟨b, tl, hb, hge⟩ := utf8Char_nonascii (Nat.le_of_not_lt hc)
    rw [hb] at h
    simp only [List.cons_append, parseDigits] at h
    have : isDigitB b = false := by unfold isDigitB; simp; omega
    simp [this] at h

/-! ### the digit table of the running interpreter -/

/-- what the DATE theorem needs from the generated table (`Gen.digitZeros`); proved by `decide` in Props/C08 -/
def DigitTableOk : Prop := Gen.digitZeros.head? = some 48 ∧ ∀ z ∈ Gen.digitZeros, z = 48 ∨ 128 ≤ z

theorem isUniDigit_ascii (ht : DigitTableOk) {c : Char} (hu : isUniDigit c = true) (ha : c.toNat < 128) : dig c.toNat := by
  unfold isUniDigit decimalValue? at hu
  cases hf : Gen.digitZeros.find? (fun z => z ≤ c.toNat && c.toNat < z + 10) with
  | none => simp [hf] at hu
  | some z =>
    have hz := List.find?_some hf
    have hm := List.mem_of_find?_eq_some hf
    simp only [Bool.and_eq_true, decide_eq_true_eq] at hz
    rcases ht.2 z hm with h | h
    · unfold dig; omega
    · omega

theorem isUniDigit_of_dig (ht : DigitTableOk) {c : Char} (hd : dig c.toNat) : isUniDigit c = true := by
  unfold isUniDigit decimalValue?
  have h1 := ht.1
  obtain ⟨tl, htl⟩ : ∃ tl, Gen.digitZeros = 48 :: tl := by
    cases h : Gen.digitZeros with
    | nil => rw [h] at h1; simp at h1
    | cons x xs => rw [h] at h1; simp at h1; exact ⟨xs, by rw [h1]⟩
  unfold dig at hd
  have : (decide (48 ≤ c.toNat) && decide (c.toNat < 48 + 10)) = true := by simp; omega
  simp [htl, this]

/-- the first byte of the encoding of a Unicode decimal digit is never 'W' -/
theorem head_utf8_uniDigit (ht : DigitTableOk) {c : Char} (hu : isUniDigit c = true) (X : List Nat) :
    ((utf8Char c ++ X).headD 0 == 87) = false := by
  by_cases ha : c.toNat < 128
  · have := isUniDigit_ascii ht hu ha
    rw [utf8Char_ascii ha]; unfold dig at this; simp; omega
  · obtain ⟨b, tl, hb, hge⟩ := utf8Char_nonascii (Nat.le_of_not_lt ha)
    rw [hb]; simp; omega

/-- if `parse_isoformat_date` succeeds on the bytes of `abcd-ef-gh…` (Unicode digits), all eight are ASCII digits -/
theorem parseDate_digits (ht : DigitTableOk) (a b c d e f g h : Char) (X : List Nat) (sep : Nat) (r : Option Bool)
    (he : isUniDigit e = true)
    (hp : parseDate (utf8Char a ++ (utf8Char b ++ (utf8Char c ++ (utf8Char d ++ (45 :: (utf8Char e ++ (utf8Char f ++
            (45 :: (utf8Char g ++ (utf8Char h ++ X)))))))))) sep = some r) :
    dig a.toNat ∧ dig b.toNat ∧ dig c.toNat ∧ dig d.toNat ∧ dig e.toNat ∧ dig f.toNat ∧ dig g.toNat ∧ dig h.toNat := by
  unfold parseDate at hp
  cases hY : parseDigits 4 (utf8Char a ++ (utf8Char b ++ (utf8Char c ++ (utf8Char d ++ (45 :: (utf8Char e ++ (utf8Char f ++
            (45 :: (utf8Char g ++ (utf8Char h ++ X)))))))))) 0 with
  | none => simp [hY] at hp
  | some yr =>
    obtain ⟨da, _, h1⟩ := parseDigits_utf8_cons hY
    obtain ⟨db, _, h2⟩ := parseDigits_utf8_cons h1
    obtain ⟨dc, _, h3⟩ := parseDigits_utf8_cons h2
    obtain ⟨dd, _, h4⟩ := parseDigits_utf8_cons h3
    simp only [parseDigits, Option.some.injEq] at h4
    subst h4
    simp only [hY, List.headD_cons, beq_self_eq_true, ↓reduceIte, List.drop_succ_cons, List.drop_zero,
      head_utf8_uniDigit ht he, Bool.false_eq_true] at hp
    cases hM : parseDigits 2 (utf8Char e ++ (utf8Char f ++ (45 :: (utf8Char g ++ (utf8Char h ++ X))))) 0 with
    | none => simp [hM] at hp
    | some mr =>
      obtain ⟨de, _, h5⟩ := parseDigits_utf8_cons hM
      obtain ⟨df, _, h6⟩ := parseDigits_utf8_cons h5
      simp only [parseDigits, Option.some.injEq] at h6
      subst h6
      simp only [hM, List.headD_cons, bne_self_eq_false, Bool.and_false, Bool.false_eq_true, ↓reduceIte,
        List.drop_succ_cons, List.drop_zero] at hp
      cases hD : parseDigits 2 (utf8Char g ++ (utf8Char h ++ X)) 0 with
      | none => simp [hD] at hp
      | some dr =>
        obtain ⟨dg, _, h7⟩ := parseDigits_utf8_cons hD
        obtain ⟨dh, _, _⟩ := parseDigits_utf8_cons h7
        exact ⟨da, db, dc, dd, de, df, dg, dh⟩

/-- acceptance by `fromisoformat` implies that the date part parsed -/
theorem fromIsoBytes_true {bs : List Nat} (h : fromIsoBytes? bs = some true) : ∃ sep r, parseDate bs sep = some r := by
  unfold fromIsoBytes? at h
  simp only at h
  split at h
  · cases h
  · split at h
    · cases h
    · rename_i sep _
      cases hp : parseDate bs sep with
      | none => simp [hp] at h
      | some r => exact ⟨sep, r, hp⟩

theorem digit?_of_dig {c : Char} (h : dig c.toNat) : Spec.digit? c = some (c.toNat - 48) := by
  unfold Spec.digit? dig at *; simp [h.1, h.2]

theorem dig_of_digit? {c : Char} {n : Nat} (h : Spec.digit? c = some n) : dig c.toNat ∧ n = c.toNat - 48 := by
  unfold Spec.digit? at h
  split at h
  · rename_i hc; cases h; exact ⟨hc, rfl⟩
  · cases h

theorem utf8_dash : utf8Char '-' = [45] := by decide
theorem utf8_nl : utf8Char '\n' = [10] := by decide

theorem date_accept_of_spec (ht : DigitTableOk) (s : Str) (h : Spec.IsDateText s) :
    reDateMatch s = true ∧ Iso.fromIso s = true := by
  unfold Spec.IsDateText at h
  split at h
  · rename_i y m d hdf
    unfold Spec.dateFields at hdf
    split at hdf
    · rename_i y1 y2 y3 y4 m1 m2 d1 d2
      split at hdf
      · rename_i a b c d' e f g h' h1 h2 h3 h4 h5 h6 h7 h8
        obtain ⟨k1, r1⟩ := dig_of_digit? h1
        obtain ⟨k2, r2⟩ := dig_of_digit? h2
        obtain ⟨k3, r3⟩ := dig_of_digit? h3
        obtain ⟨k4, r4⟩ := dig_of_digit? h4
        obtain ⟨k5, r5⟩ := dig_of_digit? h5
        obtain ⟨k6, r6⟩ := dig_of_digit? h6
        obtain ⟨k7, r7⟩ := dig_of_digit? h7
        obtain ⟨k8, r8⟩ := dig_of_digit? h8
        simp only [Option.some.injEq, Prod.mk.injEq] at hdf
        obtain ⟨hy, hm, hd⟩ := hdf
        constructor
        · simp [reDateMatch, isUniDigit_of_dig ht, k1, k2, k3, k4, k5, k6, k7, k8]
        · have a1 : y1.toNat < 128 := by unfold dig at k1; omega
          have a2 : y2.toNat < 128 := by unfold dig at k2; omega
          have a3 : y3.toNat < 128 := by unfold dig at k3; omega
          have a4 : y4.toNat < 128 := by unfold dig at k4; omega
          have a5 : m1.toNat < 128 := by unfold dig at k5; omega
          have a6 : m2.toNat < 128 := by unfold dig at k6; omega
          have a7 : d1.toNat < 128 := by unfold dig at k7; omega
          have a8 : d2.toNat < 128 := by unfold dig at k8; omega
          unfold Iso.fromIso Iso.fromIso?
          simp only [utf8, utf8Char_ascii, a1, a2, a3, a4, a5, a6, a7, a8, utf8_dash, List.singleton_append, List.append_nil]
          rw [fromIsoBytes_date10 _ _ _ _ _ _ _ _ k1 k2 k3 k4 k5 k6 k7 k8]
          simp only [Option.getD_some]
          rw [validYMD_iff]
          have e1 : (((0 * 10 + (y1.toNat - 48)) * 10 + (y2.toNat - 48)) * 10 + (y3.toNat - 48)) * 10 + (y4.toNat - 48) = y := by
            subst r1 r2 r3 r4; omega
          have e2 : (0 * 10 + (m1.toNat - 48)) * 10 + (m2.toNat - 48) = m := by subst r5 r6; omega
          have e3 : (0 * 10 + (d1.toNat - 48)) * 10 + (d2.toNat - 48) = d := by subst r7 r8; omega
          rw [e1, e2, e3]; exact h
      · cases hdf
    · cases hdf
  · exact absurd h id


theorem spec_of_date_accept (ht : DigitTableOk) (s : Str) (hre : reDateMatch s = true) (hiso : Iso.fromIso s = true) :
    Spec.IsDateText s := by
  have hiso' : fromIsoBytes? (utf8 s) = some true := by
    unfold Iso.fromIso Iso.fromIso? at hiso
    cases hh : fromIsoBytes? (utf8 s) with
    | none => simp [hh] at hiso
    | some b => simp [hh] at hiso; rw [hiso]
  unfold reDateMatch at hre
  split at hre
  · -- ten characters
    rename_i a b c d m1 e f m2 g h
    simp only [Bool.and_eq_true, beq_iff_eq] at hre
    obtain ⟨⟨⟨⟨⟨⟨⟨⟨⟨ua, ub⟩, uc⟩, ud⟩, hm1⟩, ue⟩, uf⟩, hm2⟩, ug⟩, uh⟩ := hre
    subst hm1 hm2
    have hbytes : utf8 [a, b, c, d, '-', e, f, '-', g, h] = utf8Char a ++ (utf8Char b ++ (utf8Char c ++ (utf8Char d ++
        (45 :: (utf8Char e ++ (utf8Char f ++ (45 :: (utf8Char g ++ (utf8Char h ++ [])))))))))  := by
      simp [utf8, utf8_dash]
    obtain ⟨sep, r, hp⟩ := fromIsoBytes_true hiso'
    rw [hbytes] at hp
    obtain ⟨k1, k2, k3, k4, k5, k6, k7, k8⟩ := parseDate_digits ht a b c d e f g h [] sep r ue hp
    have a1 : a.toNat < 128 := by unfold dig at k1; omega
    have a2 : b.toNat < 128 := by unfold dig at k2; omega
    have a3 : c.toNat < 128 := by unfold dig at k3; omega
    have a4 : d.toNat < 128 := by unfold dig at k4; omega
    have a5 : e.toNat < 128 := by unfold dig at k5; omega
    have a6 : f.toNat < 128 := by unfold dig at k6; omega
    have a7 : g.toNat < 128 := by unfold dig at k7; omega
    have a8 : h.toNat < 128 := by unfold dig at k8; omega
    simp only [utf8, utf8Char_ascii, a1, a2, a3, a4, a5, a6, a7, a8, utf8_dash, List.singleton_append, List.append_nil] at hiso'
    rw [fromIsoBytes_date10 _ _ _ _ _ _ _ _ k1 k2 k3 k4 k5 k6 k7 k8] at hiso'
    simp only [Option.some.injEq] at hiso'
    rw [validYMD_iff] at hiso'
    unfold Spec.IsDateText Spec.dateFields
    simp only [digit?_of_dig k1, digit?_of_dig k2, digit?_of_dig k3, digit?_of_dig k4, digit?_of_dig k5, digit?_of_dig k6,
      digit?_of_dig k7, digit?_of_dig k8]
    have e1 : (a.toNat - 48) * 1000 + (b.toNat - 48) * 100 + (c.toNat - 48) * 10 + (d.toNat - 48)
        = (((0 * 10 + (a.toNat - 48)) * 10 + (b.toNat - 48)) * 10 + (c.toNat - 48)) * 10 + (d.toNat - 48) := by omega
    have e2 : (e.toNat - 48) * 10 + (f.toNat - 48) = (0 * 10 + (e.toNat - 48)) * 10 + (f.toNat - 48) := by omega
    have e3 : (g.toNat - 48) * 10 + (h.toNat - 48) = (0 * 10 + (g.toNat - 48)) * 10 + (h.toNat - 48) := by omega
    rw [e1, e2, e3]; exact hiso'
  · -- eleven characters: the trailing newline
    rename_i a b c d m1 e f m2 g h nl
    simp only [Bool.and_eq_true, beq_iff_eq] at hre
    obtain ⟨⟨⟨⟨⟨⟨⟨⟨⟨⟨ua, ub⟩, uc⟩, ud⟩, hm1⟩, ue⟩, uf⟩, hm2⟩, ug⟩, uh⟩, hnl⟩ := hre
    subst hm1 hm2 hnl
    have hbytes : utf8 [a, b, c, d, '-', e, f, '-', g, h, '\n'] = utf8Char a ++ (utf8Char b ++ (utf8Char c ++ (utf8Char d ++
        (45 :: (utf8Char e ++ (utf8Char f ++ (45 :: (utf8Char g ++ (utf8Char h ++ [10])))))))))  := by
      simp [utf8, utf8_dash, utf8_nl]
    obtain ⟨sep, r, hp⟩ := fromIsoBytes_true hiso'
    rw [hbytes] at hp
    obtain ⟨k1, k2, k3, k4, k5, k6, k7, k8⟩ := parseDate_digits ht a b c d e f g h [10] sep r ue hp
    have a1 : a.toNat < 128 := by unfold dig at k1; omega
    have a2 : b.toNat < 128 := by unfold dig at k2; omega
    have a3 : c.toNat < 128 := by unfold dig at k3; omega
    have a4 : d.toNat < 128 := by unfold dig at k4; omega
    have a5 : e.toNat < 128 := by unfold dig at k5; omega
    have a6 : f.toNat < 128 := by unfold dig at k6; omega
    have a7 : g.toNat < 128 := by unfold dig at k7; omega
    have a8 : h.toNat < 128 := by unfold dig at k8; omega
    simp only [utf8, utf8Char_ascii, a1, a2, a3, a4, a5, a6, a7, a8, utf8_dash, utf8_nl, List.singleton_append, List.append_nil] at hiso'
    rw [fromIsoBytes_date11 _ _ _ _ _ _ _ _ k1 k2 k3 k4 k5 k6 k7 k8] at hiso'
    cases hiso'
  · cases hre


/-! ### ISO8601: the forms documented in the class docstring are accepted -/

theorem isTzChar_dig {b : Nat} (h : dig b) : isTzChar b = false := by unfold dig at h; unfold isTzChar; simp; omega

/-- `YYYY-MM-DD`, one ASCII separator character, then a non-empty time part `X` -/
theorem fromIsoBytes_dt (a b c d e f g h T : Nat) (X : List Nat) (ha : dig a) (hb : dig b) (hc : dig c) (hd : dig d)
    (he : dig e) (hf : dig f) (hg : dig g) (hh : dig h) (hT : T < 128) :
    fromIsoBytes? (a :: b :: c :: d :: 45 :: e :: f :: 45 :: g :: h :: T :: X)
      = some (timeOk X && validYMD (four a b c d) (two e f) (two g h)) := by
  have he87 : (e == 87) = false := by unfold dig at he; simp; omega
  have hs : seqLen T = 1 := by unfold seqLen; simp [hT]
  simp [fromIsoBytes?, findSeparator, parseDate, parseDigits, isDigitB_of_dig, ha, hb, hc, hd, he, hf, hg, hh, he87, hs, two, four]
  intro hlen; omega

theorem findTz_none6 (i j k l m n : Nat) (hi : dig i) (hj : dig j) (hk : dig k) (hl : dig l) (hm : dig m) (hn : dig n) :
    findTz [i, j, 58, k, l, 58, m, n] 0 = none := by
  have t7 : isTzChar 58 = false := by decide
  simp [findTz, isTzChar_dig, hi, hj, hk, hl, hm, hn, t7]

theorem findTz8 (i j k l m n sg : Nat) (X : List Nat) (hi : dig i) (hj : dig j) (hk : dig k) (hl : dig l) (hm : dig m) (hn : dig n)
    (hsg : isTzChar sg = true) : findTz (i :: j :: 58 :: k :: l :: 58 :: m :: n :: sg :: X) 0 = some 8 := by
  have t7 : isTzChar 58 = false := by decide
  simp [findTz, isTzChar_dig, hi, hj, hk, hl, hm, hn, t7, hsg]

theorem parseHMSF_hms (i j k l m n : Nat) (X : List Nat) (hi : dig i) (hj : dig j) (hk : dig k) (hl : dig l) (hm : dig m) (hn : dig n) :
    parseHMSF (i :: j :: 58 :: k :: l :: 58 :: m :: n :: X) 8 = some ⟨two i j, two k l, two m n, 0, X.headD 0 != 0⟩ := by
  simp [parseHMSF, parseDigits, isDigitB_of_dig, hi, hj, hk, hl, hm, hn, two]

theorem parseHMSF_hm (o p q r : Nat) (ho : dig o) (hp : dig p) (hq : dig q) (hr : dig r) :
    parseHMSF [o, p, 58, q, r] 5 = some ⟨two o p, two q r, 0, 0, false⟩ := by
  simp [parseHMSF, parseDigits, isDigitB_of_dig, ho, hp, hq, hr, two]

/-- `HH:MM:SS` -/
theorem timeOk_plain (i j k l m n : Nat) (hi : dig i) (hj : dig j) (hk : dig k) (hl : dig l) (hm : dig m) (hn : dig n) :
    timeOk [i, j, 58, k, l, 58, m, n] = (decide (two i j ≤ 23) && decide (two k l ≤ 59) && decide (two m n ≤ 59)) := by
  unfold timeOk
  rw [findTz_none6 i j k l m n hi hj hk hl hm hn]
  simp [parseHMSF_hms i j k l m n [] hi hj hk hl hm hn, validTime]

/-- `HH:MM:SS±HH:MM` -/
theorem timeOk_tz (i j k l m n sg o p q r : Nat) (hi : dig i) (hj : dig j) (hk : dig k) (hl : dig l) (hm : dig m) (hn : dig n)
    (hsg : sg = 43 ∨ sg = 45) (ho : dig o) (hp : dig p) (hq : dig q) (hr : dig r) (hoff : two o p ≤ 23) (hmin : two q r ≤ 59) :
    timeOk [i, j, 58, k, l, 58, m, n, sg, o, p, 58, q, r] = (decide (two i j ≤ 23) && decide (two k l ≤ 59) && decide (two m n ≤ 59)) := by
  have t8 : isTzChar sg = true := by rcases hsg with h | h <;> subst h <;> decide
  have t9 : (sg == 90) = false := by rcases hsg with h | h <;> subst h <;> decide
  unfold timeOk
  rw [findTz8 i j k l m n sg _ hi hj hk hl hm hn t8]
  simp only [parseHMSF_hms i j k l m n _ hi hj hk hl hm hn]
  have hlt : decide ((two o p * 3600 + two q r * 60 + 0) * 1000000 + 0 < 86400 * 1000000) = true := by
    apply decide_eq_true; omega
  simp only [List.getD_cons_succ, List.getD_cons_zero, t9, Bool.false_eq_true, ↓reduceIte, List.drop_succ_cons, List.drop_zero,
    List.length_cons, List.length_nil, parseHMSF_hm o p q r ho hp hq hr, hlt, Bool.or_true, Bool.true_and, validTime]
  simp

theorem ne_Z_of_dig {c : Char} (h : dig c.toNat) : (c == 'Z') = false := by
  cases hc : c == 'Z' with
  | false => rfl
  | true =>
    have := eq_of_beq hc
    subst this
    unfold dig at h
    have : ('Z' : Char).toNat = 90 := by decide
    omega


theorem utf8_T : utf8Char 'T' = [84] := by decide
theorem utf8_colon : utf8Char ':' = [58] := by decide
theorem utf8_plus : utf8Char '+' = [43] := by decide
theorem utf8_zero : utf8Char '0' = [48] := by decide

theorem lt128_of_dig {n : Nat} (h : dig n) : n < 128 := by unfold dig at h; omega

theorem iso_plain (t : DT) (hd : t.digits) (hv : t.valid) : Iso.fromIso (replaceZ t.text) = true := by
  obtain ⟨ha, hb, hc, hd', he, hf, hg, hh, hi, hj, hk, hl, hm, hn⟩ := hd
  obtain ⟨hdate, h1, h2, h3⟩ := hv
  have hr : replaceZ t.text = t.text := by
    simp [DT.text, replaceZ, ne_Z_of_dig, ha, hb, hc, hd', he, hf, hg, hh, hi, hj, hk, hl, hm, hn]
  rw [hr]
  unfold Iso.fromIso Iso.fromIso?
  simp only [DT.text, utf8, utf8Char_ascii, lt128_of_dig, ha, hb, hc, hd', he, hf, hg, hh, hi, hj, hk, hl, hm, hn, utf8_dash, utf8_T,
    utf8_colon, List.singleton_append, List.append_nil]
  rw [fromIsoBytes_dt _ _ _ _ _ _ _ _ 84 _ ha hb hc hd' he hf hg hh (by omega), timeOk_plain _ _ _ _ _ _ hi hj hk hl hm hn]
  simp [h1, h2, h3, (validYMD_iff _ _ _).2 hdate]

theorem iso_Z (t : DT) (hd : t.digits) (hv : t.valid) : Iso.fromIso (replaceZ (t.text ++ ['Z'])) = true := by
  obtain ⟨ha, hb, hc, hd', he, hf, hg, hh, hi, hj, hk, hl, hm, hn⟩ := hd
  obtain ⟨hdate, h1, h2, h3⟩ := hv
  have hr : replaceZ (t.text ++ ['Z']) = t.text ++ ['+', '0', '0', ':', '0', '0'] := by
    simp [DT.text, replaceZ, ne_Z_of_dig, ha, hb, hc, hd', he, hf, hg, hh, hi, hj, hk, hl, hm, hn]
  rw [hr]
  unfold Iso.fromIso Iso.fromIso?
  simp only [DT.text, List.cons_append, List.nil_append, utf8, utf8Char_ascii, lt128_of_dig, ha, hb, hc, hd', he, hf, hg, hh, hi, hj, hk, hl, hm, hn,
    utf8_dash, utf8_T, utf8_colon, utf8_plus, utf8_zero, List.append_nil]
  have d0 : dig 48 := by unfold dig; omega
  rw [fromIsoBytes_dt _ _ _ _ _ _ _ _ 84 _ ha hb hc hd' he hf hg hh (by omega),
    timeOk_tz _ _ _ _ _ _ 43 48 48 48 48 hi hj hk hl hm hn (Or.inl rfl) d0 d0 d0 d0 (by decide) (by decide)]
  simp [h1, h2, h3, (validYMD_iff _ _ _).2 hdate]

theorem iso_offset (t : DT) (hd : t.digits) (hv : t.valid) (sg o p q r : Char) (hsg : sg = '+' ∨ sg = '-')
    (ho : dig o.toNat) (hp : dig p.toNat) (hq : dig q.toNat) (hr : dig r.toNat)
    (hoff : two o.toNat p.toNat ≤ 23) (hmin : two q.toNat r.toNat ≤ 59) :
    Iso.fromIso (replaceZ (t.text ++ [sg, o, p, ':', q, r])) = true := by
  obtain ⟨ha, hb, hc, hd', he, hf, hg, hh, hi, hj, hk, hl, hm, hn⟩ := hd
  obtain ⟨hdate, h1, h2, h3⟩ := hv
  have hsgZ : (sg == 'Z') = false := by rcases hsg with h | h <;> subst h <;> decide
  have hsgB : utf8Char sg = [sg.toNat] ∧ (sg.toNat = 43 ∨ sg.toNat = 45) := by
    rcases hsg with h | h <;> subst h <;> decide
  have hrz : replaceZ (t.text ++ [sg, o, p, ':', q, r]) = t.text ++ [sg, o, p, ':', q, r] := by
    simp [DT.text, replaceZ, ne_Z_of_dig, ha, hb, hc, hd', he, hf, hg, hh, hi, hj, hk, hl, hm, hn, ho, hp, hq, hr, hsgZ]
  rw [hrz]
  unfold Iso.fromIso Iso.fromIso?
  simp only [DT.text, List.cons_append, List.nil_append, utf8, utf8Char_ascii, lt128_of_dig, ha, hb, hc, hd', he, hf, hg, hh, hi, hj, hk, hl, hm, hn,
    ho, hp, hq, hr, hsgB.1, utf8_dash, utf8_T, utf8_colon, List.append_nil]
  rw [fromIsoBytes_dt _ _ _ _ _ _ _ _ 84 _ ha hb hc hd' he hf hg hh (by omega),
    timeOk_tz _ _ _ _ _ _ _ _ _ _ _ hi hj hk hl hm hn hsgB.2 ho hp hq hr hoff hmin]
  simp [h1, h2, h3, (validYMD_iff _ _ _).2 hdate]


theorem replaceZ_of_isDateText (s : Str) (h : Spec.IsDateText s) : replaceZ s = s := by
  unfold Spec.IsDateText at h
  split at h
  · rename_i y m d hdf
    unfold Spec.dateFields at hdf
    split at hdf
    · split at hdf
      · rename_i h1 h2 h3 h4 h5 h6 h7 h8
        simp [replaceZ, ne_Z_of_dig, (dig_of_digit? h1).1, (dig_of_digit? h2).1, (dig_of_digit? h3).1, (dig_of_digit? h4).1,
          (dig_of_digit? h5).1, (dig_of_digit? h6).1, (dig_of_digit? h7).1, (dig_of_digit? h8).1]
      · cases hdf
    · cases hdf
  · exact absurd h id


end Octave
