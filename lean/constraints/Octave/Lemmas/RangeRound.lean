/-
`float(int)` as a SPEC, independent of the model's `roundPosToDouble`, and the proof that the model's
`floatOfInt` is that function.

Spec (documentation of IEEE-754 / CPython `int.__float__`): an int of magnitude `n` has `b = ⌊log₂ n⌋`;
binary64 carries 53 significant bits, so around `n` the representable numbers are the multiples of
`s = 2^(b-52)` (every integer when `b ≤ 52`).  `float(n)` is the multiple of `s` nearest to `n`; when `n`
is exactly half-way the multiple with the even multiplier is taken; when the result reaches `2^1024` there
is no binary64 (`OverflowError`).  `nearestMultiple` is phrased by distances, not by remainders, and
`rangeRound_nearest` proves the defining property (no multiple of `s` is nearer).
-/
import Octave.Model.Value
import Octave.Spec.Meaning
namespace Octave.Spec
open Octave

/-- the multiple of `s` nearest to `n`; half-way → the even multiplier -/
def nearestMultiple (n s : Nat) : Nat :=
  let below := n / s * s
  let above := below + s
  if n - below < above - n then below
  else if above - n < n - below then above
  else if (n / s) % 2 = 0 then below else above

/-- spacing of the binary64 grid around the positive integer `n` (53 significant bits) -/
def ulpOf (n : Nat) : Nat := 2 ^ (Nat.log2 n - 52)

/-- the integer that `float(n)` denotes, before the overflow test -/
def roundNat (n : Nat) : Nat := nearestMultiple n (ulpOf n)

/-- the number an int denotes as a binary64: nearest, ties to even; no number at or beyond `2^1024` -/
def intToDouble (i : Int) : Option FVal :=
  if 2 ^ 1024 ≤ roundNat i.natAbs then Option.none
  else some (.fin (if i < 0 then -((roundNat i.natAbs : Nat) : Rat) else ((roundNat i.natAbs : Nat) : Rat)))

/-- the number a value denotes *as the validator's arithmetic sees it* (binary64) -/
def numberOfRounded : PyVal → Option FVal
  | .int i => intToDouble i
  | .float _ x => some x
  | .str s => pyFloatOfStr s
  | _ => Option.none

/-- RANGE, binary64 reading: the value denotes a binary64 number (never a bool), not NaN, within the inclusive bounds -/
def RangeAcceptsRounded (lo hi : FVal) (v : PyVal) : Prop :=
  match numberOfRounded v with
  | some x => x ≠ .nan ∧ FLe lo x ∧ FLe x hi
  | Option.none => False

instance (lo hi : FVal) (v : PyVal) : Decidable (RangeAcceptsRounded lo hi v) := by
  unfold RangeAcceptsRounded; split <;> infer_instance

end Octave.Spec

namespace Octave.RangeRound
open Octave Octave.Spec

/-! ### `nearestMultiple` -/

theorem rangeRound_div_mul (n s : Nat) : n / s * s + n % s = n := by
  rw [Nat.mul_comm]; exact Nat.div_add_mod n s

/-- the result is a multiple of `s` -/
theorem rangeRound_isMultiple (n s : Nat) : ∃ m, nearestMultiple n s = m * s := by
  unfold nearestMultiple
  simp only
  have hs : n / s * s + s = (n / s + 1) * s := by rw [Nat.add_mul, Nat.one_mul]
  split
  · exact ⟨_, rfl⟩
  · split
    · exact ⟨_, hs⟩
    · split
      · exact ⟨_, rfl⟩
      · exact ⟨_, hs⟩

/-- **defining property**: no multiple of `s` is nearer to `n` (distance written without subtraction) -/
theorem rangeRound_nearest (n s k : Nat) (hs : 0 < s) :
    (nearestMultiple n s ≤ n → k * s ≤ n → k * s ≤ nearestMultiple n s) ∧
    (nearestMultiple n s ≤ n → n ≤ k * s → n - nearestMultiple n s ≤ k * s - n) ∧
    (n ≤ nearestMultiple n s → n ≤ k * s → nearestMultiple n s ≤ k * s) ∧
    (n ≤ nearestMultiple n s → k * s ≤ n → nearestMultiple n s - n ≤ n - k * s) := by
  have hd := rangeRound_div_mul n s
  have hr : n % s < s := Nat.mod_lt _ hs
  have hlow : k ≤ n / s → k * s ≤ n / s * s := fun h => Nat.mul_le_mul_right s h
  have hhigh : n / s + 1 ≤ k → (n / s + 1) * s ≤ k * s := fun h => Nat.mul_le_mul_right s h
  have hexp : (n / s + 1) * s = n / s * s + s := by rw [Nat.add_mul, Nat.one_mul]
  have hk : k ≤ n / s ∨ n / s + 1 ≤ k := by omega
  unfold nearestMultiple
  simp only
  generalize hq : n / s * s = Q at *
  generalize hK : k * s = K at *
  generalize n % s = r at *
  rcases hk with hk | hk
  · have := hlow hk
    split
    · omega
    · split
      · omega
      · split <;> omega
  · have := hhigh hk
    split
    · omega
    · split
      · omega
      · split <;> omega

/-- at most half a spacing away -/
theorem rangeRound_half (n s : Nat) (hs : 0 < s) :
    2 * (nearestMultiple n s - n) ≤ s ∧ 2 * (n - nearestMultiple n s) ≤ s := by
  have hd := rangeRound_div_mul n s
  have hr : n % s < s := Nat.mod_lt _ hs
  unfold nearestMultiple
  simp only
  generalize n / s * s = Q at *
  generalize n % s = r at *
  split
  · omega
  · split
    · omega
    · split <;> omega

/-- a multiple below `n` stays below the result; a multiple above `n` stays above it -/
theorem rangeRound_between (n s k : Nat) (hs : 0 < s) :
    (k * s ≤ n → k * s ≤ nearestMultiple n s) ∧ (n ≤ k * s → nearestMultiple n s ≤ k * s) := by
  have hd := rangeRound_div_mul n s
  have hr : n % s < s := Nat.mod_lt _ hs
  have hlow : k ≤ n / s → k * s ≤ n / s * s := fun h => Nat.mul_le_mul_right s h
  have hhigh : n / s + 1 ≤ k → (n / s + 1) * s ≤ k * s := fun h => Nat.mul_le_mul_right s h
  have hexp : (n / s + 1) * s = n / s * s + s := by rw [Nat.add_mul, Nat.one_mul]
  have hk : k ≤ n / s ∨ n / s + 1 ≤ k := by omega
  unfold nearestMultiple
  simp only
  generalize hq : n / s * s = Q at *
  generalize hK : k * s = K at *
  generalize n % s = r at *
  rcases hk with hk | hk
  · have := hlow hk
    split
    · omega
    · split
      · omega
      · split <;> omega
  · have := hhigh hk
    split
    · omega
    · split
      · omega
      · split <;> omega

/-- monotone for a fixed spacing -/
theorem rangeRound_mono_same (n n' s : Nat) (hs : 0 < s) (h : n ≤ n') :
    nearestMultiple n s ≤ nearestMultiple n' s := by
  have hqq : n / s ≤ n' / s := Nat.div_le_div_right h
  rcases Nat.lt_or_ge (n / s) (n' / s) with hlt | hge
  · -- a whole grid step apart: (n/s+1)*s separates them
    have h1 : n ≤ (n / s + 1) * s := by
      have := rangeRound_div_mul n s; have := Nat.mod_lt n hs
      rw [Nat.add_mul, Nat.one_mul]; omega
    have h2 : (n / s + 1) * s ≤ n' := by
      have := rangeRound_div_mul n' s
      have : (n / s + 1) * s ≤ n' / s * s := Nat.mul_le_mul_right s hlt
      omega
    exact Nat.le_trans ((rangeRound_between n s _ hs).2 h1) ((rangeRound_between n' s _ hs).1 h2)
  · have heq : n / s = n' / s := Nat.le_antisymm hqq hge
    have hd := rangeRound_div_mul n s
    have hd' := rangeRound_div_mul n' s
    have hr : n % s < s := Nat.mod_lt _ hs
    have hr' : n' % s < s := Nat.mod_lt _ hs
    unfold nearestMultiple
    simp only
    rw [← heq] at hd' ⊢
    generalize n / s * s = Q at *
    generalize n % s = r at *
    generalize n' % s = r' at *
    generalize n / s % 2 = par at *
    repeat' split
    all_goals omega

/-! ### the binary64 grid -/

theorem rangeRound_ulp_pos (n : Nat) : 0 < ulpOf n := Nat.pow_pos (by decide)

/-- `2^b` (the leading power of two) is on the grid of `n` -/
theorem rangeRound_pow_on_grid (n : Nat) (b : Nat) (hb : Nat.log2 n ≤ b) : ∃ k, 2 ^ b = k * ulpOf n := by
  refine ⟨2 ^ (b - (Nat.log2 n - 52)), ?_⟩
  unfold ulpOf
  rw [← Nat.pow_add]; congr 1; omega

/-- (a) exact below 2^53 -/
theorem rangeRound_exact (n : Nat) (h : n < 2 ^ 53) : roundNat n = n := by
  unfold roundNat
  have hu : ulpOf n = 1 := by
    unfold ulpOf
    by_cases hn : n = 0
    · subst hn; decide
    · have : Nat.log2 n < 53 := (Nat.log2_lt hn).2 h
      have : Nat.log2 n - 52 = 0 := by omega
      rw [this]
  rw [hu]
  unfold nearestMultiple
  simp only [Nat.div_one, Nat.mul_one]
  split
  · rfl
  · omega

/-- the result stays inside the binade: `2^b ≤ roundNat n ≤ 2^(b+1)` -/
theorem rangeRound_binade (n : Nat) (hn : n ≠ 0) :
    2 ^ Nat.log2 n ≤ roundNat n ∧ roundNat n ≤ 2 ^ (Nat.log2 n + 1) := by
  obtain ⟨k, hk⟩ := rangeRound_pow_on_grid n (Nat.log2 n) (Nat.le_refl _)
  obtain ⟨k', hk'⟩ := rangeRound_pow_on_grid n (Nat.log2 n + 1) (Nat.le_succ _)
  have h1 : 2 ^ Nat.log2 n ≤ n := Nat.log2_self_le hn
  have h2 : n < 2 ^ (Nat.log2 n + 1) := Nat.lt_log2_self
  unfold roundNat
  constructor
  · rw [hk] at h1 ⊢; exact (rangeRound_between n _ k (rangeRound_ulp_pos n)).1 h1
  · rw [hk'] at h2 ⊢; exact (rangeRound_between n _ k' (rangeRound_ulp_pos n)).2 (Nat.le_of_lt h2)

theorem rangeRound_log2_mono {n m : Nat} (hn : n ≠ 0) (h : n ≤ m) : Nat.log2 n ≤ Nat.log2 m := by
  have hm : m ≠ 0 := by omega
  apply Nat.le_of_lt_succ
  rw [Nat.log2_lt hn]
  exact Nat.lt_of_le_of_lt h Nat.lt_log2_self

/-- (b) monotone on naturals -/
theorem rangeRound_mono_nat (n m : Nat) (h : n ≤ m) : roundNat n ≤ roundNat m := by
  by_cases hn : n = 0
  · subst hn; rw [rangeRound_exact 0 (by decide)]; exact Nat.zero_le _
  have hm : m ≠ 0 := by omega
  have hl := rangeRound_log2_mono hn h
  rcases Nat.lt_or_ge (Nat.log2 n) (Nat.log2 m) with hlt | hge
  · have h1 := (rangeRound_binade n hn).2
    have h2 := (rangeRound_binade m hm).1
    have : 2 ^ (Nat.log2 n + 1) ≤ 2 ^ Nat.log2 m := Nat.pow_le_pow_right (by decide) hlt
    omega
  · have heq : Nat.log2 n = Nat.log2 m := Nat.le_antisymm hl hge
    unfold roundNat
    have : ulpOf n = ulpOf m := by unfold ulpOf; rw [heq]
    rw [this]
    exact rangeRound_mono_same n m _ (rangeRound_ulp_pos m) h

/-- (c) at most half an ulp away -/
theorem rangeRound_half_ulp (n : Nat) :
    2 * (roundNat n - n) ≤ ulpOf n ∧ 2 * (n - roundNat n) ≤ ulpOf n :=
  rangeRound_half n _ (rangeRound_ulp_pos n)

/-- the overflow threshold: the half-way point between the largest binary64 and 2^1024 (a tie, rounds up to even) -/
def rangeRoundThreshold : Nat := 2 ^ 1024 - 2 ^ 970

theorem rangeRound_threshold_facts :
    roundNat rangeRoundThreshold = 2 ^ 1024 ∧ roundNat (rangeRoundThreshold - 1) = 2 ^ 1024 - 2 ^ 971 := by
  decide +kernel

/-- (d) no binary64 exactly from `2^1024 − 2^970` on -/
theorem rangeRound_overflow_iff (n : Nat) : 2 ^ 1024 ≤ roundNat n ↔ rangeRoundThreshold ≤ n := by
  constructor
  · intro h
    apply Classical.byContradiction
    intro hlt
    have hle : n ≤ rangeRoundThreshold - 1 := by omega
    have := rangeRound_mono_nat _ _ hle
    rw [rangeRound_threshold_facts.2] at this
    have : (2:Nat) ^ 1024 - 2 ^ 971 < 2 ^ 1024 := by decide +kernel
    omega
  · intro h
    have := rangeRound_mono_nat _ _ h
    rw [rangeRound_threshold_facts.1] at this
    exact this

/-! ### the model computes the spec -/

theorem rangeRound_floorLog2 (n : Nat) (hn : n ≠ 0) : floorLog2Ratio n 1 = (Nat.log2 n : Int) := by
  unfold floorLog2Ratio
  have h1 : Nat.log2 1 = 0 := by decide
  simp only [h1, Int.natCast_zero, Int.sub_zero]
  have hge : (Nat.log2 n : Int) ≥ 0 := Int.natCast_nonneg _
  simp only [hge, ↓reduceIte, Int.toNat_natCast, Nat.one_mul, Nat.log2_self_le hn, decide_true]

/-- the model's remainder-based rounding is the distance-based one -/
theorem rangeRound_roundHalfEven (n s : Nat) (hs : 0 < s) : roundHalfEven n s * s = nearestMultiple n s := by
  have hd := rangeRound_div_mul n s
  have hr : n % s < s := Nat.mod_lt _ hs
  have hexp : (n / s + 1) * s = n / s * s + s := by rw [Nat.add_mul, Nat.one_mul]
  unfold roundHalfEven nearestMultiple
  simp only [beq_iff_eq]
  generalize hQ : n / s * s = Q at *
  generalize hrr : n % s = r at *
  by_cases h1 : 2 * r < s
  · rw [if_pos h1, if_pos (show n - Q < Q + s - n by omega), hQ]
  · rw [if_neg h1]
    by_cases h2 : s < 2 * r
    · rw [if_pos h2, if_neg (show ¬ (n - Q < Q + s - n) by omega), if_pos (show Q + s - n < n - Q by omega), hexp]
    · rw [if_neg h2, if_neg (show ¬ (n - Q < Q + s - n) by omega), if_neg (show ¬ (Q + s - n < n - Q) by omega)]
      by_cases h3 : n / s % 2 = 0
      · rw [if_pos h3, if_pos h3, hQ]
      · rw [if_neg h3, if_neg h3, hexp]

theorem rangeRound_roundPos (n : Nat) :
    roundPosToDouble n 1 = if 2 ^ 1024 ≤ roundNat n then none else some ((roundNat n : Nat) : Rat) := by
  by_cases hn : n = 0
  · subst hn
    have : roundNat 0 = 0 := rangeRound_exact 0 (by decide)
    rw [this]; decide +kernel
  unfold roundPosToDouble
  rw [if_neg hn, rangeRound_floorLog2 n hn]
  simp only
  by_cases hb : 52 ≤ Nat.log2 n
  · have he : max ((Nat.log2 n : Int) - 52) (-1074) = ((Nat.log2 n - 52 : Nat) : Int) := by omega
    rw [he]
    have hge : ((Nat.log2 n - 52 : Nat) : Int) ≥ 0 := Int.natCast_nonneg _
    rw [if_pos hge, Int.toNat_natCast, Nat.one_mul]
    have hkey : roundHalfEven n (2 ^ (Nat.log2 n - 52)) * 2 ^ (Nat.log2 n - 52) = roundNat n :=
      rangeRound_roundHalfEven n _ (Nat.pow_pos (by decide))
    rw [hkey, Rat.mkRat_one, Rat.intCast_natCast]
  · have hlt : n < 2 ^ 53 := by
      have : Nat.log2 n < 53 := by omega
      exact (Nat.log2_lt hn).1 this
    rw [rangeRound_exact n hlt]
    have hnov : ¬ (2 ^ 1024 ≤ n) := by
      have : (2:Nat) ^ 53 < 2 ^ 1024 := by decide +kernel
      omega
    rw [if_neg hnov]
    have hk : ∃ k : Nat, 0 < k ∧ max ((Nat.log2 n : Int) - 52) (-1074) = -(k : Int) := ⟨52 - Nat.log2 n, by omega, by omega⟩
    obtain ⟨k, hk0, hk⟩ := hk
    rw [hk]
    have hneg : ¬ (-(k : Int) ≥ 0) := by omega
    rw [if_neg hneg, Int.neg_neg, Int.toNat_natCast]
    have hm : roundHalfEven (n * 2 ^ k) 1 = n * 2 ^ k := by
      unfold roundHalfEven
      simp only [Nat.div_one, Nat.mod_one]
      rw [if_pos (by omega)]
    rw [hm]
    have : mkRat ((n * 2 ^ k : Nat) : Int) (2 ^ k) = mkRat ((n : Nat) : Int) 1 := by
      have h := @Rat.mkRat_mul_right (n : Int) 1 (2 ^ k) (Nat.pos_iff_ne_zero.1 (Nat.pow_pos (by decide)))
      rw [Nat.one_mul] at h
      rw [← h]; congr 1
    rw [this, Rat.mkRat_one, Rat.intCast_natCast]

/-- **the model's `float(int)` is the spec's nearest-even rounding** -/
theorem rangeRound_floatOfInt_spec (i : Int) : floatOfInt i = Spec.intToDouble i := by
  unfold floatOfInt Spec.intToDouble
  rw [rangeRound_roundPos]
  by_cases h : 2 ^ 1024 ≤ roundNat i.natAbs
  · rw [if_pos h, if_pos h]
  · rw [if_neg h, if_neg h]

end Octave.RangeRound
