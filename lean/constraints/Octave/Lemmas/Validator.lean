/-
Helper lemmas for the document-level theorems of C08: membership through `sorted(set(...))`,
which entries `_validate_section` produces and which paths they carry.
-/
import Octave.Model.Validator
namespace Octave

theorem mem_insertSorted (x y : Str) (l : List Str) : y ∈ insertSorted x l ↔ y = x ∨ y ∈ l := by
  induction l with
  | nil => simp [insertSorted]
  | cons z zs ih =>
    simp only [insertSorted]
    split
    · simp only [List.mem_cons, ih]
      constructor
      · rintro (h | h | h) <;> simp [h]
      · rintro (h | h | h) <;> simp [h]
    · simp [List.mem_cons]

theorem mem_sortStrs (y : Str) (l : List Str) : y ∈ sortStrs l ↔ y ∈ l := by
  induction l with
  | nil => simp [sortStrs]
  | cons x xs ih => simp [sortStrs, mem_insertSorted, ih]

theorem mem_dedup (y : Str) (l : List Str) : y ∈ dedup l ↔ y ∈ l := by
  induction l with
  | nil => simp [dedup]
  | cons x xs ih =>
    simp only [dedup]
    split
    · rename_i h
      have hx : x ∈ xs := List.contains_iff_mem.1 h
      rw [ih, List.mem_cons]
      constructor
      · exact Or.inr
      · rintro (h | h)
        · rw [h]; exact hx
        · exact h
    · simp [List.mem_cons, ih]

/-- the unknown fields `_validate_unknown_fields` reports on: exactly the document fields the schema does not define -/
theorem mem_unknown (docFields schemaFields : List Str) (k : Str) :
    k ∈ sortStrs (dedup (docFields.filter (fun f => !schemaFields.contains f))) ↔ (k ∈ docFields ∧ k ∉ schemaFields) := by
  rw [mem_sortStrs, mem_dedup, List.mem_filter]
  simp

theorem fieldPath_inj (sec a b : Str) (h : fieldPath sec a = fieldPath sec b) : a = b := by
  unfold fieldPath at h
  have := List.append_cancel_left h
  exact this

/-- every entry the per-field loop produces for field `f` carries `f`'s path and severity "error" -/
theorem validateField_entries (env : Env) (sec : Str) (children : List (Str × PyVal)) (f : SField) (es : List VErr)
    (h : validateField env sec children f = .errors es) : ∀ e ∈ es, e.path = fieldPath sec f.1 ∧ e.severity = "error" := by
  unfold validateField at h
  split at h
  · cases h; simp
  · rename_i cs _
    by_cases h1 : (cs.any Constraint.isReq && isNone ((lookupLast f.1 children).getD .null)) = true
    · simp only [h1, ↓reduceIte, SecResult.errors.injEq] at h; subst h; simp
    · simp only [h1, Bool.false_eq_true, ↓reduceIte] at h
      by_cases h2 : isNone ((lookupLast f.1 children).getD .null) = true
      · simp only [h2, ↓reduceIte, SecResult.errors.injEq] at h; subst h; simp
      · simp only [h2, Bool.false_eq_true, ↓reduceIte] at h
        cases hc : evalChain env cs ((lookupLast f.1 children).getD .null) with
        | raised x => simp [hc] at h
        | errors codes =>
          simp only [hc, SecResult.errors.injEq] at h
          subst h
          intro e he
          rw [List.mem_map] at he
          obtain ⟨c, _, rfl⟩ := he
          exact ⟨rfl, rfl⟩

theorem validateFields_entries (env : Env) (sec : Str) (children : List (Str × PyVal)) :
    ∀ (fields : List SField) (es : List VErr), validateFields env sec children fields = .errors es →
      ∀ e ∈ es, ∃ f ∈ fields, e.path = fieldPath sec f.1 ∧ e.severity = "error"
  | [], es, h => by simp [validateFields] at h; subst h; simp
  | f :: fs, es, h => by
    simp only [validateFields] at h
    cases hf : validateField env sec children f with
    | raised x => simp [hf] at h
    | errors ef =>
      cases hr : validateFields env sec children fs with
      | raised x => simp [hf, hr] at h
      | errors er =>
        simp only [hf, hr, SecResult.errors.injEq] at h
        subst h
        intro e he
        rcases List.mem_append.1 he with he | he
        · obtain ⟨h1, h2⟩ := validateField_entries env sec children f ef hf e he
          exact ⟨f, List.mem_cons_self, h1, h2⟩
        · obtain ⟨g, hg, h1, h2⟩ := validateFields_entries env sec children fs er hr e he
          exact ⟨g, List.mem_cons_of_mem _ hg, h1, h2⟩

/-- what one field contributes is contained in the result of the whole loop -/
theorem validateFields_contains (env : Env) (sec : Str) (children : List (Str × PyVal)) :
    ∀ (fields : List SField) (es : List VErr), validateFields env sec children fields = .errors es →
      ∀ f ∈ fields, ∀ ef, validateField env sec children f = .errors ef → ∀ e ∈ ef, e ∈ es
  | [], _, _ => by intro f hf; cases hf
  | g :: gs, es, h => by
    simp only [validateFields] at h
    cases hg : validateField env sec children g with
    | raised x => simp [hg] at h
    | errors eg =>
      cases hr : validateFields env sec children gs with
      | raised x => simp [hg, hr] at h
      | errors er =>
        simp only [hg, hr, SecResult.errors.injEq] at h
        subst h
        intro f hf ef hef e he
        rcases List.mem_cons.1 hf with rfl | hf
        · rw [hg] at hef; cases hef; exact List.mem_append_left _ he
        · exact List.mem_append_right _ (validateFields_contains env sec children gs er hr f hf ef hef e he)

/-- decomposition of a successful `_validate_section` -/
theorem validateSection_errors (env : Env) (sec : Str) (children : List (Str × PyVal)) (policy : Str) (fields : List SField)
    (es : List VErr) (h : validateSection env sec children policy fields = .errors es) :
    ∃ ef, validateFields env sec children fields = .errors ef ∧
      es = validateUnknownFields (children.map (·.1)) (fields.map (·.1)) (policyOf policy) sec ++ ef := by
  unfold validateSection at h
  cases hf : validateFields env sec children fields with
  | raised x => simp [hf] at h
  | errors ef => simp only [hf, SecResult.errors.injEq] at h; exact ⟨ef, rfl, h.symm⟩

end Octave
