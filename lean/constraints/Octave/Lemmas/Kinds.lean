/-
Helper lemmas for the per-kind theorems of C08 (order on exact numbers, ENUM counting, TYPE tests).
-/
import Octave.Model.Constraints
import Octave.Spec.Meaning
namespace Octave
open PyVal Constraint

/-! ### order on `FVal` -/

theorem FVal.lt_eq_false_iff_le {a b : FVal} (ha : a ≠ .nan) (hb : b ≠ .nan) : a.lt b = false ↔ Spec.FLe b a := by
  cases a <;> cases b <;> simp_all [FVal.lt, Spec.FLe, Rat.not_lt]

/-- the model's range test is the inclusive test of the spec when no nan is involved -/
theorem range_test_iff {lo hi x : FVal} (hlo : lo ≠ .nan) (hhi : hi ≠ .nan) (hx : x ≠ .nan) :
    (x.lt lo || x.gt hi) = false ↔ (Spec.FLe lo x ∧ Spec.FLe x hi) := by
  rw [Bool.or_eq_false_iff, FVal.lt_eq_false_iff_le hx hlo]
  unfold FVal.gt
  rw [FVal.lt_eq_false_iff_le hhi hx]

/-- the bounds test of `RangeConstraint.evaluate` (with or without the NaN test, as the source has it) is the inclusive
test of the spec; without the NaN test this needs the value not to be NaN -/
theorem range_cond_iff {lo hi x : FVal} (flag : Bool) (hlo : lo ≠ .nan) (hhi : hi ≠ .nan) (hx : flag = false → x ≠ .nan) :
    ((flag && x.isNan) || x.lt lo || x.gt hi) = false ↔ (Spec.FLe lo x ∧ Spec.FLe x hi) := by
  by_cases hn : x = .nan
  · subst hn
    cases flag with
    | false => exact absurd rfl (hx rfl)
    | true => cases lo <;> simp [FVal.isNan, Spec.FLe]
  · have : x.isNan = false := by cases x <;> simp_all [FVal.isNan]
    rw [this, Bool.and_false, Bool.false_or]
    exact range_test_iff hlo hhi hn

/-! ### ENUM -/

theorem filter_length_eq_countP (allowed : List Str) (s : Str) :
    (allowed.filter (fun a => s.isPrefixOf a)).length = Spec.prefixMatches allowed s := by
  unfold Spec.prefixMatches; rw [List.countP_eq_length_filter]

/-- without duplicates, "exactly one allowed value starts with `s`" is unique existence -/
theorem prefixMatches_eq_one_iff {allowed : List Str} (hnd : allowed.Nodup) (s : Str) :
    Spec.prefixMatches allowed s = 1 ↔ ∃ a ∈ allowed, s <+: a ∧ ∀ b ∈ allowed, s <+: b → b = a := by
  unfold Spec.prefixMatches
  rw [List.countP_eq_length_filter, List.length_eq_one_iff]
  have hndf : (allowed.filter (fun a => s.isPrefixOf a)).Nodup := hnd.filter _
  constructor
  · rintro ⟨a, ha⟩
    have hmem : ∀ b, b ∈ allowed.filter (fun a => s.isPrefixOf a) ↔ b = a := by
      intro b; rw [ha]; simp
    have haa := (hmem a).2 rfl
    rw [List.mem_filter] at haa
    refine ⟨a, haa.1, List.isPrefixOf_iff_prefix.1 haa.2, ?_⟩
    intro b hb hpb
    exact (hmem b).1 (List.mem_filter.2 ⟨hb, List.isPrefixOf_iff_prefix.2 hpb⟩)
  · rintro ⟨a, ha, hpa, huniq⟩
    refine ⟨a, ?_⟩
    have hsub : ∀ b ∈ allowed.filter (fun a => s.isPrefixOf a), b = a := by
      intro b hb
      rw [List.mem_filter] at hb
      exact huniq b hb.1 (List.isPrefixOf_iff_prefix.1 hb.2)
    have hain : a ∈ allowed.filter (fun a => s.isPrefixOf a) :=
      List.mem_filter.2 ⟨ha, List.isPrefixOf_iff_prefix.2 hpa⟩
    -- a nodup list all of whose members equal `a`, and that contains `a`, is `[a]`
    cases hl : allowed.filter (fun a => s.isPrefixOf a) with
    | nil => rw [hl] at hain; cases hain
    | cons x xs =>
      rw [hl] at hsub hndf
      have hx : x = a := hsub x (List.mem_cons_self)
      cases xs with
      | nil => rw [hx]
      | cons y ys =>
        have hy : y = a := hsub y (List.mem_cons_of_mem _ (List.mem_cons_self))
        have := (List.nodup_cons.1 hndf).1
        rw [hx, hy] at this
        exact absurd (List.mem_cons_self) this

/-! ### chains and ISO8601 helpers -/

theorem firstFailure_ok_iff (env : Env) (cs : List Constraint) (v : PyVal) :
    firstFailure env cs v = .ok ↔ ∀ c ∈ cs, c.eval env v = .ok := by
  induction cs with
  | nil => simp [firstFailure]
  | cons c cs ih =>
    simp only [firstFailure, List.mem_cons, forall_eq_or_imp]
    cases h : c.eval env v <;> simp [ih]

theorem evalIso_str (env : Env) (x : Str) (h : Iso.fromIso (replaceZ x) = true) : eval env .iso8601 (.str x) = .ok := by
  show (if Iso.fromIso (replaceZ x) then Verdict.ok else Verdict.fail "E015") = Verdict.ok
  rw [h]; rfl

end Octave
