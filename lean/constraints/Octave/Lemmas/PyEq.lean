/-
Python `==` on the modelled value domain is a partial equivalence relation (symmetric and transitive;
not reflexive: `nan != nan`).  This is what makes the adjacent-pair CONST check of `detect_conflicts`
equal to the all-pairs check, and conflict detection invariant under permutation.
-/
import Octave.Model.Value
namespace Octave
open PyVal

namespace FVal
theorem eq_symm (a b : FVal) : a.eq b = b.eq a := by
  cases a <;> cases b <;> simp [FVal.eq, Bool.beq_comm]

theorem eq_trans {a b c : FVal} (h1 : a.eq b = true) (h2 : b.eq c = true) : a.eq c = true := by
  cases a <;> cases b <;> cases c <;> simp_all [FVal.eq]
end FVal

namespace PyVal

mutual
theorem pyEq_symm : ∀ (a b : PyVal), pyEq a b = pyEq b a
  | .null, b => by cases b <;> simp [pyEq, num?]
  | .bool x, b => by cases b <;> simp [pyEq, num?, FVal.eq_symm]
  | .int x, b => by cases b <;> simp [pyEq, num?, FVal.eq_symm]
  | .float r x, b => by cases b <;> simp [pyEq, num?, FVal.eq_symm]
  | .str s, b => by cases b <;> simp [pyEq, num?, Bool.beq_comm]
  | .zone c t f, b => by cases b <;> simp [pyEq, num?, Bool.beq_comm (a := c), Bool.beq_comm (a := t), Bool.beq_comm (a := f)]
  | .list xs, b => by
    cases b with
    | list ys => simp only [pyEq]; exact pyEqList_symm xs ys
    | _ => simp [pyEq, num?]
theorem pyEqList_symm : ∀ (as bs : List PyVal), pyEqList as bs = pyEqList bs as
  | [], [] => rfl
  | [], _ :: _ => by simp [pyEqList]
  | _ :: _, [] => by simp [pyEqList]
  | a :: as, b :: bs => by simp only [pyEqList]; rw [pyEq_symm a b, pyEqList_symm as bs]
end

/-- the numeric kinds, for case analysis -/
theorem pyEq_num {a b : PyVal} {x y : FVal} (ha : a.num? = some x) (hb : b.num? = some y) : pyEq a b = x.eq y := by
  cases a <;> cases b <;> simp_all [pyEq, num?]

mutual
theorem pyEq_trans : ∀ (a b c : PyVal), pyEq a b = true → pyEq b c = true → pyEq a c = true
  | .null, b, c => by
    intro h1 h2; cases b <;> simp [pyEq, num?] at h1; cases c <;> simp_all [pyEq, num?]
  | .str s, b, c => by
    intro h1 h2; cases b <;> simp [pyEq, num?] at h1; cases c <;> simp_all [pyEq, num?]
  | .zone k t f, b, c => by
    intro h1 h2; cases b <;> simp [pyEq, num?] at h1; cases c <;> simp_all [pyEq, num?]
  | .list xs, b, c => by
    intro h1 h2
    cases b with
    | list ys =>
      cases c with
      | list zs => simp only [pyEq] at h1 h2 ⊢; exact pyEqList_trans xs ys zs h1 h2
      | _ => simp [pyEq, num?] at h2
    | _ => simp [pyEq, num?] at h1
  | .bool x, b, c => by
    intro h1 h2
    cases b <;> simp [pyEq, num?] at h1 <;> cases c <;> simp [pyEq, num?] at h2 <;>
      simp only [pyEq, num?] <;> exact FVal.eq_trans h1 h2
  | .int x, b, c => by
    intro h1 h2
    cases b <;> simp [pyEq, num?] at h1 <;> cases c <;> simp [pyEq, num?] at h2 <;>
      simp only [pyEq, num?] <;> exact FVal.eq_trans h1 h2
  | .float r x, b, c => by
    intro h1 h2
    cases b <;> simp [pyEq, num?] at h1 <;> cases c <;> simp [pyEq, num?] at h2 <;>
      simp only [pyEq, num?] <;> exact FVal.eq_trans h1 h2
theorem pyEqList_trans : ∀ (as bs cs : List PyVal), pyEqList as bs = true → pyEqList bs cs = true → pyEqList as cs = true
  | [], bs, cs => by
    intro h1 h2; cases bs <;> simp [pyEqList] at h1; cases cs <;> simp_all [pyEqList]
  | a :: as, bs, cs => by
    intro h1 h2
    cases bs with
    | nil => simp [pyEqList] at h1
    | cons b bs =>
      cases cs with
      | nil => simp [pyEqList] at h2
      | cons c cs =>
        simp only [pyEqList, Bool.and_eq_true] at h1 h2 ⊢
        exact ⟨pyEq_trans a b c h1.1 h2.1, pyEqList_trans as bs cs h1.2 h2.2⟩
end

end PyVal
end Octave
