/-
JSON-lines driver for the constraints engine: one request per line on stdin, one reply per line.
  {"op":"chain_eval","chain":[<constraint>...],"value":<pyval>}  ->  {"codes":[...]} | {"unsupported":"..."}
constraint: {"k":"REQ"} {"k":"OPT"} {"k":"CONST","v":<pyval>} {"k":"ENUM","a":[str...]}
pyval: null | true/false | {"i":"<decimal>"} | {"s":"..."} | {"l":[pyval...]}
-/
import Lean.Data.Json
import Octave.Model.Constraints
open Lean Octave

partial def pyValOfJson : Json → Except String PyVal
  | .null => pure .null
  | .bool b => pure (.bool b)
  | j => do
    if let .ok s := j.getObjValAs? String "s" then return .str s.toList
    if let .ok i := j.getObjValAs? String "i" then
      match i.toInt? with
      | some n => return .int n
      | none => throw "bad int"
    if let .ok (xs : Array Json) := j.getObjValAs? (Array Json) "l" then
      let ys ← xs.toList.mapM pyValOfJson
      return .list ys
    throw "unsupported value kind"

def constraintOfJson (j : Json) : Except String Constraint := do
  let k ← j.getObjValAs? String "k"
  match k with
  | "REQ" => pure .req
  | "OPT" => pure .opt
  | "CONST" => do let v ← pyValOfJson (← j.getObjVal? "v"); pure (.const v)
  | "ENUM" => do let a ← j.getObjValAs? (Array String) "a"; pure (.enum (a.toList.map String.toList))
  | other => throw s!"unsupported constraint kind {other}"

def handle (j : Json) : Json :=
  match j.getObjValAs? String "op" with
  | .ok "chain_eval" =>
    let r : Except String Json := do
      let cs ← (← j.getObjValAs? (Array Json) "chain").toList.mapM constraintOfJson
      let v ← pyValOfJson (← j.getObjVal? "value")
      pure (Json.mkObj [("codes", toJson (evalChain cs v))])
    match r with
    | .ok out => out
    | .error e => Json.mkObj [("unsupported", e)]
  | _ => Json.mkObj [("unsupported", "op")]

partial def loop (h : IO.FS.Stream) (out : IO.FS.Stream) : IO Unit := do
  let line ← h.getLine
  if line.isEmpty then return ()
  let reply := match Json.parse line with
    | .ok j => handle j
    | .error e => Json.mkObj [("unsupported", s!"json: {e}")]
  out.putStrLn reply.compress
  loop h out

def main : IO Unit := do
  let out ← IO.getStdout
  loop (← IO.getStdin) out
  out.flush
