/-
JSON-lines driver for the constraints engine: one request per line on stdin, one reply per line.

  pyval      : null | true | false | {"i":"<dec>"} | {"f":{"r":"<repr>","n":"<num>","d":"<den>"}}
               | {"f":{"r":"<repr>","t":"inf|-inf|nan"}} | {"s":"…"} | {"l":[pyval…]}
               | {"z":{"c":"…","t":"…"|null,"f":"…"}}
  num        : {"n":"<num>","d":"<den>"} | {"t":"inf|-inf|nan"}
  constraint : {"k":"REQ|OPT|DIR|APPEND_ONLY|DATE|ISO8601|LITERAL"} | {"k":"CONST","v":pyval}
               | {"k":"ENUM","a":[str…]} | {"k":"TYPE","t":str} | {"k":"REGEX","p":str}
               | {"k":"RANGE","lo":num,"hi":num} | {"k":"MAX_LENGTH","n":"<int>"} | {"k":"MIN_LENGTH","n":"<int>"}
               | {"k":"LANG","t":str}
  env        : {"re":[[pattern,string,bool]…], "reok":[[pattern,bool]…], "fr":[[numeral,repr]…]}

  {"op":"chain_eval","chain":[constraint…],"value":pyval,"env":env}
      -> {"codes":[…],"spec":bool} | {"raised":"OverflowError","spec":bool} | {"unsupported":"…"}
  {"op":"parse_eval","text":str,"value":pyval,"env":env}
      -> {"parse":"ValueError"} | {"chain":[constraint…],"codes":[…]|"raised":…,"spec":bool} | {"unsupported":…}
  {"op":"grid","constraints":[constraint…],"values":[pyval…],"chains":[[index…]…],"env":env}
      -> {"rows":["cell;cell;…" per chain]}   cell = <codes joined by ','>/<spec 0|1> | !<exception>/<spec> | ?
  {"op":"parse_grid","texts":[str…],"values":[pyval…],"env":env}
      -> {"rows":[{"p":"ValueError"} | {"u":why} | {"c":[constraint…],"r":"cell;cell;…"} per text]}
  {"op":"float_of_str","s":str} -> {"v":num} | {"err":"ValueError"}
  {"op":"int_of_str","s":str}   -> {"v":"<int>"} | {"err":"ValueError"}
  {"op":"float_of_int","i":"<int>"} -> {"v":num} | {"err":"OverflowError"}
  {"op":"fromiso","s":str}      -> {"ok":bool} | {"unsupported":…}
  {"op":"date_re","s":str}      -> {"ok":bool}
  {"op":"validate_section","key":str,"children":[[str,pyval]…],"policy":str,
        "fields":[[str,[constraint…]|null]…],"env":env}
      -> {"errors":[[code,path,severity]…]} | {"raised":…} | {"unsupported":…}

`unsupported` is answered whenever the case leaves the modelled domain (never a guessed verdict).
-/
import Lean.Data.Json
import Std.Data.HashMap
import Octave.Model.Constraints
import Octave.Model.Validator
import Octave.Spec.Meaning
open Lean Octave

def sentinel : Str := ['\x00', '?', 'r', 'e', 'p', 'r']

def ratOfJson (j : Json) : Except String FVal := do
  if let .ok t := j.getObjValAs? String "t" then
    match t with
    | "inf" => return .pinf
    | "-inf" => return .ninf
    | "nan" => return .nan
    | _ => throw "bad float tag"
  let n ← j.getObjValAs? String "n"
  let d ← j.getObjValAs? String "d"
  match n.toInt?, d.toNat? with
  | some n, some d => if d == 0 then throw "zero denominator" else return .fin (mkRat n d)
  | _, _ => throw "bad rational"

def jsonOfFVal : FVal → Json
  | .fin q => Json.mkObj [("n", toString q.num), ("d", toString q.den)]
  | .pinf => Json.mkObj [("t", "inf")]
  | .ninf => Json.mkObj [("t", "-inf")]
  | .nan => Json.mkObj [("t", "nan")]

/-- decode a value; `fuel` bounds the nesting depth of lists (structural recursion, no `partial`) -/
def pyValOfJsonFuel : Nat → Json → Except String PyVal
  | 0, _ => throw "value nested too deeply"
  | fuel + 1, j =>
    match j with
    | .null => pure .null
    | .bool b => pure (.bool b)
    | j => do
      if let .ok s := j.getObjValAs? String "s" then return .str s.toList
      if let .ok i := j.getObjValAs? String "i" then
        match i.toInt? with
        | some n => return .int n
        | none => throw "bad int"
      if let .ok f := j.getObjVal? "f" then
        let r ← f.getObjValAs? String "r"
        let v ← ratOfJson f
        return .float r.toList v
      if let .ok (xs : Array Json) := j.getObjValAs? (Array Json) "l" then
        let ys ← xs.toList.mapM (pyValOfJsonFuel fuel)
        return .list ys
      if let .ok z := j.getObjVal? "z" then
        let c ← z.getObjValAs? String "c"
        let f ← z.getObjValAs? String "f"
        let t : Option Str := match z.getObjValAs? String "t" with
          | .ok t => some t.toList
          | .error _ => none
        return .zone c.toList t f.toList
      throw "unsupported value kind"

def pyValOfJson (j : Json) : Except String PyVal := pyValOfJsonFuel 64 j

mutual
def jsonOfPyVal : PyVal → Json
  | .null => .null
  | .bool b => .bool b
  | .int i => Json.mkObj [("i", toString i)]
  | .float r v => Json.mkObj [("f", (jsonOfFVal v).setObjVal! "r" (String.ofList r))]
  | .str s => Json.mkObj [("s", String.ofList s)]
  | .list xs => Json.mkObj [("l", Json.arr (jsonOfPyVals xs).toArray)]
  | .zone c t f => Json.mkObj [("z", Json.mkObj [("c", String.ofList c), ("t", match t with | some t => Json.str (String.ofList t) | none => .null), ("f", String.ofList f)])]
def jsonOfPyVals : List PyVal → List Json
  | [] => []
  | x :: xs => jsonOfPyVal x :: jsonOfPyVals xs
end

def constraintOfJson (j : Json) : Except String Constraint := do
  let k ← j.getObjValAs? String "k"
  match k with
  | "REQ" => pure .req
  | "OPT" => pure .opt
  | "DIR" => pure .dir
  | "APPEND_ONLY" => pure .appendOnly
  | "DATE" => pure .date
  | "ISO8601" => pure .iso8601
  | "LITERAL" => pure .literal
  | "CONST" => do let v ← pyValOfJson (← j.getObjVal? "v"); pure (.const v)
  | "ENUM" => do let a ← j.getObjValAs? (Array String) "a"; pure (.enum (a.toList.map String.toList))
  | "TYPE" => do let t ← j.getObjValAs? String "t"; pure (.type t.toList)
  | "REGEX" => do let p ← j.getObjValAs? String "p"; pure (.regex p.toList)
  | "LANG" => do let t ← j.getObjValAs? String "t"; pure (.lang t.toList)
  | "RANGE" => do
    let lo ← ratOfJson (← j.getObjVal? "lo")
    let hi ← ratOfJson (← j.getObjVal? "hi")
    pure (.range lo hi)
  | "MAX_LENGTH" => do
    let n ← j.getObjValAs? String "n"
    match n.toInt? with | some n => pure (.maxLength n) | none => throw "bad int"
  | "MIN_LENGTH" => do
    let n ← j.getObjValAs? String "n"
    match n.toInt? with | some n => pure (.minLength n) | none => throw "bad int"
  | other => throw s!"unsupported constraint kind {other}"

def jsonOfConstraint : Constraint → Json
  | .req => Json.mkObj [("k", "REQ")]
  | .opt => Json.mkObj [("k", "OPT")]
  | .dir => Json.mkObj [("k", "DIR")]
  | .appendOnly => Json.mkObj [("k", "APPEND_ONLY")]
  | .date => Json.mkObj [("k", "DATE")]
  | .iso8601 => Json.mkObj [("k", "ISO8601")]
  | .literal => Json.mkObj [("k", "LITERAL")]
  | .const v => Json.mkObj [("k", "CONST"), ("v", jsonOfPyVal v)]
  | .enum a => Json.mkObj [("k", "ENUM"), ("a", toJson (a.map String.ofList))]
  | .type t => Json.mkObj [("k", "TYPE"), ("t", String.ofList t)]
  | .regex p => Json.mkObj [("k", "REGEX"), ("p", String.ofList p)]
  | .lang t => Json.mkObj [("k", "LANG"), ("t", String.ofList t)]
  | .range lo hi => Json.mkObj [("k", "RANGE"), ("lo", jsonOfFVal lo), ("hi", jsonOfFVal hi)]
  | .maxLength n => Json.mkObj [("k", "MAX_LENGTH"), ("n", toString n)]
  | .minLength n => Json.mkObj [("k", "MIN_LENGTH"), ("n", toString n)]

/-- externals supplied with the case -/
structure Tables where
  re : Std.HashMap (String × String) Bool
  reok : Std.HashMap String Bool
  fr : Std.HashMap String String

def tablesOfJson (j : Json) : Except String Tables := do
  let env := (j.getObjVal? "env").toOption.getD (Json.mkObj [])
  let arr (k : String) : Array Json := ((env.getObjValAs? (Array Json) k).toOption).getD #[]
  let re ← (arr "re").toList.mapM fun e => do
    let p ← (← e.getArrVal? 0).getStr?
    let s ← (← e.getArrVal? 1).getStr?
    let b ← (← e.getArrVal? 2).getBool?
    pure ((p, s), b)
  let reok ← (arr "reok").toList.mapM fun e => do
    let p ← (← e.getArrVal? 0).getStr?
    let b ← (← e.getArrVal? 1).getBool?
    pure (p, b)
  let fr ← (arr "fr").toList.mapM fun e => do
    let s ← (← e.getArrVal? 0).getStr?
    let r ← (← e.getArrVal? 1).getStr?
    pure (s, r)
  pure ⟨Std.HashMap.ofList re, Std.HashMap.ofList reok, Std.HashMap.ofList fr⟩

def Tables.env (t : Tables) (assumeReOk : Bool := false) : Env where
  reMatch p s := (t.re.get? (String.ofList p, String.ofList s)).getD false
  reOk p := if assumeReOk then true else (t.reok.get? (String.ofList p)).getD false
  floatRepr s := match t.fr.get? (String.ofList s) with
    | some r => r.toList
    | none => sentinel

def hasSentinel (s : Str) : Bool := s.take 2 == ['\x00', '?']

mutual
def valueProblem : PyVal → (inList : Bool) → Option String
  | .float r v, inList =>
    if hasSentinel r then some "float repr not supplied"
    else if inList && v.isNan then some "nan inside a list (identity shortcut of ==)" else none
  | .str s, inList => if inList && s.any (fun c => c.toNat ≥ 127) then some "repr of non-ASCII str" else none
  | .list xs, _ => valuesProblem xs
  | .zone c t f, _ =>
    if (c ++ (t.getD []) ++ f).any (fun c => c.toNat ≥ 127) then some "repr of non-ASCII str (zone)" else none
  | _, _ => none
def valuesProblem : List PyVal → Option String
  | [] => none
  | x :: xs => (valueProblem x true).orElse fun _ => valuesProblem xs
end

/-- does the case leave the modelled domain? -/
def problem (t : Tables) (cs : List Constraint) (v : PyVal) : Option String :=
  (valueProblem v false).orElse fun _ =>
  cs.findSome? fun c =>
    match c with
    | .const w => valueProblem w false
    | .regex p =>
      if !(t.re.contains (String.ofList p, String.ofList v.pyStr)) then some "regex verdict not supplied" else none
    | .lang tag =>
      let zt := match v with | .zone _ (some zt) _ => zt | _ => []
      if (tag ++ zt).any (fun c => c.toNat ≥ 128) then some "non-ASCII lower()" else none
    | .date =>
      if reDateMatch v.pyStr && (Iso.fromIso? v.pyStr).isNone then some "fromisoformat outside the model" else none
    | .iso8601 =>
      let s := replaceZ v.pyStr
      if s.contains '\x00' && (Iso.utf8 s).length ≥ 7 then some "fromisoformat: embedded NUL"
      else if (Iso.fromIso? s).isNone then some "fromisoformat outside the model" else none
    | .enum a => if a.any hasSentinel then some "float repr not supplied" else none
    | _ => none

/-- structure-level problems of a parsed chain (independent of the value) -/
def chainProblem (cs : List Constraint) : Option String :=
  cs.findSome? fun c => match c with
    | .lang tag => if tag.any (fun c => c.toNat ≥ 128) then some "non-ASCII lower()" else none
    | _ => none

def resultFields (env : Env) (cs : List Constraint) (v : PyVal) : List (String × Json) :=
  let spec : Json := toJson (decide (Spec.chainAccepts env cs v))
  match evalChain env cs v with
  | .errors codes => [("codes", toJson codes), ("spec", spec)]
  | .raised x => [("raised", x), ("spec", spec)]

def unsupported (why : String) : Json := Json.mkObj [("unsupported", why)]

def handle (j : Json) : Json :=
  let r : Except String Json := do
    let op ← j.getObjValAs? String "op"
    match op with
    | "chain_eval" =>
      let cs ← (← j.getObjValAs? (Array Json) "chain").toList.mapM constraintOfJson
      let v ← pyValOfJson (← j.getObjVal? "value")
      let t ← tablesOfJson j
      match problem t cs v with
      | some why => pure (unsupported why)
      | none => pure (Json.mkObj (resultFields t.env cs v))
    | "grid" =>
      -- pools once, then chains as index lists; one compact row per chain: cells joined by ';',
      -- a cell is  <codes joined by ','>|!<exception>|?   followed by  /1 or /0  (Spec.chainAccepts)
      let pool ← (← j.getObjValAs? (Array Json) "constraints").mapM constraintOfJson
      let vals ← (← j.getObjValAs? (Array Json) "values").mapM pyValOfJson
      let t ← tablesOfJson j
      let env := t.env
      let chains ← j.getObjValAs? (Array (Array Nat)) "chains"
      let rows := chains.map fun idx =>
        let cs := idx.toList.filterMap fun i => pool[i]?
        let cells := vals.toList.map fun v =>
          match problem t cs v with
          | some _ => "?"
          | none =>
            let spec := if decide (Spec.chainAccepts env cs v) then "/1" else "/0"
            match evalChain env cs v with
            | .errors codes => ",".intercalate codes ++ spec
            | .raised x => "!" ++ x ++ spec
        Json.str (";".intercalate cells)
      pure (Json.mkObj [("rows", Json.arr rows)])
    | "parse_grid" =>
      -- texts x values; one row per text: {"p":"ValueError"} | {"u":why} | {"c":[constraint…],"r":"<cells>"}
      let texts ← j.getObjValAs? (Array String) "texts"
      let vals ← (← j.getObjValAs? (Array Json) "values").mapM pyValOfJson
      let t ← tablesOfJson j
      let env := t.env
      let rows := texts.map fun text =>
        match parseChain (t.env true) text.toList with
        | none => Json.mkObj [("p", "ValueError")]
        | some cs0 =>
          let missing := cs0.any fun c => match c with
            | .regex p => !(t.reok.contains (String.ofList p))
            | _ => false
          if missing then Json.mkObj [("u", "regex validity not supplied")]
          else match parseChain env text.toList with
            | none => Json.mkObj [("p", "ValueError")]
            | some cs =>
              if let some why := chainProblem cs then Json.mkObj [("u", why)] else
              let cells := vals.toList.map fun v =>
                match problem t cs v with
                | some _ => "?"
                | none =>
                  let spec := if decide (Spec.chainAccepts env cs v) then "/1" else "/0"
                  match evalChain env cs v with
                  | .errors codes => ",".intercalate codes ++ spec
                  | .raised x => "!" ++ x ++ spec
              Json.mkObj [("c", Json.arr (cs.map jsonOfConstraint).toArray), ("r", ";".intercalate cells)]
      pure (Json.mkObj [("rows", Json.arr rows)])
    | "parse_eval" =>
      let text ← j.getObjValAs? String "text"
      let v ← pyValOfJson (← j.getObjVal? "value")
      let t ← tablesOfJson j
      -- first pass: which regex patterns does the text construct?
      match parseChain (t.env true) text.toList with
      | none => pure (Json.mkObj [("parse", "ValueError")])
      | some cs0 =>
        let missing := cs0.any fun c => match c with
          | .regex p => !(t.reok.contains (String.ofList p))
          | _ => false
        if missing then pure (unsupported "regex validity not supplied")
        else match parseChain t.env text.toList with
          | none => pure (Json.mkObj [("parse", "ValueError")])
          | some cs =>
            match problem t cs v with
            | some why => pure (unsupported why)
            | none => pure (Json.mkObj (("chain", Json.arr (cs.map jsonOfConstraint).toArray) :: resultFields t.env cs v))
    | "float_of_str" =>
      let s ← j.getObjValAs? String "s"
      match pyFloatOfStr s.toList with
      | some x => pure (Json.mkObj [("v", jsonOfFVal x)])
      | none => pure (Json.mkObj [("err", "ValueError")])
    | "int_of_str" =>
      let s ← j.getObjValAs? String "s"
      match pyIntOfStr s.toList with
      | some x => pure (Json.mkObj [("v", toString x)])
      | none => pure (Json.mkObj [("err", "ValueError")])
    | "float_of_int" =>
      let s ← j.getObjValAs? String "i"
      match s.toInt? with
      | none => throw "bad int"
      | some i => match floatOfInt i with
        | some x => pure (Json.mkObj [("v", jsonOfFVal x)])
        | none => pure (Json.mkObj [("err", "OverflowError")])
    | "fromiso" =>
      let s ← j.getObjValAs? String "s"
      if s.toList.contains '\x00' then pure (unsupported "embedded NUL")
      else match Iso.fromIso? s.toList with
        | some b => pure (Json.mkObj [("ok", b)])
        | none => pure (unsupported "outside the model")
    | "date_re" =>
      let s ← j.getObjValAs? String "s"
      pure (Json.mkObj [("ok", reDateMatch s.toList)])
    | "validate_section" =>
      let key ← j.getObjValAs? String "key"
      let policy ← j.getObjValAs? String "policy"
      let t ← tablesOfJson j
      let children ← (← j.getObjValAs? (Array Json) "children").toList.mapM fun e => do
        let k ← (← e.getArrVal? 0).getStr?
        let v ← pyValOfJson (← e.getArrVal? 1)
        pure (k.toList, v)
      let fields ← (← j.getObjValAs? (Array Json) "fields").toList.mapM fun e => do
        let k ← (← e.getArrVal? 0).getStr?
        let cj ← e.getArrVal? 1
        let cs : Option (List Constraint) ← match cj with
          | .null => pure none
          | _ => do let a ← cj.getArr?; pure (some (← a.toList.mapM constraintOfJson))
        pure ((k.toList, cs) : SField)
      -- domain check for every (field chain, value it will be evaluated on)
      let prob := fields.findSome? fun (f : SField) =>
        match f.2, lookupLast f.1 children with
        | some cs, some v => problem t cs v
        | _, _ => none
      match prob with
      | some why => pure (unsupported why)
      | none =>
        match validateSection t.env key.toList children policy.toList fields with
        | .errors es => pure (Json.mkObj [("errors", Json.arr (es.map fun e => Json.arr #[e.code, String.ofList e.path, e.severity]).toArray)])
        | .raised x => pure (Json.mkObj [("raised", x)])
    | _ => pure (unsupported "op")
  match r with
  | .ok out => out
  | .error e => unsupported e

partial def loop (h : IO.FS.Stream) (out : IO.FS.Stream) : IO Unit := do
  let line ← h.getLine
  if line.isEmpty then return ()
  let reply := match Json.parse line with
    | .ok j => handle j
    | .error e => unsupported s!"json: {e}"
  out.putStrLn reply.compress
  loop h out

def main : IO Unit := do
  let out ← IO.getStdout
  loop (← IO.getStdin) out
  out.flush
