/-
Base types shared by the generated data (`Octave/Gen/Gbnf.lean`) and the model
(`Octave/Model/Gbnf.lean`).  Core Lean only.
-/
namespace Octave

abbrev Str := List Char

/-- One part of a Python f-string / concatenation template: literal text or the n-th argument
(argument positions are fixed per template by the generator, by *source variable name*). -/
inductive TPart where
  | lit (s : Str)
  | var (i : Nat)
  deriving DecidableEq, Repr

/-- `render tpl args`: the string the Python expression evaluates to. -/
def render : List TPart → List Str → Str
  | [], _ => []
  | .lit s :: r, a => s ++ render r a
  | .var i :: r, a => a.getD i [] ++ render r a

/-- The constraint classes of `constraints.py` as far as the GBNF compiler distinguishes them
(`LiteralConstraint`, `LangConstraint` and anything else fall into `other`). -/
inductive Kind where
  | req | opt | enum | const | type | regex | dir | appendOnly | range | maxLen | minLen | date | iso8601 | other
  deriving DecidableEq, Repr

/-- The `_compile_*` methods of `GBNFCompiler`. -/
inductive Method where
  | required | optional | enum | const | type | regex | dir | list | range | maxLength | minLength | date | iso8601
  deriving DecidableEq, Repr

def isLower (c : Char) : Bool := 97 ≤ c.toNat && c.toNat ≤ 122
def isUpper (c : Char) : Bool := 65 ≤ c.toNat && c.toNat ≤ 90
def isDigit (c : Char) : Bool := 48 ≤ c.toNat && c.toNat ≤ 57

/-- `s` minus the prefix `p`, if `s` starts with `p`. -/
def dropPrefix? : Str → Str → Option Str
  | [], s => some s
  | _ :: _, [] => none
  | a :: p, b :: s => if a == b then dropPrefix? p s else none

end Octave
