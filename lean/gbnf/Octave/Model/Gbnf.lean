/-
Executable model of `octave_mcp/core/gbnf_compiler.py` (a transcription of the code that exists).
Every string the compiler pastes into a grammar comes from `Octave.Gen` (regenerated from the
source AST on every run); this file only transcribes the control flow.

External (Python runtime) values are *parameters*, supplied per case by the harness:
  * `str.lower()` of a field name  (`Field.lowered`),  `str.upper()` of the schema name,
  * `str(const_value)` / `str(v)` of CONST / ENUM members (carried inside the constraint),
  * `str(token.value)` of NUMBER tokens on the CONTRACT route,
  * `ConstraintChain.parse` on the CONTRACT route (`Env.chains`).
-/
import Octave.Gen.Gbnf
namespace Octave.Gbnf
open Octave

/-! ## Python string helpers -/

/-- `old in s` -/
def isInfixOf (old : Str) : Str → Bool
  | [] => old.isEmpty
  | c :: r => old.isPrefixOf (c :: r) || isInfixOf old r

/-- `s.replace(old, new)` for non-empty `old`: left to right, non-overlapping.  The counter is the
number of characters of a just-replaced occurrence still to be skipped. -/
def replaceGo (old new : Str) : Nat → Str → Str
  | _, [] => []
  | k + 1, _ :: r => replaceGo old new k r
  | 0, c :: r =>
    if old.isPrefixOf (c :: r) then new ++ replaceGo old new (old.length - 1) r
    else c :: replaceGo old new 0 r

def replaceAll (old new s : Str) : Str := if old.isEmpty then s else replaceGo old new 0 s

/-- `s.lstrip(chars)` / `s.rstrip(chars)` / `s.strip(chars)` -/
def lstripChars (set s : Str) : Str := s.dropWhile (set.contains ·)
def rstripChars (set s : Str) : Str := (s.reverse.dropWhile (set.contains ·)).reverse
def stripChars (set s : Str) : Str := rstripChars set (lstripChars set s)

def isPySpace (c : Char) : Bool := Gen.pySpace.contains c.toNat
/-- `s.strip()` -/
def pyStrip (s : Str) : Str := (s.dropWhile isPySpace).reverse.dropWhile isPySpace |>.reverse

def isAsciiAlnum (c : Char) : Bool := isLower c || isUpper c || isDigit c
def isAscii (c : Char) : Bool := c.toNat < 128

/-- `format(n, "x")` -/
def hexLower (n : Nat) : Str := Nat.toDigits 16 n

/-! ## `_sanitize_rule_name` -/

/-- the per-character loop -/
def sanitizeChar (c : Char) : Str :=
  if isAscii c && (isAsciiAlnum c || [c] == Gen.sanKeepExtra) then [c]
  else if !isAscii c then Gen.sanUniPrefix ++ hexLower c.toNat ++ Gen.sanUniSuffix
  else []

/-- `while FROM in result: result = result.replace(FROM, TO)`; `fuel` = number of iterations
allowed (`none` = the loop did not terminate within the fuel). -/
def collapseLoop : Nat → Str → Option Str
  | 0, s => if isInfixOf Gen.sanCollapseFrom s then none else some s
  | f + 1, s =>
    if isInfixOf Gen.sanCollapseFrom s then collapseLoop f (replaceAll Gen.sanCollapseFrom Gen.sanCollapseTo s)
    else some s

/-- the leading `result.replace(...)` calls -/
def sanReplace (lowered : Str) : Str := Gen.sanReplacements.foldl (fun acc p => replaceAll p.1 p.2 acc) lowered
/-- the per-character loop and `"".join` -/
def sanLoop (s : Str) : Str := s.flatMap sanitizeChar
/-- `if result and result[0].isdigit(): result = PREFIX + result` -/
def sanDigit (s : Str) : Str :=
  match s with
  | c :: _ => if isDigit c then Gen.sanDigitPrefix ++ s else s
  | [] => s
/-- the collapse loop (at most `len(result)` iterations are ever needed) -/
def sanCollapse (s : Str) : Str := (collapseLoop s.length s).getD s
def sanStrip (s : Str) : Str := stripChars Gen.sanStripChars s

/-- `_sanitize_rule_name(field_name)` given `lowered = field_name.lower()`. -/
def sanitize (lowered : Str) : Str :=
  let r := sanStrip (sanCollapse (sanDigit (sanLoop (sanReplace lowered))))
  if r.isEmpty then Gen.sanFallback else r

/-! ## constraints and their fragments -/

/-- `const_value` as `_compile_const` distinguishes it -/
inductive ConstVal where
  | bool (b : Bool)                -- `isinstance(const_value, bool)`
  | null                           -- `const_value is None`
  | other (s : Str)                -- anything else, carried as `str(const_value)`
  deriving DecidableEq, Repr

inductive Constraint where
  | req | opt
  | enum (vals : List Str)         -- `allowed_values` (already `str`-ed by `__post_init__`)
  | const (v : ConstVal)
  | type (t : Str)
  | regex (p : Str)
  | dir | appendOnly | range | maxLen
  | minLen (n : Int)
  | date | iso8601
  | other                          -- LiteralConstraint, LangConstraint, anything else
  deriving DecidableEq, Repr

def Constraint.kind : Constraint → Kind
  | .req => .req | .opt => .opt | .enum _ => .enum | .const _ => .const | .type _ => .type
  | .regex _ => .regex | .dir => .dir | .appendOnly => .appendOnly | .range => .range
  | .maxLen => .maxLen | .minLen _ => .minLen | .date => .date | .iso8601 => .iso8601 | .other => .other

/-- `_escape_literal` -/
def escapeLiteral (s : Str) : Str := Gen.escapePairs.foldl (fun acc p => replaceAll p.1 p.2 acc) s

def compileEnum (vals : List Str) : Str :=
  render Gen.enumWrapTpl
    [List.intercalate Gen.enumJoiner (vals.map fun v => render Gen.enumQuoteTpl [escapeLiteral v])]

/-- the text `_compile_const` puts into the literal: OCTAVE spelling of booleans and null, `str()` otherwise -/
def constText : ConstVal → Str
  | .bool true => Gen.constTrue
  | .bool false => Gen.constFalse
  | .null => Gen.constNull
  | .other s => s

def compileConst (v : ConstVal) : Str := render Gen.constTpl [escapeLiteral (constText v)]

def lookupStr (k : Str) : List (Str × Str) → Option Str
  | [] => none
  | (a, b) :: r => if a == k then some b else lookupStr k r

def compileType (t : Str) : Str := (lookupStr t Gen.typePatterns).getD Gen.typeDefault

/-- `re.match(r"^\[([^\]]+)\]([+*?]?)$", p)` → (group 1, group 2).  (`$` also matches before a
final newline.) -/
def simpleClassMatch (p : Str) : Option (Str × Str) :=
  match p with
  | '[' :: rest =>
    let body := rest.takeWhile (· != ']')
    if body.isEmpty then none
    else match rest.dropWhile (· != ']') with
      | ']' :: tail =>
        match tail with
        | [] => some (body, [])
        | ['\n'] => some (body, [])
        | [q] => if q == '+' || q == '*' || q == '?' then some (body, [q]) else none
        | [q, '\n'] => if q == '+' || q == '*' || q == '?' then some (body, [q]) else none
        | _ => none
      | _ => none
  | _ => none

/-- `_compile_regex` -/
def compileRegex (pat : Str) : Str :=
  let p := rstripChars Gen.regexRstrip (lstripChars Gen.regexLstrip pat)
  if Gen.regexUnsupported.any (fun u => isInfixOf u p) then Gen.regexDegrade
  else match simpleClassMatch p with
    | some (body, q) =>
      if !isInfixOf Gen.regexClassForbidden body then
        render Gen.regexSimpleTpl [body, if q.isEmpty then Gen.regexDefaultQuantifier else q]
      else if Gen.regexDotPatterns.contains p then replaceAll Gen.regexDotFrom Gen.regexDotTo p
      else Gen.regexFinalFragment
    | none =>
      if Gen.regexDotPatterns.contains p then replaceAll Gen.regexDotFrom Gen.regexDotTo p
      else Gen.regexFinalFragment

/-- calling `self._compile_<m>(constraint)`; `none` = Python raises (attribute missing on a
constraint of another class). -/
def runMethod : Method → Constraint → Option Str
  | .required, _ => some Gen.requiredFragment
  | .optional, _ => some Gen.optionalFragment
  | .enum, .enum vals => some (compileEnum vals)
  | .enum, _ => none
  | .const, .const s => some (compileConst s)
  | .const, _ => none
  | .type, .type t => some (compileType t)
  | .type, _ => none
  | .regex, .regex p => some (compileRegex p)
  | .regex, _ => none
  | .dir, _ => some Gen.dirFragment
  | .list, _ => some Gen.listFragment
  | .range, _ => some Gen.rangeFragment
  | .maxLength, _ => some Gen.maxLengthFragment
  | .minLength, .minLen n => some (if n ≥ Gen.minLengthThreshold then Gen.minLengthGeFragment else Gen.minLengthLtFragment)
  | .minLength, _ => none
  | .date, _ => some Gen.dateFragment
  | .iso8601, _ => some Gen.iso8601Fragment

def lookupMethod (k : Kind) : List (Kind × Method) → Option Method
  | [] => none
  | (a, m) :: r => if a == k then some m else lookupMethod k r

/-- `compile_constraint` -/
def compileConstraint (c : Constraint) : Option Str :=
  match lookupMethod c.kind Gen.dispatch with
  | some m => runMethod m c
  | none => some Gen.unknownFragment

def firstOfKinds (ks : List Kind) : List Constraint → Option Constraint
  | [] => none
  | c :: r => if ks.contains c.kind then some c else firstOfKinds ks r

def pickByPriority : List (List Kind) → List Constraint → Option Constraint
  | [], _ => none
  | ks :: r, cs => match firstOfKinds ks cs with
    | some c => some c
    | none => pickByPriority r cs

/-- the member of the chain whose fragment is used (`none` for the empty chain) -/
def deciding (cs : List Constraint) : Option Constraint :=
  match cs with
  | [] => none
  | c0 :: _ => some ((pickByPriority Gen.chainPriority cs).getD c0)

/-- `compile_chain` -/
def compileChain (cs : List Constraint) : Option Str :=
  match deciding cs with
  | none => some Gen.emptyChainFragment
  | some c => compileConstraint c

/-! ## `compile_schema` -/

structure Field where
  name : Str
  lowered : Str                          -- `name.lower()`
  chain : Option (List Constraint)       -- `none`: no pattern / `pattern.constraints is None`
  deriving Repr

/-- `_sanitize_rule_name(field_name)` -/
def Field.baseName (f : Field) : Str := sanitize f.lowered

/-- `f"{base_name}-{suffix}"` -/
def uniqueCandidate (base : Str) (suffix : Nat) : Str := render Gen.schemaUniqueTpl [base, Nat.toDigits 10 suffix]

def nameTaken (used : List Str) (cur : Str) : Bool := used.contains cur || Gen.schemaReservedRuleNames.contains cur

/-- `while rule_name in field_rule_names or rule_name in (…): rule_name = f"{base_name}-{suffix}"; suffix += 1`
with a bound on the number of iterations (`none` = the bound was too small; it never is, see
`uniqueName_total`). -/
def uniqueLoop (used : List Str) (base : Str) : Nat → Nat → Str → Option Str
  | 0, _, cur => if nameTaken used cur then none else some cur
  | f + 1, suffix, cur =>
    if nameTaken used cur then uniqueLoop used base f (suffix + 1) (uniqueCandidate base suffix) else some cur

def uniqueName (used : List Str) (base : Str) : Option Str :=
  uniqueLoop used base (used.length + Gen.schemaReservedRuleNames.length + 1) Gen.schemaUniqueSuffixStart base

/-- the rule names of the fields, in order (`field_rule_names`) -/
def assignNames : List Str → List Str → Option (List Str)
  | [], used => some used
  | b :: r, used => match uniqueName used b with
    | some n => assignNames r (used ++ [n])
    | none => none

def fieldPattern (f : Field) : Option Str :=
  match f.chain with
  | some cs => compileChain cs
  | none => some Gen.schemaNoPattern

def fieldLine (f : Field) (ruleName : Str) : Option Str :=
  (fieldPattern f).map fun pat => render Gen.schemaFieldRuleTpl [ruleName, escapeLiteral f.name, pat]

def fieldLines : List Field → List Str → Option (List Str)
  | [], _ => some []
  | _ :: _, [] => none
  | f :: r, n :: ns => match fieldLine f n, fieldLines r ns with
    | some l, some ls => some (l :: ls)
    | _, _ => none

def contentLines (ruleNames : List Str) : List Str :=
  if ruleNames.isEmpty then Gen.schemaWithoutFields.map (render · [])
  else Gen.schemaWithFields.map (render · [List.intercalate Gen.schemaRefsJoiner ruleNames])

def documentLines (upper : Str) (envelope : Bool) : List Str :=
  if envelope then Gen.schemaEnvelope.map (render · [escapeLiteral upper]) else Gen.schemaNoEnvelope.map (render · [])

/-- the schema name as it appears in the header comment -/
def headerName (name : Str) : Str := Gen.schemaHeaderNameReplacements.foldl (fun acc p => replaceAll p.1 p.2 acc) name

def schemaLines (name upper : Str) (fields : List Field) (envelope : Bool) : Option (List Str) :=
  match assignNames (fields.map Field.baseName) [] with
  | none => none
  | some names =>
    (fieldLines fields names).map fun fl =>
      Gen.schemaHeader.map (render · [headerName name]) ++ fl ++ [render Gen.schemaAfterFields []] ++
        contentLines names ++ [render Gen.schemaAfterContent []] ++
        documentLines upper envelope ++ Gen.schemaTail.map (render · [])

/-- `GBNFCompiler().compile_schema(schema, include_envelope)`; `fields` are the items of the
`schema.fields` dict in order (distinct names); `none` = Python raises. -/
def compileSchema (name upper : Str) (fields : List Field) (envelope : Bool) : Option Str :=
  (schemaLines name upper fields envelope).map (List.intercalate Gen.schemaLineJoiner)

/-! ## CONTRACT route -/

structure CTok where
  ty : Str          -- `token.type.name`
  value : Str       -- `token.value` when it is a `str`
  strValue : Str    -- `str(token.value)`

structure RecState where
  specs : List Str        -- reversed
  parts : List Str        -- `current_spec_parts`, reversed
  inBr : Bool
  depth : Int

def RecState.flush (s : RecState) : RecState :=
  if s.parts.isEmpty then s
  else
    let spec := pyStrip s.parts.reverse.flatten
    { s with specs := if spec.isEmpty then s.specs else spec :: s.specs, parts := [] }

def lookupTpl (k : Str) : List (Str × List TPart) → Option (List TPart)
  | [] => none
  | (a, b) :: r => if a == k then some b else lookupTpl k r

def recStep (s : RecState) (t : CTok) : RecState :=
  if Gen.reconstructSkip.contains t.ty then
    if t.ty == "LIST_START".toList && !s.parts.isEmpty then
      { s with inBr := true, depth := s.depth + 1, parts := "[".toList :: s.parts }
    else if t.ty == "LIST_END".toList && s.inBr then
      { s with depth := s.depth - 1, parts := "]".toList :: s.parts, inBr := !(s.depth - 1 == 0) }
    else s
  else if t.ty == "COMMA".toList then
    if s.inBr then { s with parts := ",".toList :: s.parts }
    else if !s.parts.isEmpty then
      let spec := pyStrip s.parts.reverse.flatten
      { s with specs := if spec.isEmpty then s.specs else spec :: s.specs, parts := [] }
    else s
  else match lookupTpl t.ty Gen.reconstructAppend with
    | some tpl => { s with parts := render tpl [t.value, t.strValue] :: s.parts }
    | none => s

/-- `_reconstruct_field_specs_from_tokens` -/
def reconstruct (toks : List CTok) : List Str :=
  ((toks.foldl recStep ⟨[], [], false, 0⟩).flush).specs.reverse

inductive ContractField where
  | invalid                       -- `ValueError` (entry skipped)
  | noChain (name : Str)          -- `(field_name, None)`
  | withChain (name cstr : Str)   -- `ConstraintChain.parse(cstr)` still to be applied

/-- `parse_contract_field` up to the call of `ConstraintChain.parse`:
`^FIELD\[([^\]]+)\]::(.+)$` on the stripped spec. -/
def splitContractField (spec0 : Str) : ContractField :=
  let spec := pyStrip spec0
  match dropPrefix? "FIELD[".toList spec with
  | none => .invalid
  | some rest =>
    let nm := rest.takeWhile (· != ']')
    if nm.isEmpty then .invalid
    else match dropPrefix? "]::".toList (rest.dropWhile (· != ']')) with
      | none => .invalid
      | some cs =>
        -- `(.+)$`: non-empty, no newline except one final newline
        let core := match cs.reverse with
          | '\n' :: r => r.reverse
          | _ => cs
        if core.isEmpty || core.contains '\n' then .invalid
        else
          let name := pyStrip nm
          let cstr := pyStrip core
          if name.isEmpty then .invalid
          else if cstr.isEmpty then .noChain name
          else .withChain name cstr

/-- the Python runtime as seen by `compile_gbnf_from_meta` -/
structure Env where
  chains : List (Str × Option (List Constraint))   -- `ConstraintChain.parse(s)`; `none` = ValueError
  lowers : List (Str × Str)                        -- `name.lower()`

def lookupAssoc {β : Type} (k : Str) : List (Str × β) → Option β
  | [] => none
  | (a, b) :: r => if a == k then some b else lookupAssoc k r

/-- `dict[key] = value`: overwrite in place or append. -/
def dictSet (f : Field) : List Field → List Field
  | [] => [f]
  | g :: r => if g.name == f.name then f :: r else g :: dictSet f r

/-- the loop over `field_specs`; `none` = the environment lacks an entry (harness error). -/
def contractFields (env : Env) : List Str → List Field → Option (List Field)
  | [], acc => some acc
  | spec :: r, acc =>
    match splitContractField spec with
    | .invalid => contractFields env r acc
    | .noChain name =>
      match lookupAssoc name env.lowers with
      | some lo => contractFields env r (dictSet ⟨name, lo, none⟩ acc)
      | none => none
    | .withChain name cstr =>
      match lookupAssoc cstr env.chains with
      | none => none
      | some none => contractFields env r acc            -- ValueError: entry skipped
      | some (some cs) =>
        match lookupAssoc name env.lowers with
        | some lo => contractFields env r (dictSet ⟨name, lo, some cs⟩ acc)
        | none => none

/-- `compile_gbnf_from_meta` for a string-valued TYPE and a CONTRACT given as spec strings. -/
def compileMeta (env : Env) (type upper : Str) (specs : List Str) : Option (Option Str) :=
  (contractFields env specs []).map fun fs => compileSchema type upper fs true

/-- … for a CONTRACT given as a parsed `ListValue` (token route). -/
def compileMetaTokens (env : Env) (type upper : Str) (toks : List CTok) : Option (Option Str) :=
  compileMeta env type upper (reconstruct toks)

end Octave.Gbnf
