/-
Helper lemmas about the control automaton of the GBNF parser and the line-by-line composition used
by the well-formedness proof of compiled grammars.
-/
import Octave.Lemmas.Lex
set_option linter.unusedSimpArgs false
namespace Octave.Gbnf
open Octave

def cRun (s : CState) (ts : List Tok) : CState := ts.foldl cStep s

@[simp] theorem cRun_nil (s : CState) : cRun s [] = s := rfl
@[simp] theorem cRun_cons (s : CState) (t : Tok) (r : List Tok) : cRun s (t :: r) = cRun (cStep s t) r := rfl
theorem cRun_append (s : CState) (a b : List Tok) : cRun s (a ++ b) = cRun (cRun s a) b := by
  simp [cRun, List.foldl_append]

/-- the three recorded lists are append-only and never looked at -/
theorem cRun_lists (ts : List Tok) : ∀ (m : CMode) (N R : List Str) (E : List Bool),
    cRun ⟨m, N, R, E⟩ ts =
      ⟨(cRun ⟨m, [], [], []⟩ ts).mode, (cRun ⟨m, [], [], []⟩ ts).names ++ N,
       (cRun ⟨m, [], [], []⟩ ts).refs ++ R, (cRun ⟨m, [], [], []⟩ ts).empties ++ E⟩ := by
  induction ts with
  | nil => intro m N R E; simp
  | cons t r ih =>
    intro m N R E
    simp only [cRun_cons, cStep]
    rw [ih (cAction m t).1 _ _ _, ih (cAction m t).1 ((cAction m t).2.names ++ []) _ _]
    simp

theorem foldl_pStep_fst (ts : List Tok) : ∀ (s : CState × Builder),
    (ts.foldl pStep s).1 = cRun s.1 ts := by
  induction ts with
  | nil => intro s; rfl
  | cons t r ih => intro s; simp only [List.foldl_cons, cRun_cons]; rw [ih]; rfl

/-! ### end of input behaves like a final newline -/

theorem lexFinish_of_nl (len : Bool) (st : LState) (h : (lexStep len st '\n').mode = .top) :
    ∃ X, (lexStep len st '\n').toks = .nl :: X ∧ lexFinish st = some X.reverse := by
  obtain ⟨m, toks⟩ := st
  cases m with
  | top => exact ⟨toks, by simp [lexStep, lexAction, lexTop], by simp [lexFinish]⟩
  | word acc =>
    refine ⟨.name acc.reverse :: toks, ?_, by simp [lexFinish]⟩
    have : isWordChar len '\n' = false := by cases len <;> decide
    simp [lexStep, lexAction, lexTop, this]
  | comment => exact ⟨toks, by simp [lexStep, lexAction], by simp [lexFinish]⟩
  | colon1 => simp [lexStep, lexAction] at h
  | colon2 => simp [lexStep, lexAction] at h
  | fail => simp [lexStep, lexAction] at h
  | str acc e =>
    cases e with
    | none => simp [lexStep, lexAction] at h
    | bs => simp [lexStep, lexAction, escStep] at h
    | hex r a =>
      cases r with
      | zero => simp [lexStep, lexAction, escStep] at h
      | succ k =>
        have : hexVal '\n' = none := by decide
        simp [lexStep, lexAction, escStep, this] at h
  | cls st neg items pend dash e =>
    cases e with
    | none =>
      simp only [lexStep, lexAction] at h
      split at h
      · simp at h
      · split at h
        · rename_i h2; simp at h2
        · split at h
          · rename_i h3; simp at h3
          · split at h <;> simp at h
    | bs => simp [lexStep, lexAction, escStep] at h
    | hex r a =>
      cases r with
      | zero => simp [lexStep, lexAction, escStep] at h
      | succ k =>
        have : hexVal '\n' = none := by decide
        simp [lexStep, lexAction, escStep, this] at h

theorem cFinish_of_nl (s : CState) (h : (cStep s .nl).mode = .idle) : cFinish s = some (cStep s .nl) := by
  obtain ⟨m, N, R, E⟩ := s
  cases m with
  | idle => simp [cFinish, cStep, cAction]
  | gotName n => simp [cStep, cAction] at h
  | fail => simp [cStep, cAction] at h
  | body stack top br =>
    cases br with
    | none =>
      cases stack with
      | nil =>
        by_cases hn : top.nlOk = true
        · simp [cStep, cAction, cBody, hn] at h
        · simp [cStep, cAction, cBody, hn, cFinish, cEndRule]
      | cons f r => simp [cStep, cAction, cBody] at h
    | opened => cases stack <;> simp [cStep, cAction, cBrace] at h
    | min m => cases stack <;> simp [cStep, cAction, cBrace] at h
    | comma m => cases stack <;> simp [cStep, cAction, cBrace] at h
    | max m k => cases stack <;> simp [cStep, cAction, cBrace] at h

/-! ### lines -/

/-- `l` followed by a newline, read from between rules, leaves lexer and control between rules again
and records `names` / `refs` (latest first) and no empty alternative. -/
def LineOK (l : Str) (names refs : List Str) : Prop :=
  ∃ ts : List Tok, (∀ toks, lexRun true ⟨.top, toks⟩ (l ++ ['\n']) = ⟨.top, ts ++ toks⟩) ∧
    (∀ N R E, cRun ⟨.idle, N, R, E⟩ ts.reverse = ⟨.idle, names ++ N, refs ++ R, names.map (fun _ => false) ++ E⟩)

/-- closed check of a constant line -/
def lineCheck (l : Str) : Option (List Str × List Str) :=
  match lexConst true (l ++ ['\n']) with
  | some ts =>
    let c := cRun cInit ts.reverse
    if c.mode = .idle ∧ c.empties = c.names.map (fun _ => false) then some (c.names, c.refs) else none
  | none => none

theorem lineOK_of_check {l : Str} {n r : List Str} (h : lineCheck l = some (n, r)) : LineOK l n r := by
  unfold lineCheck at h
  split at h
  · rename_i ts hts
    simp only at h
    split at h
    · rename_i hc
      cases h
      refine ⟨ts, fun toks => lexRun_of_lexConst hts toks, fun N R E => ?_⟩
      rw [cRun_lists]
      have h1 := hc.1
      have h2 := hc.2
      unfold cInit at h1 h2
      rw [h1, h2]
      rfl
    · cases h
  · cases h

/-- the text formed by the lines, each followed by a newline -/
def joinNl (ls : List Str) : Str := ls.flatMap (· ++ ['\n'])

theorem linesOK (xs : List (Str × List Str × List Str)) (h : ∀ x ∈ xs, LineOK x.1 x.2.1 x.2.2) :
    ∃ ts : List Tok, (∀ toks, lexRun true ⟨.top, toks⟩ (joinNl (xs.map (·.1))) = ⟨.top, ts ++ toks⟩) ∧
      (∀ N R E, cRun ⟨.idle, N, R, E⟩ ts.reverse =
        ⟨.idle, xs.reverse.flatMap (·.2.1) ++ N, xs.reverse.flatMap (·.2.2) ++ R,
         (xs.reverse.flatMap (·.2.1)).map (fun _ => false) ++ E⟩) := by
  induction xs with
  | nil => exact ⟨[], fun toks => by simp [joinNl], fun N R E => by simp⟩
  | cons x rest ih =>
    obtain ⟨ts1, hl1, hc1⟩ := h x (by simp)
    obtain ⟨ts2, hl2, hc2⟩ := ih (fun y hy => h y (by simp [hy]))
    refine ⟨ts2 ++ ts1, fun toks => ?_, fun N R E => ?_⟩
    · simp only [joinNl, List.map_cons, List.flatMap_cons] at hl2 ⊢
      rw [lexRun_append, hl1, hl2]; simp
    · rw [List.reverse_append, cRun_append, hc1, hc2]
      simp [List.flatMap_append]

theorem intercalate_nl (ls : List Str) (hne : ls ≠ []) :
    List.intercalate ['\n'] ls ++ ['\n'] = joinNl ls := by
  induction ls with
  | nil => exact absurd rfl hne
  | cons l r ih =>
    cases r with
    | nil => simp [joinNl, List.intercalate]
    | cons l2 r2 =>
      have := ih (by simp)
      simp only [joinNl, List.flatMap_cons] at this ⊢
      rw [← this]
      simp [List.intercalate, List.intersperse]

theorem filter_zip_false (l : List Str) : ∀ (fs : List Bool), (∀ f ∈ fs, f = false) →
    ((l.zip fs).filter (·.2)).map (·.1) = [] := by
  induction l with
  | nil => intro fs _; simp
  | cons a r ih =>
    intro fs h
    cases fs with
    | nil => simp
    | cons f fr =>
      have hf : f = false := h f (by simp)
      subst hf
      simpa using ih fr (fun g hg => h g (by simp [hg]))

/-- **Composition.**  A text whose lines are each `LineOK` is well-formed GBNF as soon as the names its
lines define contain `root`, contain every name its lines reference, and are pairwise distinct. -/
theorem wellFormed_of_lines (xs : List (Str × List Str × List Str)) (hne : xs ≠ [])
    (h : ∀ x ∈ xs, LineOK x.1 x.2.1 x.2.2)
    (hroot : rootName ∈ xs.reverse.flatMap (·.2.1))
    (hrefs : ∀ r ∈ xs.reverse.flatMap (·.2.2), r ∈ xs.reverse.flatMap (·.2.1))
    (hnodup : (xs.reverse.flatMap (·.2.1)).Nodup) :
    WellFormed true (List.intercalate ['\n'] (xs.map (·.1))) := by
  obtain ⟨ts, hl, hc⟩ := linesOK xs h
  have hjoin := intercalate_nl (xs.map (·.1)) (by simpa using hne)
  have hl0 := hl []
  rw [← hjoin, lexRun_append] at hl0
  simp only [lexRun_cons, lexRun_nil, List.append_nil] at hl0
  obtain ⟨X, hX, hfin⟩ := lexFinish_of_nl true _ (by rw [hl0])
  rw [hl0] at hX
  simp only at hX
  have hc0 := hc [] [] []
  rw [hX] at hc0
  simp only [List.reverse_cons, cRun_append, cRun_cons, cRun_nil, List.append_nil] at hc0
  have hcf := cFinish_of_nl (cRun ⟨.idle, [], [], []⟩ X.reverse) (by rw [hc0])
  rw [hc0] at hcf
  have hlex : lex true (List.intercalate ['\n'] (xs.map (·.1))) = some X.reverse := hfin
  have hparse : ∃ g, parse true (List.intercalate ['\n'] (xs.map (·.1))) = some g ∧
      g.defined = (xs.reverse.flatMap (·.2.1)).reverse ∧ g.refs = (xs.reverse.flatMap (·.2.2)).reverse ∧
      g.emptyAlts = (((xs.reverse.flatMap (·.2.1)).reverse.zip
          ((xs.reverse.flatMap (·.2.1)).map (fun _ => false)).reverse).filter (·.2)).map (·.1) := by
    unfold parse
    rw [hlex]
    simp only [parseToks, pFinish]
    rw [foldl_pStep_fst]
    unfold cInit
    simp only [hcf]
    exact ⟨_, rfl, rfl, rfl, rfl⟩
  obtain ⟨g, hg, hd, hr, he⟩ := hparse
  refine ⟨g, hg, ?_, ?_, ?_, ?_⟩
  · rw [hd]; simpa using hroot
  · intro r hr'
    rw [hr] at hr'
    rw [hd]
    have := hrefs r (by simpa using hr')
    simpa using this
  · rw [hd]; exact List.pairwise_reverse.mpr (hnodup.imp Ne.symm)
  · rw [he]
    apply filter_zip_false
    intro f hf
    simp at hf
    exact hf.2

theorem flatMap_reverse_eq {α : Type} (f : α → List Str) (xs : List α) :
    xs.reverse.flatMap f = (xs.flatMap (fun x => (f x).reverse)).reverse := by
  induction xs with
  | nil => rfl
  | cons a r ih => simp [List.flatMap_append, ih]

/-- `wellFormed_of_lines` with the defined / referenced names in reading order -/
theorem wellFormed_of_lines' (xs : List (Str × List Str × List Str)) (hne : xs ≠ [])
    (h : ∀ x ∈ xs, LineOK x.1 x.2.1 x.2.2)
    (hroot : rootName ∈ xs.flatMap (fun x => x.2.1.reverse))
    (hrefs : ∀ r ∈ xs.flatMap (fun x => x.2.2.reverse), r ∈ xs.flatMap (fun x => x.2.1.reverse))
    (hnodup : (xs.flatMap (fun x => x.2.1.reverse)).Nodup) :
    WellFormed true (List.intercalate ['\n'] (xs.map (·.1))) := by
  apply wellFormed_of_lines xs hne h
  · rw [flatMap_reverse_eq]; exact List.mem_reverse.mpr hroot
  · intro r hr
    rw [flatMap_reverse_eq] at hr ⊢
    exact List.mem_reverse.mpr (hrefs r (List.mem_reverse.mp hr))
  · rw [flatMap_reverse_eq]; exact List.pairwise_reverse.mpr (hnodup.imp Ne.symm)

theorem nodup_insert_middle (a F b : List Str) (hF : F.Nodup) (hab : (a ++ b).Nodup)
    (hdis : ∀ x ∈ F, x ∉ a ++ b) : (a ++ F ++ b).Nodup := by
  rw [List.nodup_append] at hab ⊢
  obtain ⟨ha, hb, hd⟩ := hab
  refine ⟨?_, hb, ?_⟩
  · rw [List.nodup_append]
    refine ⟨ha, hF, ?_⟩
    intro x hx y hy hxy
    subst hxy
    exact hdis x hy (by simp [hx])
  · intro x hx y hy hxy
    subst hxy
    rcases List.mem_append.mp hx with h1 | h1
    · exact hd x h1 x hy rfl
    · exact hdis x h1 (by simp [hy])

end Octave.Gbnf
