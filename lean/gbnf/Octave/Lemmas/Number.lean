/-
Soundness of the matcher on the NUMBER fragment  `"-"? [0-9]+ ("." [0-9]+)?` : every derivable string
is  `-`? digits+ ( `.` digits+ )?  and is therefore fully matched by the reader's NUMBER token pattern.
-/
import Octave.Lemmas.Match
import Octave.Spec.PyNumber
set_option linter.unusedSimpArgs false
namespace Octave.Gbnf
open Octave

/-! ### inversion of the matcher, without fuel arithmetic -/

theorem mem_mSeq_nil {f : Nat} {g : List (Str × Alts)} {s r : Str} (h : r ∈ mSeq f g [] s) : r = s := by
  cases f with
  | zero => simp [mSeq_zero] at h
  | succ f => simpa [mSeq_nil] using h

theorem mem_mSeq_cons {f : Nat} {g : List (Str × Alts)} {i : Item} {is : List Item} {s r : Str}
    (h : r ∈ mSeq f g (i :: is) s) : ∃ f' r1, r1 ∈ mItem f' g i s ∧ r ∈ mSeq f' g is r1 := by
  cases f with
  | zero => simp [mSeq_zero] at h
  | succ f =>
    rw [mSeq_cons] at h
    obtain ⟨r1, h1, h2⟩ := List.mem_flatMap.mp h
    exact ⟨f, r1, h1, h2⟩

theorem mem_mAlts_single {f : Nat} {g : List (Str × Alts)} {a : List Item} {s r : Str}
    (h : r ∈ mAlts f g [a] s) : ∃ f', r ∈ mSeq f' g a s := by
  cases f with
  | zero => simp [mAlts_zero] at h
  | succ f =>
    rw [mAlts_cons] at h
    rcases List.mem_append.mp h with h1 | h1
    · exact ⟨f, h1⟩
    · cases f with
      | zero => simp [mAlts_zero] at h1
      | succ f => simp [mAlts_nil] at h1

theorem mem_mItem_lit {f : Nat} {g : List (Str × Alts)} {l s r : Str} (h : r ∈ mItem f g (.lit l) s) : s = l ++ r := by
  cases f with
  | zero => simp [mItem_zero] at h
  | succ f =>
    rw [mItem_lit] at h
    cases hd : dropPrefix? l s with
    | none => simp [hd] at h
    | some x =>
      simp [hd] at h
      subst h
      exact (dropPrefix?_eq_some l s _).mp hd

theorem mem_mItem_group {f : Nat} {g : List (Str × Alts)} {a : Alts} {s r : Str} (h : r ∈ mItem f g (.group a) s) :
    ∃ f', r ∈ mAlts f' g a s := by
  cases f with
  | zero => simp [mItem_zero] at h
  | succ f => rw [mItem_group] at h; exact ⟨f, h⟩

theorem mem_mItem_rep {f : Nat} {g : List (Str × Alts)} {i : Item} {mn : Nat} {mx : Option Nat} {s r : Str}
    (h : r ∈ mItem f g (.rep i mn mx) s) : ∃ f', r ∈ mRep f' g i mn mx s := by
  cases f with
  | zero => simp [mItem_zero] at h
  | succ f => rw [mItem_rep] at h; exact ⟨f, h⟩

/-! ### digits -/

def digitCls : Item := .cls false [('0', '9')]

theorem clsHas_digit (c : Char) : clsHas false [('0', '9')] c = isDigit c := by
  simp [clsHas, isDigit]

theorem mem_mItem_digit {f : Nat} {g : List (Str × Alts)} {s r : Str} (h : r ∈ mItem f g digitCls s) :
    ∃ c, isDigit c = true ∧ s = c :: r := by
  cases f with
  | zero => simp [mItem_zero] at h
  | succ f =>
    cases s with
    | nil => simp [digitCls, mItem_cls_nil] at h
    | cons c t =>
      rw [digitCls, mItem_cls_cons, clsHas_digit] at h
      split at h
      · simp at h; subst h; exact ⟨c, by assumption, rfl⟩
      · simp at h

/-- `[0-9]{mn,}` consumes digits only, at least one if `mn ≥ 1` -/
theorem mem_mRep_digits (g : List (Str × Alts)) : ∀ (f mn : Nat) (s r : Str), r ∈ mRep f g digitCls mn none s →
    ∃ ds : Str, (∀ c ∈ ds, isDigit c = true) ∧ s = ds ++ r ∧ (1 ≤ mn → ds ≠ []) := by
  intro f
  induction f with
  | zero => intro mn s r h; simp [mRep_zero] at h
  | succ f ih =>
    intro mn s r h
    rw [mRep_succ] at h
    rcases List.mem_append.mp h with h1 | h1
    · split at h1
      · rename_i hmn
        simp at h1; subst h1
        exact ⟨[], by simp, by simp, by intro h; simp at hmn; omega⟩
      · simp at h1
    · simp only [Option.map_none, reduceCtorEq, beq_iff_eq, if_false] at h1
      obtain ⟨r1, hr1, hr⟩ := List.mem_flatMap.mp h1
      obtain ⟨c, hc, hs⟩ := mem_mItem_digit hr1
      split at hr
      · obtain ⟨ds, hds, hr1', _⟩ := ih (mn - 1) r1 r hr
        refine ⟨c :: ds, ?_, by rw [hs, hr1']; rfl, by intro _; simp⟩
        intro d hd
        rcases List.mem_cons.mp hd with h2 | h2
        · subst h2; exact hc
        · exact hds d h2
      · simp at hr

/-- an optional item `i?` either consumes nothing or exactly one `i` -/
theorem mem_mRep_opt {f : Nat} {g : List (Str × Alts)} {i : Item} {s r : Str} (h : r ∈ mRep f g i 0 (some 1) s) :
    r = s ∨ ∃ f', r ∈ mItem f' g i s := by
  cases f with
  | zero => simp [mRep_zero] at h
  | succ f =>
    rw [mRep_succ] at h
    rcases List.mem_append.mp h with h1 | h1
    · simp at h1; exact Or.inl h1
    · simp only [Option.some.injEq, Nat.succ_ne_zero, beq_iff_eq, if_false, Option.map_some, Nat.sub_self,
        Nat.lt_irrefl, Bool.or_false] at h1
      obtain ⟨r1, hr1, hr⟩ := List.mem_flatMap.mp h1
      right
      split at hr
      · cases f with
        | zero => simp [mRep_zero] at hr
        | succ f =>
          rw [mRep_succ] at hr
          simp at hr
          subst hr
          exact ⟨_, hr1⟩
      · simp at hr

/-! ### the reader's NUMBER pattern accepts  `-`? digits+ (`.` digits+)? -/

theorem dropDigits_append (ds rest : Str) (h : ∀ c ∈ ds, isDigit c = true) : dropDigits (ds ++ rest) = dropDigits rest := by
  induction ds with
  | nil => rfl
  | cons c r ih =>
    have hc := h c (by simp)
    simp only [dropDigits, List.cons_append, List.dropWhile_cons, hc, if_true] at ih ⊢
    exact ih (fun d hd => h d (by simp [hd]))

theorem dropDigits_all (ds : Str) (h : ∀ c ∈ ds, isDigit c = true) : dropDigits ds = [] := by
  have := dropDigits_append ds [] h
  simpa [dropDigits] using this

theorem pyNumberFull_cons_ne (c : Char) (rest : Str) (h : c ≠ '-') :
    pyNumberFull (c :: rest) = (isDigit c && pyNumberTail (dropDigits (c :: rest))) := by
  unfold pyNumberFull
  split
  · rename_i heq; simp at heq; exact absurd heq.1 h
  · rfl

theorem pyNumberFull_minus (c : Char) (rest : Str) :
    pyNumberFull ('-' :: c :: rest) = (isDigit c && pyNumberTail (dropDigits (c :: rest))) := by
  unfold pyNumberFull
  rfl

theorem pyNumberFull_unsigned (ds fr : Str) (hds : ∀ c ∈ ds, isDigit c = true) (hne : ds ≠ [])
    (hfr : fr = [] ∨ ∃ ds2, (∀ c ∈ ds2, isDigit c = true) ∧ ds2 ≠ [] ∧ fr = '.' :: ds2) :
    pyNumberFull (ds ++ fr) = true ∧ pyNumberFull ('-' :: (ds ++ fr)) = true := by
  cases ds with
  | nil => exact absurd rfl hne
  | cons c r =>
    have hc : isDigit c = true := hds c (by simp)
    have hnm : c ≠ '-' := by intro h; subst h; simp [isDigit] at hc
    have htail : pyNumberTail (dropDigits (c :: r ++ fr)) = true := by
      rw [dropDigits_append _ _ hds]
      rcases hfr with h | ⟨ds2, h2, _, h3⟩
      · subst h; simp [dropDigits, pyNumberTail]
      · subst h3
        have hd : isDigit '.' = false := by decide
        simp only [dropDigits, List.dropWhile_cons, hd, Bool.false_eq_true, if_false, pyNumberTail]
        have := dropDigits_all ds2 h2
        simp only [dropDigits] at this
        simp [this]
    simp only [List.cons_append] at htail ⊢
    rw [pyNumberFull_cons_ne c _ hnm, pyNumberFull_minus, hc, htail]
    simp

/-- the parsed body of the NUMBER fragment -/
def numberAlts : Alts :=
  [[.rep (.lit "-".toList) 0 (some 1), .rep digitCls 1 none,
    .rep (.group [[.lit ".".toList, .rep digitCls 1 none]]) 0 (some 1)]]

/-- **soundness on NUMBER.** -/
theorem number_sound (g : List (Str × Alts)) (f : Nat) (s : Str) (h : derivesAlts f g numberAlts s = true) :
    pyNumberFull s = true := by
  unfold derivesAlts at h
  have h0 : ([] : Str) ∈ mAlts f g numberAlts s := by simpa [List.contains_iff_mem] using h
  obtain ⟨f1, h1⟩ := mem_mAlts_single h0
  obtain ⟨f2, r1, hsign, h2⟩ := mem_mSeq_cons h1
  obtain ⟨f3, r2, hint, h3⟩ := mem_mSeq_cons h2
  obtain ⟨f4, r3, hfrac, h4⟩ := mem_mSeq_cons h3
  have hr3 : r3 = [] := (mem_mSeq_nil h4).symm
  subst hr3
  -- integer part
  obtain ⟨f5, hint'⟩ := mem_mItem_rep hint
  obtain ⟨ds, hds, hr1, hdne⟩ := mem_mRep_digits g f5 1 r1 r2 hint'
  have hdne' : ds ≠ [] := hdne (Nat.le_refl 1)
  -- fraction
  obtain ⟨f6, hfrac'⟩ := mem_mItem_rep hfrac
  have hfr : r2 = [] ∨ ∃ ds2, (∀ c ∈ ds2, isDigit c = true) ∧ ds2 ≠ [] ∧ r2 = '.' :: ds2 := by
    rcases mem_mRep_opt hfrac' with h5 | ⟨f7, h5⟩
    · exact Or.inl h5.symm
    · right
      obtain ⟨f8, h6⟩ := mem_mItem_group h5
      obtain ⟨f9, h7⟩ := mem_mAlts_single h6
      obtain ⟨f10, q1, hdot, h8⟩ := mem_mSeq_cons h7
      obtain ⟨f11, q2, hd2, h9⟩ := mem_mSeq_cons h8
      have hq2 : q2 = [] := (mem_mSeq_nil h9).symm
      subst hq2
      have hdot' := mem_mItem_lit hdot
      obtain ⟨f12, hd2'⟩ := mem_mItem_rep hd2
      obtain ⟨ds2, hds2, hq1, hne2⟩ := mem_mRep_digits g f12 1 q1 [] hd2'
      refine ⟨ds2, hds2, hne2 (Nat.le_refl 1), ?_⟩
      rw [hdot', hq1]; simp
  -- sign
  obtain ⟨f13, hsign'⟩ := mem_mItem_rep hsign
  rcases mem_mRep_opt hsign' with h5 | ⟨f14, h5⟩
  · subst h5; rw [hr1]; exact (pyNumberFull_unsigned ds r2 hds hdne' hfr).1
  · have := mem_mItem_lit h5
    rw [this, hr1]
    exact (pyNumberFull_unsigned ds r2 hds hdne' hfr).2

end Octave.Gbnf
