/-
Line- and fragment-level lemmas: what the lexer and the control automaton do on each kind of line
the GBNF compiler emits (comment header, field rule, `field ::= ( … )`, `envelope-start`) and on
each kind of fragment (constant fragments by closed computation, CONST / ENUM / character-class
fragments parametrically).
-/
import Octave.Lemmas.Control
set_option linter.unusedSimpArgs false
namespace Octave.Gbnf
open Octave

/-! ### fragments (the text after `"NAME" "::" ws `) -/

/-- control frame after `… "::" ws` -/
def afterWs : AFrame := ⟨false, true, false, false⟩

/-- `frag` (followed by the line's newline) is lexed from between tokens into `fts`, and the control
automaton, standing after `ws` in a rule body at nesting depth 0, stays there, with a non-empty
current alternative and no empty alternative, recording the references `frefs`. -/
def FragOK (frag : Str) (frefs : List Str) : Prop :=
  ∃ fts : List Tok, (∀ toks, lexRun true ⟨.top, toks⟩ (frag ++ ['\n']) = ⟨.top, .nl :: (fts ++ toks)⟩) ∧
    ∃ top' : AFrame, (∀ N R E, cRun ⟨.body [] afterWs .none, N, R, E⟩ fts.reverse =
        ⟨.body [] top' .none, N, frefs ++ R, E⟩) ∧ top'.nlOk = false ∧ top'.closeEmpty = false

/-- closed check of a constant fragment -/
def fragCheck (frag : Str) : Option (List Str) :=
  match lexConst true (frag ++ ['\n']) with
  | some (.nl :: fts) =>
    let c := cRun ⟨.body [] afterWs .none, [], [], []⟩ fts.reverse
    match c.mode with
    | .body [] top' .none =>
      if top'.nlOk = false ∧ top'.closeEmpty = false ∧ c.names = [] ∧ c.empties = [] then some c.refs else none
    | _ => none
  | _ => none

theorem fragOK_of_check {frag : Str} {refs : List Str} (h : fragCheck frag = some refs) : FragOK frag refs := by
  unfold fragCheck at h
  split at h
  · rename_i fts hts
    simp only at h
    split at h
    · rename_i top' hm
      split at h
      · rename_i hc
        cases h
        refine ⟨fts, fun toks => ?_, top', fun N R E => ?_, hc.1, hc.2.1⟩
        · have := lexRun_of_lexConst hts toks
          simpa using this
        · rw [cRun_lists, hm, hc.2.2.1, hc.2.2.2]; simp
      · cases h
    · cases h
  · cases h

/-! ### comment and rule-head lines -/

theorem lineOK_comment (t : Str) (h : ∀ c ∈ t, c ≠ '\n' ∧ c ≠ '\r') : LineOK ('#' :: t) [] [] := by
  refine ⟨[.nl], fun toks => ?_, fun N R E => by simp [cStep, cAction]⟩
  have : lexRun true ⟨.top, toks⟩ ('#' :: t ++ ['\n']) = lexRun true ⟨.comment, toks⟩ (t ++ ['\n']) := by
    simp [lexStep, lexAction, lexTop]
  rw [this, lexRun_append, lexRun_comment true t toks h]
  simp [lexStep, lexAction]

/-- `NAME ::= "` read from between rules -/
theorem lex_ruleHead (r : Str) (hne : r ≠ []) (hw : ∀ c ∈ r, isWordChar true c = true) (toks : List Tok) :
    lexRun true ⟨.top, toks⟩ (r ++ " ::= \"".toList) = ⟨.str [] .none, .define :: .name r :: toks⟩ := by
  rw [lexRun_append, lexRun_name true r toks hne hw]
  simp [lexStep, lexAction, lexTop, isWordChar, isLower, isUpper, isDigit]

theorem lex_fieldMid (acc : Str) (toks : List Tok) :
    lexRun true ⟨.str acc .none, toks⟩ "\" \"::\" ws ".toList =
      ⟨.top, .name "ws".toList :: .lit "::".toList :: .lit acc.reverse :: toks⟩ := by
  simp [lexStep, lexAction, lexTop, isWordChar, isLower, isUpper, isDigit]

/-- `text`, pasted between the quotes of a literal, is read as the characters `tok` -/
def LitText (text tok : Str) : Prop :=
  ∀ (acc : Str) (toks : List Tok), lexRun true ⟨.str acc .none, toks⟩ text = ⟨.str (tok.reverse ++ acc) .none, toks⟩

theorem litText_plain (v : Str) (h : ∀ c ∈ v, c ≠ '"' ∧ c ≠ '\\') : LitText v v :=
  fun acc toks => lexRun_str_plain true v acc toks h

theorem litText_esc (v : Str) : LitText (v.flatMap esc1) v :=
  fun acc toks => lexRun_str_esc true v acc toks

/-- **field rule line**  `rule ::= "NAME" "::" ws fragment` -/
theorem lineOK_field (r nameText nameTok frag : Str) (frefs : List Str) (hne : r ≠ [])
    (hw : ∀ c ∈ r, isWordChar true c = true) (hf : LitText nameText nameTok)
    (hfrag : FragOK frag frefs) :
    LineOK (r ++ " ::= \"".toList ++ nameText ++ "\" \"::\" ws ".toList ++ frag) [r] (frefs ++ ["ws".toList]) := by
  obtain ⟨fts, hlex, top', hctl, hnl, hce⟩ := hfrag
  refine ⟨.nl :: (fts ++ [.name "ws".toList, .lit "::".toList, .lit nameTok, .define, .name r]), fun toks => ?_, fun N R E => ?_⟩
  · rw [List.append_assoc, List.append_assoc, List.append_assoc, lexRun_append, lex_ruleHead r hne hw,
      lexRun_append, hf, lexRun_append, lex_fieldMid, hlex]
    simp
  · simp only [List.reverse_cons, List.reverse_append, List.reverse_nil, List.nil_append, List.cons_append,
      List.append_assoc, cRun_cons, cRun_append, cRun_nil]
    simp only [cStep, cAction, cBody, AFrame.push, AFrame.fresh, List.nil_append, List.append_nil, List.cons_append]
    have := hctl (r :: N) ("ws".toList :: R) E
    unfold afterWs at this
    rw [this]
    simp [cStep, cAction, cBody, hnl, hce, cEndRule]

/-! ### CONST:  `"…"` -/

theorem fragOK_const (v : Str) : FragOK ('"' :: v.flatMap esc1 ++ ['"']) [] := by
  refine ⟨[.lit v], fun toks => ?_, ⟨false, !v.isEmpty, false, false⟩, fun N R E => ?_, rfl, rfl⟩
  · have : lexRun true ⟨.top, toks⟩ ('"' :: v.flatMap esc1 ++ ['"'] ++ ['\n'])
        = lexRun true ⟨.str [] .none, toks⟩ (v.flatMap esc1 ++ ['"', '\n']) := by
      simp [lexStep, lexAction, lexTop]
    rw [this, lexRun_append, lexRun_str_esc]
    simp [lexStep, lexAction, lexTop]
  · simp [cStep, cAction, cBody, AFrame.push, afterWs]

/-! ### lists separated by ` | ` inside parentheses -/

theorem intercalate_cons_cons {α : Type} (sep a b : List α) (r : List (List α)) :
    List.intercalate sep (a :: b :: r) = a ++ sep ++ List.intercalate sep (b :: r) := by
  simp [List.intercalate, List.intersperse]

/-- tokens of `x₁ | x₂ | … | xₙ` -/
def altToks (f : Str → Tok) : List Str → List Tok
  | [] => []
  | [v] => [f v]
  | v :: r => f v :: .bar :: altToks f r

theorem altToks_cons_cons (f : Str → Tok) (a b : Str) (r : List Str) :
    altToks f (a :: b :: r) = f a :: .bar :: altToks f (b :: r) := rfl

/-- control: an alternation of symbols inside a group leaves a non-empty last alternative and no
empty alternative; the references are recorded in order -/
theorem cRun_altToks (f : Str → Tok) (g : Str → List Str)
    (hf : ∀ v S t N R E, ∃ sym, cStep ⟨.body S t .none, N, R, E⟩ (f v) = ⟨.body S ⟨false, sym, false, t.hasEmpty⟩ .none, N, g v ++ R, E⟩)
    (vals : List Str) (hne : vals ≠ []) : ∀ (S : List AFrame) (t : AFrame) N R E, t.hasEmpty = false →
    ∃ sym, cRun ⟨.body S t .none, N, R, E⟩ (altToks f vals) =
      ⟨.body S ⟨false, sym, false, false⟩ .none, N, vals.reverse.flatMap g ++ R, E⟩ := by
  induction vals with
  | nil => exact absurd rfl hne
  | cons v r ih =>
    intro S t N R E ht
    cases r with
    | nil =>
      obtain ⟨sym, h⟩ := hf v S t N R E
      exact ⟨sym, by simp [altToks, h, ht]⟩
    | cons v2 r2 =>
      obtain ⟨sym, h⟩ := hf v S t N R E
      obtain ⟨sym2, h2⟩ := ih (by simp) S ⟨true, false, true, false⟩ N (g v ++ R) E rfl
      refine ⟨sym2, ?_⟩
      rw [altToks_cons_cons, cRun_cons, h, cRun_cons]
      simp only [cStep, cAction, cBody, AFrame.closeEmpty, ht, Bool.or_self, List.nil_append]
      rw [h2]
      simp [List.flatMap_append]

theorem cStep_lit (v : Str) (S : List AFrame) (t : AFrame) (N R : List Str) (E : List Bool) :
    ∃ sym, cStep ⟨.body S t .none, N, R, E⟩ (.lit v) = ⟨.body S ⟨false, sym, false, t.hasEmpty⟩ .none, N, [] ++ R, E⟩ :=
  ⟨!v.isEmpty, by simp [cStep, cAction, cBody, AFrame.push]⟩

theorem cStep_name (v : Str) (S : List AFrame) (t : AFrame) (N R : List Str) (E : List Bool) :
    ∃ sym, cStep ⟨.body S t .none, N, R, E⟩ (.name v) = ⟨.body S ⟨false, sym, false, t.hasEmpty⟩ .none, N, [v] ++ R, E⟩ :=
  ⟨true, by simp [cStep, cAction, cBody, AFrame.push]⟩

/-! ### ENUM:  `("a" | "b" | …)` -/

def quoteLit (v : Str) : Str := '"' :: v.flatMap esc1 ++ ['"']

theorem lex_quoteLit (v : Str) (toks : List Tok) :
    lexRun true ⟨.top, toks⟩ (quoteLit v) = ⟨.top, .lit v :: toks⟩ := by
  have : lexRun true ⟨.top, toks⟩ (quoteLit v) = lexRun true ⟨.str [] .none, toks⟩ (v.flatMap esc1 ++ ['"']) := by
    simp [quoteLit, lexStep, lexAction, lexTop]
  rw [this, lexRun_append, lexRun_str_esc]
  simp [lexStep, lexAction]

theorem lex_enumBody (vals : List Str) (hne : vals ≠ []) : ∀ toks,
    lexRun true ⟨.top, toks⟩ (List.intercalate " | ".toList (vals.map quoteLit)) =
      ⟨.top, (altToks .lit vals).reverse ++ toks⟩ := by
  induction vals with
  | nil => exact absurd rfl hne
  | cons v r ih =>
    intro toks
    cases r with
    | nil => simp [List.intercalate, altToks, lex_quoteLit]
    | cons v2 r2 =>
      rw [List.map_cons, List.map_cons, intercalate_cons_cons, lexRun_append, lexRun_append, lex_quoteLit]
      have : lexRun true ⟨.top, .lit v :: toks⟩ " | ".toList = ⟨.top, .bar :: .lit v :: toks⟩ := by
        simp [lexStep, lexAction, lexTop, isWordChar, isLower, isUpper, isDigit]
      rw [this, ← List.map_cons, ih (by simp)]
      simp [altToks_cons_cons]

theorem fragOK_enum (vals : List Str) (hne : vals ≠ []) :
    FragOK ('(' :: List.intercalate " | ".toList (vals.map quoteLit) ++ [')']) [] := by
  obtain ⟨sym, hc⟩ := cRun_altToks .lit (fun _ => []) cStep_lit vals hne [afterWs] AFrame.fresh [] [] [] rfl
  refine ⟨.rparen :: ((altToks .lit vals).reverse ++ [.lparen]), fun toks => ?_,
    ⟨false, true, false, false⟩, fun N R E => ?_, rfl, rfl⟩
  · have : lexRun true ⟨.top, toks⟩ ('(' :: List.intercalate " | ".toList (vals.map quoteLit) ++ [')'] ++ ['\n'])
        = lexRun true ⟨.top, .lparen :: toks⟩ (List.intercalate " | ".toList (vals.map quoteLit) ++ [')', '\n']) := by
      simp [lexStep, lexAction, lexTop, isWordChar, isLower, isUpper, isDigit]
    rw [this, lexRun_append, lex_enumBody vals hne]
    simp [lexStep, lexAction, lexTop, isWordChar, isLower, isUpper, isDigit]
  · simp only [List.reverse_cons, List.reverse_append, List.reverse_reverse, List.reverse_nil, List.nil_append,
      List.cons_append, List.append_assoc, cRun_cons, cRun_append, cRun_nil]
    have h1 : cStep ⟨.body [] afterWs .none, N, R, E⟩ .lparen = ⟨.body [afterWs] AFrame.fresh .none, N, R, E⟩ := by
      simp [cStep, cAction, cBody]
    rw [h1]
    obtain ⟨sym', hc'⟩ := cRun_altToks .lit (fun _ => []) cStep_lit vals hne [afterWs] AFrame.fresh N R E rfl
    rw [hc']
    simp [cStep, cAction, cBody, afterWs, AFrame.closeEmpty]

/-! ### `field ::= (r₁ | r₂ | …)` -/

theorem lex_refsBody (names : List Str) (hne : names ≠ [])
    (hw : ∀ r ∈ names, r ≠ [] ∧ ∀ c ∈ r, isWordChar true c = true) : ∀ toks,
    lexRun true ⟨.top, toks⟩ (List.intercalate " | ".toList names ++ [')', '\n']) =
      ⟨.top, .nl :: .rparen :: ((altToks .name names).reverse ++ toks)⟩ := by
  induction names with
  | nil => exact absurd rfl hne
  | cons v r ih =>
    intro toks
    obtain ⟨hv1, hv2⟩ := hw v (by simp)
    cases r with
    | nil =>
      simp only [List.intercalate, List.intersperse, List.flatten_cons, List.flatten_nil, List.append_nil]
      rw [lexRun_append, lexRun_name true v toks hv1 hv2]
      simp [lexStep, lexAction, lexTop, isWordChar, isLower, isUpper, isDigit, altToks]
    | cons v2 r2 =>
      rw [intercalate_cons_cons, List.append_assoc, List.append_assoc, lexRun_append, lexRun_name true v toks hv1 hv2,
        lexRun_append]
      have : lexRun true ⟨.word v.reverse, toks⟩ " | ".toList = ⟨.top, .bar :: .name v :: toks⟩ := by
        simp [lexStep, lexAction, lexTop, isWordChar, isLower, isUpper, isDigit]
      rw [this, ih (by simp) (fun x hx => hw x (by simp [hx]))]
      simp [altToks_cons_cons]

/-- `HEAD ::= (r₁ | … | rₙ)` where `head` is the constant text `HEAD ::= (` -/
theorem lineOK_refs (headName : Str) (head : Str) (names : List Str) (hne : names ≠ [])
    (hw : ∀ r ∈ names, r ≠ [] ∧ ∀ c ∈ r, isWordChar true c = true)
    (hhead : ∀ toks, lexRun true ⟨.top, toks⟩ head = ⟨.top, .lparen :: .define :: .name headName :: toks⟩) :
    LineOK (head ++ List.intercalate " | ".toList names ++ [')']) [headName] names.reverse := by
  refine ⟨.nl :: .rparen :: ((altToks .name names).reverse ++ [.lparen, .define, .name headName]), fun toks => ?_, fun N R E => ?_⟩
  · rw [List.append_assoc, List.append_assoc, lexRun_append, hhead]
    have := lex_refsBody names hne hw (.lparen :: .define :: .name headName :: toks)
    simp only [List.cons_append, List.nil_append] at this ⊢
    rw [this]; simp
  · simp only [List.reverse_cons, List.reverse_append, List.reverse_reverse, List.reverse_nil, List.nil_append,
      List.cons_append, List.append_assoc, cRun_cons, cRun_append, cRun_nil]
    have h1 : cStep (cStep (cStep ⟨.idle, N, R, E⟩ (.name headName)) .define) .lparen =
        ⟨.body [AFrame.fresh] AFrame.fresh .none, headName :: N, R, E⟩ := by
      simp [cStep, cAction, cBody]
    rw [h1]
    obtain ⟨sym, hc⟩ := cRun_altToks .name (fun v => [v]) cStep_name names hne [AFrame.fresh] AFrame.fresh (headName :: N) R E rfl
    rw [hc]
    have : names.reverse.flatMap (fun v => [v]) = names.reverse := by simp
    rw [this]
    simp [cStep, cAction, cBody, AFrame.fresh, AFrame.closeEmpty, cEndRule]

/-! ### a literal whose middle part is pasted:  `HEAD"pre` ++ text ++ `post"` -/

theorem lineOK_pastedLiteral (headName head pre uText uTok post : Str)
    (hu : LitText uText uTok)
    (hhead : ∀ toks, lexRun true ⟨.top, toks⟩ head = ⟨.str pre.reverse .none, .define :: .name headName :: toks⟩)
    (hpost : ∀ acc toks, lexRun true ⟨.str acc .none, toks⟩ (post ++ ['\n']) = ⟨.top, .nl :: .lit (acc.reverse ++ post.dropLast) :: toks⟩) :
    LineOK (head ++ uText ++ post) [headName] [] := by
  refine ⟨[.nl, .lit ((uTok.reverse ++ pre.reverse).reverse ++ post.dropLast), .define, .name headName], fun toks => ?_, fun N R E => ?_⟩
  · rw [List.append_assoc, List.append_assoc, lexRun_append, hhead, lexRun_append, hu, hpost]
    simp
  · simp [cStep, cAction, cBody, AFrame.push, AFrame.fresh, AFrame.closeEmpty, cEndRule]

end Octave.Gbnf
