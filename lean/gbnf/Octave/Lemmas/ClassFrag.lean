/-
The character-class fragment `[body]q` produced by `_compile_regex` for patterns of the simple
class shape: if `body` has no `]` and no backslash, is not empty and is not just `^`, the fragment is
a class token with at least one member followed by a quantifier.
-/
import Octave.Lemmas.Lines
set_option linter.unusedSimpArgs false
namespace Octave.Gbnf
open Octave

def ClsPlain (body : Str) : Prop := ∀ c ∈ body, c ≠ ']' ∧ c ≠ '\\'

theorem lexStep_cls_plain (neg : Bool) (items : List (Char × Char)) (pend : Option Char) (dash : Bool)
    (toks : List Tok) (c : Char) (h1 : c ≠ ']') (h2 : c ≠ '\\') :
    ∃ items' pend' dash', lexStep true ⟨.cls false neg items pend dash .none, toks⟩ c =
      ⟨.cls false neg items' pend' dash' .none, toks⟩ ∧ (items' ≠ [] ∨ pend'.isSome = true) := by
  simp only [lexStep, lexAction, Bool.false_and, Bool.false_eq_true, if_false, beq_iff_eq, h1, h2, List.nil_append]
  split
  · rename_i hd
    refine ⟨items, pend, true, rfl, Or.inr ?_⟩
    simp at hd; exact hd.1.2
  · cases pend with
    | none => exact ⟨items, some c, false, by simp [clsFeed], Or.inr rfl⟩
    | some p =>
      cases dash with
      | true => exact ⟨(p, c) :: items, none, false, by simp [clsFeed], Or.inl (by simp)⟩
      | false => exact ⟨(p, p) :: items, some c, false, by simp [clsFeed], Or.inr rfl⟩

theorem lexRun_cls_plain (body : Str) : ∀ (neg : Bool) (items : List (Char × Char)) (pend : Option Char) (dash : Bool)
    (toks : List Tok), ClsPlain body → (body ≠ [] ∨ items ≠ [] ∨ pend.isSome = true) →
    ∃ items' pend' dash', lexRun true ⟨.cls false neg items pend dash .none, toks⟩ body =
      ⟨.cls false neg items' pend' dash' .none, toks⟩ ∧ (items' ≠ [] ∨ pend'.isSome = true) := by
  induction body with
  | nil =>
    intro neg items pend dash toks _ h
    refine ⟨items, pend, dash, rfl, ?_⟩
    rcases h with h | h | h
    · exact absurd rfl h
    · exact Or.inl h
    · exact Or.inr h
  | cons c r ih =>
    intro neg items pend dash toks hp _
    obtain ⟨h1, h2⟩ := hp c (by simp)
    obtain ⟨i1, p1, d1, hs, hinv⟩ := lexStep_cls_plain neg items pend dash toks c h1 h2
    rw [lexRun_cons, hs]
    exact ih neg i1 p1 d1 toks (fun d hd => hp d (by simp [hd])) (Or.inr (hinv.elim Or.inl Or.inr))

theorem clsClose_ne_nil (items : List (Char × Char)) (pend : Option Char) (dash : Bool)
    (h : items ≠ [] ∨ pend.isSome = true) : clsClose items pend dash ≠ [] := by
  cases pend with
  | none =>
    rcases h with h | h
    · simpa [clsClose] using h
    · simp at h
  | some p => cases dash <;> simp [clsClose]

/-- lexing `[body]` from between tokens: one class token with at least one member -/
theorem lex_classPlain (body : Str) (hp : ClsPlain body) (hne : body ≠ []) (hcaret : body ≠ ['^']) (toks : List Tok) :
    ∃ neg rs, rs ≠ [] ∧ lexRun true ⟨.top, toks⟩ ('[' :: body ++ [']']) = ⟨.top, .cls neg rs :: toks⟩ := by
  have h0 : lexRun true ⟨.top, toks⟩ ('[' :: body ++ [']']) =
      lexRun true ⟨.cls true false [] none false .none, toks⟩ (body ++ [']']) := by
    simp [lexStep, lexAction, lexTop]
  cases body with
  | nil => exact absurd rfl hne
  | cons c r =>
    obtain ⟨h1, h2⟩ := hp c (by simp)
    have hr : ClsPlain r := fun d hd => hp d (by simp [hd])
    by_cases hc : c = '^'
    · subst hc
      have hrne : r ≠ [] := fun h => hcaret (by rw [h])
      have hs : lexStep true ⟨.cls true false [] none false .none, toks⟩ '^' = ⟨.cls false true [] none false .none, toks⟩ := by
        simp [lexStep, lexAction]
      obtain ⟨i1, p1, d1, hrun, hinv⟩ := lexRun_cls_plain r true [] none false toks hr (Or.inl hrne)
      refine ⟨true, clsClose i1 p1 d1, clsClose_ne_nil _ _ _ hinv, ?_⟩
      rw [h0, List.cons_append, lexRun_cons, hs, lexRun_append, hrun]
      simp [lexStep, lexAction]
    · have hs : lexStep true ⟨.cls true false [] none false .none, toks⟩ c =
          lexStep true ⟨.cls false false [] none false .none, toks⟩ c := by
        simp [lexStep, lexAction, hc]
      obtain ⟨i0, p0, d0, hs0, hinv0⟩ := lexStep_cls_plain false [] none false toks c h1 h2
      obtain ⟨i1, p1, d1, hrun, hinv⟩ := lexRun_cls_plain r false i0 p0 d0 toks hr (Or.inr (hinv0.elim Or.inl Or.inr))
      refine ⟨false, clsClose i1 p1 d1, clsClose_ne_nil _ _ _ hinv, ?_⟩
      rw [h0, List.cons_append, lexRun_cons, hs, hs0, lexRun_append, hrun]
      simp [lexStep, lexAction]

/-- quantifier characters `+ * ?` -/
def isQuant (q : Char) : Prop := q = '+' ∨ q = '*' ∨ q = '?'

theorem fragOK_class (body : Str) (q : Char) (hp : ClsPlain body) (hne : body ≠ []) (hcaret : body ≠ ['^'])
    (hq : isQuant q) : FragOK ('[' :: body ++ [']'] ++ [q]) [] := by
  have hqt : ∃ t : Tok, (t = .plus ∨ t = .star ∨ t = .qmark) ∧
      ∀ toks, lexRun true ⟨.top, toks⟩ [q, '\n'] = ⟨.top, .nl :: t :: toks⟩ := by
    rcases hq with h | h | h <;> subst h
    · exact ⟨.plus, Or.inl rfl, fun toks => by simp [lexStep, lexAction, lexTop, isWordChar, isLower, isUpper, isDigit]⟩
    · exact ⟨.star, Or.inr (Or.inl rfl), fun toks => by simp [lexStep, lexAction, lexTop, isWordChar, isLower, isUpper, isDigit]⟩
    · exact ⟨.qmark, Or.inr (Or.inr rfl), fun toks => by simp [lexStep, lexAction, lexTop, isWordChar, isLower, isUpper, isDigit]⟩
  obtain ⟨t, ht, hlq⟩ := hqt
  obtain ⟨neg, rs, hrs, _⟩ := lex_classPlain body hp hne hcaret []
  -- the class token does not depend on the tokens already emitted
  have hcls : ∀ toks, lexRun true ⟨.top, toks⟩ ('[' :: body ++ [']']) = ⟨.top, .cls neg rs :: toks⟩ := by
    intro toks
    rename_i h0
    rw [lexRun_toks, h0]
    simp
  refine ⟨[t, .cls neg rs], fun toks => ?_, ⟨false, true, false, false⟩, fun N R E => ?_, rfl, rfl⟩
  · rw [List.append_assoc, lexRun_append, hcls]
    simpa using hlq (.cls neg rs :: toks)
  · have hrs' : rs.isEmpty = false := by cases rs <;> simp at hrs ⊢
    rcases ht with h | h | h <;> subst h <;>
      simp [cStep, cAction, cBody, cQuant, AFrame.push, AFrame.quant, afterWs, hrs']

end Octave.Gbnf
