/-
Helper lemmas about the derivation semantics (matcher) of `Spec/GbnfSyntax` and about the rule
bodies the builder assembles for literal and alternation-of-literals fragments.
-/
import Octave.Lemmas.Lines
set_option linter.unusedSimpArgs false
namespace Octave.Gbnf
open Octave

theorem dropPrefix?_eq_some : ∀ (p s r : Str), dropPrefix? p s = some r ↔ s = p ++ r := by
  intro p
  induction p with
  | nil => intro s r; simp [dropPrefix?, eq_comm]
  | cons a p ih =>
    intro s r
    cases s with
    | nil => simp [dropPrefix?]
    | cons b s =>
      simp only [dropPrefix?]
      by_cases h : a = b
      · subst h; simp [ih]
      · have : (a == b) = false := by simp [h]
        simp [this, Ne.symm h]

/-! ### unfolding the matcher one level -/

theorem mItem_lit (f : Nat) (g : List (Str × Alts)) (l s : Str) :
    mItem (f + 1) g (.lit l) s = (dropPrefix? l s).toList := by
  simp only [mItem]
  cases dropPrefix? l s <;> rfl
theorem mItem_group (f : Nat) (g : List (Str × Alts)) (a : Alts) (s : Str) :
    mItem (f + 1) g (.group a) s = mAlts f g a s := by simp [mItem]
theorem mItem_rep (f : Nat) (g : List (Str × Alts)) (i : Item) (mn : Nat) (mx : Option Nat) (s : Str) :
    mItem (f + 1) g (.rep i mn mx) s = mRep f g i mn mx s := by simp [mItem]
theorem mItem_cls_nil (f : Nat) (g : List (Str × Alts)) (neg : Bool) (rs : List (Char × Char)) :
    mItem (f + 1) g (.cls neg rs) [] = [] := by simp [mItem]
theorem mItem_cls_cons (f : Nat) (g : List (Str × Alts)) (neg : Bool) (rs : List (Char × Char)) (c : Char) (r : Str) :
    mItem (f + 1) g (.cls neg rs) (c :: r) = if clsHas neg rs c then [r] else [] := by simp [mItem]
theorem mSeq_nil (f : Nat) (g : List (Str × Alts)) (s : Str) : mSeq (f + 1) g [] s = [s] := by simp [mSeq]
theorem mSeq_cons (f : Nat) (g : List (Str × Alts)) (i : Item) (is : List Item) (s : Str) :
    mSeq (f + 1) g (i :: is) s = (mItem f g i s).flatMap fun r => mSeq f g is r := by simp [mSeq]
theorem mAlts_nil (f : Nat) (g : List (Str × Alts)) (s : Str) : mAlts (f + 1) g [] s = [] := by simp [mAlts]
theorem mAlts_cons (f : Nat) (g : List (Str × Alts)) (a : List Item) (as : Alts) (s : Str) :
    mAlts (f + 1) g (a :: as) s = mSeq f g a s ++ mAlts f g as s := by simp [mAlts]
theorem mItem_zero (g : List (Str × Alts)) (i : Item) (s : Str) : mItem 0 g i s = [] := by simp [mItem]
theorem mSeq_zero (g : List (Str × Alts)) (is : List Item) (s : Str) : mSeq 0 g is s = [] := by simp [mSeq]
theorem mAlts_zero (g : List (Str × Alts)) (a : Alts) (s : Str) : mAlts 0 g a s = [] := by simp [mAlts]
theorem mRep_zero (g : List (Str × Alts)) (i : Item) (mn : Nat) (mx : Option Nat) (s : Str) : mRep 0 g i mn mx s = [] := by
  simp [mRep]
theorem mRep_succ (f : Nat) (g : List (Str × Alts)) (i : Item) (mn : Nat) (mx : Option Nat) (s : Str) :
    mRep (f + 1) g i mn mx s = (if mn == 0 then [s] else []) ++
      (if mx == some 0 then []
       else (mItem f g i s).flatMap fun r =>
         if r.length < s.length || 0 < mn then mRep f g i (mn - 1) (mx.map (· - 1)) r else []) := by
  simp [mRep]

/-! ### an alternation of literals -/

theorem mAlts_lits (g : List (Str × Alts)) (vals : List Str) (s : Str) : ∀ f, vals.length + 3 ≤ f →
    mAlts f g (vals.map fun v => [Item.lit v]) s = vals.filterMap fun v => dropPrefix? v s := by
  induction vals with
  | nil =>
    intro f hf
    obtain ⟨f', rfl⟩ : ∃ f', f = f' + 1 := ⟨f - 1, by omega⟩
    simp [mAlts_nil]
  | cons v r ih =>
    intro f hf
    obtain ⟨f', rfl⟩ : ∃ f', f = f' + 3 := ⟨f - 3, by simp at hf; omega⟩
    simp only [List.map_cons, List.length_cons] at hf ⊢
    rw [show f' + 3 = (f' + 2) + 1 from rfl, mAlts_cons, ih (f' + 2) (by omega)]
    rw [show f' + 2 = (f' + 1) + 1 from rfl, mSeq_cons, show f' + 1 = f' + 1 from rfl, mItem_lit]
    cases h : dropPrefix? v s with
    | none => simp [List.filterMap_cons, h]
    | some x => simp [List.filterMap_cons, h, mSeq_nil]

theorem derives_lits (g : List (Str × Alts)) (vals : List Str) (s : Str) (f : Nat) (hf : vals.length + 3 ≤ f) :
    derivesAlts f g (vals.map fun v => [Item.lit v]) s = true ↔ s ∈ vals := by
  unfold derivesAlts
  rw [mAlts_lits g vals s f hf]
  simp only [List.contains_iff_mem, List.mem_filterMap, dropPrefix?_eq_some, List.append_nil]
  constructor
  · rintro ⟨v, hv, rfl⟩; exact hv
  · intro h; exact ⟨s, h, rfl⟩

/-- `( "a" | "b" | … )` as the whole body -/
theorem derives_group_lits (g : List (Str × Alts)) (vals : List Str) (s : Str) (f : Nat) (hf : vals.length + 6 ≤ f) :
    derivesAlts f g [[.group (vals.map fun v => [Item.lit v])]] s = true ↔ s ∈ vals := by
  obtain ⟨f', rfl⟩ : ∃ f', f = f' + 3 := ⟨f - 3, by omega⟩
  rw [← derives_lits g vals s f' (by omega)]
  unfold derivesAlts
  rw [show f' + 3 = (f' + 2) + 1 from rfl, mAlts_cons, show f' + 2 = (f' + 1) + 1 from rfl, mSeq_cons, mItem_group]
  obtain ⟨f'', rfl⟩ : ∃ f'', f' = f'' + 1 := ⟨f' - 1, by omega⟩
  simp [mAlts_nil, mSeq_nil]

/-! ### the rule body the builder assembles -/

def pRun (s : CState × Builder) (ts : List Tok) : CState × Builder := ts.foldl pStep s
@[simp] theorem pRun_nil (s : CState × Builder) : pRun s [] = s := rfl
@[simp] theorem pRun_cons (s : CState × Builder) (t : Tok) (r : List Tok) : pRun s (t :: r) = pRun (pStep s t) r := rfl
theorem pRun_append (s : CState × Builder) (a b : List Tok) : pRun s (a ++ b) = pRun (pRun s a) b := by
  simp [pRun, List.foldl_append]

theorem pRun_altLits (vals : List Str) (hne : vals ≠ []) : ∀ (S : List AFrame) (t : AFrame) (N R : List Str) (E : List Bool)
    (b : Builder) (A : Alts), t.hasEmpty = false → b.top = ⟨A, []⟩ →
    ∃ sym top', pRun (⟨.body S t .none, N, R, E⟩, b) (altToks .lit vals) =
        (⟨.body S ⟨false, sym, false, false⟩ .none, N, R, E⟩, { b with top := top' }) ∧
      top'.close = A.reverse ++ vals.map fun v => [Item.lit v] := by
  induction vals with
  | nil => exact absurd rfl hne
  | cons v r ih =>
    intro S t N R E b A ht hb
    cases r with
    | nil =>
      refine ⟨!v.isEmpty, ⟨A, [.lit v]⟩, ?_, by simp [BFrame.close]⟩
      simp [altToks, pStep, cStep, cAction, cBody, bStep, AFrame.push, Builder.push, hb, ht]
    | cons v2 r2 =>
      obtain ⟨sym, top', hrun, hclose⟩ := ih (by simp) S ⟨true, false, true, false⟩ N R E
        { b with top := ⟨[.lit v] :: A, []⟩ } ([.lit v] :: A) rfl rfl
      refine ⟨sym, top', ?_, by simpa using hclose⟩
      rw [altToks_cons_cons, pRun_cons, pRun_cons]
      have : pStep (pStep (⟨.body S t .none, N, R, E⟩, b) (.lit v)) .bar =
          (⟨.body S ⟨true, false, true, false⟩ .none, N, R, E⟩, { b with top := ⟨[.lit v] :: A, []⟩ }) := by
        simp [pStep, cStep, cAction, cBody, bStep, AFrame.push, Builder.push, hb, ht, AFrame.closeEmpty]
      rw [this, hrun]

end Octave.Gbnf
