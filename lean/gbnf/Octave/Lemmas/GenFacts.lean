/-
Characterising facts about the generated data that both property files (C12, C13) rely on, and the
closed form of `_escape_literal` that follows from them.  (Regenerated data live in `Octave/Gen/Gbnf.lean`;
when a template or table changes in the source, the corresponding fact stops being provable.)
-/
import Octave.Lemmas.Lines
import Octave.Lemmas.Strings
set_option linter.unusedSimpArgs false
namespace Octave.GenFacts
open Octave Octave.Gbnf

theorem gen_escapePairs :
    Gen.escapePairs = [("\\".toList, "\\\\".toList), ("\"".toList, "\\\"".toList)] := by decide

theorem gen_enumConst :
    Gen.enumQuoteTpl = [.lit "\"".toList, .var 0, .lit "\"".toList] ∧ Gen.enumJoiner = " | ".toList ∧
    Gen.enumWrapTpl = [.lit "(".toList, .var 0, .lit ")".toList] ∧
    Gen.constTpl = [.lit "\"".toList, .var 0, .lit "\"".toList] := by decide

/-- `_compile_const` spells booleans and null the OCTAVE way -/
theorem gen_constSpellings :
    Gen.constTrue = "true".toList ∧ Gen.constFalse = "false".toList ∧ Gen.constNull = "null".toList := by decide

theorem escapeLiteral_eq (v : Str) : escapeLiteral v = v.flatMap esc1 := by
  unfold escapeLiteral
  rw [gen_escapePairs]
  simp only [List.foldl_cons, List.foldl_nil]
  have e1 : "\\".toList = ['\\'] := by decide
  have e2 : "\"".toList = ['"'] := by decide
  rw [e1, e2, replaceAll_single, replaceAll_single, List.flatMap_assoc]
  congr 1
  funext c
  unfold esc1
  by_cases h1 : c = '\\'
  · subst h1; decide
  · by_cases h2 : c = '"'
    · subst h2; decide
    · simp [h1, h2]

end Octave.GenFacts
