/-
Helper lemmas about the GBNF lexer automaton (`Spec/GbnfSyntax`): compositionality, emitted tokens
are append-only, and what happens on names, literals, comments and character classes.
-/
import Octave.Spec.GbnfSyntax
set_option linter.unusedSimpArgs false
namespace Octave.Gbnf
open Octave

def lexRun (len : Bool) (s : LState) (text : Str) : LState := text.foldl (lexStep len) s

@[simp] theorem lexRun_nil (len : Bool) (s : LState) : lexRun len s [] = s := rfl
@[simp] theorem lexRun_cons (len : Bool) (s : LState) (c : Char) (r : Str) :
    lexRun len s (c :: r) = lexRun len (lexStep len s c) r := rfl
theorem lexRun_append (len : Bool) (s : LState) (a b : Str) :
    lexRun len s (a ++ b) = lexRun len (lexRun len s a) b := by
  simp [lexRun, List.foldl_append]

/-- the tokens already emitted are never looked at again -/
theorem lexRun_toks (len : Bool) (text : Str) : ∀ (m : LMode) (toks : List Tok),
    lexRun len ⟨m, toks⟩ text =
      ⟨(lexRun len ⟨m, []⟩ text).mode, (lexRun len ⟨m, []⟩ text).toks ++ toks⟩ := by
  induction text with
  | nil => intro m toks; simp
  | cons c r ih =>
    intro m toks
    simp only [lexRun_cons, lexStep]
    rw [ih (lexAction len m c).1 ((lexAction len m c).2 ++ toks), ih (lexAction len m c).1 ((lexAction len m c).2 ++ [])]
    simp

def LMode.isTop : LMode → Bool
  | .top => true
  | _ => false

/-- lexing a constant piece of text that starts and ends between tokens: the tokens (latest first) -/
def lexConst (len : Bool) (text : Str) : Option (List Tok) :=
  let r := lexRun len ⟨.top, []⟩ text
  if r.mode.isTop then some r.toks else none

theorem lexRun_of_lexConst {len : Bool} {text : Str} {ts : List Tok} (h : lexConst len text = some ts)
    (toks : List Tok) : lexRun len ⟨.top, toks⟩ text = ⟨.top, ts ++ toks⟩ := by
  unfold lexConst at h
  rw [lexRun_toks]
  cases hm : (lexRun len ⟨.top, []⟩ text).mode <;> simp [hm, LMode.isTop] at h
  subst h
  rfl

/-! ### names -/

theorem isWordChar_not_special (len : Bool) (c : Char) (h : isWordChar len c = true) :
    c ≠ ' ' ∧ c ≠ '\t' ∧ c ≠ '\n' ∧ c ≠ '\r' ∧ c ≠ '#' ∧ c ≠ '"' ∧ c ≠ '[' := by
  refine ⟨?_, ?_, ?_, ?_, ?_, ?_, ?_⟩ <;> (intro hc; subst hc; cases len <;> simp [isWordChar, isLower, isUpper, isDigit] at h)

theorem lexTop_word (len : Bool) (c : Char) (h : isWordChar len c = true) :
    lexTop len c = (.word [c], []) := by
  obtain ⟨h1, h2, h3, h4, h5, h6, h7⟩ := isWordChar_not_special len c h
  simp [lexTop, h1, h2, h3, h4, h5, h6, h7, h]

theorem lexRun_word (len : Bool) (r : Str) : ∀ (acc : Str) (toks : List Tok),
    (∀ c ∈ r, isWordChar len c = true) →
    lexRun len ⟨.word acc, toks⟩ r = ⟨.word (r.reverse ++ acc), toks⟩ := by
  induction r with
  | nil => intro acc toks _; simp
  | cons c r ih =>
    intro acc toks h
    have hc : isWordChar len c = true := h c (by simp)
    simp only [lexRun_cons, lexStep, lexAction, hc, if_true, List.nil_append]
    rw [ih (c :: acc) toks (fun d hd => h d (by simp [hd]))]
    simp

/-- a whole name read from between tokens leaves the lexer in `word` mode holding it -/
theorem lexRun_name (len : Bool) (r : Str) (toks : List Tok) (hne : r ≠ [])
    (h : ∀ c ∈ r, isWordChar len c = true) :
    lexRun len ⟨.top, toks⟩ r = ⟨.word r.reverse, toks⟩ := by
  cases r with
  | nil => exact absurd rfl hne
  | cons c r =>
    have hc : isWordChar len c = true := h c (by simp)
    simp only [lexRun_cons, lexStep, lexAction, lexTop_word len c hc, List.nil_append]
    rw [lexRun_word len r [c] toks (fun d hd => h d (by simp [hd]))]
    simp

/-! ### literals -/

/-- inside a literal, characters other than `"` and `\` stand for themselves (a newline included) -/
theorem lexRun_str_plain (len : Bool) (v : Str) : ∀ (acc : Str) (toks : List Tok),
    (∀ c ∈ v, c ≠ '"' ∧ c ≠ '\\') →
    lexRun len ⟨.str acc .none, toks⟩ v = ⟨.str (v.reverse ++ acc) .none, toks⟩ := by
  induction v with
  | nil => intro acc toks _; simp
  | cons c r ih =>
    intro acc toks h
    obtain ⟨h1, h2⟩ := h c (by simp)
    simp only [lexRun_cons, lexStep, lexAction, beq_iff_eq, h1, h2, if_false, List.nil_append]
    rw [ih (c :: acc) toks (fun d hd => h d (by simp [hd]))]
    simp

/-- the two-character spelling of `\` and `"` inside a GBNF literal -/
def esc1 (c : Char) : Str := if c = '\\' then ['\\', '\\'] else if c = '"' then ['\\', '"'] else [c]

theorem lexRun_str_esc (len : Bool) (v : Str) : ∀ (acc : Str) (toks : List Tok),
    lexRun len ⟨.str acc .none, toks⟩ (v.flatMap esc1) = ⟨.str (v.reverse ++ acc) .none, toks⟩ := by
  induction v with
  | nil => intro acc toks; simp
  | cons c r ih =>
    intro acc toks
    simp only [List.flatMap_cons, lexRun_append]
    have : lexRun len ⟨.str acc .none, toks⟩ (esc1 c) = ⟨.str (c :: acc) .none, toks⟩ := by
      unfold esc1
      by_cases h1 : c = '\\'
      · subst h1; simp [lexStep, lexAction, escStep]
      · by_cases h2 : c = '"'
        · subst h2; simp [lexStep, lexAction, escStep]
        · simp [h1, h2, lexStep, lexAction]
    rw [this, ih (c :: acc) toks]
    simp

/-! ### comments -/

theorem lexRun_comment (len : Bool) (t : Str) : ∀ (toks : List Tok),
    (∀ c ∈ t, c ≠ '\n' ∧ c ≠ '\r') → lexRun len ⟨.comment, toks⟩ t = ⟨.comment, toks⟩ := by
  induction t with
  | nil => intro toks _; simp
  | cons c r ih =>
    intro toks h
    obtain ⟨h1, h2⟩ := h c (by simp)
    have hcond : (c == '\n' || c == '\r') = false := by simp [h1, h2]
    simp only [lexRun_cons, lexStep, lexAction, hcond, Bool.false_eq_true, if_false, List.nil_append]
    exact ih toks (fun d hd => h d (by simp [hd]))

end Octave.Gbnf
