/-
Helper lemmas about the Python string helpers of `Model/Gbnf` (replace, strip, the collapse loop,
hexadecimal formatting): what they do on single-character patterns and which character
predicates they preserve.
-/
import Octave.Model.Gbnf
import Octave.Spec.GbnfSyntax
set_option linter.unusedSimpArgs false
namespace Octave.Gbnf
open Octave

/-! ### `replace` with a one-character pattern is a character-wise substitution -/

theorem replaceGo_single (c : Char) (new : Str) (s : Str) :
    replaceGo [c] new 0 s = s.flatMap (fun d => if d = c then new else [d]) := by
  induction s with
  | nil => simp [replaceGo]
  | cons d r ih =>
    by_cases h : d = c
    · subst h; simp [replaceGo, List.isPrefixOf, ih]
    · have h' : (c == d) = false := by simp [Ne.symm h]
      simp [replaceGo, List.isPrefixOf, ih, h, h']

theorem replaceAll_single (c : Char) (new : Str) (s : Str) :
    replaceAll [c] new s = s.flatMap (fun d => if d = c then new else [d]) := by
  simp [replaceAll, replaceGo_single]

/-! ### preservation of a character predicate -/

theorem replaceGo_forall (P : Char → Prop) (old new : Str) (hnew : ∀ c ∈ new, P c) (s : Str) :
    ∀ k, (∀ c ∈ s, P c) → ∀ c ∈ replaceGo old new k s, P c := by
  induction s with
  | nil => intro k _ c hc; simp [replaceGo] at hc
  | cons d r ih =>
    intro k hs c hc
    have hr : ∀ c ∈ r, P c := fun c h => hs c (by simp [h])
    cases k with
    | succ k => simp only [replaceGo] at hc; exact ih k hr c hc
    | zero =>
      simp only [replaceGo] at hc
      split at hc
      · rcases List.mem_append.mp hc with h | h
        · exact hnew c h
        · exact ih _ hr c h
      · rcases List.mem_cons.mp hc with h | h
        · subst h; exact hs c (by simp)
        · exact ih _ hr c h

theorem replaceAll_forall (P : Char → Prop) (old new s : Str) (hnew : ∀ c ∈ new, P c)
    (hs : ∀ c ∈ s, P c) : ∀ c ∈ replaceAll old new s, P c := by
  unfold replaceAll
  split
  · exact hs
  · exact replaceGo_forall P old new hnew s 0 hs

theorem stripChars_forall (P : Char → Prop) (set s : Str) (hs : ∀ c ∈ s, P c) :
    ∀ c ∈ stripChars set s, P c := by
  intro c hc
  unfold stripChars rstripChars lstripChars at hc
  have h1 := (List.dropWhile_sublist (fun x => set.contains x) (l := (List.dropWhile (fun x => set.contains x) s).reverse)).subset
    (List.mem_reverse.mp hc)
  exact hs c ((List.dropWhile_sublist _).subset (List.mem_reverse.mp h1))

theorem collapseLoop_forall (P : Char → Prop) (hto : ∀ c ∈ Gen.sanCollapseTo, P c) :
    ∀ (f : Nat) (s r : Str), (∀ c ∈ s, P c) → collapseLoop f s = some r → ∀ c ∈ r, P c := by
  intro f
  induction f with
  | zero =>
    intro s r hs h
    simp only [collapseLoop] at h
    split at h
    · cases h
    · cases h; exact hs
  | succ f ih =>
    intro s r hs h
    simp only [collapseLoop] at h
    split at h
    · exact ih _ r (replaceAll_forall P _ _ s hto hs) h
    · cases h; exact hs

/-! ### hexadecimal digits -/

theorem digitChar_word (d : Nat) (h : d < 16) : isWordChar true (Nat.digitChar d) = true := by
  have : ∀ k : Fin 16, isWordChar true (Nat.digitChar k.val) = true := by decide
  exact this ⟨d, h⟩

theorem toDigitsCore_forall (P : Char → Prop) (b : Nat) (hb : 0 < b) (hP : ∀ d, d < b → P (Nat.digitChar d)) :
    ∀ (fuel n : Nat) (acc : List Char), (∀ c ∈ acc, P c) → ∀ c ∈ Nat.toDigitsCore b fuel n acc, P c := by
  intro fuel
  induction fuel with
  | zero => intro n acc h c hc; simpa [Nat.toDigitsCore] using h c (by simpa [Nat.toDigitsCore] using hc)
  | succ f ih =>
    intro n acc h c hc
    simp only [Nat.toDigitsCore] at hc
    have hacc : ∀ c ∈ Nat.digitChar (n % b) :: acc, P c := by
      intro c hc
      rcases List.mem_cons.mp hc with h1 | h1
      · subst h1; exact hP _ (Nat.mod_lt _ hb)
      · exact h c h1
    split at hc
    · exact hacc c hc
    · exact ih _ _ hacc c hc

theorem toDigits_forall (P : Char → Prop) (b : Nat) (hb : 0 < b) (hP : ∀ d, d < b → P (Nat.digitChar d)) (n : Nat) :
    ∀ c ∈ Nat.toDigits b n, P c := by
  unfold Nat.toDigits
  exact toDigitsCore_forall P b hb hP _ _ _ (by simp)

theorem hexLower_word (n : Nat) : ∀ c ∈ hexLower n, isWordChar true c = true := by
  unfold hexLower
  exact toDigits_forall _ 16 (by decide) digitChar_word n

end Octave.Gbnf
