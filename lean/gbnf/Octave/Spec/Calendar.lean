/-
Spec: what the DATE constraint accepts on a *string* value — exactly ten ASCII characters
`YYYY-MM-DD` denoting a real date of the proleptic Gregorian calendar with year ≥ 1
(`re.match(r"^\d{4}-\d{2}-\d{2}$")` followed by `datetime.fromisoformat`), written from the
docstring of `DateConstraint`, independently of the GBNF compiler.
-/
import Octave.Model.GbnfBase
namespace Octave.Gbnf
open Octave

def digitVal (c : Char) : Nat := c.toNat - 48

def isLeap (y : Nat) : Bool := (y % 4 == 0 && y % 100 != 0) || y % 400 == 0

def daysInMonth (y m : Nat) : Nat :=
  if m == 2 then (if isLeap y then 29 else 28)
  else if m == 4 || m == 6 || m == 9 || m == 11 then 30
  else 31

/-- `YYYY-MM-DD`, a real calendar date -/
def validYMD (s : Str) : Bool :=
  match s with
  | [y1, y2, y3, y4, '-', m1, m2, '-', d1, d2] =>
    if isDigit y1 && isDigit y2 && isDigit y3 && isDigit y4 && isDigit m1 && isDigit m2 && isDigit d1 && isDigit d2 then
      let y := digitVal y1 * 1000 + digitVal y2 * 100 + digitVal y3 * 10 + digitVal y4
      let m := digitVal m1 * 10 + digitVal m2
      let d := digitVal d1 * 10 + digitVal d2
      1 ≤ y && 1 ≤ m && m ≤ 12 && 1 ≤ d && d ≤ daysInMonth y m
    else false
  | _ => false

end Octave.Gbnf
