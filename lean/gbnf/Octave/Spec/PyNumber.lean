/-
Spec: the language of the reader's NUMBER token pattern  `-?\d+\.?\d*(?:[eE][+-]?\d+)?`
(lexer.py TOKEN_PATTERNS) restricted to ASCII digits, as a full-match recogniser written directly
from the regular expression.  (`\d` also matches non-ASCII decimal digits; the recogniser is
therefore a *subset* of the real language, which is the direction C13 needs.)
-/
import Octave.Model.GbnfBase
namespace Octave.Gbnf
open Octave

def dropDigits (s : Str) : Str := s.dropWhile isDigit

/-- `[eE][+-]?\d+` then end of text -/
def pyExponentFull : Str → Bool
  | e :: r =>
    if e == 'e' || e == 'E' then
      let r1 := match r with
        | '+' :: t => t
        | '-' :: t => t
        | _ => r
      match r1 with
      | d :: _ => isDigit d && (dropDigits r1).isEmpty
      | [] => false
    else false
  | [] => false

/-- `\.?\d*(?:[eE][+-]?\d+)?` then end of text (what may follow the integer part) -/
def pyNumberTail (s : Str) : Bool :=
  let s3 := match s with
    | '.' :: r => r
    | _ => s
  let s4 := dropDigits s3
  s4.isEmpty || pyExponentFull s4

/-- full match of `-?\d+\.?\d*(?:[eE][+-]?\d+)?` -/
def pyNumberFull (s : Str) : Bool :=
  let s1 := match s with
    | '-' :: r => r
    | _ => s
  match s1 with
  | c :: _ => isDigit c && pyNumberTail (dropDigits s1)
  | [] => false

end Octave.Gbnf
