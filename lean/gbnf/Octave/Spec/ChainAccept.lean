/-
Spec: the reader + validator side of property C13, as far as the fragments characterised in `Props/C13.lean` need it.

`Props/C13.lean` takes `accepts : Str → Bool` ("`FIELD::t` is read without error and the field's chain accepts the value
read") as a parameter.  This file writes that parameter down as the composition of two specifications:

  * `readsAs env : Str → Option ReadVal` — the READING half, *in the terms the text engine proves*
    (`lean/text/Octave/Props/C13reader.lean`; the recognisers below are verbatim copies of the predicates those theorems use):
      - `true` / `false` → bool, `null` → null                         (`C13_boolean_read`, `C13_null_read`);
      - a full match of the NUMBER token pattern (`pyNumberFull`)       (`C13_number_read`, `C13_number_refused`):
          no `.`/`e`/`E` (`chainAccIsIntLexeme`) → the int `chainAccIntOfText s` (leading zeros ignored, `-0` is 0), REFUSED
          (`none`) beyond 4300 digits (CPython's `int_max_str_digits`, leading zeros counted) — finding C13N3;
          otherwise → the float `float(s)`, carried as its lexeme, REFUSED when `float(s)` is ±inf — finding C13N4;
      - a bare word (`chainAccBareWord` = `BareWord`: `[A-Za-z_][A-Za-z0-9_.-]*` not ending in `-`, no reserved word
        `true|false|null|vs` at its start) → the string itself            (`C13_bareword_read`);
      - `"…"` in the emitter's spelling (escapes `\\ \" \n \t`, nothing else escaped, no raw `"`, newline or tab inside)
        → the string with the escapes undone                              (`C13_scalar_read` on `FScalar.qstr`).
    `none` means "refused by the reader OR outside the classes the reader theorems cover" (e.g. `a,b`, `hello world`,
    `#tag`): `accepts` is then `false`, which is conservative — nothing is claimed about the real code there.
  * `chainOk env : ChainKind → ReadVal → Bool` — the CHAIN half: `Constraint.evaluate(value).valid` of
    `/repo/src/octave_mcp/core/constraints.py` on a scalar value, transcribed line by line (line numbers at each clause):
    CONST (l.149–165), ENUM (l.189–231), TYPE (l.252–308), REQ (l.101–117), OPT (l.131–133).

Python floats are not modelled: a float value is carried as the text it was read from / printed as, and the four
operations the two halves need are the fields of `ChainEnv` (like `Env` in the text engine).

Every clause was compared with the real code (`/venv/bin/python`, `octave_mcp.parse("===D===\nF::<t>\n===END===\n")` and
`XConstraint(...).evaluate(v).valid`) at the points named in the comments.
-/
import Octave.Model.Gbnf
import Octave.Spec.PyNumber
namespace Octave.Gbnf
open Octave

/-- what CPython's `float` does, as far as reader and chain look at it -/
structure ChainEnv where
  /-- `math.isinf(float(s))` for a NUMBER lexeme `s` (lexer refuses the lexeme: "Numeric literal out of range") -/
  floatInf : Str → Bool
  /-- `repr(float(s))` (= `str(float(s))`) for a NUMBER lexeme `s` -/
  floatRepr : Str → Str
  /-- `float(a) == float(b)` for two float texts -/
  floatEq : Str → Str → Bool
  /-- `i == float(b)` for an int and a float text -/
  intFloatEq : Int → Str → Bool

/-- the Python value the validator hands to the chain (`Validator._to_python_value` is the identity on scalars,
validator.py l.78–93).  A float is carried as the lexeme it was read from. -/
inductive ReadVal where
  | int (i : Int)
  | float (lexeme : Str)
  | bool (b : Bool)
  | null
  | str (s : Str)
  deriving DecidableEq, Repr

/-! ## reading -/

/-- `isIntLexeme` of C13reader: the lexer calls `int()` iff the lexeme has no `.`, `e`, `E` (lexer.py, NUMBER branch) -/
def chainAccIsIntLexeme (s : Str) : Bool := !(s.contains '.' || s.contains 'e' || s.contains 'E')

/-- `decVal` of C13reader: decimal value of a digit string -/
def chainAccDecVal : Str → Nat → Nat
  | [], acc => acc
  | c :: cs, acc => chainAccDecVal cs (acc * 10 + (c.toNat - 48))

/-- `intOfText` of C13reader: `int(s)` for `-?digits` (`-0` → 0, `007` → 7) -/
def chainAccIntOfText (s : Str) : Int :=
  match s with
  | '-' :: r => -((chainAccDecVal r 0 : Nat) : Int)
  | _ => ((chainAccDecVal s 0 : Nat) : Int)

/-- `digitCount` of C13reader: what CPython's 4300-digit limit counts -/
def chainAccDigitCount (s : Str) : Nat :=
  match s with
  | '-' :: r => r.length
  | _ => s.length

def chainAccIsAlpha (c : Char) : Bool := isUpper c || isLower c
def chainAccIsAlnum (c : Char) : Bool := chainAccIsAlpha c || isDigit c
def chainAccIdentStart (c : Char) : Bool := chainAccIsAlpha c || c == '_'
def chainAccIdentBody (c : Char) : Bool := chainAccIsAlnum c || c == '_' || c == '.' || c == '-'

/-- `isIdentifierText` (text engine, `Model/Emitter.lean`): `^[A-Za-z_][A-Za-z0-9_.\-]*(?<!-)\Z` -/
def chainAccIsIdentifierText (s : Str) : Bool :=
  match s with
  | c :: cs => chainAccIdentStart c && cs.all chainAccIdentBody && s.getLast? != some '-'
  | [] => false

def chainAccIsWord (c : Char) : Bool := chainAccIsAlnum c || c == '_'

/-- `reservedAt` (text engine): `s` starts with one of `true|false|null|vs` not followed by `[A-Za-z0-9_]` -/
def chainAccReservedAt (s : Str) : Bool :=
  ["true".toList, "false".toList, "null".toList, "vs".toList].any fun w =>
    w.isPrefixOf s && !((s.drop w.length).head?.map chainAccIsWord).getD false

def chainAccIsUnicodeOp (c : Char) : Bool :=
  c == '⊕' || c == '⧺' || c == '⇌' || c == '∧' || c == '∨' || c == '→' || c == '@'

/-- `reservedPrefixAux` (text engine): a reserved word right after one of the operator characters -/
def chainAccReservedPrefixAux : Str → Bool
  | [] => false
  | c :: cs => (chainAccIsUnicodeOp c && chainAccReservedAt cs) || chainAccReservedPrefixAux cs

/-- `hasReservedPrefix` (text engine) -/
def chainAccHasReservedPrefix (s : Str) : Bool := chainAccReservedAt s || chainAccReservedPrefixAux s

/-- `BareWord` of C13reader -/
def chainAccBareWord (s : Str) : Bool := chainAccIsIdentifierText s && !chainAccHasReservedPrefix s

/-- the inverse of the emitter's `escape` followed by the closing quote: the content of `body"`.
`none`: no closing quote, a raw `"` before the end, a raw newline / tab, or an escape other than `\\ \" \n \t`
(the real lexer keeps `\r`, `\q` … as two characters; those spellings are not covered by the reader theorems). -/
def chainAccUnquote : Str → Option Str
  | [] => none
  | ['"'] => some []
  | '"' :: _ => none
  | ['\\'] => none
  | '\\' :: c :: r =>
    if c == '\\' then (chainAccUnquote r).map ('\\' :: ·)
    else if c == '"' then (chainAccUnquote r).map ('"' :: ·)
    else if c == 'n' then (chainAccUnquote r).map ('\n' :: ·)
    else if c == 't' then (chainAccUnquote r).map ('\t' :: ·)
    else none
  | '\n' :: _ => none
  | '\t' :: _ => none
  | c :: r => (chainAccUnquote r).map (c :: ·)

/-- **the reading half**: the value `FIELD::s` is read as (`none`: refused, or not covered — see the header). -/
def readsAs (env : ChainEnv) (s : Str) : Option ReadVal :=
  if s == "true".toList then some (.bool true)
  else if s == "false".toList then some (.bool false)
  else if s == "null".toList then some .null
  else if pyNumberFull s then
    if chainAccIsIntLexeme s then
      if chainAccDigitCount s ≤ 4300 then some (.int (chainAccIntOfText s)) else none
    else if env.floatInf s then none else some (.float s)
  else if chainAccBareWord s then some (.str s)
  else match s with
    | '"' :: r => (chainAccUnquote r).map .str
    | _ => none

/-! ## the chain -/

/-- Python's `str(int)` -/
def chainAccNatStr (n : Nat) : Str := Nat.toDigits 10 n
def chainAccIntStr (i : Int) : Str := if i < 0 then '-' :: chainAccNatStr i.natAbs else chainAccNatStr i.natAbs

/-- `const_value` of a `ConstConstraint` (what `_parse_atom`, constraints.py l.885–929, can produce; a float is carried
as its `repr`) -/
inductive ChainConst where
  | bool (b : Bool)
  | none
  | int (i : Int)
  | float (repr : Str)
  | str (s : Str)
  deriving DecidableEq, Repr

/-- what `_compile_const` (gbnf_compiler.py l.402–408) sees: `isinstance(_, bool)`, `is None`, else `str(const_value)` -/
def ChainConst.toConstVal : ChainConst → ConstVal
  | .bool b => .bool b
  | .none => .null
  | .int i => .other (chainAccIntStr i)
  | .float r => .other r
  | .str s => .other s

/-- the constraints whose fragments C13 characterises -/
inductive ChainKind where
  | const (c : ChainConst)
  | enum (allowed : List Str)      -- `allowed_values`, already `str`-ed by `__post_init__` (l.185–187)
  | type (t : Str)
  | req
  | opt
  deriving DecidableEq, Repr

def chainAccBoolInt (b : Bool) : Int := if b then 1 else 0

/-- Python `value == const_value` on scalars: `bool` is an `int` (`True == 1`, `True == 1.0`), numbers compare by value
across int/float, a `str` equals only an equal `str`, `None` only `None`. -/
def chainAccPyEq (env : ChainEnv) : ReadVal → ChainConst → Bool
  | .null, .none => true
  | .str s, .str t => s == t
  | .int i, .int j => i == j
  | .int i, .bool b => i == chainAccBoolInt b
  | .int i, .float r => env.intFloatEq i r
  | .bool a, .bool b => a == b
  | .bool a, .int j => chainAccBoolInt a == j
  | .bool a, .float r => env.intFloatEq (chainAccBoolInt a) r
  | .float l, .float r => env.floatEq l r
  | .float l, .int j => env.intFloatEq j l
  | .float l, .bool b => env.intFloatEq (chainAccBoolInt b) l
  | _, _ => false

/-- Python `str(value)` (EnumConstraint.evaluate l.191): `str(True)` is `True`, `str(None)` is `None`, `str(7)` is `7`
for the value read from `007`. -/
def chainAccPyStr (env : ChainEnv) : ReadVal → Str
  | .int i => chainAccIntStr i
  | .float l => env.floatRepr l
  | .bool true => "True".toList
  | .bool false => "False".toList
  | .null => "None".toList
  | .str s => s

/-- **the chain half**: `constraint.evaluate(value).valid`. -/
def chainOk (env : ChainEnv) : ChainKind → ReadVal → Bool
  -- ConstConstraint.evaluate l.151: `if value != self.const_value: invalid`
  | .const c, v => chainAccPyEq env v c
  -- EnumConstraint.evaluate: l.191 `value_str = str(value)`; l.194 exact member → valid; l.198 `matches = [v for v in
  -- allowed if v.startswith(value_str)]`; l.200 none → E005; l.214 more than one → E006; l.231 exactly one → valid
  -- (duplicates count twice: ENUM[AB,AB] rejects `A`; the empty string is a prefix of everything)
  | .enum allowed, v =>
    let vs := chainAccPyStr env v
    allowed.contains vs || (allowed.filter fun a => vs.isPrefixOf a).length == 1
  -- TypeConstraint.evaluate: l.254–259 type_map; l.262 unknown type name → E999; l.278 NUMBER rejects bool;
  -- l.293 `isinstance(value, expected)`; LIST never holds of a scalar
  | .type t, v =>
    if t == "STRING".toList then (match v with | .str _ => true | _ => false)
    else if t == "NUMBER".toList then (match v with | .int _ => true | .float _ => true | _ => false)
    else if t == "BOOLEAN".toList then (match v with | .bool _ => true | _ => false)
    else false
  -- RequiredConstraint.evaluate l.103: `if value is None or value == "": invalid` (0, 0.0, False are present)
  | .req, v => (match v with | .null => false | .str s => !s.isEmpty | _ => true)
  -- OptionalConstraint.evaluate l.133
  | .opt, _ => true

/-- **`accepts`** of `Props/C13.lean`, spelled out: `FIELD::s` is read as some value and the constraint accepts it. -/
def chainAccepts (env : ChainEnv) (k : ChainKind) (s : Str) : Bool := (readsAs env s).any (chainOk env k)

/-- an environment for examples: finite floats only, `repr` is the identity, equality is textual. -/
def ChainEnv.plain : ChainEnv :=
  { floatInf := fun _ => false, floatRepr := fun s => s, floatEq := fun a b => a == b, intFloatEq := fun _ _ => false }

end Octave.Gbnf
