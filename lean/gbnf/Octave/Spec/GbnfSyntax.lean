/-
Spec: llama.cpp GBNF grammar syntax — an executable recogniser/parser written from the published
syntax (grammars/README.md of llama.cpp and the behaviour of its recursive-descent parser), the
well-formedness predicate of property C12, and a derivation semantics (matcher) for C13.

  grammar   := space(nl) rule* EOF
  rule      := name space(no-nl) "::=" space(nl) alternates ( newline | EOF ) space(nl)
  alternates:= sequence ( "|" space(nl) sequence )*
  sequence  := item*                 (inside parentheses newlines are skipped between items)
  item      := literal | class | name | "(" space(nl) alternates ")" | "."
             | ( "*" | "+" | "?" | "{" m "}" | "{" m "," "}" | "{" m "," n "}" )   -- needs a preceding symbol
  literal   := '"' … '"' with escapes  \n \r \t \\ \" \[ \]  \xHH \uHHHH \UHHHHHHHH ; any other
               character (a raw newline included) stands for itself; unknown escape = error
  class     := "[" "^"? ( char ( "-" char )? )* "]"   same escapes
  name      := [a-zA-Z0-9-]+          (flag `lenient`: "_" is also a name character)
  space     := blanks, tabs, "#" comments to end of line, and newlines where allowed

A rule body therefore continues over a newline only inside parentheses, after "|" and after "::=".

The recogniser is a two-stage *automaton*: a character-level lexer (`lexStep`, folded over the
text) producing tokens, and a token-level pushdown parser (`pStep`, folded over the tokens).  Both
are plain `List.foldl`s, so that `foldl_append` gives compositional reasoning for free.  (The
harness has a second, independently written character-level recursive-descent recogniser in
Python; the check requires the two to agree on every grammar string.)
-/
import Octave.Model.GbnfBase
namespace Octave.Gbnf
open Octave

/-! ## Lexer -/

inductive Tok where
  | name (s : Str)
  | define
  | lit (s : Str)
  | cls (neg : Bool) (rs : List (Char × Char))
  | lparen | rparen | bar | star | plus | qmark | dot | lbrace | rbrace | comma
  | nl
  deriving DecidableEq, Repr

/-- rule-name characters; llama.cpp: `[a-zA-Z0-9-]`; `lenient` also admits `_`. -/
def isWordChar (lenient : Bool) (c : Char) : Bool :=
  isLower c || isUpper c || isDigit c || c == '-' || (lenient && c == '_')

inductive Esc where
  | none
  | bs                          -- just read a backslash
  | hex (rem : Nat) (acc : Nat) -- `rem` hex digits still to read
  deriving DecidableEq, Repr

inductive EscOut where
  | more (e : Esc)
  | char (c : Char)
  | err

def hexVal (c : Char) : Option Nat :=
  if isDigit c then some (c.toNat - 48)
  else if 97 ≤ c.toNat && c.toNat ≤ 102 then some (c.toNat - 87)
  else if 65 ≤ c.toNat && c.toNat ≤ 70 then some (c.toNat - 55)
  else none

def escStep : Esc → Char → EscOut
  | .none, c => .char c
  | .bs, c =>
    if c == 'n' then .char '\n' else if c == 'r' then .char '\r' else if c == 't' then .char '\t'
    else if c == '\\' || c == '"' || c == '[' || c == ']' then .char c
    else if c == 'x' then .more (.hex 2 0) else if c == 'u' then .more (.hex 4 0)
    else if c == 'U' then .more (.hex 8 0) else .err
  | .hex 0 _, _ => .err
  | .hex (k + 1) acc, c =>
    match hexVal c with
    | none => .err
    | some d =>
      let v := acc * 16 + d
      if k == 0 then (if v ≤ 0x10FFFF then .char (Char.ofNat v) else .err) else .more (.hex k v)

inductive LMode where
  | top
  | word (acc : Str)                 -- reversed
  | colon1 | colon2                  -- read ":" / "::"
  | comment
  | str (acc : Str) (esc : Esc)      -- acc reversed
  | cls (start neg : Bool) (items : List (Char × Char)) (pend : Option Char) (dash : Bool) (esc : Esc)
  | fail
  deriving Repr

structure LState where
  mode : LMode
  toks : List Tok          -- reversed
  deriving Repr

/-- reading character `c` between tokens: (next mode, tokens emitted). -/
def lexTop (len : Bool) (c : Char) : LMode × List Tok :=
  if c == ' ' || c == '\t' then (.top, [])
  else if c == '\n' || c == '\r' then (.top, [.nl])
  else if c == '#' then (.comment, [])
  else if c == '"' then (.str [] .none, [])
  else if c == '[' then (.cls true false [] none false .none, [])
  else if isWordChar len c then (.word [c], [])
  else if c == ':' then (.colon1, [])
  else if c == '(' then (.top, [.lparen])
  else if c == ')' then (.top, [.rparen])
  else if c == '|' then (.top, [.bar])
  else if c == '*' then (.top, [.star])
  else if c == '+' then (.top, [.plus])
  else if c == '?' then (.top, [.qmark])
  else if c == '.' then (.top, [.dot])
  else if c == '{' then (.top, [.lbrace])
  else if c == '}' then (.top, [.rbrace])
  else if c == ',' then (.top, [.comma])
  else (.fail, [])

/-- a decoded character enters a class: `lo`, `lo-hi`. -/
def clsFeed (items : List (Char × Char)) (pend : Option Char) (dash : Bool) (c : Char) :
    List (Char × Char) × Option Char × Bool :=
  match pend, dash with
  | some p, true => ((p, c) :: items, none, false)
  | some p, false => ((p, p) :: items, some c, false)
  | none, _ => (items, some c, false)

def clsClose (items : List (Char × Char)) (pend : Option Char) (dash : Bool) : List (Char × Char) :=
  match pend, dash with
  | some p, true => (('-', '-') :: (p, p) :: items).reverse
  | some p, false => ((p, p) :: items).reverse
  | none, _ => items.reverse

/-- one character in mode `m`: (next mode, tokens emitted — latest first). -/
def lexAction (len : Bool) (m : LMode) (c : Char) : LMode × List Tok :=
  match m with
  | .fail => (.fail, [])
  | .top => lexTop len c
  | .word acc =>
    if isWordChar len c then (.word (c :: acc), [])
    else ((lexTop len c).1, (lexTop len c).2 ++ [.name acc.reverse])
  | .colon1 => if c == ':' then (.colon2, []) else (.fail, [])
  | .colon2 => if c == '=' then (.top, [.define]) else (.fail, [])
  | .comment => if c == '\n' || c == '\r' then (.top, [.nl]) else (.comment, [])
  | .str acc .none =>
    if c == '"' then (.top, [.lit acc.reverse])
    else if c == '\\' then (.str acc .bs, [])
    else (.str (c :: acc) .none, [])
  | .str acc e =>
    match escStep e c with
    | .more e' => (.str acc e', [])
    | .char d => (.str (d :: acc) .none, [])
    | .err => (.fail, [])
  | .cls start neg items pend dash .none =>
    if start && c == '^' then (.cls false true items pend dash .none, [])
    else if c == ']' then (.top, [.cls neg (clsClose items pend dash)])
    else if c == '\\' then (.cls false neg items pend dash .bs, [])
    else if c == '-' && pend.isSome && !dash then (.cls false neg items pend true .none, [])
    else
      let r := clsFeed items pend dash c
      (.cls false neg r.1 r.2.1 r.2.2 .none, [])
  | .cls _ neg items pend dash e =>
    match escStep e c with
    | .more e' => (.cls false neg items pend dash e', [])
    | .char d =>
      let r := clsFeed items pend dash d
      (.cls false neg r.1 r.2.1 r.2.2 .none, [])
    | .err => (.fail, [])

def lexStep (len : Bool) (s : LState) (c : Char) : LState :=
  ⟨(lexAction len s.mode c).1, (lexAction len s.mode c).2 ++ s.toks⟩

def lexInit : LState := ⟨.top, []⟩

def lexFinish (s : LState) : Option (List Tok) :=
  match s.mode with
  | .top => some s.toks.reverse
  | .comment => some s.toks.reverse
  | .word acc => some (.name acc.reverse :: s.toks).reverse
  | _ => none          -- unterminated literal / class, dangling ':' , illegal character

def lex (len : Bool) (text : Str) : Option (List Tok) :=
  lexFinish (text.foldl (lexStep len) lexInit)

/-! ## Parser (pushdown automaton over tokens)

The parser is split into a *control* automaton (`cStep`: which token sequences are accepted, which
rule names are defined and referenced, where an empty alternative occurs — it never looks at the
payload of a literal or class beyond "is it empty") and a *builder* (`bStep`) that runs alongside
and assembles the rule bodies used by the derivation semantics.  The builder never influences
acceptance. -/

inductive Item where
  | lit (s : Str)
  | cls (neg : Bool) (rs : List (Char × Char))
  | any
  | ref (n : Str)
  | group (alts : List (List Item))
  | rep (i : Item) (mn : Nat) (mx : Option Nat)

abbrev Alts := List (List Item)

/-- control view of one nesting level -/
structure AFrame where
  curEmpty : Bool          -- the current sequence has no item yet
  lastSym : Bool           -- there is a preceding symbol a quantifier may apply to
  nlOk : Bool              -- directly after "::=", "|" : newlines are skipped
  hasEmpty : Bool          -- an empty alternative was closed here (or inside a nested group)
  deriving DecidableEq, Repr

def AFrame.fresh : AFrame := ⟨true, false, true, false⟩
def AFrame.push (f : AFrame) (sym : Bool) : AFrame := ⟨false, sym, false, f.hasEmpty⟩
def AFrame.closeEmpty (f : AFrame) : Bool := f.hasEmpty || f.curEmpty
/-- apply a repetition to the last item (`mx0`: the maximum is 0, the item is erased). -/
def AFrame.quant (f : AFrame) (mx0 : Bool) : Option AFrame :=
  if f.lastSym && !f.curEmpty then some ⟨false, !mx0, false, f.hasEmpty⟩ else none

inductive Brace where
  | none | opened | min (m : Nat) | comma (m : Nat) | max (m n : Nat)
  deriving DecidableEq, Repr

inductive CMode where
  | idle
  | gotName (n : Str)
  | body (stack : List AFrame) (top : AFrame) (br : Brace)
  | fail
  deriving DecidableEq, Repr

structure CState where
  mode : CMode
  names : List Str            -- reversed: names of the rules whose definition has started
  refs : List Str             -- reversed, with repetitions
  empties : List Bool         -- reversed: for every *finished* rule, does it contain an empty alternative
  deriving DecidableEq, Repr

def natOfDigitsAux : Str → Nat → Option Nat
  | [], acc => some acc
  | c :: r, acc => if isDigit c then natOfDigitsAux r (acc * 10 + (c.toNat - 48)) else none

def natOfDigits (s : Str) : Option Nat := if s.isEmpty then none else natOfDigitsAux s 0

/-- what one control step adds to the three lists of the state -/
structure CEmit where
  names : List Str := []
  refs : List Str := []
  empties : List Bool := []
  deriving DecidableEq, Repr

def cEndRule (top : AFrame) : CMode × CEmit := (.idle, { empties := [top.closeEmpty] })

def cQuant (stack : List AFrame) (top : AFrame) (mx0 : Bool) : CMode × CEmit :=
  match top.quant mx0 with
  | some t => (.body stack t .none, {})
  | none => (.fail, {})

def cBody (stack : List AFrame) (top : AFrame) : Tok → CMode × CEmit
  | .lit l => (.body stack (top.push (!l.isEmpty)) .none, {})
  | .cls _ rs => (.body stack (top.push (!rs.isEmpty)) .none, {})
  | .name r => (.body stack (top.push true) .none, { refs := [r] })
  | .dot => (.body stack (top.push true) .none, {})
  | .lparen => (.body (top :: stack) AFrame.fresh .none, {})
  | .rparen =>
    match stack with
    | [] => (.fail, {})
    | parent :: rest => (.body rest ⟨false, true, false, parent.hasEmpty || top.closeEmpty⟩ .none, {})
  | .bar => (.body stack ⟨true, false, true, top.closeEmpty⟩ .none, {})
  | .star => cQuant stack top false
  | .plus => cQuant stack top false
  | .qmark => cQuant stack top false
  | .lbrace => if top.lastSym && !top.curEmpty then (.body stack top .opened, {}) else (.fail, {})
  | .nl =>
    if !stack.isEmpty || top.nlOk then (.body stack top .none, {})   -- nested, or directly after "::=" / "|"
    else cEndRule top
  | .define => (.fail, {})
  | .rbrace => (.fail, {})
  | .comma => (.fail, {})

def cBrace (stack : List AFrame) (top : AFrame) (br : Brace) (t : Tok) : CMode × CEmit :=
  match br, t with
  | _, .nl => if !stack.isEmpty then (.body stack top br, {}) else (.fail, {})
  | .opened, .name d => match natOfDigits d with
    | some m => (.body stack top (.min m), {})
    | none => (.fail, {})
  | .min m, .rbrace => cQuant stack top (m == 0)
  | .min m, .comma => (.body stack top (.comma m), {})
  | .comma _, .rbrace => cQuant stack top false
  | .comma m, .name d => match natOfDigits d with
    | some k => (.body stack top (.max m k), {})
    | none => (.fail, {})
  | .max m k, .rbrace => if k < m then (.fail, {}) else cQuant stack top (k == 0)
  | _, _ => (.fail, {})

/-- one token in control mode `m`: (next mode, what is recorded).  The name of a rule is recorded
when its `::=` is read; whether it has an empty alternative when it ends. -/
def cAction (m : CMode) (t : Tok) : CMode × CEmit :=
  match m with
  | .fail => (.fail, {})
  | .idle =>
    match t with
    | .nl => (.idle, {})
    | .name n => (.gotName n, {})
    | _ => (.fail, {})
  | .gotName n =>
    match t with
    | .define => (.body [] AFrame.fresh .none, { names := [n] })
    | _ => (.fail, {})
  | .body stack top .none => cBody stack top t
  | .body stack top br => cBrace stack top br t

def cStep (s : CState) (t : Tok) : CState :=
  let a := cAction s.mode t
  ⟨a.1, a.2.names ++ s.names, a.2.refs ++ s.refs, a.2.empties ++ s.empties⟩

def cInit : CState := ⟨.idle, [], [], []⟩

/-- end of input: a rule body may end without a newline -/
def cFinish (s : CState) : Option CState :=
  match s.mode with
  | .idle => some s
  | .body [] top .none => some ⟨.idle, s.names, s.refs, top.closeEmpty :: s.empties⟩
  | _ => none

/-! ### builder -/

structure BFrame where
  alts : Alts              -- completed alternatives, reversed
  cur : List Item          -- current sequence, reversed

def BFrame.close (f : BFrame) : Alts := (f.cur.reverse :: f.alts).reverse

structure Builder where
  rules : List (Str × Alts)   -- reversed
  name : Str                  -- the rule being defined
  stack : List BFrame
  top : BFrame

def Builder.push (b : Builder) (i : Item) : Builder := { b with top := { b.top with cur := i :: b.top.cur } }

def Builder.quant (b : Builder) (mn : Nat) (mx : Option Nat) : Builder :=
  match b.top.cur with
  | i :: r => { b with top := { b.top with cur := .rep i mn mx :: r } }
  | [] => b

def Builder.endRule (b : Builder) : Builder :=
  { b with rules := (b.name, b.top.close) :: b.rules, stack := [], top := ⟨[], []⟩ }

/-- what the builder does with token `t` when the control automaton is in state `c` (before the step). -/
def bStep (c : CState) (b : Builder) (t : Tok) : Builder :=
  match c.mode with
  | .gotName n => { b with name := n, stack := [], top := ⟨[], []⟩ }
  | .body stack top .none =>
    match t with
    | .lit l => b.push (.lit l)
    | .cls neg rs => b.push (.cls neg rs)
    | .name r => b.push (.ref r)
    | .dot => b.push .any
    | .lparen => { b with stack := b.top :: b.stack, top := ⟨[], []⟩ }
    | .rparen =>
      match b.stack with
      | p :: rest => { b with stack := rest, top := { p with cur := .group b.top.close :: p.cur } }
      | [] => b
    | .bar => { b with top := ⟨b.top.cur.reverse :: b.top.alts, []⟩ }
    | .star => b.quant 0 none
    | .plus => b.quant 1 none
    | .qmark => b.quant 0 (some 1)
    | .nl => if stack.isEmpty && !top.nlOk then b.endRule else b
    | _ => b
  | .body _ _ br =>
    match br, t with
    | .min m, .rbrace => b.quant m (some m)
    | .comma m, .rbrace => b.quant m none
    | .max m k, .rbrace => b.quant m (some k)
    | _, _ => b
  | _ => b

def bInit : Builder := ⟨[], [], [], ⟨[], []⟩⟩

def pStep (s : CState × Builder) (t : Tok) : CState × Builder := (cStep s.1 t, bStep s.1 s.2 t)

/-- A parsed grammar: names of the defined rules in definition order, every referenced name (with
repetitions, in order of occurrence), the rules that contain an empty alternative, and the rule
table (name, body) used by the derivation semantics. -/
structure Grammar where
  defined : List Str
  refs : List Str
  emptyAlts : List Str
  rules : List (Str × Alts)

def pFinish (s : CState × Builder) : Option Grammar :=
  match cFinish s.1 with
  | none => none
  | some c =>
    let b := match s.1.mode with
      | .body _ _ _ => s.2.endRule
      | _ => s.2
    let defined := c.names.reverse
    some ⟨defined, c.refs.reverse, ((defined.zip c.empties.reverse).filter (·.2)).map (·.1), b.rules.reverse⟩

def parseToks (toks : List Tok) : Option Grammar := pFinish (toks.foldl pStep (cInit, bInit))

def parse (len : Bool) (text : Str) : Option Grammar :=
  match lex len text with
  | some toks => parseToks toks
  | none => none

/-! ## Well-formedness (property C12) -/

def rootName : Str := "root".toList

/-- *Well-formed GBNF*: parses; `root` is defined; every referenced rule is defined; no rule is
defined twice; no empty alternative.  (Unterminated literal / class = parse failure.) -/
def WellFormed (len : Bool) (text : Str) : Prop :=
  ∃ g, parse len text = some g ∧ rootName ∈ g.defined ∧ (∀ r ∈ g.refs, r ∈ g.defined) ∧
    g.defined.Nodup ∧ g.emptyAlts = []

/-- executable report, compared with the independent Python recogniser by the harness. -/
structure Report where
  defined : List Str
  refs : List Str
  duplicates : List Str
  undefined : List Str
  emptyAlts : List Str
  root : Bool

def dupsOf : List Str → List Str
  | [] => []
  | n :: r => if r.contains n then n :: dupsOf r else dupsOf r

def Grammar.report (g : Grammar) : Report :=
  { defined := g.defined, refs := g.refs.eraseDups, duplicates := (dupsOf g.defined).eraseDups,
    undefined := (g.refs.filter fun r => !g.defined.contains r).eraseDups,
    emptyAlts := g.emptyAlts, root := g.defined.contains rootName }

def Grammar.wellFormedB (g : Grammar) : Bool :=
  g.defined.contains rootName && g.refs.all (fun r => g.defined.contains r) &&
    (dupsOf g.defined).isEmpty && g.emptyAlts.isEmpty

def wellFormedB (len : Bool) (text : Str) : Bool :=
  match parse len text with
  | some g => g.wellFormedB
  | none => false

/-! ## Derivation semantics (matcher), used by C13 -/

def lookupRule (n : Str) : List (Str × Alts) → Option Alts
  | [] => none
  | (m, a) :: r => if m == n then some a else lookupRule n r

def clsHas (neg : Bool) (rs : List (Char × Char)) (c : Char) : Bool :=
  (rs.any fun p => p.1.toNat ≤ c.toNat && c.toNat ≤ p.2.toNat) != neg

/- `mAlts fuel g alts s`: the list of remainders `r` such that some prefix `p` of `s = p ++ r` is
derivable from `alts` (derivation depth bounded by `fuel`). -/
mutual
def mItem : Nat → List (Str × Alts) → Item → Str → List Str
  | 0, _, _, _ => []
  | f + 1, g, it, s =>
    match it with
    | .lit l => match dropPrefix? l s with
      | some r => [r]
      | none => []
    | .cls neg rs => match s with
      | c :: r => if clsHas neg rs c then [r] else []
      | [] => []
    | .any => match s with
      | _ :: r => [r]
      | [] => []
    | .ref n => match lookupRule n g with
      | some a => mAlts f g a s
      | none => []
    | .group a => mAlts f g a s
    | .rep i mn mx => mRep f g i mn mx s
def mSeq : Nat → List (Str × Alts) → List Item → Str → List Str
  | 0, _, _, _ => []
  | f + 1, g, items, s =>
    match items with
    | [] => [s]
    | i :: is => (mItem f g i s).flatMap fun r => mSeq f g is r
def mAlts : Nat → List (Str × Alts) → Alts → Str → List Str
  | 0, _, _, _ => []
  | f + 1, g, alts, s =>
    match alts with
    | [] => []
    | a :: as => mSeq f g a s ++ mAlts f g as s
def mRep : Nat → List (Str × Alts) → Item → Nat → Option Nat → Str → List Str
  | 0, _, _, _, _, _ => []
  | f + 1, g, i, mn, mx, s =>
    (if mn == 0 then [s] else []) ++
    (if mx == some 0 then []
     else (mItem f g i s).flatMap fun r =>
       if r.length < s.length || 0 < mn then mRep f g i (mn - 1) (mx.map (· - 1)) r else [])
end

/-- `s` is derivable from `alts` within `fuel`. -/
def derivesAlts (fuel : Nat) (g : List (Str × Alts)) (alts : Alts) (s : Str) : Bool :=
  (mAlts fuel g alts s).contains []

/-- parse a rule *fragment* (the text to the right of `::=`) on its own. -/
def parseFragment (len : Bool) (frag : Str) : Option Alts :=
  match parse len ("x ::= ".toList ++ frag) with
  | some g => match g.rules with
    | [(_, a)] => some a
    | _ => none
  | none => none

end Octave.Gbnf
