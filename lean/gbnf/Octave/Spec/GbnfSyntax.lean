/-
Spec: llama.cpp GBNF grammar syntax — an executable recogniser/parser written from the published
syntax (grammars/README.md of llama.cpp and the behaviour of its recursive-descent parser), the
well-formedness predicate of property C12, and a derivation semantics (matcher) for C13.

  grammar   := space(nl) rule* EOF
  rule      := name space(no-nl) "::=" space(nl) alternates ( newline | EOF ) space(nl)
  alternates:= sequence ( "|" space(nl) sequence )*
  sequence  := item*                 (inside parentheses newlines are skipped between items)
  item      := literal | class | name | "(" space(nl) alternates ")" | "."
             | ( "*" | "+" | "?" | "{" m "}" | "{" m "," "}" | "{" m "," n "}" )   -- needs a preceding symbol
  literal   := '"' … '"' with escapes  \n \r \t \\ \" \[ \]  \xHH \uHHHH \UHHHHHHHH ; any other
               character (a raw newline included) stands for itself; unknown escape = error
  class     := "[" "^"? ( char ( "-" char )? )* "]"   same escapes
  name      := [a-zA-Z0-9-]+          (flag `lenient`: "_" is also a name character)
  space     := blanks, tabs, "#" comments to end of line, and newlines where allowed

A rule body therefore continues over a newline only inside parentheses, after "|" and after "::=".

The recogniser is a two-stage *automaton*: a character-level lexer (`lexStep`, folded over the
text) producing tokens, and a token-level pushdown parser (`pStep`, folded over the tokens).  Both
are plain `List.foldl`s, so that `foldl_append` gives compositional reasoning for free.  (The
harness has a second, independently written character-level recursive-descent recogniser in
Python; the check requires the two to agree on every grammar string.)
-/
import Octave.Model.GbnfBase
namespace Octave.Gbnf
open Octave

/-! ## Lexer -/

inductive Tok where
  | name (s : Str)
  | define
  | lit (s : Str)
  | cls (neg : Bool) (rs : List (Char × Char))
  | lparen | rparen | bar | star | plus | qmark | dot | lbrace | rbrace | comma
  | nl
  deriving DecidableEq, Repr

/-- rule-name characters; llama.cpp: `[a-zA-Z0-9-]`; `lenient` also admits `_`. -/
def isWordChar (lenient : Bool) (c : Char) : Bool :=
  isLower c || isUpper c || isDigit c || c == '-' || (lenient && c == '_')

inductive Esc where
  | none
  | bs                          -- just read a backslash
  | hex (rem : Nat) (acc : Nat) -- `rem` hex digits still to read
  deriving DecidableEq, Repr

inductive EscOut where
  | more (e : Esc)
  | char (c : Char)
  | err

def hexVal (c : Char) : Option Nat :=
  if isDigit c then some (c.toNat - 48)
  else if 97 ≤ c.toNat && c.toNat ≤ 102 then some (c.toNat - 87)
  else if 65 ≤ c.toNat && c.toNat ≤ 70 then some (c.toNat - 55)
  else none

def escStep : Esc → Char → EscOut
  | .none, c => .char c
  | .bs, c =>
    if c == 'n' then .char '\n' else if c == 'r' then .char '\r' else if c == 't' then .char '\t'
    else if c == '\\' || c == '"' || c == '[' || c == ']' then .char c
    else if c == 'x' then .more (.hex 2 0) else if c == 'u' then .more (.hex 4 0)
    else if c == 'U' then .more (.hex 8 0) else .err
  | .hex 0 _, _ => .err
  | .hex (k + 1) acc, c =>
    match hexVal c with
    | none => .err
    | some d =>
      let v := acc * 16 + d
      if k == 0 then (if v ≤ 0x10FFFF then .char (Char.ofNat v) else .err) else .more (.hex k v)

inductive LMode where
  | top
  | word (acc : Str)                 -- reversed
  | colon1 | colon2                  -- read ":" / "::"
  | comment
  | str (acc : Str) (esc : Esc)      -- acc reversed
  | cls (start neg : Bool) (items : List (Char × Char)) (pend : Option Char) (dash : Bool) (esc : Esc)
  | fail
  deriving Repr

structure LState where
  mode : LMode
  toks : List Tok          -- reversed
  deriving Repr

def lexTop (len : Bool) (toks : List Tok) (c : Char) : LState :=
  if c == ' ' || c == '\t' then ⟨.top, toks⟩
  else if c == '\n' || c == '\r' then ⟨.top, .nl :: toks⟩
  else if c == '#' then ⟨.comment, toks⟩
  else if c == '"' then ⟨.str [] .none, toks⟩
  else if c == '[' then ⟨.cls true false [] none false .none, toks⟩
  else if isWordChar len c then ⟨.word [c], toks⟩
  else if c == ':' then ⟨.colon1, toks⟩
  else if c == '(' then ⟨.top, .lparen :: toks⟩
  else if c == ')' then ⟨.top, .rparen :: toks⟩
  else if c == '|' then ⟨.top, .bar :: toks⟩
  else if c == '*' then ⟨.top, .star :: toks⟩
  else if c == '+' then ⟨.top, .plus :: toks⟩
  else if c == '?' then ⟨.top, .qmark :: toks⟩
  else if c == '.' then ⟨.top, .dot :: toks⟩
  else if c == '{' then ⟨.top, .lbrace :: toks⟩
  else if c == '}' then ⟨.top, .rbrace :: toks⟩
  else if c == ',' then ⟨.top, .comma :: toks⟩
  else ⟨.fail, toks⟩

/-- a decoded character enters a class: `lo`, `lo-hi`. -/
def clsFeed (items : List (Char × Char)) (pend : Option Char) (dash : Bool) (c : Char) :
    List (Char × Char) × Option Char × Bool :=
  match pend, dash with
  | some p, true => ((p, c) :: items, none, false)
  | some p, false => ((p, p) :: items, some c, false)
  | none, _ => (items, some c, false)

def clsClose (items : List (Char × Char)) (pend : Option Char) (dash : Bool) : List (Char × Char) :=
  match pend, dash with
  | some p, true => (('-', '-') :: (p, p) :: items).reverse
  | some p, false => ((p, p) :: items).reverse
  | none, _ => items.reverse

def lexStep (len : Bool) (s : LState) (c : Char) : LState :=
  match s.mode with
  | .fail => s
  | .top => lexTop len s.toks c
  | .word acc =>
    if isWordChar len c then ⟨.word (c :: acc), s.toks⟩ else lexTop len (.name acc.reverse :: s.toks) c
  | .colon1 => if c == ':' then ⟨.colon2, s.toks⟩ else ⟨.fail, s.toks⟩
  | .colon2 => if c == '=' then ⟨.top, .define :: s.toks⟩ else ⟨.fail, s.toks⟩
  | .comment => if c == '\n' || c == '\r' then ⟨.top, .nl :: s.toks⟩ else s
  | .str acc .none =>
    if c == '"' then ⟨.top, .lit acc.reverse :: s.toks⟩
    else if c == '\\' then ⟨.str acc .bs, s.toks⟩
    else ⟨.str (c :: acc) .none, s.toks⟩
  | .str acc e =>
    match escStep e c with
    | .more e' => ⟨.str acc e', s.toks⟩
    | .char d => ⟨.str (d :: acc) .none, s.toks⟩
    | .err => ⟨.fail, s.toks⟩
  | .cls start neg items pend dash .none =>
    if start && c == '^' then ⟨.cls false true items pend dash .none, s.toks⟩
    else if c == ']' then ⟨.top, .cls neg (clsClose items pend dash) :: s.toks⟩
    else if c == '\\' then ⟨.cls false neg items pend dash .bs, s.toks⟩
    else if c == '-' && pend.isSome && !dash then ⟨.cls false neg items pend true .none, s.toks⟩
    else
      let r := clsFeed items pend dash c
      ⟨.cls false neg r.1 r.2.1 r.2.2 .none, s.toks⟩
  | .cls _ neg items pend dash e =>
    match escStep e c with
    | .more e' => ⟨.cls false neg items pend dash e', s.toks⟩
    | .char d =>
      let r := clsFeed items pend dash d
      ⟨.cls false neg r.1 r.2.1 r.2.2 .none, s.toks⟩
    | .err => ⟨.fail, s.toks⟩

def lexInit : LState := ⟨.top, []⟩

def lexFinish (s : LState) : Option (List Tok) :=
  match s.mode with
  | .top => some s.toks.reverse
  | .comment => some s.toks.reverse
  | .word acc => some (.name acc.reverse :: s.toks).reverse
  | _ => none          -- unterminated literal / class, dangling ':' , illegal character

def lex (len : Bool) (text : Str) : Option (List Tok) :=
  lexFinish (text.foldl (lexStep len) lexInit)

/-! ## Parser (pushdown automaton over tokens) -/

inductive Item where
  | lit (s : Str)
  | cls (neg : Bool) (rs : List (Char × Char))
  | any
  | ref (n : Str)
  | group (alts : List (List Item))
  | rep (i : Item) (mn : Nat) (mx : Option Nat)

abbrev Alts := List (List Item)

structure Frame where
  alts : Alts              -- completed alternatives, reversed
  cur : List Item          -- current sequence, reversed
  lastSym : Bool           -- is there a preceding symbol a quantifier may apply to?
  nlOk : Bool              -- directly after "::=" or "|": newlines are skipped
  hasEmpty : Bool          -- an empty alternative was closed here (or inside a nested group)

def Frame.fresh : Frame := ⟨[], [], false, true, false⟩

def Frame.push (f : Frame) (i : Item) (sym : Bool) : Frame :=
  { f with cur := i :: f.cur, lastSym := sym, nlOk := false }

def Frame.closeAlts (f : Frame) : Alts := (f.cur.reverse :: f.alts).reverse
def Frame.closeEmpty (f : Frame) : Bool := f.hasEmpty || f.cur.isEmpty

/-- apply a repetition to the last item of the current sequence. -/
def Frame.quant (f : Frame) (mn : Nat) (mx : Option Nat) : Option Frame :=
  if f.lastSym then
    match f.cur with
    | i :: r => some { f with cur := .rep i mn mx :: r, lastSym := mx != some 0, nlOk := false }
    | [] => none
  else none

inductive Brace where
  | none | opened | min (m : Nat) | comma (m : Nat) | max (m n : Nat)
  deriving DecidableEq, Repr

inductive PMode where
  | idle
  | gotName (n : Str)
  | body (n : Str) (stack : List Frame) (top : Frame) (br : Brace)
  | fail

structure PState where
  mode : PMode
  rules : List (Str × Alts)   -- reversed
  refs : List Str             -- reversed, with repetitions
  emptyAlts : List Str        -- reversed: rules containing an empty alternative

def natOfDigitsAux : Str → Nat → Option Nat
  | [], acc => some acc
  | c :: r, acc => if isDigit c then natOfDigitsAux r (acc * 10 + (c.toNat - 48)) else none

def natOfDigits (s : Str) : Option Nat := if s.isEmpty then none else natOfDigitsAux s 0

def PState.failed (s : PState) : PState := { s with mode := .fail }

def endRule (s : PState) (n : Str) (top : Frame) : PState :=
  { s with mode := .idle, rules := (n, top.closeAlts) :: s.rules,
           emptyAlts := if top.closeEmpty then n :: s.emptyAlts else s.emptyAlts }

def pBody (s : PState) (n : Str) (stack : List Frame) (top : Frame) : Tok → PState
  | .lit l => { s with mode := .body n stack (top.push (.lit l) (!l.isEmpty)) .none }
  | .cls neg rs => { s with mode := .body n stack (top.push (.cls neg rs) (!rs.isEmpty)) .none }
  | .name r => { s with mode := .body n stack (top.push (.ref r) true) .none, refs := r :: s.refs }
  | .dot => { s with mode := .body n stack (top.push .any true) .none }
  | .lparen => { s with mode := .body n (top :: stack) Frame.fresh .none }
  | .rparen =>
    match stack with
    | [] => s.failed
    | parent :: rest =>
      let p := parent.push (.group top.closeAlts) true
      let p' : Frame := { p with hasEmpty := p.hasEmpty || top.closeEmpty }
      { s with mode := .body n rest p' .none }
  | .bar =>
    let t' : Frame := { alts := top.cur.reverse :: top.alts, cur := [], lastSym := false, nlOk := true,
                        hasEmpty := top.closeEmpty }
    { s with mode := .body n stack t' .none }
  | .star => match top.quant 0 none with
    | some t => { s with mode := .body n stack t .none } | none => s.failed
  | .plus => match top.quant 1 none with
    | some t => { s with mode := .body n stack t .none } | none => s.failed
  | .qmark => match top.quant 0 (some 1) with
    | some t => { s with mode := .body n stack t .none } | none => s.failed
  | .lbrace => if top.lastSym then { s with mode := .body n stack top .opened } else s.failed
  | .nl =>
    if !stack.isEmpty || top.nlOk then s      -- nested, or directly after "::=" / "|"
    else endRule s n top
  | .define => s.failed
  | .rbrace => s.failed
  | .comma => s.failed

def pBrace (s : PState) (n : Str) (stack : List Frame) (top : Frame) (br : Brace) (t : Tok) : PState :=
  let apply (mn : Nat) (mx : Option Nat) : PState :=
    match top.quant mn mx with
    | some t' => { s with mode := .body n stack t' .none }
    | none => s.failed
  match br, t with
  | _, .nl => if !stack.isEmpty then s else s.failed
  | .opened, .name d => match natOfDigits d with
    | some m => { s with mode := .body n stack top (.min m) } | none => s.failed
  | .min m, .rbrace => apply m (some m)
  | .min m, .comma => { s with mode := .body n stack top (.comma m) }
  | .comma m, .rbrace => apply m none
  | .comma m, .name d => match natOfDigits d with
    | some k => { s with mode := .body n stack top (.max m k) } | none => s.failed
  | .max m k, .rbrace => if k < m then s.failed else apply m (some k)
  | _, _ => s.failed

def pStep (s : PState) (t : Tok) : PState :=
  match s.mode with
  | .fail => s
  | .idle =>
    match t with
    | .nl => s
    | .name n => { s with mode := .gotName n }
    | _ => s.failed
  | .gotName n =>
    match t with
    | .define => { s with mode := .body n [] Frame.fresh .none }
    | _ => s.failed
  | .body n stack top .none => pBody s n stack top t
  | .body n stack top br => pBrace s n stack top br t

def pInit : PState := ⟨.idle, [], [], []⟩

/-- A parsed grammar: rule table in definition order, every referenced name (with repetitions, in
order of occurrence), and the rules that contain an empty alternative. -/
structure Grammar where
  rules : List (Str × Alts)
  refs : List Str
  emptyAlts : List Str

def Grammar.defined (g : Grammar) : List Str := g.rules.map (·.1)

def pFinish (s : PState) : Option Grammar :=
  match s.mode with
  | .idle => some ⟨s.rules.reverse, s.refs.reverse, s.emptyAlts.reverse⟩
  | .body n [] top .none =>
    let s' := endRule s n top
    some ⟨s'.rules.reverse, s'.refs.reverse, s'.emptyAlts.reverse⟩
  | _ => none

def parseToks (toks : List Tok) : Option Grammar := pFinish (toks.foldl pStep pInit)

def parse (len : Bool) (text : Str) : Option Grammar :=
  match lex len text with
  | some toks => parseToks toks
  | none => none

/-! ## Well-formedness (property C12) -/

def rootName : Str := "root".toList

/-- *Well-formed GBNF*: parses; `root` is defined; every referenced rule is defined; no rule is
defined twice; no empty alternative.  (Unterminated literal / class = parse failure.) -/
def WellFormed (len : Bool) (text : Str) : Prop :=
  ∃ g, parse len text = some g ∧ rootName ∈ g.defined ∧ (∀ r ∈ g.refs, r ∈ g.defined) ∧
    g.defined.Nodup ∧ g.emptyAlts = []

/-- executable report, compared with the independent Python recogniser by the harness. -/
structure Report where
  defined : List Str
  refs : List Str
  duplicates : List Str
  undefined : List Str
  emptyAlts : List Str
  root : Bool

def dupsOf : List Str → List Str
  | [] => []
  | n :: r => if r.contains n then n :: dupsOf r else dupsOf r

def Grammar.report (g : Grammar) : Report :=
  { defined := g.defined, refs := g.refs.eraseDups, duplicates := (dupsOf g.defined).eraseDups,
    undefined := (g.refs.filter fun r => !g.defined.contains r).eraseDups,
    emptyAlts := g.emptyAlts, root := g.defined.contains rootName }

def Grammar.wellFormedB (g : Grammar) : Bool :=
  g.defined.contains rootName && g.refs.all (fun r => g.defined.contains r) &&
    (dupsOf g.defined).isEmpty && g.emptyAlts.isEmpty

def wellFormedB (len : Bool) (text : Str) : Bool :=
  match parse len text with
  | some g => g.wellFormedB
  | none => false

/-! ## Derivation semantics (matcher), used by C13 -/

def lookupRule (n : Str) : List (Str × Alts) → Option Alts
  | [] => none
  | (m, a) :: r => if m == n then some a else lookupRule n r

def clsHas (neg : Bool) (rs : List (Char × Char)) (c : Char) : Bool :=
  (rs.any fun p => p.1.toNat ≤ c.toNat && c.toNat ≤ p.2.toNat) != neg

/- `mAlts fuel g alts s`: the list of remainders `r` such that some prefix `p` of `s = p ++ r` is
derivable from `alts` (derivation depth bounded by `fuel`). -/
mutual
def mItem : Nat → List (Str × Alts) → Item → Str → List Str
  | 0, _, _, _ => []
  | f + 1, g, it, s =>
    match it with
    | .lit l => match dropPrefix? l s with
      | some r => [r]
      | none => []
    | .cls neg rs => match s with
      | c :: r => if clsHas neg rs c then [r] else []
      | [] => []
    | .any => match s with
      | _ :: r => [r]
      | [] => []
    | .ref n => match lookupRule n g with
      | some a => mAlts f g a s
      | none => []
    | .group a => mAlts f g a s
    | .rep i mn mx => mRep f g i mn mx s
def mSeq : Nat → List (Str × Alts) → List Item → Str → List Str
  | 0, _, _, _ => []
  | f + 1, g, items, s =>
    match items with
    | [] => [s]
    | i :: is => (mItem f g i s).flatMap fun r => mSeq f g is r
def mAlts : Nat → List (Str × Alts) → Alts → Str → List Str
  | 0, _, _, _ => []
  | f + 1, g, alts, s =>
    match alts with
    | [] => []
    | a :: as => mSeq f g a s ++ mAlts f g as s
def mRep : Nat → List (Str × Alts) → Item → Nat → Option Nat → Str → List Str
  | 0, _, _, _, _, _ => []
  | f + 1, g, i, mn, mx, s =>
    (if mn == 0 then [s] else []) ++
    (if mx == some 0 then []
     else (mItem f g i s).flatMap fun r =>
       if r.length < s.length || 0 < mn then mRep f g i (mn - 1) (mx.map (· - 1)) r else [])
end

/-- `s` is derivable from `alts` within `fuel`. -/
def derivesAlts (fuel : Nat) (g : List (Str × Alts)) (alts : Alts) (s : Str) : Bool :=
  (mAlts fuel g alts s).contains []

/-- parse a rule *fragment* (the text to the right of `::=`) on its own. -/
def parseFragment (len : Bool) (frag : Str) : Option Alts :=
  match parse len ("x ::= ".toList ++ frag) with
  | some g => match g.rules with
    | [(_, a)] => some a
    | _ => none
  | none => none

end Octave.Gbnf
