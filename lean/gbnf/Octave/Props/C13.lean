/-
C13 — What a compiled grammar can generate, the validator accepts.  (under construction)
-/
import Octave.Model.Gbnf
import Octave.Spec.GbnfSyntax
import Octave.Spec.PyNumber
namespace Octave.C13
open Octave Octave.Gbnf

theorem gen_chainPriority : Gen.chainPriority = [[.const], [.enum], [.regex], [.type], [.date, .iso8601]] := by decide

end Octave.C13
