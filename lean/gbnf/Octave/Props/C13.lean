/-
C13 — What a compiled grammar can generate, the validator accepts.

The OCTAVE reader (lexer/parser) is owned by another engine and is *not* modelled here: how the reader
types a derived text is a parameter (`accepts : Str → Bool` below = "FIELD::text is read without error and
the field's chain accepts the value read"), supplied per case by the harness from the real
`octave_mcp.parse` / `ConstraintChain.evaluate` / `Validator`.  What is proved here, for every input:

  * `C13_const_language`    the language of the CONST fragment is exactly the singleton `{str(value)}`;
  * `C13_enum_language`     the language of the ENUM fragment is exactly the set of members;
  * `C13_boolean_language`  the language of TYPE[BOOLEAN] is exactly `{true, false}`;
  * `C13_number_language`   every string derivable from TYPE[NUMBER] is fully matched by the reader's
                            NUMBER token pattern `-?\d+\.?\d*(?:[eE][+-]?\d+)?`;
  * `C13_const`, `C13_enum`, `C13_boolean`, `C13_number`   therefore acceptance of *every* derivation reduces
                            to acceptance of the listed texts (finite, checked exhaustively on the real code);
  * `C13_with_req_opt`      adding REQ/OPT anywhere in the chain changes neither the deciding member nor
                            the fragment;
  * negative theorems       F34 (DATE/ISO8601 derive `2024-01-15`, which is not a date once read back as
                            `2024 -01 -15`, and the calendar-impossible `2023-02-30`); regression for the fixed
                            C13N1 (CONST[true] derives `true`, not `True`).
-/
import Octave.Lemmas.Number
import Octave.Spec.Calendar
import Octave.Lemmas.GenFacts
set_option linter.unusedSimpArgs false
namespace Octave.C13
open Octave Octave.Gbnf Octave.GenFacts

/-! ## characterising facts -/

theorem gen_chainPriority : Gen.chainPriority = [[.const], [.enum], [.regex], [.type], [.date, .iso8601]] := by decide

theorem gen_typeFragments :
    compileType "BOOLEAN".toList = "(\"true\" | \"false\")".toList ∧
    compileType "NUMBER".toList = "\"-\"? [0-9]+ (\".\" [0-9]+)?".toList := by decide

/-- the rule bodies the GBNF parser builds for the constant fragments -/
theorem booleanFragment_body :
    parseFragment true (compileType "BOOLEAN".toList) = some [[.group [[.lit "true".toList], [.lit "false".toList]]]] := by rfl
theorem numberFragment_body : parseFragment true (compileType "NUMBER".toList) = some numberAlts := by rfl

def dateAlts : Alts :=
  [[digitCls, digitCls, digitCls, digitCls, .lit "-".toList, digitCls, digitCls, .lit "-".toList, digitCls, digitCls]]
theorem dateFragment_body : parseFragment true Gen.dateFragment = some dateAlts := by rfl

/-! ## fragments with a parameter: the rule body -/

theorem lex_fragHead (toks : List Tok) :
    lexRun true ⟨.top, toks⟩ "x ::= ".toList = ⟨.top, .define :: .name "x".toList :: toks⟩ := by
  simp [lexStep, lexAction, lexTop, isWordChar, isLower, isUpper, isDigit]

theorem constFragment_body (cv : ConstVal) : parseFragment true (compileConst cv) = some [[.lit (constText cv)]] := by
  have hct := gen_enumConst.2.2.2
  unfold compileConst
  generalize constText cv = v
  rw [hct, escapeLiteral_eq]
  have hlex : lex true ("x ::= ".toList ++ render [.lit "\"".toList, .var 0, .lit "\"".toList] [v.flatMap esc1]) =
      some [.name "x".toList, .define, .lit v] := by
    unfold lex
    have h1 : List.foldl (lexStep true) lexInit ("x ::= ".toList ++ render [.lit "\"".toList, .var 0, .lit "\"".toList] [v.flatMap esc1])
        = lexRun true ⟨.top, []⟩ ("x ::= ".toList ++ quoteLit v) := by
      simp [lexRun, lexInit, render, quoteLit]
    rw [h1, lexRun_append, lex_fragHead, lex_quoteLit]
    simp [lexFinish]
  unfold parseFragment parse
  rw [hlex]
  rfl

theorem lex_enumFrag (vals : List Str) (hne : vals ≠ []) :
    lex true ("x ::= ".toList ++ ('(' :: List.intercalate " | ".toList (vals.map quoteLit) ++ [')'])) =
      some ([.name "x".toList, .define, .lparen] ++ altToks .lit vals ++ [.rparen]) := by
  unfold lex
  have h1 : List.foldl (lexStep true) lexInit ("x ::= ".toList ++ ('(' :: List.intercalate " | ".toList (vals.map quoteLit) ++ [')']))
      = lexRun true ⟨.top, []⟩ ("x ::= ".toList ++ ('(' :: List.intercalate " | ".toList (vals.map quoteLit) ++ [')'])) := rfl
  rw [h1, lexRun_append, lex_fragHead]
  have h2 : lexRun true ⟨.top, [.define, .name "x".toList]⟩ ('(' :: List.intercalate " | ".toList (vals.map quoteLit) ++ [')'])
      = lexRun true ⟨.top, [.lparen, .define, .name "x".toList]⟩ (List.intercalate " | ".toList (vals.map quoteLit) ++ [')']) := by
    simp [lexStep, lexAction, lexTop, isWordChar, isLower, isUpper, isDigit]
  rw [h2, lexRun_append, lex_enumBody vals hne]
  simp [lexStep, lexAction, lexTop, isWordChar, isLower, isUpper, isDigit, lexFinish]

theorem enumFragment_body (vals : List Str) (hne : vals ≠ []) :
    parseFragment true (compileEnum vals) = some [[.group (vals.map fun v => [Item.lit v])]] := by
  obtain ⟨hq, hj, hw, _⟩ := gen_enumConst
  unfold compileEnum
  rw [hq, hj, hw]
  have hmap : (vals.map fun v => render [.lit "\"".toList, .var 0, .lit "\"".toList] [escapeLiteral v]) = vals.map quoteLit := by
    apply List.map_congr_left
    intro v _
    simp [render, quoteLit, escapeLiteral_eq]
  rw [hmap]
  have htext : render [.lit "(".toList, .var 0, .lit ")".toList] [List.intercalate " | ".toList (vals.map quoteLit)] =
      '(' :: List.intercalate " | ".toList (vals.map quoteLit) ++ [')'] := by simp [render]
  rw [htext]
  unfold parseFragment parse
  rw [lex_enumFrag vals hne]
  simp only [parseToks]
  have hrun : List.foldl pStep (cInit, bInit) ([.name "x".toList, .define, .lparen] ++ altToks .lit vals ++ [.rparen]) =
      pRun (pRun (pRun (cInit, bInit) [.name "x".toList, .define, .lparen]) (altToks .lit vals)) [.rparen] := by
    simp [pRun, List.foldl_append]
  rw [hrun]
  have h3 : pRun (cInit, bInit) [.name "x".toList, .define, .lparen] =
      (⟨.body [AFrame.fresh] AFrame.fresh .none, ["x".toList], [], []⟩, ⟨[], "x".toList, [⟨[], []⟩], ⟨[], []⟩⟩) := by
    simp [pStep, cStep, cAction, cBody, bStep, cInit, bInit]
  rw [h3]
  obtain ⟨sym, top', hr, hclose⟩ := pRun_altLits vals hne [AFrame.fresh] AFrame.fresh ["x".toList] [] []
    ⟨[], "x".toList, [⟨[], []⟩], ⟨[], []⟩⟩ [] rfl rfl
  rw [hr]
  simp [pStep, cStep, cAction, cBody, bStep, pFinish, cFinish, Builder.endRule, BFrame.close, hclose, AFrame.fresh,
    AFrame.closeEmpty] at hclose ⊢
  exact hclose

/-! ## the languages -/

/-- **CONST.**  The value part of a CONST field derives exactly one text: `true` / `false` / `null` for the
booleans and null (finding C13N1 fixed), `str(const_value)` otherwise — whatever it contains: the escaping
of the literal is undone by the GBNF reader (`escape_literal_closed`). -/
theorem C13_const_language (cv : ConstVal) :
    ∃ alts, parseFragment true (compileConst cv) = some alts ∧
      ∀ (g : List (Str × Alts)) (f : Nat) (s : Str), 4 ≤ f → (derivesAlts f g alts s = true ↔ s = constText cv) := by
  refine ⟨[[.lit (constText cv)]], constFragment_body cv, fun g f s hf => ?_⟩
  have := derives_lits g [constText cv] s f (by simpa using hf)
  simpa using this

/-- **ENUM.**  The value part of an ENUM field derives exactly its members. -/
theorem C13_enum_language (vals : List Str) (hne : vals ≠ []) :
    ∃ alts, parseFragment true (compileEnum vals) = some alts ∧
      ∀ (g : List (Str × Alts)) (f : Nat) (s : Str), vals.length + 6 ≤ f → (derivesAlts f g alts s = true ↔ s ∈ vals) :=
  ⟨_, enumFragment_body vals hne, fun g f s hf => derives_group_lits g vals s f hf⟩

/-- **TYPE[BOOLEAN].**  Exactly `true` and `false`. -/
theorem C13_boolean_language :
    ∃ alts, parseFragment true (compileType "BOOLEAN".toList) = some alts ∧
      ∀ (g : List (Str × Alts)) (f : Nat) (s : Str), 8 ≤ f →
        (derivesAlts f g alts s = true ↔ s = "true".toList ∨ s = "false".toList) := by
  refine ⟨_, booleanFragment_body, fun g f s hf => ?_⟩
  have := derives_group_lits g ["true".toList, "false".toList] s f (by simpa using hf)
  simpa using this

/-- **TYPE[NUMBER].**  Every derivable text (any derivation depth) is `-`? digits+ (`.` digits+)? and is
matched in full by the reader's NUMBER token pattern. -/
theorem C13_number_language :
    ∃ alts, parseFragment true (compileType "NUMBER".toList) = some alts ∧
      ∀ (g : List (Str × Alts)) (f : Nat) (s : Str), derivesAlts f g alts s = true → pyNumberFull s = true :=
  ⟨numberAlts, numberFragment_body, fun g f s h => number_sound g f s h⟩

example : derivesAlts 40 [] numberAlts "-12.50".toList = true := by decide +kernel
example : derivesAlts 40 [] numberAlts "007".toList = true := by decide +kernel
example : derivesAlts 40 [] numberAlts "1.".toList = false := by decide +kernel
example : pyNumberFull "1e5".toList = true ∧ derivesAlts 40 [] numberAlts "1e5".toList = false := by decide +kernel

/-! ## acceptance reduces to the listed texts

`accepts t` stands for: the line `FIELD::t` is read by the OCTAVE reader without error and the field's
constraint chain accepts the value read (decided on the real code by the harness). -/

theorem C13_const (accepts : Str → Bool) (cv : ConstVal) (h : accepts (constText cv) = true) :
    ∃ alts, parseFragment true (compileConst cv) = some alts ∧
      ∀ g f s, 4 ≤ f → derivesAlts f g alts s = true → accepts s = true := by
  obtain ⟨alts, hp, hl⟩ := C13_const_language cv
  exact ⟨alts, hp, fun g f s hf hd => by rw [(hl g f s hf).mp hd]; exact h⟩

theorem C13_enum (accepts : Str → Bool) (vals : List Str) (hne : vals ≠ []) (h : ∀ v ∈ vals, accepts v = true) :
    ∃ alts, parseFragment true (compileEnum vals) = some alts ∧
      ∀ g f s, vals.length + 6 ≤ f → derivesAlts f g alts s = true → accepts s = true := by
  obtain ⟨alts, hp, hl⟩ := C13_enum_language vals hne
  exact ⟨alts, hp, fun g f s hf hd => h s ((hl g f s hf).mp hd)⟩

theorem C13_boolean (accepts : Str → Bool) (ht : accepts "true".toList = true) (hf' : accepts "false".toList = true) :
    ∃ alts, parseFragment true (compileType "BOOLEAN".toList) = some alts ∧
      ∀ g f s, 8 ≤ f → derivesAlts f g alts s = true → accepts s = true := by
  obtain ⟨alts, hp, hl⟩ := C13_boolean_language
  refine ⟨alts, hp, fun g f s hf hd => ?_⟩
  rcases (hl g f s hf).mp hd with h | h <;> subst h <;> assumption

/-- for NUMBER the reader-side obligation is: every full match of the NUMBER token pattern is read as a
number (an obligation on the reader, checked by bounded enumeration and boundary samples; it fails beyond
4300 digits — finding C13N3). -/
theorem C13_number (accepts : Str → Bool) (h : ∀ s, pyNumberFull s = true → accepts s = true) :
    ∃ alts, parseFragment true (compileType "NUMBER".toList) = some alts ∧
      ∀ g f s, derivesAlts f g alts s = true → accepts s = true := by
  obtain ⟨alts, hp, hl⟩ := C13_number_language
  exact ⟨alts, hp, fun g f s hd => h s (hl g f s hd)⟩

example : (fun s => s == "ACTIVE".toList) "ACTIVE".toList = true := by decide

/-! ## REQ / OPT companions -/

theorem firstOfKinds_cons (ks : List Kind) (a : Constraint) (cs : List Constraint) :
    firstOfKinds ks (a :: cs) = if ks.contains a.kind then some a else firstOfKinds ks cs := rfl

theorem firstOfKinds_skip (ks : List Kind) (x : Constraint) (cs : List Constraint) (hx : ks.contains x.kind = false) :
    firstOfKinds ks (x :: cs) = firstOfKinds ks cs := by
  rw [firstOfKinds_cons, hx]; rfl

theorem firstOfKinds_append (ks : List Kind) (x : Constraint) : ∀ (cs : List Constraint) (c : Constraint),
    firstOfKinds ks cs = some c → firstOfKinds ks (cs ++ [x]) = some c := by
  intro cs
  induction cs with
  | nil => intro c h; simp [firstOfKinds] at h
  | cons a r ih =>
    intro c h
    rw [List.cons_append, firstOfKinds_cons]
    rw [firstOfKinds_cons] at h
    cases hk : ks.contains a.kind with
    | true => rw [hk] at h; simpa using h
    | false => rw [hk] at h; simp only [Bool.false_eq_true, if_false] at h ⊢; exact ih c h

theorem firstOfKinds_append_none (ks : List Kind) (x : Constraint) (hx : ks.contains x.kind = false) :
    ∀ (cs : List Constraint), firstOfKinds ks cs = none → firstOfKinds ks (cs ++ [x]) = none := by
  intro cs
  induction cs with
  | nil => intro _; rw [List.nil_append, firstOfKinds_cons, hx]; rfl
  | cons a r ih =>
    intro h
    rw [List.cons_append, firstOfKinds_cons]
    rw [firstOfKinds_cons] at h
    cases hk : ks.contains a.kind with
    | true => rw [hk] at h; simp at h
    | false => rw [hk] at h; simp only [Bool.false_eq_true, if_false] at h ⊢; exact ih h

theorem pick_skip (x : Constraint) : ∀ (ps : List (List Kind)), (∀ ks ∈ ps, ks.contains x.kind = false) →
    ∀ cs, pickByPriority ps (x :: cs) = pickByPriority ps cs ∧
      ∀ c, pickByPriority ps cs = some c → pickByPriority ps (cs ++ [x]) = some c := by
  intro ps
  induction ps with
  | nil => intro _ cs; exact ⟨rfl, fun c h => by simp [pickByPriority] at h⟩
  | cons ks r ih =>
    intro hps cs
    have hk := hps ks (by simp)
    obtain ⟨ih1, ih2⟩ := ih (fun k hk' => hps k (by simp [hk'])) cs
    constructor
    · simp only [pickByPriority, firstOfKinds_skip ks x cs hk, ih1]
    · intro c h
      simp only [pickByPriority] at h ⊢
      cases hf : firstOfKinds ks cs with
      | some c' =>
        rw [hf] at h; simp only [Option.some.injEq] at h; subst h
        rw [firstOfKinds_append ks x cs c' hf]
      | none =>
        rw [hf] at h
        rw [firstOfKinds_append_none ks x hk cs hf]
        exact ih2 c h

/-- **REQ/OPT companions.**  If a chain has a member of one of the priority kinds (CONST ENUM REGEX TYPE
DATE ISO8601), then putting REQ or OPT in front of it or behind it changes neither the deciding member nor
the compiled fragment. -/
theorem C13_with_req_opt (cs : List Constraint) (c : Constraint) (x : Constraint)
    (hx : x = .req ∨ x = .opt) (h : pickByPriority Gen.chainPriority cs = some c) :
    deciding cs = some c ∧ deciding (x :: cs) = some c ∧ deciding (cs ++ [x]) = some c ∧
    compileChain (x :: cs) = compileChain cs ∧ compileChain (cs ++ [x]) = compileChain cs := by
  have hps : ∀ ks ∈ Gen.chainPriority, ks.contains x.kind = false := by
    rcases hx with hx | hx <;> subst hx <;> rw [gen_chainPriority] <;> decide
  obtain ⟨h1, h2⟩ := pick_skip x Gen.chainPriority hps cs
  have hne : cs ≠ [] := by
    intro hnil
    subst hnil
    rw [gen_chainPriority] at h
    simp [pickByPriority, firstOfKinds] at h
  obtain ⟨a, r, hcs⟩ : ∃ a r, cs = a :: r := by
    cases cs with
    | nil => exact absurd rfl hne
    | cons a r => exact ⟨a, r, rfl⟩
  subst hcs
  have hd : deciding (a :: r) = some c := by simp [deciding, h]
  have hd1 : deciding (x :: a :: r) = some c := by simp [deciding, h1, h]
  have hd2 : deciding (a :: r ++ [x]) = some c := by
    have := h2 c h
    simp only [List.cons_append] at this
    simp [deciding, this]
  have hd2' : deciding (a :: (r ++ [x])) = some c := hd2
  exact ⟨hd, hd1, hd2, by simp [compileChain, hd, hd1], by simp [compileChain, hd, hd2']⟩

example : pickByPriority Gen.chainPriority [.opt, .enum ["A".toList], .type "STRING".toList] = some (.enum ["A".toList]) := by decide

/-! ## negative theorems -/

/-- **F34 (DATE).**  The DATE fragment derives `2024-01-15`; the reader types that bare text as the string
`2024 -01 -15` (three numbers — a fact about the reader, replayed by the check), which is not a date.  And
independently of the reader, the fragment derives the calendar-impossible `2023-02-30`, which the DATE
constraint rejects even as a string: the fragment over-approximates. -/
theorem F34_date_witness :
    derivesAlts 40 [] dateAlts "2024-01-15".toList = true ∧ validYMD "2024 -01 -15".toList = false ∧
    derivesAlts 40 [] dateAlts "2023-02-30".toList = true ∧ validYMD "2023-02-30".toList = false ∧
    validYMD "2024-01-15".toList = true := by decide +kernel

/-- … and ISO8601 contains the DATE language (same witnesses), plus `T24:00:00`-style times. -/
theorem F34_iso8601_witness :
    (parseFragment true Gen.iso8601Fragment).map (fun a => derivesAlts 45 [] a "2023-02-30".toList) = some true ∧
    (parseFragment true Gen.iso8601Fragment).map (fun a => derivesAlts 45 [] a "2024-01-15T24:61:61+99:99".toList) = some true := by
  decide +kernel

/-- what remains true for DATE: a derivable text that *is* a real date and that the reader hands over as
that very string is accepted (`validYMD` is the DATE constraint on strings). -/
theorem C13_date_partial (accepts : Str → Bool) (h : ∀ t, validYMD t = true → accepts t = true) (t : Str)
    (_hd : derivesAlts 40 [] dateAlts t = true) (hv : validYMD t = true) : accepts t = true := h t hv

/-- **C13N1 (fixed).**  CONST of the booleans and null derives the OCTAVE spellings `true` / `false` / `null`
(which the reader types back to the constant's own value), no longer Python's `True` / `False` / `None`. -/
theorem C13N1_fixed_regression :
    constText (.bool true) = "true".toList ∧ constText (.bool false) = "false".toList ∧ constText .null = "null".toList ∧
    ∃ alts, parseFragment true (compileConst (.bool true)) = some alts ∧
      derivesAlts 10 [] alts "true".toList = true ∧ derivesAlts 10 [] alts "True".toList = false := by
  refine ⟨by decide, by decide, by decide, ?_⟩
  obtain ⟨alts, hp, hl⟩ := C13_const_language (.bool true)
  refine ⟨alts, hp, (hl [] 10 _ (by decide)).mpr (by decide), ?_⟩
  have := hl [] 10 "True".toList (by decide)
  cases hd : derivesAlts 10 [] alts "True".toList with
  | false => rfl
  | true => exact absurd (this.mp hd) (by decide)

end Octave.C13
