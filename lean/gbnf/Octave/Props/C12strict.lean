/-
C12 (strict alphabet) — the compiled grammar under llama.cpp's own rule-name alphabet `[a-zA-Z0-9-]`.

`C12_wellformed_partial` is stated for the lenient alphabet (`_` admitted) because of finding F23.
Here the STRICT statement is proved on the exact class where it holds.

  * `strictAlpha_lex`            lexer transfer: a text whose lenient token list has no `_` in a name token
                                 has the same token list under the strict alphabet;
  * `strictAlpha_nameToks`       control invariant: in an accepted token list every name token is a defined
                                 name, a referenced name, or a repetition count (digits);
  * `strictAlpha_transfer`       `WellFormed true text` + no defined / referenced name contains `_`
                                 ⇒ `WellFormed false text`  (`strictAlpha_transfer_defined`: defined names suffice);
  * `C12_wellformed_strict`      SchemaOK + `strictAlphaOK fields` ⇒ `WellFormed false (compileSchema …)`;
  * `strictAlpha_sanitize_eq/_clean`, `C12_wellformed_strict_fieldnames`   the guard in terms of the lowered field name
                                 the user writes (`strictAlphaFieldOK`: sufficient, syntactic);
  * `strictAlpha_lex_conv`, `strictAlpha_defined_tok`, `strictAlpha_strict_defined`   converse direction: what the strict
                                 recogniser accepts has no `_` in a defined rule name;
  * `C12_strict_guard_exact`     SchemaOK + `strictAlphaOK fields = false` ⇒ ¬ `WellFormed false (compileSchema …)`
                                 (generalises `F23_strict_alphabet_witness`); `C12_strict_iff` puts both together.
-/
import Octave.Props.C12
set_option linter.unusedSimpArgs false
namespace Octave.C12
open Octave Octave.Gbnf Octave.GenFacts

/-! ## 1. lexer transfer -/

/-- the name has no underscore -/
def strictAlphaName (n : Str) : Bool := n.all (· != '_')

def strictAlphaTokOK : Tok → Bool
  | .name n => strictAlphaName n
  | _ => true

def strictAlphaModeOK : LMode → Bool
  | .word acc => strictAlphaName acc
  | _ => true

def strictAlphaStateOK (s : LState) : Bool := strictAlphaModeOK s.mode && s.toks.all strictAlphaTokOK

theorem strictAlpha_isWordChar (c : Char) (h : c ≠ '_') : isWordChar false c = isWordChar true c := by
  simp [isWordChar, h]

theorem strictAlpha_lexTop (c : Char) (h : c ≠ '_') : lexTop false c = lexTop true c := by
  simp only [lexTop, strictAlpha_isWordChar c h]

/-- outside of `top` / `word` the alphabet flag is not looked at -/
theorem strictAlpha_lexAction_other (m : LMode) (c : Char) (h1 : m ≠ .top) (h2 : ∀ acc, m ≠ .word acc) :
    lexAction false m c = lexAction true m c := by
  cases m with
  | top => exact absurd rfl h1
  | word acc => exact absurd rfl (h2 acc)
  | str acc e => cases e <;> rfl
  | cls st neg items pend dash e => cases e <;> rfl
  | _ => rfl

theorem strictAlpha_lexAction (m : LMode) (c : Char) (h : c ≠ '_') : lexAction false m c = lexAction true m c := by
  cases m with
  | top => simp only [lexAction, strictAlpha_lexTop c h]
  | word acc => simp only [lexAction, strictAlpha_lexTop c h, strictAlpha_isWordChar c h]
  | _ => exact strictAlpha_lexAction_other _ c (by simp) (by simp)

theorem strictAlpha_name_reverse (n : Str) : strictAlphaName n.reverse = strictAlphaName n := by
  simp [strictAlphaName]

/-- one lenient step that ends in an underscore-free state started in one -/
theorem strictAlpha_step_back (s : LState) (c : Char) (h : strictAlphaStateOK (lexStep true s c) = true) :
    strictAlphaStateOK s = true := by
  obtain ⟨m, toks⟩ := s
  simp only [strictAlphaStateOK, lexStep, Bool.and_eq_true, List.all_append] at h ⊢
  refine ⟨?_, h.2.2⟩
  cases m with
  | word acc =>
    simp only [strictAlphaModeOK]
    by_cases hw : isWordChar true c = true
    · have h1 := h.1
      simp only [lexAction, hw, if_true, strictAlphaModeOK, strictAlphaName, List.all_cons, Bool.and_eq_true] at h1
      exact h1.2
    · have h2 := h.2.1
      simp only [lexAction, hw, Bool.false_eq_true, if_false, List.all_append, List.all_cons, List.all_nil,
        Bool.and_true, Bool.and_eq_true, strictAlphaTokOK, strictAlpha_name_reverse] at h2
      exact h2.2
  | _ => rfl

/-- … and the strict lexer takes the same step -/
theorem strictAlpha_step_eq (s : LState) (c : Char) (h : strictAlphaStateOK (lexStep true s c) = true) :
    lexStep false s c = lexStep true s c := by
  by_cases hc : c = '_'
  · subst hc
    obtain ⟨m, toks⟩ := s
    cases m with
    | top => simp [strictAlphaStateOK, lexStep, lexAction, lexTop, isWordChar, isLower, isUpper, isDigit,
        strictAlphaModeOK, strictAlphaName] at h
    | word acc => simp [strictAlphaStateOK, lexStep, lexAction, lexTop, isWordChar, isLower, isUpper, isDigit,
        strictAlphaModeOK, strictAlphaName] at h
    | _ => simp only [lexStep]; rw [strictAlpha_lexAction_other _ _ (by simp) (by simp)]
  · simp only [lexStep, strictAlpha_lexAction s.mode c hc]

theorem strictAlpha_lexRun (text : Str) : ∀ (s : LState), strictAlphaStateOK (lexRun true s text) = true →
    lexRun false s text = lexRun true s text ∧ strictAlphaStateOK s = true := by
  induction text with
  | nil => intro s h; exact ⟨rfl, h⟩
  | cons c r ih =>
    intro s h
    simp only [lexRun_cons] at h ⊢
    obtain ⟨h1, h2⟩ := ih _ h
    rw [strictAlpha_step_eq s c h2]
    exact ⟨h1, strictAlpha_step_back s c h2⟩

theorem strictAlpha_finish (s : LState) (toks : List Tok) (h : lexFinish s = some toks)
    (hc : toks.all strictAlphaTokOK = true) : strictAlphaStateOK s = true := by
  obtain ⟨m, ts⟩ := s
  cases m with
  | top => simp only [lexFinish, Option.some.injEq] at h; subst h; simpa [strictAlphaStateOK, strictAlphaModeOK] using hc
  | comment => simp only [lexFinish, Option.some.injEq] at h; subst h; simpa [strictAlphaStateOK, strictAlphaModeOK] using hc
  | word acc =>
    simp only [lexFinish, Option.some.injEq] at h; subst h
    simp only [List.all_reverse, List.all_cons, Bool.and_eq_true, strictAlphaTokOK, strictAlpha_name_reverse] at hc
    simp [strictAlphaStateOK, strictAlphaModeOK, hc.1, hc.2]
  | _ => simp [lexFinish] at h

/-- **Lexer transfer.**  If the lenient lexer reads `text` as `toks` and no name token contains `_`, the strict
lexer reads the same tokens. -/
theorem strictAlpha_lex (text : Str) (toks : List Tok) (h : lex true text = some toks)
    (hc : toks.all strictAlphaTokOK = true) : lex false text = some toks := by
  unfold lex at h ⊢
  have hs := strictAlpha_finish _ _ h hc
  have := (strictAlpha_lexRun text lexInit hs).1
  unfold lexRun at this
  rw [this]; exact h

/-! ## 2. control invariant: where the name tokens of an accepted grammar go -/

/-- `n` is accounted for in control state `s`: recorded as defined, recorded as referenced, a repetition
count, or the rule head just read. -/
def strictAlphaRec (s : CState) (n : Str) : Prop :=
  n ∈ s.names ∨ n ∈ s.refs ∨ (natOfDigits n).isSome = true ∨ s.mode = .gotName n

theorem strictAlpha_cStep_fail (s : CState) (t : Tok) (h : s.mode = .fail) : (cStep s t).mode = .fail := by
  simp [cStep, h, cAction]

theorem strictAlpha_cRun_fail (ts : List Tok) : ∀ (s : CState), s.mode = .fail → (cRun s ts).mode = .fail := by
  induction ts with
  | nil => intro s h; exact h
  | cons t r ih => intro s h; simp only [cRun_cons]; exact ih _ (strictAlpha_cStep_fail s t h)

theorem strictAlpha_cQuant_fst (stack : List AFrame) (top : AFrame) (b : Bool) (n : Str) :
    (cQuant stack top b).1 ≠ .gotName n := by
  unfold cQuant; split <;> simp

/-- a step that does not fail keeps every accounted name accounted -/
theorem strictAlpha_rec_step (s : CState) (t : Tok) (n : Str) (hnf : (cStep s t).mode ≠ .fail)
    (h : strictAlphaRec s n) : strictAlphaRec (cStep s t) n := by
  rcases h with h | h | h | h
  · left; simp [cStep, h]
  · right; left; simp [cStep, h]
  · right; right; left; exact h
  · left
    obtain ⟨m, N, R, E⟩ := s
    simp only at h; subst h
    cases t <;> simp [cStep, cAction] at hnf ⊢

/-- a name token read by a step that does not fail is accounted for afterwards -/
theorem strictAlpha_rec_new (s : CState) (n : Str) (hnf : (cStep s (.name n)).mode ≠ .fail) :
    strictAlphaRec (cStep s (.name n)) n := by
  obtain ⟨m, N, R, E⟩ := s
  cases m with
  | fail => simp [cStep, cAction] at hnf
  | idle => right; right; right; simp [cStep, cAction]
  | gotName k => simp [cStep, cAction] at hnf
  | body stack top br =>
    cases br with
    | none => right; left; simp [cStep, cAction, cBody]
    | opened =>
      right; right; left
      cases hd : natOfDigits n with
      | none => simp [cStep, cAction, cBrace, hd] at hnf
      | some k => rfl
    | min k => simp [cStep, cAction, cBrace] at hnf
    | comma k =>
      right; right; left
      cases hd : natOfDigits n with
      | none => simp [cStep, cAction, cBrace, hd] at hnf
      | some k => rfl
    | max a b => simp [cStep, cAction, cBrace] at hnf

theorem strictAlpha_rec_run (ts : List Tok) : ∀ (s : CState), (cRun s ts).mode ≠ .fail →
    (∀ n, strictAlphaRec s n → strictAlphaRec (cRun s ts) n) ∧
    (∀ n, Tok.name n ∈ ts → strictAlphaRec (cRun s ts) n) := by
  induction ts with
  | nil => intro s _; exact ⟨fun _ h => h, fun _ h => by simp at h⟩
  | cons t r ih =>
    intro s hnf
    simp only [cRun_cons] at hnf ⊢
    obtain ⟨h1, h2⟩ := ih _ hnf
    have hstep : (cStep s t).mode ≠ .fail := fun hf => hnf (strictAlpha_cRun_fail r _ hf)
    refine ⟨fun n hn => h1 n (strictAlpha_rec_step s t n hstep hn), fun n hn => ?_⟩
    rcases List.mem_cons.mp hn with hn | hn
    · subst hn; exact h1 n (strictAlpha_rec_new s n hstep)
    · exact h2 n hn

/-- **Name tokens of an accepted grammar.**  If a token list is accepted as grammar `g`, every name token in it
is a defined rule name, a referenced rule name, or a repetition count `{m}` / `{m,n}`. -/
theorem strictAlpha_nameToks (toks : List Tok) (g : Grammar) (h : parseToks toks = some g) (n : Str)
    (hn : Tok.name n ∈ toks) : n ∈ g.defined ∨ n ∈ g.refs ∨ (natOfDigits n).isSome = true := by
  unfold parseToks pFinish at h
  rw [foldl_pStep_fst] at h
  simp only at h
  cases hf : cFinish (cRun cInit toks) with
  | none => simp [hf] at h
  | some c =>
    simp only [hf, Option.some.injEq] at h
    have hmode : (cRun cInit toks).mode ≠ .fail := by
      intro hm; simp [cFinish, hm] at hf
    have hrec := (strictAlpha_rec_run toks cInit hmode).2 n hn
    have hc : c.names = (cRun cInit toks).names ∧ c.refs = (cRun cInit toks).refs ∧
        ∀ k, (cRun cInit toks).mode ≠ .gotName k := by
      unfold cFinish at hf
      split at hf
      · cases hf; rename_i hm; simp [hm]
      · cases hf; rename_i hm; simp [hm]
      · cases hf
    subst h
    simp only [List.mem_reverse]
    rcases hrec with h1 | h1 | h1 | h1
    · left; rw [hc.1]; exact h1
    · right; left; rw [hc.2.1]; exact h1
    · right; right; exact h1
    · exact absurd h1 (hc.2.2 n)

theorem strictAlpha_digitsAux : ∀ (s : Str) (acc k : Nat), natOfDigitsAux s acc = some k → strictAlphaName s = true := by
  intro s
  induction s with
  | nil => intro _ _ _; rfl
  | cons c r ih =>
    intro acc k h
    simp only [natOfDigitsAux] at h
    split at h
    · rename_i hd
      have hc : c ≠ '_' := by intro hc; subst hc; simp [isDigit] at hd
      have := ih _ _ h
      simp only [strictAlphaName, List.all_cons, Bool.and_eq_true] at this ⊢
      exact ⟨by simpa using hc, this⟩
    · cases h

/-- a repetition count has no underscore -/
theorem strictAlpha_digits (n : Str) (h : (natOfDigits n).isSome = true) : strictAlphaName n = true := by
  unfold natOfDigits at h
  split at h
  · simp at h
  · cases hk : natOfDigitsAux n 0 with
    | none => simp [hk] at h
    | some k => exact strictAlpha_digitsAux n 0 k hk

/-! ## 3. transfer of well-formedness -/

/-- **Transfer.**  A grammar text that is well-formed under the lenient alphabet and in which no rule name
*defined or referenced* (the recogniser's own `defined` / `refs` lists) contains `_` is well-formed under
llama.cpp's strict alphabet `[a-zA-Z0-9-]` — with the same parse. -/
theorem strictAlpha_parse (text : Str) (g : Grammar) (hp : parse true text = some g)
    (hd : ∀ n ∈ g.defined, strictAlphaName n = true) (hr : ∀ n ∈ g.refs, strictAlphaName n = true) :
    parse false text = some g := by
  unfold parse at hp ⊢
  cases hl : lex true text with
  | none => simp [hl] at hp
  | some toks =>
    simp only [hl] at hp
    have hclean : toks.all strictAlphaTokOK = true := by
      rw [List.all_eq_true]
      intro t ht
      cases t with
      | name n =>
        simp only [strictAlphaTokOK]
        rcases strictAlpha_nameToks toks g hp n ht with h | h | h
        · exact hd n h
        · exact hr n h
        · exact strictAlpha_digits n h
      | _ => rfl
    rw [strictAlpha_lex text toks hl hclean]
    exact hp

theorem strictAlpha_transfer (text : Str) (hw : WellFormed true text)
    (hclean : ∀ g, parse true text = some g → ∀ n, n ∈ g.defined ∨ n ∈ g.refs → strictAlphaName n = true) :
    WellFormed false text := by
  obtain ⟨g, hp, h1, h2, h3, h4⟩ := hw
  exact ⟨g, strictAlpha_parse text g hp (fun n hn => hclean g hp n (.inl hn)) (fun n hn => hclean g hp n (.inr hn)),
    h1, h2, h3, h4⟩

/-- the defined names suffice (a well-formed grammar references defined rules only) -/
theorem strictAlpha_transfer_defined (text : Str) (hw : WellFormed true text)
    (hclean : ∀ g, parse true text = some g → ∀ n ∈ g.defined, strictAlphaName n = true) :
    WellFormed false text := by
  obtain ⟨g, hp, h1, h2, h3, h4⟩ := hw
  exact ⟨g, strictAlpha_parse text g hp (hclean g hp) (fun n hn => hclean g hp n (h2 n hn)), h1, h2, h3, h4⟩

/-- non-vacuity of the transfer: `_` inside a literal, a class and a comment is harmless, a repetition count is
a name token that is neither defined nor referenced. -/
example : WellFormed false "root ::= a-b{2,3} | \"_x\"\na-b ::= [_a-z]+ # c_d\n".toList :=
  strictAlpha_transfer _ ((wellFormedB_iff _ _).mp (by decide +kernel)) (by
    intro g hg n hn
    have hd : (parse true "root ::= a-b{2,3} | \"_x\"\na-b ::= [_a-z]+ # c_d\n".toList).map
        (fun g => (g.defined ++ g.refs).all strictAlphaName) = some true := by decide +kernel
    rw [hg] at hd
    simp only [Option.map_some, Option.some.injEq] at hd
    rw [List.all_eq_true] at hd
    exact hd n (List.mem_append.mpr hn))

/-! ## 4. the compiled grammar under the strict alphabet -/

/-- the guard: no field's sanitised base name (`_sanitize_rule_name(field_name)`) contains `_` -/
def strictAlphaOK (fields : List Field) : Bool := fields.all fun f => strictAlphaName f.baseName

theorem strictAlpha_candidate (base : Str) (k : Nat) (hb : strictAlphaName base = true) :
    strictAlphaName (uniqueCandidate base k) = true := by
  rw [uniqueCandidate_eq]
  have hd : ∀ c ∈ Nat.toDigits 10 k, c ≠ '_' := by
    apply toDigits_forall (fun c => c ≠ '_') 10 (by decide)
    intro d hd
    have : ∀ k : Fin 10, Nat.digitChar k.val ≠ '_' := by decide
    exact this ⟨d, hd⟩
  simp only [strictAlphaName, List.all_append, List.all_cons, Bool.and_eq_true] at hb ⊢
  refine ⟨hb, by decide, ?_⟩
  rw [List.all_eq_true]
  intro c hc
  simpa using hd c hc

/-- the uniqueness loop (`base`, `base-2`, `base-3`, …) adds no underscore -/
theorem strictAlpha_assignNames : ∀ (bases used names : List Str), (∀ b ∈ bases, strictAlphaName b = true) →
    (∀ u ∈ used, strictAlphaName u = true) → assignNames bases used = some names →
    ∀ n ∈ names, strictAlphaName n = true := by
  intro bases
  induction bases with
  | nil =>
    intro used names _ hu h
    simp only [assignNames, Option.some.injEq] at h
    subst h; exact hu
  | cons b r ih =>
    intro used names hb hu h
    simp only [assignNames] at h
    split at h
    · rename_i n hn
      have h2 := (uniqueLoop_spec used b _ _ b n hn).2
      have hnc : strictAlphaName n = true := by
        rcases h2 with h2 | ⟨k, h2⟩
        · subst h2; exact hb _ (by simp)
        · subst h2; exact strictAlpha_candidate b k (hb b (by simp))
      refine ih (used ++ [n]) names (fun x hx => hb x (by simp [hx])) ?_ h
      intro u hu'
      rcases List.mem_append.mp hu' with h1 | h1
      · exact hu u h1
      · simp at h1; subst h1; exact hnc
    · cases h

/-- the names a text made of `LineOK` lines defines (the part of `wellFormed_of_lines` that exposes the parse) -/
theorem strictAlpha_defined_of_lines (xs : List LineSpec) (hne : xs ≠ [])
    (h : ∀ x ∈ xs, LineOK x.1 x.2.1 x.2.2) (g : Grammar)
    (hg : parse true (List.intercalate ['\n'] (xs.map (·.1))) = some g) :
    g.defined = LineSpec.names xs := by
  obtain ⟨ts, hl, hc⟩ := linesOK xs h
  have hjoin := intercalate_nl (xs.map (·.1)) (by simpa using hne)
  have hl0 := hl []
  rw [← hjoin, lexRun_append] at hl0
  simp only [lexRun_cons, lexRun_nil, List.append_nil] at hl0
  obtain ⟨X, hX, hfin⟩ := lexFinish_of_nl true _ (by rw [hl0])
  rw [hl0] at hX
  simp only at hX
  have hc0 := hc [] [] []
  rw [hX] at hc0
  simp only [List.reverse_cons, cRun_append, cRun_cons, cRun_nil, List.append_nil] at hc0
  have hcf := cFinish_of_nl (cRun ⟨.idle, [], [], []⟩ X.reverse) (by rw [hc0])
  rw [hc0] at hcf
  have hlex : lex true (List.intercalate ['\n'] (xs.map (·.1))) = some X.reverse := hfin
  unfold parse at hg
  rw [hlex] at hg
  simp only [parseToks, pFinish] at hg
  rw [foldl_pStep_fst] at hg
  unfold cInit at hg
  simp only [hcf, Option.some.injEq] at hg
  subst hg
  simp only [LineSpec.names]
  rw [flatMap_reverse_eq]
  simp

/-- the rule names the compiled text defines, in order: `ws`, the field rules, `field`/`content`, the document
rules, `root` (the recogniser's `defined` list of the text `compile_schema` returns). -/
theorem strictAlpha_compiled_defined (name upper : Str) (fields : List Field) (envelope : Bool) (text : Str)
    (names : List Str) (hok : SchemaOK fields = true)
    (hn : assignNames (fields.map Field.baseName) [] = some names)
    (hc : compileSchema name upper fields envelope = some text) (g : Grammar) (hg : parse true text = some g) :
    g.defined = ["ws".toList] ++ names ++
      ((if names.isEmpty then ["content".toList] else ["field".toList, "content".toList]) ++
       (if envelope then ["envelope-start", "envelope-end", "meta-block", "meta-content", "meta-field", "document"].map String.toList
        else ["document".toList]) ++ ["root".toList]) := by
  have hbases : ∀ b ∈ fields.map Field.baseName, BaseName b := by
    intro b hb
    obtain ⟨f, _, hfb⟩ := List.mem_map.mp hb
    subst hfb
    exact baseName_sanitize f.lowered
  obtain ⟨hnd, hgood, hlen⟩ := assignNames_spec _ [] names hbases (by simp) (by simp) hn
  have hlen' : names.length = fields.length := by simpa using hlen
  have hw : ∀ n ∈ names, n ≠ [] ∧ ∀ c ∈ n, isWordChar true c = true := fun n h => ⟨(hgood n h).1, (hgood n h).2.1⟩
  obtain ⟨xsF, hfl, hallF, hnamesF, hrefsF⟩ := fieldLines_ok fields names hok hlen' hw
  have htext := compileSchema_lines name upper fields envelope names xsF hn hfl
  rw [hc] at htext
  simp only [Option.some.injEq] at htext
  rw [htext] at hg
  have hall : ∀ x ∈ headSpecs name ++ xsF ++ [blankSpec] ++ contentSpecs names ++ [blankSpec] ++
      docSpecs upper envelope ++ tailSpecs, LineOK x.1 x.2.1 x.2.2 := by
    intro x hx
    simp only [List.mem_append, List.mem_singleton] at hx
    rcases hx with (((((h | h) | h) | h) | h) | h) | h
    · simp only [headSpecs, List.mem_cons, List.not_mem_nil, or_false] at h
      rcases h with h | h | h | h
      · subst h; exact header_ok name
      · subst h; exact blank_ok
      · subst h; exact lineOK_of_check lineCheck_ws
      · subst h; exact blank_ok
    · exact hallF x h
    · subst h; exact blank_ok
    · exact contentSpecs_ok _ hw x h
    · subst h; exact blank_ok
    · exact docSpecs_ok upper envelope x h
    · simp only [tailSpecs, List.mem_cons, List.not_mem_nil, or_false] at h
      rcases h with h | h
      · subst h; exact blank_ok
      · subst h; exact lineOK_of_check lineCheck_root
  have hdef := strictAlpha_defined_of_lines _ (by simp [headSpecs]) hall g hg
  have hnames : LineSpec.names (headSpecs name ++ xsF ++ [blankSpec] ++ contentSpecs names ++ [blankSpec] ++
      docSpecs upper envelope ++ tailSpecs) =
      ["ws".toList] ++ LineSpec.names xsF ++ (LineSpec.names (contentSpecs names) ++
        LineSpec.names (docSpecs upper envelope) ++ ["root".toList]) := by
    simp [LineSpec.names, headSpecs, tailSpecs, blankSpec, List.flatMap_append]
  have hF : LineSpec.names xsF = names := hnamesF
  rw [hdef, hnames, hF, names_contentSpecs, names_docSpecs]

/-- **C12 under llama.cpp's strict rule-name alphabet `[a-zA-Z0-9-]`.**  For every schema the reader can deliver
(`SchemaOK`) in which no field's sanitised base name contains `_` (`strictAlphaOK`), the text `compile_schema`
returns is well-formed GBNF with `_` NOT admitted in rule names — all schema names, field names, chains, both envelope
settings, including the `-2`, `-3` … suffixes of the uniqueness loop.  The guard is exact: see `C12_strict_guard_exact`. -/
theorem C12_wellformed_strict (name upper : Str) (fields : List Field) (envelope : Bool) (text : Str)
    (hok : SchemaOK fields = true) (hsa : strictAlphaOK fields = true)
    (hc : compileSchema name upper fields envelope = some text) :
    WellFormed false text := by
  apply strictAlpha_transfer_defined text (C12_wellformed_partial name upper fields envelope text hok hc)
  intro g hg
  have hbclean : ∀ b ∈ fields.map Field.baseName, strictAlphaName b = true := by
    intro b hb
    obtain ⟨f, hf, hfb⟩ := List.mem_map.mp hb
    subst hfb
    exact List.all_eq_true.mp hsa f hf
  cases hn : assignNames (fields.map Field.baseName) [] with
  | none => simp [compileSchema, schemaLines, hn] at hc
  | some names =>
    have hnclean := strictAlpha_assignNames _ [] names hbclean (by simp) hn
    rw [strictAlpha_compiled_defined name upper fields envelope text names hok hn hc g hg]
    intro n hnm
    simp only [List.mem_append] at hnm
    rcases hnm with (h | h) | h
    · simp only [List.mem_singleton] at h; subst h; decide
    · exact hnclean n h
    · -- the structural rule names: a closed fact about the templates
      have hstruct : ∀ (b1 b2 : Bool), ∀ y ∈ ((if b1 then ["content".toList] else ["field".toList, "content".toList]) ++
          (if b2 then ["envelope-start", "envelope-end", "meta-block", "meta-content", "meta-field", "document"].map String.toList
            else ["document".toList]) ++ ["root".toList]), strictAlphaName y = true := by decide
      exact hstruct _ _ n (by simpa only [List.mem_append] using h)

/-- non-vacuity: two fields that sanitise alike (`ab`, `ab-2`), one that collides with a structural name
(`content-2`), an ENUM and a REGEX chain, both envelope settings. -/
def strictAlphaExample : List Field :=
  [⟨"AB".toList, "ab".toList, some [.req]⟩, ⟨"A!B".toList, "a!b".toList, some [.enum ["x".toList, "y_z".toList]]⟩,
   ⟨"content".toList, "content".toList, none⟩, ⟨"OPTIONALFIELD".toList, "optionalfield".toList, some [.opt]⟩]

example : SchemaOK strictAlphaExample = true ∧ strictAlphaOK strictAlphaExample = true := by decide +kernel
example : (compileSchema "S_1".toList "S_1".toList strictAlphaExample true).map (wellFormedB false) = some true ∧
    (compileSchema "S_1".toList "S_1".toList strictAlphaExample false).map (wellFormedB false) = some true := by
  decide +kernel
/-- the guard really excludes the F23 witness -/
example : strictAlphaOK [⟨"OPTIONAL_FIELD".toList, "optional_field".toList, some [.opt]⟩] = false := by decide +kernel

/-! ## 5. the guard in terms of the field name the user writes

`_sanitize_rule_name` produces `_` from: `.` (→ `_dot_`), `/` (→ `_slash_`), `-` (→ `_`), `_` itself (kept), every
non-ASCII character (→ `_u<hex>_`), a leading digit (→ prefix `r_`) and the empty result (→ `unnamed_field`); all
other ASCII characters that are not letters or digits are dropped.  (Leading / trailing `_` and runs of `_` are
stripped / collapsed afterwards, so `-a`, `a_` are in fact harmless; the decidable `strictAlphaOK` is exact, the
syntactic condition below is sufficient.) -/

/-- the lowered field name has only ASCII characters, none of `. / - _`, and its letters and digits are not empty
and do not begin with a digit -/
def strictAlphaFieldOK (lowered : Str) : Bool :=
  lowered.all (fun c => isAscii c && c != '.' && c != '/' && c != '-' && c != '_') &&
  (match lowered.filter isAsciiAlnum with
   | c :: _ => !isDigit c
   | [] => false)

theorem strictAlpha_flatMap_id (c : Char) (new : Str) : ∀ (s : Str), (∀ d ∈ s, d ≠ c) →
    s.flatMap (fun d => if d = c then new else [d]) = s := by
  intro s
  induction s with
  | nil => intro _; rfl
  | cons d r ih =>
    intro h
    have hd : d ≠ c := h d (by simp)
    simp only [List.flatMap_cons, hd, if_false]
    rw [ih (fun x hx => h x (by simp [hx]))]; rfl

theorem strictAlpha_sanReplace (s : Str) (h : ∀ d ∈ s, d ≠ '.' ∧ d ≠ '/' ∧ d ≠ '-') : sanReplace s = s := by
  have e1 : ".".toList = ['.'] := rfl
  have e2 : "/".toList = ['/'] := rfl
  have e3 : "-".toList = ['-'] := rfl
  simp only [sanReplace, Gen.sanReplacements, List.foldl, e1, e2, e3, replaceAll_single]
  rw [strictAlpha_flatMap_id '.' _ s (fun d hd => (h d hd).1), strictAlpha_flatMap_id '/' _ s (fun d hd => (h d hd).2.1),
    strictAlpha_flatMap_id '-' _ s (fun d hd => (h d hd).2.2)]

theorem strictAlpha_sanLoop : ∀ (s : Str), (∀ d ∈ s, isAscii d = true ∧ d ≠ '_') → sanLoop s = s.filter isAsciiAlnum := by
  intro s
  induction s with
  | nil => intro _; rfl
  | cons d r ih =>
    intro h
    obtain ⟨ha, hu⟩ := h d (by simp)
    have ih' := ih (fun x hx => h x (by simp [hx]))
    unfold sanLoop at ih' ⊢
    have hk : ([d] == Gen.sanKeepExtra) = false := by
      have : Gen.sanKeepExtra = ['_'] := rfl
      rw [this]; simp [hu]
    simp only [List.flatMap_cons, ih', sanitizeChar, ha, hk, Bool.or_false, Bool.true_and, Bool.not_true,
      Bool.false_eq_true, if_false, List.filter_cons]
    cases isAsciiAlnum d <;> simp

theorem strictAlpha_alnum_ne (c : Char) (h : isAsciiAlnum c = true) : c ≠ '_' := by
  intro hc; subst hc; simp [isAsciiAlnum, isLower, isUpper, isDigit] at h

theorem strictAlpha_noInfix : ∀ (s : Str), (∀ d ∈ s, d ≠ '_') → isInfixOf Gen.sanCollapseFrom s = false := by
  have e : Gen.sanCollapseFrom = ['_', '_'] := rfl
  rw [e]
  intro s
  induction s with
  | nil => intro _; rfl
  | cons d r ih =>
    intro h
    have hd : ('_' == d) = false := by simpa using Ne.symm (h d (by simp))
    simp only [isInfixOf, List.isPrefixOf, hd, Bool.false_and, Bool.false_or]
    exact ih (fun x hx => h x (by simp [hx]))

theorem strictAlpha_dropWhile (p : Char → Bool) (s : Str) (h : ∀ d ∈ s, p d = false) : s.dropWhile p = s := by
  cases s with
  | nil => rfl
  | cons d r => simp [List.dropWhile, h d (by simp)]

/-- **The guard on the written field name.**  Under `strictAlphaFieldOK` the rule name is just the letters and digits
of the lowered field name, hence has no `_`. -/
theorem strictAlpha_sanitize_eq (lowered : Str) (h : strictAlphaFieldOK lowered = true) :
    sanitize lowered = lowered.filter isAsciiAlnum := by
  simp only [strictAlphaFieldOK, Bool.and_eq_true, List.all_eq_true, bne_iff_ne, ne_eq] at h
  obtain ⟨hall, hfirst⟩ := h
  have hk : ∀ d ∈ lowered.filter isAsciiAlnum, d ≠ '_' := fun d hd => strictAlpha_alnum_ne d (List.mem_filter.mp hd).2
  unfold sanitize
  rw [strictAlpha_sanReplace lowered (fun d hd => ⟨(hall d hd).1.1.1.2, (hall d hd).1.1.2, (hall d hd).1.2⟩),
    strictAlpha_sanLoop lowered (fun d hd => ⟨(hall d hd).1.1.1.1, (hall d hd).2⟩)]
  cases hf : lowered.filter isAsciiAlnum with
  | nil => simp [hf] at hfirst
  | cons c r =>
    rw [hf] at hk hfirst
    simp only [Bool.not_eq_true'] at hfirst
    have h4 : sanDigit (c :: r) = c :: r := by simp [sanDigit, hfirst]
    have h5 : sanCollapse (c :: r) = c :: r := by
      unfold sanCollapse
      cases (c :: r).length <;> simp [collapseLoop, strictAlpha_noInfix (c :: r) hk]
    have hset : ∀ d ∈ c :: r, Gen.sanStripChars.contains d = false := by
      intro d hd
      have : Gen.sanStripChars = ['_'] := rfl
      rw [this]; simpa using hk d hd
    have h6 : sanStrip (c :: r) = c :: r := by
      unfold sanStrip stripChars lstripChars rstripChars
      rw [strictAlpha_dropWhile _ (c :: r) hset,
        strictAlpha_dropWhile _ (c :: r).reverse (fun d hd => hset d (List.mem_reverse.mp hd)), List.reverse_reverse]
    simp only [h4, h5, h6]
    simp

theorem strictAlpha_sanitize_clean (lowered : Str) (h : strictAlphaFieldOK lowered = true) :
    strictAlphaName (sanitize lowered) = true := by
  rw [strictAlpha_sanitize_eq lowered h, strictAlphaName, List.all_eq_true]
  intro d hd
  simpa using strictAlpha_alnum_ne d (List.mem_filter.mp hd).2

/-- the strict theorem with the guard on the field names as written -/
theorem C12_wellformed_strict_fieldnames (name upper : Str) (fields : List Field) (envelope : Bool) (text : Str)
    (hok : SchemaOK fields = true) (hsa : ∀ f ∈ fields, strictAlphaFieldOK f.lowered = true)
    (hc : compileSchema name upper fields envelope = some text) : WellFormed false text :=
  C12_wellformed_strict name upper fields envelope text hok
    (List.all_eq_true.mpr fun f hf => strictAlpha_sanitize_clean f.lowered (hsa f hf)) hc

example : strictAlphaFieldOK "a!b c9".toList = true ∧ sanitize "a!b c9".toList = "abc9".toList := by decide +kernel
/-- excluded points: each sanitises to a name with `_` -/
example : ["optional_field", "a.b", "a/b", "a-b", "naïve", "9x", "", "!"].map (fun s => strictAlphaFieldOK s.toList) =
      [false, false, false, false, false, false, false, false] ∧
    ["optional_field", "a.b", "a/b", "a-b", "naïve", "9x", "", "!"].map (fun s => strictAlphaName (sanitize s.toList)) =
      [false, false, false, false, false, false, false, false] := by decide +kernel
/-- the syntactic guard is sufficient, not necessary: leading / trailing `_` `-` are stripped -/
example : ["-a", "a_", "_a_"].map (fun s => (strictAlphaFieldOK s.toList, strictAlphaName (sanitize s.toList))) =
    [(false, true), (false, true), (false, true)] := by decide +kernel

/-! ## 6. exactness of the guard -/

def strictAlphaOut (p : LMode × List Tok) : Prop :=
  strictAlphaModeOK p.1 = true ∧ p.2.all strictAlphaTokOK = true

theorem strictAlpha_lexTop_ok (len : Bool) (c : Char) (h : c ≠ '_') : strictAlphaOut (lexTop len c) := by
  simp only [lexTop, apply_ite strictAlphaOut]
  simp [strictAlphaOut, strictAlphaModeOK, strictAlphaTokOK, strictAlphaName, h]

/-- what one lexer step emits: no underscore enters a name unless `_` is read in `top` / `word` mode -/
theorem strictAlpha_action_ok (len : Bool) (m : LMode) (c : Char) (hm : strictAlphaModeOK m = true)
    (hc : (m = .top ∨ ∃ acc, m = .word acc) → c ≠ '_') :
    strictAlphaOut (lexAction len m c) := by
  cases m with
  | fail => simp [strictAlphaOut, lexAction, strictAlphaModeOK]
  | top => simpa [lexAction] using strictAlpha_lexTop_ok len c (hc (.inl rfl))
  | word acc =>
    have h := hc (.inr ⟨acc, rfl⟩)
    have ht := strictAlpha_lexTop_ok len c h
    simp only [strictAlphaModeOK] at hm
    simp only [lexAction]
    split
    · simp only [strictAlphaOut, strictAlphaModeOK, strictAlphaName, List.all_cons, List.all_nil, Bool.and_eq_true] at hm ⊢
      exact ⟨⟨by simpa using h, hm⟩, trivial⟩
    · unfold strictAlphaOut at ht ⊢
      simp only [List.all_append, List.all_cons, List.all_nil, Bool.and_true, Bool.and_eq_true, strictAlphaTokOK,
        strictAlpha_name_reverse]
      exact ⟨ht.1, ht.2, hm⟩
  | colon1 => simp only [lexAction]; split <;> simp [strictAlphaOut, strictAlphaModeOK]
  | colon2 => simp only [lexAction]; split <;> simp [strictAlphaOut, strictAlphaModeOK, strictAlphaTokOK]
  | comment => simp only [lexAction]; split <;> simp [strictAlphaOut, strictAlphaModeOK, strictAlphaTokOK]
  | str acc e =>
    cases e <;> simp only [lexAction] <;> repeat' split
    all_goals simp [strictAlphaOut, strictAlphaModeOK, strictAlphaTokOK]
  | cls st neg items pend dash e =>
    cases e <;> simp only [lexAction] <;> repeat' split
    all_goals simp [strictAlphaOut, strictAlphaModeOK, strictAlphaTokOK]

theorem strictAlpha_fwd_step (s : LState) (c : Char) (hok : strictAlphaStateOK s = true)
    (hnf : (lexStep false s c).mode ≠ .fail) :
    lexStep true s c = lexStep false s c ∧ strictAlphaStateOK (lexStep false s c) = true := by
  obtain ⟨m, toks⟩ := s
  have hc : (m = .top ∨ ∃ acc, m = .word acc) → c ≠ '_' := by
    intro hm hc'
    subst hc'
    rcases hm with hm | ⟨acc, hm⟩
    · subst hm
      simp [lexStep, lexAction, lexTop, isWordChar, isLower, isUpper, isDigit] at hnf
    · subst hm
      simp [lexStep, lexAction, lexTop, isWordChar, isLower, isUpper, isDigit] at hnf
  simp only [strictAlphaStateOK, Bool.and_eq_true] at hok
  constructor
  · simp only [lexStep]
    by_cases hc' : c = '_'
    · have hm1 : m ≠ .top := fun h => hc (.inl h) hc'
      have hm2 : ∀ acc, m ≠ .word acc := fun acc h => hc (.inr ⟨acc, h⟩) hc'
      rw [strictAlpha_lexAction_other m c hm1 hm2]
    · rw [strictAlpha_lexAction m c hc']
  · have := strictAlpha_action_ok false m c hok.1 hc
    simp only [strictAlphaStateOK, lexStep, Bool.and_eq_true, List.all_append]
    exact ⟨this.1, this.2, hok.2⟩

theorem strictAlpha_lexRun_fail (len : Bool) (text : Str) : ∀ (s : LState), s.mode = .fail →
    (lexRun len s text).mode = .fail := by
  induction text with
  | nil => intro s h; exact h
  | cons c r ih =>
    intro s h
    simp only [lexRun_cons]
    apply ih
    simp [lexStep, h, lexAction]

theorem strictAlpha_fwd_run (text : Str) : ∀ (s : LState), strictAlphaStateOK s = true →
    (lexRun false s text).mode ≠ .fail →
    lexRun true s text = lexRun false s text ∧ strictAlphaStateOK (lexRun false s text) = true := by
  induction text with
  | nil => intro s h _; exact ⟨rfl, h⟩
  | cons c r ih =>
    intro s hok hnf
    simp only [lexRun_cons] at hnf ⊢
    have hstep : (lexStep false s c).mode ≠ .fail := fun hf => hnf (strictAlpha_lexRun_fail false r _ hf)
    obtain ⟨h1, h2⟩ := strictAlpha_fwd_step s c hok hstep
    rw [h1]
    exact ih _ h2 hnf

/-- **Converse lexer transfer.**  What the strict lexer accepts, the lenient lexer reads identically, and no name token
of it contains `_`. -/
theorem strictAlpha_lex_conv (text : Str) (toks : List Tok) (h : lex false text = some toks) :
    lex true text = some toks ∧ toks.all strictAlphaTokOK = true := by
  unfold lex at h ⊢
  have hnf : (lexRun false lexInit text).mode ≠ .fail := by
    intro hf
    unfold lexRun at hf
    simp [lexFinish, hf] at h
  obtain ⟨h1, h2⟩ := strictAlpha_fwd_run text lexInit (by decide) hnf
  unfold lexRun at h1 h2
  rw [h1]
  refine ⟨h, ?_⟩
  generalize List.foldl (lexStep false) lexInit text = st at h h2
  obtain ⟨m, ts⟩ := st
  simp only [strictAlphaStateOK, Bool.and_eq_true] at h2
  cases m with
  | top => simp only [lexFinish, Option.some.injEq] at h; subst h; simpa using h2.2
  | comment => simp only [lexFinish, Option.some.injEq] at h; subst h; simpa using h2.2
  | word acc =>
    simp only [lexFinish, Option.some.injEq] at h; subst h
    simp only [List.all_reverse, List.all_cons, Bool.and_eq_true, strictAlphaTokOK, strictAlpha_name_reverse]
    exact ⟨by simpa [strictAlphaModeOK] using h2.1, h2.2⟩
  | _ => simp [lexFinish] at h

/-! ### defined names are name tokens -/

def strictAlphaCInv (P : Str → Prop) (s : CState) : Prop :=
  (∀ n ∈ s.names, P n) ∧ (∀ n, s.mode = .gotName n → P n)

theorem strictAlpha_cQuant_names (stack : List AFrame) (top : AFrame) (b : Bool) : (cQuant stack top b).2.names = [] := by
  unfold cQuant; split <;> rfl

theorem strictAlpha_body_emit (stack : List AFrame) (top : AFrame) (br : Brace) (t : Tok) :
    (cAction (.body stack top br) t).2.names = [] ∧ ∀ n, (cAction (.body stack top br) t).1 ≠ .gotName n := by
  have q := strictAlpha_cQuant_names stack top
  have q' := strictAlpha_cQuant_fst stack top
  cases br <;> cases t <;> simp only [cAction, cBody, cBrace, cEndRule] <;> (try split) <;> (try split) <;>
    simp [q, q']

theorem strictAlpha_cinv_step (P : Str → Prop) (s : CState) (t : Tok) (hs : strictAlphaCInv P s)
    (ht : ∀ n, t = .name n → P n) : strictAlphaCInv P (cStep s t) := by
  obtain ⟨m, N, R, E⟩ := s
  obtain ⟨h1, h2⟩ := hs
  simp only at h1 h2
  cases m with
  | fail => exact ⟨by simpa [cStep, cAction] using h1, by simp [cStep, cAction]⟩
  | idle =>
    cases t with
    | name k =>
      refine ⟨by simpa [cStep, cAction] using h1, ?_⟩
      intro n hn
      simp only [cStep, cAction, CMode.gotName.injEq] at hn
      subst hn; exact ht _ rfl
    | _ => exact ⟨by simpa [cStep, cAction] using h1, by simp [cStep, cAction]⟩
  | gotName k =>
    cases t with
    | define =>
      refine ⟨?_, by simp [cStep, cAction]⟩
      intro n hn
      simp only [cStep, cAction, List.cons_append, List.nil_append, List.mem_cons] at hn
      rcases hn with hn | hn
      · subst hn; exact h2 _ rfl
      · exact h1 n hn
    | _ => exact ⟨by simpa [cStep, cAction] using h1, by simp [cStep, cAction]⟩
  | body stack top br =>
    obtain ⟨e1, e2⟩ := strictAlpha_body_emit stack top br t
    refine ⟨?_, ?_⟩
    · simp only [cStep, e1, List.nil_append]; exact h1
    · intro n hn; simp only [cStep] at hn; exact absurd hn (e2 n)

theorem strictAlpha_cinv_run (P : Str → Prop) (ts : List Tok) : ∀ (s : CState), strictAlphaCInv P s →
    (∀ n, Tok.name n ∈ ts → P n) → strictAlphaCInv P (cRun s ts) := by
  induction ts with
  | nil => intro s h _; exact h
  | cons t r ih =>
    intro s h hP
    simp only [cRun_cons]
    exact ih _ (strictAlpha_cinv_step P s t h (fun n hn => hP n (by simp [hn]))) (fun n hn => hP n (by simp [hn]))

/-- every defined rule name of an accepted token list occurs in it as a name token -/
theorem strictAlpha_defined_tok (toks : List Tok) (g : Grammar) (h : parseToks toks = some g) (n : Str)
    (hn : n ∈ g.defined) : Tok.name n ∈ toks := by
  have hinv := strictAlpha_cinv_run (fun n => Tok.name n ∈ toks) toks cInit ⟨by simp [cInit], by simp [cInit]⟩
    (fun _ h => h)
  unfold parseToks pFinish at h
  rw [foldl_pStep_fst] at h
  simp only at h
  cases hf : cFinish (cRun cInit toks) with
  | none => simp [hf] at h
  | some c =>
    simp only [hf, Option.some.injEq] at h
    have hc : c.names = (cRun cInit toks).names := by
      unfold cFinish at hf
      split at hf
      · cases hf; rfl
      · cases hf; rfl
      · cases hf
    subst h
    simp only [List.mem_reverse] at hn
    rw [hc] at hn
    exact hinv.1 n hn

/-- a strictly well-formed text defines no rule whose name contains `_` -/
theorem strictAlpha_strict_defined (text : Str) (g : Grammar) (h : parse false text = some g) :
    parse true text = some g ∧ ∀ n ∈ g.defined, strictAlphaName n = true := by
  unfold parse at h ⊢
  cases hl : lex false text with
  | none => simp [hl] at h
  | some toks =>
    simp only [hl] at h
    obtain ⟨h1, h2⟩ := strictAlpha_lex_conv text toks hl
    rw [h1]
    refine ⟨h, fun n hn => ?_⟩
    have := List.all_eq_true.mp h2 _ (strictAlpha_defined_tok toks g h n hn)
    simpa [strictAlphaTokOK] using this

theorem strictAlpha_append_dirty (b x : Str) (h : strictAlphaName b = false) : strictAlphaName (b ++ x) = false := by
  unfold strictAlphaName at h ⊢
  rw [List.all_append, h]; rfl

/-- a base name with `_` yields a rule name with `_` (the uniqueness loop only appends `-k`) -/
theorem strictAlpha_assignNames_conv : ∀ (bases used names : List Str), assignNames bases used = some names →
    ((∃ b ∈ bases, strictAlphaName b = false) ∨ (∃ u ∈ used, strictAlphaName u = false)) →
    ∃ n ∈ names, strictAlphaName n = false := by
  intro bases
  induction bases with
  | nil =>
    intro used names h hd
    simp only [assignNames, Option.some.injEq] at h
    subst h
    rcases hd with ⟨b, hb, _⟩ | hd
    · simp at hb
    · exact hd
  | cons b r ih =>
    intro used names h hd
    simp only [assignNames] at h
    split at h
    · rename_i n hn
      have h2 := (uniqueLoop_spec used b _ _ b n hn).2
      apply ih (used ++ [n]) names h
      rcases hd with ⟨x, hx, hxd⟩ | ⟨u, hu, hud⟩
      · rcases List.mem_cons.mp hx with hx | hx
        · subst hx
          right
          refine ⟨n, by simp, ?_⟩
          rcases h2 with h2 | ⟨k, h2⟩
          · subst h2; exact hxd
          · subst h2; rw [uniqueCandidate_eq]; exact strictAlpha_append_dirty _ _ hxd
        · left; exact ⟨x, hx, hxd⟩
      · right; exact ⟨u, by simp [hu], hud⟩
    · cases h

/-- **The guard is exact.**  If some field's sanitised base name contains `_`, the compiled grammar is NOT well-formed
under llama.cpp's alphabet (it does not even parse: a rule head contains `_`).  Generalises `F23_strict_alphabet_witness`
to every schema, name, chain and both envelope settings. -/
theorem C12_strict_guard_exact (name upper : Str) (fields : List Field) (envelope : Bool) (text : Str)
    (hok : SchemaOK fields = true) (hsa : strictAlphaOK fields = false)
    (hc : compileSchema name upper fields envelope = some text) :
    ¬ WellFormed false text := by
  rintro ⟨g, hp, -⟩
  obtain ⟨hpt, hclean⟩ := strictAlpha_strict_defined text g hp
  obtain ⟨names, hn⟩ := assignNames_total (fields.map Field.baseName) []
  · have hdirty : ∃ b ∈ fields.map Field.baseName, strictAlphaName b = false := by
      unfold strictAlphaOK at hsa
      rw [List.all_eq_false] at hsa
      obtain ⟨f, hf, hfd⟩ := hsa
      exact ⟨f.baseName, List.mem_map.mpr ⟨f, hf, rfl⟩, Bool.eq_false_iff.mpr hfd⟩
    obtain ⟨n, hnm, hnd⟩ := strictAlpha_assignNames_conv _ [] names hn (.inl hdirty)
    have hdef := strictAlpha_compiled_defined name upper fields envelope text names hok hn hc g hpt
    have : n ∈ g.defined := by rw [hdef]; exact List.mem_append_left _ (List.mem_append_right _ hnm)
    rw [hclean n this] at hnd
    exact absurd hnd (by decide)

/-- the two theorems together: for schemas the reader can deliver, strict well-formedness of the compiled grammar is
decided by the guard -/
theorem C12_strict_iff (name upper : Str) (fields : List Field) (envelope : Bool) (text : Str)
    (hok : SchemaOK fields = true) (hc : compileSchema name upper fields envelope = some text) :
    WellFormed false text ↔ strictAlphaOK fields = true := by
  constructor
  · intro hw
    cases h : strictAlphaOK fields with
    | true => rfl
    | false => exact absurd hw (C12_strict_guard_exact name upper fields envelope text hok h hc)
  · intro h; exact C12_wellformed_strict name upper fields envelope text hok h hc

/-- non-vacuity of the exactness direction: a field whose `_` comes from a `.` (rule `a_dot_b`), with the envelope -/
example : illFormed false (compileSchema "S".toList "S".toList [⟨"a.b".toList, "a.b".toList, none⟩] true) := by
  obtain ⟨text, h⟩ := C12_compile_total "S".toList "S".toList [⟨"a.b".toList, "a.b".toList, none⟩] true
  exact ⟨text, h, C12_strict_guard_exact _ _ _ _ text (by decide) (by decide +kernel) h⟩
example : SchemaOK [⟨"a.b".toList, "a.b".toList, none⟩] = true ∧ strictAlphaOK [⟨"a.b".toList, "a.b".toList, none⟩] = false ∧
    (compileSchema "S".toList "S".toList [⟨"a.b".toList, "a.b".toList, none⟩] true).isSome = true := by decide +kernel
/-- non-vacuity of the converse lexer transfer -/
example : lex false "a-b ::= \"_\" [_]".toList = some [.name "a-b".toList, .define, .lit "_".toList, .cls false [('_', '_')]] := by
  decide +kernel

end Octave.C12
