/-
C12 — Every compiled grammar is well-formed GBNF.  (under construction)
-/
import Octave.Model.Gbnf
import Octave.Spec.GbnfSyntax
namespace Octave.C12
open Octave Octave.Gbnf

theorem gen_escapePairs : Gen.escapePairs = [("\\".toList, "\\\\".toList), ("\"".toList, "\\\"".toList)] := by decide

end Octave.C12
