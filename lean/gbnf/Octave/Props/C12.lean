/-
C12 — Every compiled grammar is well-formed GBNF.

Property theorems over the executable model `Octave.Model.Gbnf` of gbnf_compiler.py (tied to the
source by `Octave.Gen.Gbnf`, regenerated on every run, and by the differential correspondence of
tools/props/c12.py) and the GBNF syntax `Octave.Spec.GbnfSyntax`.  Helper lemmas live in
`Octave/Lemmas`.

Main results
  * `gen_*`                     characterising facts about the generated templates (a changed template
                                in the source falsifies its fact, and with it the theorems below);
  * `sanitize_charset`, `sanitize_nonempty`, `sanitize_lowercase`   what `_sanitize_rule_name` guarantees;
    `sanitize_leading_digit_witness`  (what it does *not* guarantee);
  * `escape_literal_closed`     `"` ++ escape v ++ `"` is read back as exactly the literal token v;
  * `fragment_parses`           every constraint kind's fragment is a well-formed rule-body fragment;
  * `C12_compile_total`         `compile_schema` never raises;
  * `C12_wellformed_partial`    SchemaOK → ¬KF… → WellFormed (compileSchema …), both envelope settings,
                                for the lenient name alphabet;
  * `C12_contract_route`        the META.CONTRACT route compiles the schema rebuilt from the tokens;
  * negative theorems on the witnesses of F20 F21 F22 F23 C12N1 C12N2.
-/
import Octave.Lemmas.ClassFrag
import Octave.Lemmas.Strings
set_option linter.unusedSimpArgs false
namespace Octave.C12
open Octave Octave.Gbnf

/-! ## Characterising facts about the generated data -/

theorem gen_sanitize :
    Gen.sanReplacements = [(".".toList, "_dot_".toList), ("/".toList, "_slash_".toList), ("-".toList, "_".toList)] ∧
    Gen.sanKeepExtra = "_".toList ∧ Gen.sanUniPrefix = "_u".toList ∧ Gen.sanUniSuffix = "_".toList ∧
    Gen.sanDigitPrefix = "r_".toList ∧ Gen.sanCollapseFrom = "__".toList ∧ Gen.sanCollapseTo = "_".toList ∧
    Gen.sanStripChars = "_".toList ∧ Gen.sanFallback = "unnamed_field".toList := by decide

theorem gen_escapePairs :
    Gen.escapePairs = [("\\".toList, "\\\\".toList), ("\"".toList, "\\\"".toList)] := by decide

theorem gen_dispatch :
    Gen.dispatch = [(.req, .required), (.opt, .optional), (.enum, .enum), (.const, .const), (.type, .type),
      (.regex, .regex), (.dir, .dir), (.appendOnly, .list), (.range, .range), (.maxLen, .maxLength),
      (.minLen, .minLength), (.date, .date), (.iso8601, .iso8601)] := by decide

theorem gen_enumConst :
    Gen.enumQuoteTpl = [.lit "\"".toList, .var 0, .lit "\"".toList] ∧ Gen.enumJoiner = " | ".toList ∧
    Gen.enumWrapTpl = [.lit "(".toList, .var 0, .lit ")".toList] ∧
    Gen.constTpl = [.lit "\"".toList, .var 0, .lit "\"".toList] := by decide

theorem gen_regex :
    Gen.regexSimpleTpl = [.lit "[".toList, .var 0, .lit "]".toList, .var 1] ∧
    Gen.regexDefaultQuantifier = "+".toList ∧
    Gen.regexSimplePattern = "^\\[([^\\]]+)\\]([+*?]?)$".toList ∧
    Gen.regexLstrip = "^".toList ∧ Gen.regexRstrip = "$".toList ∧
    Gen.regexUnsupported = ["(?", "\\b", "\\B", "\\d", "\\w", "\\s", "\\D", "\\W", "\\S"].map String.toList ∧
    Gen.regexDotFrom = ".".toList ∧ Gen.regexDotTo = "[^\\n]".toList ∧
    Gen.regexDegenerate = ["+", "*", "?"].map String.toList := by decide

/-- every constant fragment the compiler can emit is a well-formed rule-body fragment without references -/
theorem gen_constant_fragments :
    ∀ f ∈ [Gen.unknownFragment, Gen.emptyChainFragment, Gen.requiredFragment, Gen.optionalFragment, Gen.typeDefault,
           Gen.regexDegrade, Gen.regexDegenerateFragment, Gen.dirFragment, Gen.listFragment, Gen.rangeFragment,
           Gen.maxLengthFragment, Gen.minLengthGeFragment, Gen.minLengthLtFragment, Gen.dateFragment,
           Gen.schemaNoPattern] ++ Gen.typePatterns.map (·.2),
      fragCheck f = some [] := by decide +kernel

theorem gen_iso8601_fragment : fragCheck Gen.iso8601Fragment = some [] := by decide +kernel

theorem gen_schema_templates :
    Gen.schemaHeader = [[.lit "# GBNF Grammar for OCTAVE schema: ".toList, .var 0], [], [.lit "ws ::= [ \\t\\n]*".toList], []] ∧
    Gen.schemaFieldRuleTpl = [.var 0, .lit " ::= \"".toList, .var 1, .lit "\" \"::\" ws ".toList, .var 2] ∧
    Gen.schemaAfterFields = [] ∧ Gen.schemaRefsJoiner = " | ".toList ∧
    Gen.schemaWithFields = [[.lit "field ::= (".toList, .var 0, .lit ")".toList], [.lit "content ::= (field ws)*".toList]] ∧
    Gen.schemaWithoutFields = [[.lit "content ::= [^\\n]*".toList]] ∧ Gen.schemaAfterContent = [] ∧
    Gen.schemaEnvelope = [[.lit "envelope-start ::= \"===".toList, .var 0, .lit "===\"".toList],
      [.lit "envelope-end ::= \"===END===\"".toList], [], [.lit "meta-block ::= \"META:\" ws meta-content".toList],
      [.lit "meta-content ::= (meta-field ws)*".toList], [.lit "meta-field ::= [A-Z_]+ \"::\" ws [^\\n]+".toList], [],
      [.lit "document ::= envelope-start ws meta-block ws content ws envelope-end".toList]] ∧
    Gen.schemaNoEnvelope = [[.lit "document ::= content".toList]] ∧
    Gen.schemaTail = [[], [.lit "root ::= document".toList]] ∧ Gen.schemaLineJoiner = "\n".toList := by decide

/-- the exact text of every constant fragment (any edit of a template in the source shows up here) -/
theorem gen_fragment_texts :
    Gen.requiredFragment = "[^\\n]+".toList ∧ Gen.optionalFragment = "[^\\n]*".toList ∧
    Gen.unknownFragment = "[^\\n]+".toList ∧ Gen.emptyChainFragment = "[^\\n]*".toList ∧
    Gen.typePatterns = [("STRING".toList, "[^\\n]+".toList), ("NUMBER".toList, "\"-\"? [0-9]+ (\".\" [0-9]+)?".toList),
      ("BOOLEAN".toList, "(\"true\" | \"false\")".toList), ("LIST".toList, "\"[\" [^\\]]* \"]\"".toList)] ∧
    Gen.typeDefault = "[^\\n]+".toList ∧ Gen.regexDegrade = "[^\\n]+".toList ∧ Gen.regexDegenerateFragment = "[^\\n]+".toList ∧
    Gen.dirFragment = "[a-zA-Z0-9_./-]+".toList ∧ Gen.listFragment = "\"[\" [^\\]]* \"]\"".toList ∧
    Gen.rangeFragment = "\"-\"? [0-9]+ (\".\" [0-9]+)?".toList ∧ Gen.maxLengthFragment = "[^\\n]*".toList ∧
    Gen.minLengthThreshold = 1 ∧ Gen.minLengthGeFragment = "[^\\n]+".toList ∧ Gen.minLengthLtFragment = "[^\\n]*".toList ∧
    Gen.dateFragment = "[0-9][0-9][0-9][0-9] \"-\" [0-9][0-9] \"-\" [0-9][0-9]".toList ∧
    Gen.iso8601Fragment = ("[0-9][0-9][0-9][0-9] \"-\" [0-9][0-9] \"-\" [0-9][0-9] (\"T\" [0-9][0-9] \":\" [0-9][0-9] \":\" [0-9][0-9] " ++
      "(\"Z\" | (\"+\" | \"-\") [0-9][0-9] \":\" [0-9][0-9])?)?").toList ∧
    Gen.schemaNoPattern = "[^\\n]*".toList := by decide +kernel

/-- the CONTRACT route: the field pattern, and what each token type contributes to a reconstructed spec -/
theorem gen_contract :
    Gen.contractFieldPattern = "^FIELD\\[([^\\]]+)\\]::(.+)$".toList ∧
    Gen.reconstructSkip = ["LIST_START", "LIST_END", "NEWLINE", "INDENT"].map String.toList ∧
    Gen.reconstructAppend = [("IDENTIFIER".toList, [.var 0]), ("ASSIGN".toList, [.lit "::".toList]), ("CONSTRAINT".toList, [.var 0]),
      ("FLOW".toList, [.var 0]), ("STRING".toList, [.lit "\"".toList, .var 0, .lit "\"".toList]), ("NUMBER".toList, [.var 1])] ∧
    (∀ n, n ∈ Gen.pySpace ↔ n ∈ [9, 10, 11, 12, 13, 28, 29, 30, 31, 32, 133, 160, 5760, 8192, 8193, 8194, 8195, 8196, 8197, 8198, 8199,
      8200, 8201, 8202, 8232, 8233, 8239, 8287, 12288]) := by
  refine ⟨by decide, by decide, by decide, ?_⟩
  intro n
  have : Gen.pySpace = [9, 10, 11, 12, 13, 28, 29, 30, 31, 32, 133, 160, 5760, 8192, 8193, 8194, 8195, 8196, 8197, 8198, 8199,
      8200, 8201, 8202, 8232, 8233, 8239, 8287, 12288] := by decide
  rw [this]

/-! ## `_sanitize_rule_name` -/

theorem sanDigit_forall (P : Char → Prop) (s : Str) (hs : ∀ c ∈ s, P c) (hp : ∀ c ∈ Gen.sanDigitPrefix, P c) :
    ∀ c ∈ sanDigit s, P c := by
  cases s with
  | nil => simpa [sanDigit] using hs
  | cons d r =>
    intro c hc
    unfold sanDigit at hc
    simp only at hc
    split at hc
    · rcases List.mem_append.mp hc with h | h
      · exact hp c h
      · exact hs c h
    · exact hs c hc

/-- generic invariant of the sanitiser: a predicate that holds for the characters the loop keeps, for
the characters of the constant pieces and for lower-case hexadecimal digits holds for the result. -/
theorem sanitize_forall (P : Char → Prop) (lowered : Str)
    (hkeep : ∀ c ∈ sanReplace lowered, isAscii c = true → (isAsciiAlnum c = true ∨ c = '_') → P c)
    (hconst : ∀ c ∈ "_ur_unnamed_field".toList, P c) (hhex : ∀ d, d < 16 → P (Nat.digitChar d)) :
    ∀ c ∈ sanitize lowered, P c := by
  obtain ⟨_, hk, hup, hus, hdp, _, hct, _, hfb⟩ := gen_sanitize
  have s1 : ∀ c ∈ "_u".toList, c ∈ "_ur_unnamed_field".toList := by decide
  have s2 : ∀ c ∈ "_".toList, c ∈ "_ur_unnamed_field".toList := by decide
  have s3 : ∀ c ∈ "r_".toList, c ∈ "_ur_unnamed_field".toList := by decide
  have s4 : ∀ c ∈ "unnamed_field".toList, c ∈ "_ur_unnamed_field".toList := by decide
  -- the per-character loop
  have h1 : ∀ c ∈ sanLoop (sanReplace lowered), P c := by
    intro c hcm
    obtain ⟨a, ha, hca⟩ := List.mem_flatMap.mp hcm
    unfold sanitizeChar at hca
    split at hca
    · rename_i hcond
      simp only [List.mem_singleton] at hca
      subst hca
      simp only [Bool.and_eq_true, Bool.or_eq_true] at hcond
      refine hkeep c ha hcond.1 ?_
      rcases hcond.2 with h | h
      · exact Or.inl h
      · right
        rw [hk] at h
        simpa using h
    · split at hca
      · rw [hup, hus] at hca
        simp only [List.mem_append] at hca
        rcases hca with (h | h) | h
        · exact hconst c (s1 c h)
        · exact toDigitsCore_forall P hhex _ _ _ (by simp) c h
        · exact hconst c (s2 c h)
      · simp at hca
  have h2 : ∀ c ∈ sanDigit (sanLoop (sanReplace lowered)), P c :=
    sanDigit_forall P _ h1 (by rw [hdp]; exact fun c h => hconst c (s3 c h))
  have h3 : ∀ c ∈ sanCollapse (sanDigit (sanLoop (sanReplace lowered))), P c := by
    intro d hd
    unfold sanCollapse at hd
    cases hcl : collapseLoop (sanDigit (sanLoop (sanReplace lowered))).length (sanDigit (sanLoop (sanReplace lowered))) with
    | none => rw [hcl] at hd; exact h2 d hd
    | some r =>
      rw [hcl] at hd
      exact collapseLoop_forall P (by rw [hct]; exact fun c h => hconst c (s2 c h)) _ _ r h2 hcl d hd
  intro c hcm
  unfold sanitize at hcm
  simp only at hcm
  split at hcm
  · rw [hfb] at hcm; exact hconst c (s4 c hcm)
  · exact stripChars_forall P _ _ h3 c hcm

/-- **sanitize_charset.**  Whatever the field name, the rule name consists of GBNF name characters under
the lenient alphabet (`[a-zA-Z0-9_]`; never a `-`). -/
theorem sanitize_charset (lowered : Str) :
    ∀ c ∈ sanitize lowered, isWordChar true c = true ∧ c ≠ '-' := by
  apply sanitize_forall
  · intro c _ _ h
    rcases h with h | h
    · unfold isAsciiAlnum at h
      constructor
      · simp only [isWordChar, Bool.or_eq_true] at h ⊢; exact Or.inl (Or.inl h)
      · intro hc; subst hc; simp [isLower, isUpper, isDigit] at h
    · subst h; decide
  · decide
  · intro d hd
    have : ∀ k : Fin 16, isWordChar true (Nat.digitChar k.val) = true ∧ Nat.digitChar k.val ≠ '-' := by decide
    exact this ⟨d, hd⟩

/-- … and it is never empty. -/
theorem sanitize_nonempty (lowered : Str) : sanitize lowered ≠ [] := by
  unfold sanitize
  simp only
  split
  · rw [gen_sanitize.2.2.2.2.2.2.2.2]; decide
  · rename_i h; intro h'; rw [h'] at h; simp at h

/-- If the lowered name has no ASCII upper-case letter (which `str.lower()` guarantees), the rule name is
in `[a-z0-9_]`. -/
theorem sanitize_lowercase (lowered : Str) (hl : ∀ c ∈ lowered, isUpper c = false) :
    ∀ c ∈ sanitize lowered, isLower c = true ∨ isDigit c = true ∨ c = '_' := by
  apply sanitize_forall
  · intro c hc _ h
    have hnu : isUpper c = false := by
      unfold sanReplace at hc
      rw [gen_sanitize.1] at hc
      simp only [List.foldl_cons, List.foldl_nil] at hc
      refine replaceAll_forall (fun c => isUpper c = false) _ _ _ (by decide) ?_ c hc
      refine replaceAll_forall (fun c => isUpper c = false) _ _ _ (by decide) ?_
      exact replaceAll_forall (fun c => isUpper c = false) _ _ _ (by decide) hl
    rcases h with h | h
    · unfold isAsciiAlnum at h
      simp only [Bool.or_eq_true, hnu, Bool.false_eq_true, or_false] at h
      rcases h with h | h
      · exact Or.inl h
      · exact Or.inr (Or.inl h)
    · exact Or.inr (Or.inr h)
  · decide
  · intro d hd
    have : ∀ k : Fin 16, isLower (Nat.digitChar k.val) = true ∨ isDigit (Nat.digitChar k.val) = true ∨ Nat.digitChar k.val = '_' := by decide
    exact this ⟨d, hd⟩

/-- What the code does **not** guarantee although its comment says so: the name can start with a digit
(the `r_` prefix is added before the leading underscore is stripped). -/
theorem sanitize_leading_digit_witness : sanitize "_1".toList = "1".toList := by decide

example : sanitize "a.b/c-d".toList = "a_dot_b_slash_c_d".toList := by decide
example : sanitize "naïve".toList = "na_uef_ve".toList := by decide
example : sanitize "9x".toList = "r_9x".toList := by decide
example : sanitize "___".toList = "unnamed_field".toList := by decide

/-! ## `_escape_literal` -/

theorem escapeLiteral_eq (v : Str) : escapeLiteral v = v.flatMap esc1 := by
  unfold escapeLiteral
  rw [gen_escapePairs]
  simp only [List.foldl_cons, List.foldl_nil]
  have e1 : "\\".toList = ['\\'] := by decide
  have e2 : "\"".toList = ['"'] := by decide
  rw [e1, e2, replaceAll_single, replaceAll_single, List.flatMap_assoc]
  congr 1
  funext c
  unfold esc1
  by_cases h1 : c = '\\'
  · subst h1; decide
  · by_cases h2 : c = '"'
    · subst h2; decide
    · simp [h1, h2]

/-- **escape_literal_closed.**  For *every* string `v` (quotes, backslashes and raw newlines included),
the text `"` ++ `_escape_literal(v)` ++ `"` read from between tokens is exactly one literal token, whose
content is `v`, and the lexer is between tokens again: the escaped text contains no unescaped quote and
leaves no dangling escape.  A newline in `v` is pasted raw; inside a GBNF literal it stands for itself. -/
theorem escape_literal_closed (v : Str) (toks : List Tok) :
    lexRun true ⟨.top, toks⟩ ('"' :: escapeLiteral v ++ ['"']) = ⟨.top, .lit v :: toks⟩ := by
  rw [escapeLiteral_eq]
  exact lex_quoteLit v toks

example : escapeLiteral "a\"b\\c\nd".toList = "a\\\"b\\\\c\nd".toList := by decide

/-! ## fragments -/

/-- what the schema reader guarantees about a constraint, as far as the grammar needs it -/
def constraintOK : Constraint → Bool
  | .enum vals => !vals.isEmpty          -- `ENUM[...]` always has at least one member (`"".split(",")` is `[""]`)
  | _ => true

/-- **F22 class predicate** (negated): the REGEX pattern is *translated* rather than pasted — it degrades to
the permissive fragment, or has the simple `[class]q` shape with a class body free of backslashes (and
not just `^`), or is degenerate. -/
def regexSafe (pat : Str) : Bool :=
  let p := rstripChars Gen.regexRstrip (lstripChars Gen.regexLstrip pat)
  if Gen.regexUnsupported.any (fun u => isInfixOf u p) then true
  else match simpleClassMatch p with
    | some (body, _) => !body.contains '\\' && body != ['^']
    | none =>
      let r := replaceAll Gen.regexDotFrom Gen.regexDotTo p
      r.isEmpty || Gen.regexDegenerate.contains r

def constraintSafe : Constraint → Bool
  | .regex p => regexSafe p
  | _ => true

theorem constFrag {f : Str} (h : f ∈ [Gen.unknownFragment, Gen.emptyChainFragment, Gen.requiredFragment, Gen.optionalFragment, Gen.typeDefault,
           Gen.regexDegrade, Gen.regexDegenerateFragment, Gen.dirFragment, Gen.listFragment, Gen.rangeFragment,
           Gen.maxLengthFragment, Gen.minLengthGeFragment, Gen.minLengthLtFragment, Gen.dateFragment,
           Gen.schemaNoPattern] ++ Gen.typePatterns.map (·.2)) : FragOK f [] :=
  fragOK_of_check (gen_constant_fragments f h)

theorem lookupStr_mem (k : Str) : ∀ (l : List (Str × Str)) (v : Str), lookupStr k l = some v → v ∈ l.map (·.2) := by
  intro l
  induction l with
  | nil => intro v h; simp [lookupStr] at h
  | cons a r ih =>
    intro v h
    obtain ⟨x, y⟩ := a
    simp only [lookupStr] at h
    split at h
    · cases h; simp
    · simp [ih v h]

theorem mem_takeWhile_imp (p : Char → Bool) : ∀ (l : Str) (c : Char), c ∈ l.takeWhile p → p c = true := by
  intro l
  induction l with
  | nil => intro c h; simp at h
  | cons a r ih =>
    intro c h
    simp only [List.takeWhile] at h
    split at h
    · rcases List.mem_cons.mp h with h1 | h1
      · subst h1; assumption
      · exact ih c h1
    · simp at h

theorem simpleClassMatch_spec {p body q : Str} (h : simpleClassMatch p = some (body, q)) :
    body ≠ [] ∧ (∀ c ∈ body, c ≠ ']') ∧ (q = [] ∨ ∃ c, q = [c] ∧ isQuant c) := by
  unfold simpleClassMatch at h
  split at h
  · rename_i rest
    simp only at h
    split at h
    · cases h
    · rename_i hne
      have hb : ∀ c ∈ rest.takeWhile (· != ']'), c ≠ ']' := by
        intro c hc
        have := mem_takeWhile_imp _ _ c hc
        simpa using this
      split at h
      · split at h
        · cases h; exact ⟨by simpa using hne, hb, Or.inl rfl⟩
        · cases h; exact ⟨by simpa using hne, hb, Or.inl rfl⟩
        · split at h
          · rename_i qc hq
            cases h
            refine ⟨by simpa using hne, hb, Or.inr ⟨_, rfl, ?_⟩⟩
            simp only [Bool.or_eq_true, beq_iff_eq] at hq
            unfold isQuant
            rcases hq with (h | h) | h
            · exact Or.inl h
            · exact Or.inr (Or.inl h)
            · exact Or.inr (Or.inr h)
          · cases h
        · split at h
          · rename_i qc hq
            cases h
            refine ⟨by simpa using hne, hb, Or.inr ⟨_, rfl, ?_⟩⟩
            simp only [Bool.or_eq_true, beq_iff_eq] at hq
            unfold isQuant
            rcases hq with (h | h) | h
            · exact Or.inl h
            · exact Or.inr (Or.inl h)
            · exact Or.inr (Or.inr h)
          · cases h
        · cases h
      · cases h
  · cases h

theorem regex_fragment (pat : Str) (hs : regexSafe pat = true) : FragOK (compileRegex pat) [] := by
  unfold regexSafe at hs
  unfold compileRegex
  simp only at hs ⊢
  split
  · exact constFrag (by simp)
  · rename_i hu
    simp only [hu, Bool.false_eq_true, if_false] at hs
    split
    · rename_i body q hm
      rw [hm] at hs
      simp only [Bool.and_eq_true, Bool.not_eq_true', bne_iff_ne, ne_eq] at hs
      obtain ⟨hb1, hb2, hq⟩ := simpleClassMatch_spec hm
      have hplain : ClsPlain body := by
        intro c hc
        refine ⟨hb2 c hc, ?_⟩
        intro h; subst h
        have := hs.1
        simp [List.contains_iff_mem] at this
        exact this hc
      obtain ⟨htpl, hdq, _⟩ := gen_regex
      rw [htpl, hdq]
      rcases hq with hq | ⟨c, hq, hc⟩
      · subst hq
        have := fragOK_class body '+' hplain hb1 hs.2 (Or.inl rfl)
        simpa [render] using this
      · subst hq
        have := fragOK_class body c hplain hb1 hs.2 hc
        simpa [render] using this
    · rename_i hm
      rw [hm] at hs
      simp only at hs
      simp only [hs, if_true]
      exact constFrag (by simp)

/-- **fragment_parses.**  The fragment compiled for any single constraint of any of the kinds
(REQ OPT ENUM CONST TYPE REGEX DIR APPEND_ONLY RANGE MAX_LENGTH MIN_LENGTH DATE ISO8601, and the permissive
fragment for anything else) is a well-formed piece of a rule body: it lexes from between tokens to
between tokens, contains no reference, leaves a non-empty alternative and no empty alternative —
provided an ENUM has a member and a REGEX is translated rather than pasted (finding F22). -/
theorem fragment_parses (c : Constraint) (hok : constraintOK c = true) (hsafe : constraintSafe c = true) :
    ∃ frag, compileConstraint c = some frag ∧ FragOK frag [] := by
  obtain ⟨hq, hj, hw, hct⟩ := gen_enumConst
  cases c with
  | req => exact ⟨Gen.requiredFragment, by simp [compileConstraint, gen_dispatch, lookupMethod, Constraint.kind, runMethod], constFrag (by simp)⟩
  | opt => exact ⟨Gen.optionalFragment, by simp [compileConstraint, gen_dispatch, lookupMethod, Constraint.kind, runMethod], constFrag (by simp)⟩
  | dir => exact ⟨Gen.dirFragment, by simp [compileConstraint, gen_dispatch, lookupMethod, Constraint.kind, runMethod], constFrag (by simp)⟩
  | appendOnly => exact ⟨Gen.listFragment, by simp [compileConstraint, gen_dispatch, lookupMethod, Constraint.kind, runMethod], constFrag (by simp)⟩
  | range => exact ⟨Gen.rangeFragment, by simp [compileConstraint, gen_dispatch, lookupMethod, Constraint.kind, runMethod], constFrag (by simp)⟩
  | maxLen => exact ⟨Gen.maxLengthFragment, by simp [compileConstraint, gen_dispatch, lookupMethod, Constraint.kind, runMethod], constFrag (by simp)⟩
  | date => exact ⟨Gen.dateFragment, by simp [compileConstraint, gen_dispatch, lookupMethod, Constraint.kind, runMethod], constFrag (by simp)⟩
  | iso8601 => exact ⟨Gen.iso8601Fragment, by simp [compileConstraint, gen_dispatch, lookupMethod, Constraint.kind, runMethod], fragOK_of_check gen_iso8601_fragment⟩
  | other => exact ⟨Gen.unknownFragment, by simp [compileConstraint, gen_dispatch, lookupMethod, Constraint.kind], constFrag (by simp)⟩
  | minLen n =>
    refine ⟨_, by simp [compileConstraint, gen_dispatch, lookupMethod, Constraint.kind, runMethod]; rfl, ?_⟩
    split
    · exact constFrag (by simp)
    · exact constFrag (by simp)
  | type t =>
    refine ⟨compileType t, by simp [compileConstraint, gen_dispatch, lookupMethod, Constraint.kind, runMethod], ?_⟩
    unfold compileType
    cases h : lookupStr t Gen.typePatterns with
    | none => exact constFrag (by simp)
    | some v => exact constFrag (by simp [lookupStr_mem t _ v h])
  | regex p =>
    exact ⟨compileRegex p, by simp [compileConstraint, gen_dispatch, lookupMethod, Constraint.kind, runMethod], regex_fragment p hsafe⟩
  | const v =>
    refine ⟨compileConst v, by simp [compileConstraint, gen_dispatch, lookupMethod, Constraint.kind, runMethod], ?_⟩
    unfold compileConst
    rw [hct, escapeLiteral_eq]
    have := fragOK_const v
    simpa [render] using this
  | enum vals =>
    refine ⟨compileEnum vals, by simp [compileConstraint, gen_dispatch, lookupMethod, Constraint.kind, runMethod], ?_⟩
    have hne : vals ≠ [] := by
      intro h; subst h; simp [constraintOK] at hok
    unfold compileEnum
    rw [hq, hj, hw]
    have hmap : (vals.map fun v => render [.lit "\"".toList, .var 0, .lit "\"".toList] [escapeLiteral v]) = vals.map quoteLit := by
      apply List.map_congr_left
      intro v _
      simp [render, quoteLit, escapeLiteral_eq]
    rw [hmap]
    have := fragOK_enum vals hne
    simpa [render] using this

/-! ## chains -/

theorem firstOfKinds_mem (ks : List Kind) : ∀ (cs : List Constraint) (c : Constraint), firstOfKinds ks cs = some c → c ∈ cs := by
  intro cs
  induction cs with
  | nil => intro c h; simp [firstOfKinds] at h
  | cons a r ih =>
    intro c h
    simp only [firstOfKinds] at h
    split at h
    · cases h; simp
    · simp [ih c h]

theorem pickByPriority_mem : ∀ (ps : List (List Kind)) (cs : List Constraint) (c : Constraint),
    pickByPriority ps cs = some c → c ∈ cs := by
  intro ps
  induction ps with
  | nil => intro cs c h; simp [pickByPriority] at h
  | cons k r ih =>
    intro cs c h
    simp only [pickByPriority] at h
    split at h
    · rename_i c' hc'; cases h; exact firstOfKinds_mem k cs c hc'
    · exact ih cs c h

theorem deciding_mem (cs : List Constraint) (c : Constraint) (h : deciding cs = some c) : c ∈ cs := by
  unfold deciding at h
  split at h
  · cases h
  · rename_i c0 r
    simp only [Option.some.injEq] at h
    cases hp : pickByPriority Gen.chainPriority (c0 :: r) with
    | none => rw [hp] at h; simp at h; subst h; simp
    | some c' => rw [hp] at h; simp at h; subst h; exact pickByPriority_mem _ _ _ hp

/-! ## known-finding class predicates (decidable, over the *input*) and what the reader guarantees -/

/-- what the schema reader guarantees: every ENUM has at least one member -/
def SchemaOK (fields : List Field) : Bool :=
  fields.all fun f => match f.chain with
    | some cs => cs.all constraintOK
    | none => true

def structuralNames : List Str := ["ws", "field", "content", "document", "root"].map String.toList

/-- **F20**: a field whose rule name equals a structural rule name -/
def KF_structural (fields : List Field) : Bool := fields.any fun f => structuralNames.contains f.ruleName
/-- **F21**: two fields with the same rule name (`_sanitize_rule_name` is not injective) -/
def KF_collision (fields : List Field) : Prop := ¬ (fields.map Field.ruleName).Nodup
/-- **F22**: a field decided by a REGEX whose pattern is pasted rather than translated -/
def chainSafe (f : Field) : Bool :=
  match f.chain with
  | some cs => (match deciding cs with
    | some c => constraintSafe c
    | none => true)
  | none => true
def KF_regexPaste (fields : List Field) : Bool := fields.any fun f => !chainSafe f
/-- **C12N1**: a field name with a quote or a backslash (pasted unescaped into the rule's literal) -/
def KF_fieldNameUnescaped (fields : List Field) : Bool := fields.any fun f => f.name.contains '"' || f.name.contains '\\'
/-- **C12N2**: a schema name with a line break (header comment) or, with envelope, a quote or backslash -/
def KF_schemaNameUnescaped (name upper : Str) (envelope : Bool) : Bool :=
  name.contains '\n' || name.contains '\r' || (envelope && (upper.contains '"' || upper.contains '\\'))

/-! ## lines -/

theorem fieldLine_ok (f : Field) (hok : (match f.chain with | some cs => cs.all constraintOK | none => true) = true)
    (hsafe : chainSafe f = true) (hname : (f.name.contains '"' || f.name.contains '\\') = false) :
    ∃ l, fieldLine f = some l ∧ LineOK l [f.ruleName] ["ws".toList] := by
  have hpat : ∃ pat, fieldPattern f = some pat ∧ FragOK pat [] := by
    unfold fieldPattern
    unfold chainSafe at hsafe
    cases hch : f.chain with
    | none => exact ⟨Gen.schemaNoPattern, rfl, constFrag (by simp)⟩
    | some cs =>
      rw [hch] at hok hsafe
      simp only at hok hsafe ⊢
      unfold compileChain
      cases hd : deciding cs with
      | none => exact ⟨Gen.emptyChainFragment, rfl, constFrag (by simp)⟩
      | some c =>
        rw [hd] at hsafe
        have hcok : constraintOK c = true := List.all_eq_true.mp hok c (deciding_mem cs c hd)
        exact fragment_parses c hcok hsafe
  obtain ⟨pat, hp, hfrag⟩ := hpat
  refine ⟨render Gen.schemaFieldRuleTpl [f.ruleName, f.name, pat], by simp [fieldLine, hp], ?_⟩
  rw [gen_schema_templates.2.1]
  have hn : ∀ c ∈ f.name, c ≠ '"' ∧ c ≠ '\\' := by
    intro c hc
    simp only [Bool.or_eq_false_iff] at hname
    constructor
    · intro h; subst h; have := hname.1; simp [List.contains_iff_mem] at this; exact this hc
    · intro h; subst h; have := hname.2; simp [List.contains_iff_mem] at this; exact this hc
  have := lineOK_field f.ruleName f.name pat [] (sanitize_nonempty f.lowered)
    (fun c hc => (sanitize_charset f.lowered c hc).1) hn hfrag
  simpa [render, Field.ruleName] using this

theorem fieldLines_ok : ∀ (fields : List Field), SchemaOK fields = true → KF_regexPaste fields = false →
    KF_fieldNameUnescaped fields = false →
    ∃ xs : List (Str × List Str × List Str), fieldLines fields = some (xs.map (·.1)) ∧
      (∀ x ∈ xs, LineOK x.1 x.2.1 x.2.2) ∧
      xs.flatMap (fun x => x.2.1.reverse) = fields.map Field.ruleName ∧
      (∀ r ∈ xs.flatMap (fun x => x.2.2.reverse), r = "ws".toList) := by
  intro fields
  induction fields with
  | nil => intro _ _ _; exact ⟨[], rfl, by simp, rfl, by simp⟩
  | cons f r ih =>
    intro hok h22 hn1
    simp only [SchemaOK, List.all_cons, Bool.and_eq_true] at hok
    simp only [KF_regexPaste, List.any_cons, Bool.or_eq_false_iff, Bool.not_eq_false'] at h22
    simp only [KF_fieldNameUnescaped, List.any_cons, Bool.or_eq_false_iff] at hn1
    obtain ⟨l, hl, hlo⟩ := fieldLine_ok f hok.1 h22.1 (by rw [hn1.1.1, hn1.1.2]; rfl)
    obtain ⟨xs, hxs, hall, hnames, hrefs⟩ := ih hok.2 h22.2 hn1.2
    refine ⟨(l, [f.ruleName], ["ws".toList]) :: xs, ?_, ?_, ?_, ?_⟩
    · simp [fieldLines, hl, hxs]
    · intro x hx
      rcases List.mem_cons.mp hx with h | h
      · subst h; exact hlo
      · exact hall x h
    · simp [hnames]
    · intro r hr
      simp only [List.flatMap_cons, List.reverse_cons, List.reverse_nil, List.nil_append, List.mem_append,
        List.mem_singleton] at hr
      rcases hr with h | h
      · exact h
      · exact hrefs r h

theorem lineCheck_blank : lineCheck [] = some ([], []) := by decide
theorem lineCheck_ws : lineCheck "ws ::= [ \\t\\n]*".toList = some (["ws".toList], []) := by decide
theorem lineCheck_content0 : lineCheck "content ::= [^\\n]*".toList = some (["content".toList], []) := by decide
theorem lineCheck_content1 : lineCheck "content ::= (field ws)*".toList = some (["content".toList], ["ws".toList, "field".toList]) := by decide
theorem lineCheck_envEnd : lineCheck "envelope-end ::= \"===END===\"".toList = some (["envelope-end".toList], []) := by decide
theorem lineCheck_metaBlock : lineCheck "meta-block ::= \"META:\" ws meta-content".toList = some (["meta-block".toList], ["meta-content".toList, "ws".toList]) := by decide
theorem lineCheck_metaContent : lineCheck "meta-content ::= (meta-field ws)*".toList = some (["meta-content".toList], ["ws".toList, "meta-field".toList]) := by decide
theorem lineCheck_metaField : lineCheck "meta-field ::= [A-Z_]+ \"::\" ws [^\\n]+".toList = some (["meta-field".toList], ["ws".toList]) := by decide
theorem lineCheck_documentEnv : lineCheck "document ::= envelope-start ws meta-block ws content ws envelope-end".toList =
    some (["document".toList], ["envelope-end", "ws", "content", "ws", "meta-block", "ws", "envelope-start"].map String.toList) := by decide +kernel
theorem lineCheck_document : lineCheck "document ::= content".toList = some (["document".toList], ["content".toList]) := by decide
theorem lineCheck_root : lineCheck "root ::= document".toList = some (["root".toList], ["document".toList]) := by decide

theorem header_ok (name : Str) (h : (name.contains '\n' || name.contains '\r') = false) :
    LineOK ("# GBNF Grammar for OCTAVE schema: ".toList ++ name) [] [] := by
  have : "# GBNF Grammar for OCTAVE schema: ".toList ++ name = '#' :: (" GBNF Grammar for OCTAVE schema: ".toList ++ name) := by
    simp
  rw [this]
  apply lineOK_comment
  intro c hc
  have hconst : ∀ c ∈ " GBNF Grammar for OCTAVE schema: ".toList, c ≠ '\n' ∧ c ≠ '\r' := by decide
  rcases List.mem_append.mp hc with h1 | h1
  · exact hconst c h1
  · simp only [Bool.or_eq_false_iff] at h
    constructor
    · intro hh; subst hh; have := h.1; simp [List.contains_iff_mem] at this; exact this h1
    · intro hh; subst hh; have := h.2; simp [List.contains_iff_mem] at this; exact this h1

theorem fieldRefs_ok (names : List Str) (hne : names ≠ [])
    (hw : ∀ r ∈ names, r ≠ [] ∧ ∀ c ∈ r, isWordChar true c = true) :
    LineOK ("field ::= (".toList ++ List.intercalate " | ".toList names ++ ")".toList) ["field".toList] names.reverse := by
  have := lineOK_refs "field".toList "field ::= (".toList names hne hw (fun toks => by
    simp [lexStep, lexAction, lexTop, isWordChar, isLower, isUpper, isDigit])
  simpa using this

theorem envelopeStart_ok (upper : Str) (h : (upper.contains '"' || upper.contains '\\') = false) :
    LineOK ("envelope-start ::= \"===".toList ++ upper ++ "===\"".toList) ["envelope-start".toList] [] := by
  have hu : ∀ c ∈ upper, c ≠ '"' ∧ c ≠ '\\' := by
    intro c hc
    simp only [Bool.or_eq_false_iff] at h
    constructor
    · intro hh; subst hh; have := h.1; simp [List.contains_iff_mem] at this; exact this hc
    · intro hh; subst hh; have := h.2; simp [List.contains_iff_mem] at this; exact this hc
  exact lineOK_pastedLiteral "envelope-start".toList "envelope-start ::= \"===".toList "===".toList upper "===\"".toList hu
    (fun toks => by simp [lexStep, lexAction, lexTop, isWordChar, isLower, isUpper, isDigit])
    (fun acc toks => by simp [lexStep, lexAction, lexTop, isWordChar, isLower, isUpper, isDigit])

/-! ## assembling the grammar -/

abbrev LineSpec := Str × List Str × List Str
def LineSpec.names (xs : List LineSpec) : List Str := xs.flatMap (fun x => x.2.1.reverse)
def LineSpec.refs (xs : List LineSpec) : List Str := xs.flatMap (fun x => x.2.2.reverse)

def blankSpec : LineSpec := ([], [], [])
def headSpecs (name : Str) : List LineSpec :=
  [("# GBNF Grammar for OCTAVE schema: ".toList ++ name, [], []), blankSpec,
   ("ws ::= [ \\t\\n]*".toList, ["ws".toList], []), blankSpec]
def tailSpecs : List LineSpec := [blankSpec, ("root ::= document".toList, ["root".toList], ["document".toList])]

theorem blank_ok : LineOK blankSpec.1 blankSpec.2.1 blankSpec.2.2 := lineOK_of_check lineCheck_blank

theorem assemble (name : Str) (hname : (name.contains '\n' || name.contains '\r') = false)
    (xsF xsC xsD : List LineSpec)
    (hF : ∀ x ∈ xsF, LineOK x.1 x.2.1 x.2.2) (hC : ∀ x ∈ xsC, LineOK x.1 x.2.1 x.2.2) (hD : ∀ x ∈ xsD, LineOK x.1 x.2.1 x.2.2)
    (hnodup : (["ws".toList] ++ LineSpec.names xsF ++ (LineSpec.names xsC ++ LineSpec.names xsD ++ ["root".toList])).Nodup)
    (hrefsF : ∀ r ∈ LineSpec.refs xsF, r = "ws".toList)
    (hrefsC : ∀ r ∈ LineSpec.refs xsC, r ∈ ["ws".toList] ++ LineSpec.names xsF ++ LineSpec.names xsC)
    (hrefsD : ∀ r ∈ LineSpec.refs xsD, r ∈ ["ws".toList] ++ LineSpec.names xsC ++ LineSpec.names xsD)
    (hdoc : "document".toList ∈ LineSpec.names xsD) :
    WellFormed true (List.intercalate ['\n']
      ((headSpecs name ++ xsF ++ [blankSpec] ++ xsC ++ [blankSpec] ++ xsD ++ tailSpecs).map (·.1))) := by
  have hnames : LineSpec.names (headSpecs name ++ xsF ++ [blankSpec] ++ xsC ++ [blankSpec] ++ xsD ++ tailSpecs) =
      ["ws".toList] ++ LineSpec.names xsF ++ (LineSpec.names xsC ++ LineSpec.names xsD ++ ["root".toList]) := by
    simp [LineSpec.names, headSpecs, tailSpecs, blankSpec, List.flatMap_append]
  have hrefs : LineSpec.refs (headSpecs name ++ xsF ++ [blankSpec] ++ xsC ++ [blankSpec] ++ xsD ++ tailSpecs) =
      LineSpec.refs xsF ++ LineSpec.refs xsC ++ LineSpec.refs xsD ++ ["document".toList] := by
    simp [LineSpec.refs, headSpecs, tailSpecs, blankSpec, List.flatMap_append]
  apply wellFormed_of_lines'
  · simp [headSpecs]
  · intro x hx
    simp only [List.mem_append, List.mem_singleton] at hx
    rcases hx with (((((h | h) | h) | h) | h) | h) | h
    · simp only [headSpecs, List.mem_cons, List.not_mem_nil, or_false] at h
      rcases h with h | h | h | h
      · subst h; exact header_ok name hname
      · subst h; exact blank_ok
      · subst h; exact lineOK_of_check lineCheck_ws
      · subst h; exact blank_ok
    · exact hF x h
    · subst h; exact blank_ok
    · exact hC x h
    · subst h; exact blank_ok
    · exact hD x h
    · simp only [tailSpecs, List.mem_cons, List.not_mem_nil, or_false] at h
      rcases h with h | h
      · subst h; exact blank_ok
      · subst h; exact lineOK_of_check lineCheck_root
  · show rootName ∈ LineSpec.names _
    rw [hnames]; simp [rootName]
  · intro r hr
    show r ∈ LineSpec.names _
    have hr' : r ∈ LineSpec.refs (headSpecs name ++ xsF ++ [blankSpec] ++ xsC ++ [blankSpec] ++ xsD ++ tailSpecs) := hr
    rw [hrefs] at hr'
    rw [hnames]
    simp only [List.mem_append, List.mem_singleton] at hr' ⊢
    rcases hr' with ((h | h) | h) | h
    · left; left; exact hrefsF r h
    · have := hrefsC r h
      simp only [List.mem_append, List.mem_singleton] at this
      rcases this with (h1 | h1) | h1
      · left; left; exact h1
      · left; right; exact h1
      · right; left; left; exact h1
    · have := hrefsD r h
      simp only [List.mem_append, List.mem_singleton] at this
      rcases this with (h1 | h1) | h1
      · left; left; exact h1
      · right; left; left; exact h1
      · right; left; right; exact h1
    · subst h; right; left; right; exact hdoc
  · show (LineSpec.names _).Nodup
    rw [hnames]; exact hnodup

def allStructural : List Str :=
  ["ws", "field", "content", "document", "root", "envelope-start", "envelope-end", "meta-block", "meta-content",
   "meta-field"].map String.toList

theorem ruleName_not_structural (fields : List Field) (h20 : KF_structural fields = false) :
    ∀ x ∈ fields.map Field.ruleName, x ∉ allStructural := by
  intro x hx hmem
  obtain ⟨f, hf, hfx⟩ := List.mem_map.mp hx
  subst hfx
  have hnot : structuralNames.contains f.ruleName = false := by
    simp only [KF_structural, List.any_eq_false] at h20
    simpa using h20 f hf
  have hdash : ∀ y ∈ allStructural, y ∉ structuralNames → '-' ∈ y := by decide
  by_cases hs : f.ruleName ∈ structuralNames
  · simp [List.contains_iff_mem, hs] at hnot
  · have := hdash _ hmem hs
    exact (sanitize_charset f.lowered '-' this).2 rfl

def contentSpecs (F : List Str) : List LineSpec :=
  if F.isEmpty then [("content ::= [^\\n]*".toList, ["content".toList], [])]
  else [("field ::= (".toList ++ List.intercalate " | ".toList F ++ ")".toList, ["field".toList], F.reverse),
        ("content ::= (field ws)*".toList, ["content".toList], ["ws".toList, "field".toList])]

def docSpecs (upper : Str) (envelope : Bool) : List LineSpec :=
  if envelope then
    [("envelope-start ::= \"===".toList ++ upper ++ "===\"".toList, ["envelope-start".toList], []),
     ("envelope-end ::= \"===END===\"".toList, ["envelope-end".toList], []), blankSpec,
     ("meta-block ::= \"META:\" ws meta-content".toList, ["meta-block".toList], ["meta-content".toList, "ws".toList]),
     ("meta-content ::= (meta-field ws)*".toList, ["meta-content".toList], ["ws".toList, "meta-field".toList]),
     ("meta-field ::= [A-Z_]+ \"::\" ws [^\\n]+".toList, ["meta-field".toList], ["ws".toList]), blankSpec,
     ("document ::= envelope-start ws meta-block ws content ws envelope-end".toList, ["document".toList],
      ["envelope-end", "ws", "content", "ws", "meta-block", "ws", "envelope-start"].map String.toList)]
  else [("document ::= content".toList, ["document".toList], ["content".toList])]

theorem contentSpecs_ok (F : List Str) (hw : ∀ r ∈ F, r ≠ [] ∧ ∀ c ∈ r, isWordChar true c = true) :
    ∀ x ∈ contentSpecs F, LineOK x.1 x.2.1 x.2.2 := by
  intro x hx
  unfold contentSpecs at hx
  split at hx
  · simp only [List.mem_singleton] at hx; subst hx; exact lineOK_of_check lineCheck_content0
  · rename_i hne
    simp only [List.mem_cons, List.not_mem_nil, or_false] at hx
    rcases hx with h | h
    · subst h; exact fieldRefs_ok F (by intro h; simp [h] at hne) hw
    · subst h; exact lineOK_of_check lineCheck_content1

theorem docSpecs_ok (upper : Str) (envelope : Bool)
    (h : (envelope && (upper.contains '"' || upper.contains '\\')) = false) :
    ∀ x ∈ docSpecs upper envelope, LineOK x.1 x.2.1 x.2.2 := by
  intro x hx
  unfold docSpecs at hx
  cases envelope with
  | false =>
    simp only [Bool.false_eq_true, if_false, List.mem_singleton] at hx
    subst hx; exact lineOK_of_check lineCheck_document
  | true =>
    simp only [if_true, List.mem_cons, List.not_mem_nil, or_false] at hx
    simp only [Bool.true_and] at h
    rcases hx with h1 | h1 | h1 | h1 | h1 | h1 | h1 | h1
    · subst h1; exact envelopeStart_ok upper h
    · subst h1; exact lineOK_of_check lineCheck_envEnd
    · subst h1; exact blank_ok
    · subst h1; exact lineOK_of_check lineCheck_metaBlock
    · subst h1; exact lineOK_of_check lineCheck_metaContent
    · subst h1; exact lineOK_of_check lineCheck_metaField
    · subst h1; exact blank_ok
    · subst h1; exact lineOK_of_check lineCheck_documentEnv

/-- the text `compile_schema` returns, line by line -/
theorem compileSchema_lines (name upper : Str) (fields : List Field) (envelope : Bool) (xsF : List LineSpec)
    (hfl : fieldLines fields = some (xsF.map (·.1))) :
    compileSchema name upper fields envelope = some (List.intercalate ['\n']
      ((headSpecs name ++ xsF ++ [blankSpec] ++ contentSpecs (fields.map Field.ruleName) ++ [blankSpec] ++
        docSpecs upper envelope ++ tailSpecs).map (·.1))) := by
  obtain ⟨h1, _, h3, h4, h5, h6, h7, h8, h9, h10, h11⟩ := gen_schema_templates
  unfold compileSchema schemaLines contentLines documentLines
  rw [hfl, h1, h3, h4, h5, h6, h7, h8, h9, h10, h11]
  have e : "\n".toList = ['\n'] := by decide
  rw [e]
  simp only [Option.map_some]
  congr 2
  cases envelope <;> cases hF : (fields.map Field.ruleName).isEmpty <;>
    simp [headSpecs, tailSpecs, blankSpec, contentSpecs, docSpecs, render, hF]

theorem names_contentSpecs (F : List Str) :
    LineSpec.names (contentSpecs F) = if F.isEmpty then ["content".toList] else ["field".toList, "content".toList] := by
  unfold contentSpecs LineSpec.names
  split <;> simp

theorem refs_contentSpecs (F : List Str) :
    LineSpec.refs (contentSpecs F) = if F.isEmpty then [] else F ++ ["field".toList, "ws".toList] := by
  unfold contentSpecs LineSpec.refs
  split <;> simp

theorem names_docSpecs (upper : Str) (envelope : Bool) :
    LineSpec.names (docSpecs upper envelope) =
      if envelope then ["envelope-start", "envelope-end", "meta-block", "meta-content", "meta-field", "document"].map String.toList
      else ["document".toList] := by
  unfold docSpecs LineSpec.names
  split <;> simp [blankSpec]

theorem refs_docSpecs (upper : Str) (envelope : Bool) :
    LineSpec.refs (docSpecs upper envelope) =
      if envelope then ["ws", "meta-content", "meta-field", "ws", "ws", "envelope-start", "ws", "meta-block", "ws", "content", "ws",
        "envelope-end"].map String.toList
      else ["content".toList] := by
  unfold docSpecs LineSpec.refs
  split <;> simp [blankSpec]

/-- **C12 (partial).**  For every schema name, every list of fields (any names, any chains of the 13
constraint kinds plus unknown ones) and **both envelope settings**, `compile_schema` returns a text, and
that text is well-formed GBNF under the lenient rule-name alphabet (`_` allowed) — it parses, defines
`root`, defines every rule it references, defines no rule twice, has no unterminated literal or class and
no empty alternative — provided the input lies outside the recorded finding classes:
F20 (a field named like a structural rule), F21 (two fields with the same sanitised name), F22 (a REGEX
pattern that is pasted rather than translated), C12N1 (quote/backslash in a field name), C12N2 (line
break / quote / backslash in the schema name).  `SchemaOK` says only what the reader guarantees (an ENUM
has a member).

*Partial*: the five hypotheses are genuine defects of the code (negative theorems below); under the strict
llama.cpp alphabet `[a-zA-Z0-9-]` the statement is false whenever a rule name contains `_` (F23). -/
theorem C12_wellformed_partial (name upper : Str) (fields : List Field) (envelope : Bool)
    (hok : SchemaOK fields = true)
    (h20 : KF_structural fields = false) (h21 : ¬ KF_collision fields) (h22 : KF_regexPaste fields = false)
    (hN1 : KF_fieldNameUnescaped fields = false) (hN2 : KF_schemaNameUnescaped name upper envelope = false) :
    ∃ text, compileSchema name upper fields envelope = some text ∧ WellFormed true text := by
  obtain ⟨xsF, hfl, hallF, hnamesF, hrefsF⟩ := fieldLines_ok fields hok h22 hN1
  refine ⟨_, compileSchema_lines name upper fields envelope xsF hfl, ?_⟩
  simp only [KF_schemaNameUnescaped, Bool.or_eq_false_iff] at hN2
  have hF : LineSpec.names xsF = fields.map Field.ruleName := hnamesF
  have hw : ∀ r ∈ fields.map Field.ruleName, r ≠ [] ∧ ∀ c ∈ r, isWordChar true c = true := by
    intro r hr
    obtain ⟨f, _, hfr⟩ := List.mem_map.mp hr
    subst hfr
    exact ⟨sanitize_nonempty f.lowered, fun c hc => (sanitize_charset f.lowered c hc).1⟩
  have hns := ruleName_not_structural fields h20
  have hnd : (fields.map Field.ruleName).Nodup := Classical.not_not.mp h21
  apply assemble name (by rw [hN2.1.1, hN2.1.2]; rfl) xsF (contentSpecs (fields.map Field.ruleName)) (docSpecs upper envelope)
    hallF (contentSpecs_ok _ hw) (docSpecs_ok upper envelope hN2.2)
  · -- no rule is defined twice
    rw [hF, names_contentSpecs, names_docSpecs]
    apply nodup_insert_middle _ _ _ hnd
    · cases envelope <;> cases (fields.map Field.ruleName).isEmpty <;> decide
    · intro x hx hmem
      refine hns x hx ?_
      have hsub : ∀ (b1 b2 : Bool), ∀ y ∈ ["ws".toList] ++ ((if b1 then ["content".toList] else ["field".toList, "content".toList]) ++
          (if b2 then ["envelope-start", "envelope-end", "meta-block", "meta-content", "meta-field", "document"].map String.toList
            else ["document".toList]) ++ ["root".toList]), y ∈ allStructural := by decide
      exact hsub _ _ x hmem
  · exact hrefsF
  · -- references of the field / content rules
    intro r hr
    rw [refs_contentSpecs] at hr
    rw [hF, names_contentSpecs]
    split at hr
    · simp at hr
    · rename_i hne
      simp only [hne, Bool.false_eq_true, if_false]
      simp only [List.mem_append, List.mem_cons, List.not_mem_nil, or_false] at hr ⊢
      rcases hr with h | h | h
      · left; right; exact h
      · right; left; exact h
      · left; left; exact h
  · -- references of the document rules
    intro r hr
    rw [refs_docSpecs] at hr
    rw [names_contentSpecs, names_docSpecs]
    cases envelope <;> cases (fields.map Field.ruleName).isEmpty <;> revert r <;> decide
  · rw [names_docSpecs]; cases envelope <;> decide

/-! ## the executable verdict used by the driver is the specification -/

theorem dupsOf_isEmpty_iff : ∀ (l : List Str), (dupsOf l).isEmpty = true ↔ l.Nodup := by
  intro l
  induction l with
  | nil => simp [dupsOf]
  | cons n r ih =>
    simp only [dupsOf, List.nodup_cons]
    by_cases h : r.contains n = true
    · simp only [h, if_true, List.isEmpty_cons, Bool.false_eq_true, false_iff, not_and]
      intro hn; exact absurd (by simpa [List.contains_iff_mem] using h) hn
    · simp only [h, Bool.false_eq_true, if_false, ih]
      constructor
      · intro hr; exact ⟨by simpa [List.contains_iff_mem] using h, hr⟩
      · intro hr; exact hr.2

theorem wellFormedB_iff (len : Bool) (text : Str) : wellFormedB len text = true ↔ WellFormed len text := by
  unfold wellFormedB WellFormed
  cases hp : parse len text with
  | none => simp
  | some g =>
    simp only [Grammar.wellFormedB, Bool.and_eq_true, List.all_eq_true, Option.some.injEq, exists_eq_left']
    rw [dupsOf_isEmpty_iff]
    simp [List.contains_iff_mem, and_assoc]

/-! ## totality -/

theorem compileConstraint_total (c : Constraint) : ∃ frag, compileConstraint c = some frag := by
  cases c <;> simp [compileConstraint, gen_dispatch, lookupMethod, Constraint.kind, runMethod]

/-- **C12_compile_total.**  `compile_schema` returns a text for every schema (no constraint object makes
a `_compile_*` method raise: the dispatch sends each class to the method that reads its own attributes). -/
theorem C12_compile_total (name upper : Str) (fields : List Field) (envelope : Bool) :
    ∃ text, compileSchema name upper fields envelope = some text := by
  have hfl : ∃ ls, fieldLines fields = some ls := by
    induction fields with
    | nil => exact ⟨[], rfl⟩
    | cons f r ih =>
      obtain ⟨ls, hls⟩ := ih
      have hp : ∃ pat, fieldPattern f = some pat := by
        unfold fieldPattern
        cases f.chain with
        | none => exact ⟨_, rfl⟩
        | some cs =>
          simp only
          unfold compileChain
          cases deciding cs with
          | none => exact ⟨_, rfl⟩
          | some c => exact compileConstraint_total c
      obtain ⟨pat, hpat⟩ := hp
      exact ⟨render Gen.schemaFieldRuleTpl [f.ruleName, f.name, pat] :: ls, by simp [fieldLines, fieldLine, hpat, hls]⟩
  obtain ⟨ls, hls⟩ := hfl
  simp [compileSchema, schemaLines, hls]

/-! ## the META.CONTRACT route -/

/-- **C12_contract_route.**  `compile_gbnf_from_meta` (CONTRACT given as the parser's token list) is
`compile_schema` with envelope of the schema whose fields are rebuilt from the tokens
(`_reconstruct_field_specs_from_tokens`, `parse_contract_field`, dict insertion) — so
`C12_wellformed_partial` applies to it verbatim. -/
theorem C12_contract_route (env : Env) (type upper : Str) (toks : List CTok) (fs : List Field)
    (h : contractFields env (reconstruct toks) [] = some fs) :
    compileMetaTokens env type upper toks = some (compileSchema type upper fs true) := by
  simp [compileMetaTokens, compileMeta, h]

theorem C12_contract_wellformed_partial (env : Env) (type upper : Str) (toks : List CTok) (fs : List Field)
    (h : contractFields env (reconstruct toks) [] = some fs)
    (hok : SchemaOK fs = true) (h20 : KF_structural fs = false) (h21 : ¬ KF_collision fs)
    (h22 : KF_regexPaste fs = false) (hN1 : KF_fieldNameUnescaped fs = false)
    (hN2 : KF_schemaNameUnescaped type upper true = false) :
    ∃ text, compileMetaTokens env type upper toks = some (some text) ∧ WellFormed true text := by
  obtain ⟨text, ht, hwf⟩ := C12_wellformed_partial type upper fs true hok h20 h21 h22 hN1 hN2
  exact ⟨text, by rw [C12_contract_route env type upper toks fs h, ht], hwf⟩

/-- the fields dict never holds a name twice: collisions (F21) are between *different* field names -/
theorem dictSet_names_nodup (f : Field) : ∀ (l : List Field), (l.map (·.name)).Nodup → ((dictSet f l).map (·.name)).Nodup := by
  intro l
  induction l with
  | nil => intro _; simp [dictSet]
  | cons g r ih =>
    intro h
    simp only [dictSet]
    split
    · rename_i heq
      have : g.name = f.name := by simpa using heq
      simpa [this] using h
    · rename_i hne
      have hne' : g.name ≠ f.name := by simpa using hne
      simp only [List.map_cons, List.nodup_cons] at h ⊢
      refine ⟨?_, ih h.2⟩
      intro hmem
      obtain ⟨x, hx, hxn⟩ := List.mem_map.mp hmem
      have : ∀ (l : List Field) (x : Field), x ∈ dictSet f l → x = f ∨ x ∈ l := by
        intro l
        induction l with
        | nil => intro x hx; simp [dictSet] at hx; exact Or.inl hx
        | cons a t iht =>
          intro x hx
          simp only [dictSet] at hx
          split at hx
          · rcases List.mem_cons.mp hx with h1 | h1
            · exact Or.inl h1
            · exact Or.inr (by simp [h1])
          · rcases List.mem_cons.mp hx with h1 | h1
            · exact Or.inr (by simp [h1])
            · rcases iht x h1 with h2 | h2
              · exact Or.inl h2
              · exact Or.inr (by simp [h2])
      rcases this r x hx with h1 | h1
      · subst h1; exact hne' hxn.symm
      · exact h.1 (List.mem_map.mpr ⟨x, h1, hxn⟩)

/-! ## non-vacuity: a schema that meets every hypothesis -/

def exampleFields : List Field :=
  [⟨"STATUS".toList, "status".toList, some [.req, .enum ["ACTIVE".toList, "PAUSED".toList]]⟩,
   ⟨"A.B".toList, "a.b".toList, some [.opt, .regex "^[a-z]+$".toList]⟩,
   ⟨"naïve".toList, "naïve".toList, some [.const "a\"b\\c".toList]⟩,
   ⟨"WHEN".toList, "when".toList, some [.iso8601]⟩, ⟨"N".toList, "n".toList, some [.type "NUMBER".toList]⟩,
   ⟨"X".toList, "x".toList, none⟩]

example : SchemaOK exampleFields = true ∧ KF_structural exampleFields = false ∧ ¬ KF_collision exampleFields ∧
    KF_regexPaste exampleFields = false ∧ KF_fieldNameUnescaped exampleFields = false ∧
    KF_schemaNameUnescaped "Session Log".toList "SESSION LOG".toList true = false := by
  refine ⟨by decide, by decide, ?_, by decide, by decide, by decide⟩
  unfold KF_collision; decide
example : (compileSchema "Session Log".toList "SESSION LOG".toList exampleFields true).map (wellFormedB true) = some true := by
  decide +kernel
example : (compileSchema "S".toList "S".toList [] false).map (wellFormedB true) = some true := by decide +kernel

/-! ## negative theorems: the finding classes are genuine (witnesses replayed on the real code by the check) -/

def illFormed (len : Bool) (o : Option Str) : Prop := ∃ text, o = some text ∧ ¬ WellFormed len text

theorem illFormed_of_B {len : Bool} {o : Option Str} (h : o.map (wellFormedB len) = some false) : illFormed len o := by
  cases o with
  | none => simp at h
  | some t =>
    refine ⟨t, rfl, ?_⟩
    rw [← wellFormedB_iff]
    simpa using h

/-- **F20**: a field called CONTENT defines the rule `content` twice. -/
theorem F20_structural_name_witness :
    KF_structural [⟨"CONTENT".toList, "content".toList, some [.req]⟩] = true ∧
    illFormed true (compileSchema "S".toList "S".toList [⟨"CONTENT".toList, "content".toList, some [.req]⟩] false) :=
  ⟨by decide, illFormed_of_B (by decide +kernel)⟩

/-- **F21**: `A.B` and `A_DOT_B` are both sanitised to `a_dot_b`, which is then defined twice. -/
theorem F21_collision_witness :
    KF_collision [⟨"A.B".toList, "a.b".toList, some [.req]⟩, ⟨"A_DOT_B".toList, "a_dot_b".toList, some [.opt]⟩] ∧
    illFormed true (compileSchema "S".toList "S".toList
      [⟨"A.B".toList, "a.b".toList, some [.req]⟩, ⟨"A_DOT_B".toList, "a_dot_b".toList, some [.opt]⟩] false) :=
  ⟨by unfold KF_collision; decide, illFormed_of_B (by decide +kernel)⟩

/-- **F22**: `REGEX["^abc$"]` is pasted as `abc`, a reference to a rule that is not defined. -/
theorem F22_regex_paste_witness :
    KF_regexPaste [⟨"P".toList, "p".toList, some [.regex "^abc$".toList]⟩] = true ∧
    illFormed true (compileSchema "S".toList "S".toList [⟨"P".toList, "p".toList, some [.regex "^abc$".toList]⟩] false) :=
  ⟨by decide, illFormed_of_B (by decide +kernel)⟩

/-- **F23**: under llama.cpp's own name alphabet `[a-zA-Z0-9-]` the grammar of a schema with a field
`OPTIONAL_FIELD` (rule `optional_field`) does not parse, although it is well-formed when `_` is admitted. -/
theorem F23_strict_alphabet_witness :
    illFormed false (compileSchema "S".toList "S".toList [⟨"OPTIONAL_FIELD".toList, "optional_field".toList, some [.opt]⟩] false) ∧
    (compileSchema "S".toList "S".toList [⟨"OPTIONAL_FIELD".toList, "optional_field".toList, some [.opt]⟩] false).map (wellFormedB true) = some true :=
  ⟨illFormed_of_B (by decide +kernel), by decide +kernel⟩

/-- **C12N1**: a field name containing a backslash is pasted unescaped into the rule's literal. -/
theorem C12N1_field_name_witness :
    KF_fieldNameUnescaped [⟨"\"a\\b\"".toList, "\"a\\b\"".toList, some [.req]⟩] = true ∧
    illFormed true (compileSchema "S".toList "S".toList [⟨"\"a\\b\"".toList, "\"a\\b\"".toList, some [.req]⟩] true) :=
  ⟨by decide, illFormed_of_B (by decide +kernel)⟩

/-- **C12N2**: a schema name with a quote breaks the `envelope-start` literal; one with a line break ends
the header comment. -/
theorem C12N2_schema_name_witness :
    KF_schemaNameUnescaped "a\"b".toList "A\"B".toList true = true ∧
    illFormed true (compileSchema "a\"b".toList "A\"B".toList [⟨"STATUS".toList, "status".toList, some [.req]⟩] true) ∧
    KF_schemaNameUnescaped "a\nb".toList "A\nB".toList false = true ∧
    illFormed true (compileSchema "a\nb".toList "A\nB".toList [⟨"STATUS".toList, "status".toList, some [.req]⟩] false) :=
  ⟨by decide, illFormed_of_B (by decide +kernel), by decide, illFormed_of_B (by decide +kernel)⟩

end Octave.C12
